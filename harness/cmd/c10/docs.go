// Type-directed document generator for the rebuild part: documents that are valid by construction
// against the SDef (all features enabled), optionally with one rule-targeted mutation.
package main

import (
	"fmt"
	"strconv"
	"strings"

	"verifharness/hx"
)

var mutationKinds = []string{
	"none", "none", "none",
	"unknown-field", "missing-required-arg", "wrong-value-type", "omit-defaulted-arg", "unknown-type-condition",
	"unknown-directive", "misplaced-directive", "unknown-arg", "unknown-enum-value", "null-for-non-null",
	"nullable-var-in-defaulted-position", "impossible-fragment", "leaf-with-selection", "composite-without-selection",
	"input-missing-required-field", "input-unknown-field", "input-duplicate-field", "input-omit-defaulted-field",
	"wrong-variable-type", "unused-variable", "undefined-variable", "list-for-scalar", "scalar-for-list",
}

type docGen struct {
	r        *hx.Rand
	d        *SDef
	mut      string // pending mutation ("" once applied / none)
	applied  string // mutation actually applied
	vars     []string
	frags    []string
	nAlias   int
	nVar     int
	nFrag    int
	maxDepth int
}

func (g *docGen) take(kind string) bool {
	if g.mut == kind && g.r.Chance(2, 3) {
		g.mut = ""
		g.applied = kind
		return true
	}
	return false
}

func (g *docGen) alias() string {
	g.nAlias++
	return "x" + strconv.Itoa(g.nAlias)
}

func quoteGQL(s string) string {
	var b strings.Builder
	b.WriteByte('"')
	for _, c := range s {
		switch {
		case c == '"':
			b.WriteString(`\"`)
		case c == '\\':
			b.WriteString(`\\`)
		case c == '\n':
			b.WriteString(`\n`)
		case c == '\r':
			b.WriteString(`\r`)
		case c == '\t':
			b.WriteString(`\t`)
		case c < 0x20 || c > 0xffff || c == 0xfeff:
			if c > 0xffff {
				b.WriteString("?")
			} else {
				fmt.Fprintf(&b, `\u%04x`, c)
			}
		default:
			b.WriteRune(c)
		}
	}
	b.WriteByte('"')
	return b.String()
}

// wrongLiteral returns a literal that cannot coerce to the named leaf type.
func (g *docGen) wrongLiteral(t TRef) string {
	t = t.nullable()
	if strings.HasPrefix(t.W, "L") {
		return g.wrongLiteral(t.inner())
	}
	switch g.d.kindOf(t.N) {
	case "enum":
		return hx.Pick(g.r, []string{`"V0"`, "1", "{a: 1}"})
	case "input":
		return hx.Pick(g.r, []string{"1", `"x"`, "true"})
	}
	switch t.N {
	case "Int":
		return hx.Pick(g.r, []string{`"1"`, "1.5", "true", "2147483648", "RED"})
	case "Float":
		return hx.Pick(g.r, []string{`"1"`, "true", "{}"})
	case "Boolean":
		return hx.Pick(g.r, []string{"1", `"true"`, "TRUE"})
	case "String":
		return hx.Pick(g.r, []string{"1", "true", "abc"})
	case "ID":
		return hx.Pick(g.r, []string{"1.5", "true", "{}"})
	}
	return "{}"
}

// literal prints a valid literal of type t (variables may be introduced when allowVars).
func (g *docGen) literal(t TRef, depth int, allowVars bool) string {
	if allowVars && depth < 3 && g.r.Chance(1, 6) {
		return g.variable(t, false)
	}
	if !t.nonNull() && g.r.Chance(1, 8) {
		return "null"
	}
	if t.nonNull() && g.take("null-for-non-null") {
		return "null"
	}
	t = t.nullable()
	if strings.HasPrefix(t.W, "L") {
		if g.take("scalar-for-list") {
			// item-to-list coercion makes a single item valid; a wrong-typed single item is not
			return g.wrongLiteral(t)
		}
		if depth < 2 && g.r.Chance(1, 6) && !strings.Contains(t.inner().nullable().W, "L") {
			// single item coerced to a list (valid)
			return g.literal(t.inner(), depth+1, false)
		}
		n := g.r.Intn(3)
		if depth > 3 {
			n = 0
		}
		var parts []string
		for i := 0; i < n; i++ {
			parts = append(parts, g.literal(t.inner(), depth+1, allowVars))
		}
		return "[" + strings.Join(parts, ", ") + "]"
	}
	if g.take("wrong-value-type") {
		return g.wrongLiteral(t)
	}
	if g.take("list-for-scalar") {
		return "[" + g.literal(t, depth+1, false) + "]"
	}
	switch g.d.kindOf(t.N) {
	case "enum":
		if g.take("unknown-enum-value") {
			return "NOT_A_VALUE"
		}
		return hx.Pick(g.r, g.d.typeByName(t.N).Values).Name
	case "input":
		in := g.d.typeByName(t.N)
		var parts []string
		for _, f := range in.Inputs {
			required := f.Type.nonNull() && f.Def == nil
			switch {
			case required && g.take("input-missing-required-field"):
			case f.Type.nonNull() && f.Def != nil && g.take("input-omit-defaulted-field"):
			case required || (g.r.Chance(1, 2) && depth < 4 && !(depth >= 3 && g.d.kindOf(f.Type.N) == "input")):
				v := g.literal(f.Type, depth+1, allowVars)
				parts = append(parts, f.Name+": "+v)
				if g.take("input-duplicate-field") {
					parts = append(parts, f.Name+": "+v)
				}
			}
		}
		if g.take("input-unknown-field") {
			parts = append(parts, "nope: 1")
		}
		return "{" + strings.Join(parts, ", ") + "}"
	}
	switch t.N {
	case "Int":
		return strconv.FormatInt(hx.Pick(g.r, intPool), 10)
	case "Float":
		return hx.Pick(g.r, []string{"0", "1.5", "-2e10", "3", "1E-7"})
	case "Boolean":
		return hx.Pick(g.r, []string{"true", "false"})
	case "ID":
		return hx.Pick(g.r, []string{"7", `"id"`})
	}
	return quoteGQL(hx.Pick(g.r, stringPool))
}

// variable declares a variable usable at a position of type t and returns its use.
func (g *docGen) variable(t TRef, locationHasDefault bool) string {
	g.nVar++
	name := "v" + strconv.Itoa(g.nVar)
	vt := t
	switch {
	case g.take("wrong-variable-type"):
		other := "Int"
		if t.N == "Int" {
			other = "String"
		}
		vt = TRef{W: t.W, N: other}
	case t.nonNull() && locationHasDefault && g.take("nullable-var-in-defaulted-position"):
		vt = t.inner()
	case !t.nonNull() && g.r.Chance(1, 3):
		vt = TRef{W: "N" + t.W, N: t.N} // a stricter variable is fine
	}
	decl := "$" + name + ": " + vt.String()
	if !vt.nonNull() && g.r.Chance(1, 3) && g.applied != "nullable-var-in-defaulted-position" {
		decl += " = " + g.literal(vt, 3, false)
	}
	if g.take("undefined-variable") {
		return "$" + name
	}
	g.vars = append(g.vars, decl)
	return "$" + name
}

func (g *docGen) arguments(args []InputVal) string {
	var parts []string
	for _, a := range args {
		required := a.Type.nonNull() && a.Def == nil
		switch {
		case required && g.take("missing-required-arg"):
		case a.Type.nonNull() && a.Def != nil && g.take("omit-defaulted-arg"):
		case a.Type.nonNull() && a.Def != nil && g.mut == "nullable-var-in-defaulted-position":
			parts = append(parts, a.Name+": "+g.variable(a.Type, true))
		case required || g.r.Chance(1, 2):
			parts = append(parts, a.Name+": "+g.literal(a.Type, 0, true))
		}
	}
	if g.take("unknown-arg") {
		parts = append(parts, "zz: 1")
	}
	if len(parts) == 0 {
		return ""
	}
	return "(" + strings.Join(parts, ", ") + ")"
}

func (g *docGen) directives(loc string) string {
	var out []string
	for _, dd := range g.d.Dirs {
		has := false
		for _, l := range dd.Locs {
			if l == loc {
				has = true
			}
		}
		if has && g.r.Chance(1, 5) {
			out = append(out, "@"+dd.Name+g.arguments(dd.Args))
		}
		if !has && g.take("misplaced-directive") {
			out = append(out, "@"+dd.Name+g.arguments(dd.Args))
		}
	}
	if g.take("unknown-directive") {
		out = append(out, "@nope")
	}
	if len(out) == 0 {
		return ""
	}
	return " " + strings.Join(out, " ")
}

// possible returns the object types a composite type can be at runtime.
func (g *docGen) possible(n string) []string {
	t := g.d.typeByName(n)
	switch t.Kind {
	case "object":
		return []string{n}
	case "union":
		return t.Members
	case "interface":
		var out []string
		reach := g.d.reachable()
		for _, o := range g.d.Types {
			if o.Kind == "object" && reach[o.Name] {
				for _, i := range o.Ifaces {
					if i == n {
						out = append(out, o.Name)
					}
				}
			}
		}
		return out
	}
	return nil
}

func composite(k string) bool { return k == "object" || k == "interface" || k == "union" }

func (g *docGen) selectionSet(parent string, depth int) string {
	t := g.d.typeByName(parent)
	var sels []string
	n := g.r.Range(1, 3)
	for i := 0; i < n; i++ {
		switch x := g.r.Intn(10); {
		case x < 6 && len(t.Fields) > 0:
			f := hx.Pick(g.r, t.Fields)
			name := f.Name
			if g.take("unknown-field") {
				name = "nope"
			}
			s := g.alias() + ": " + name + g.arguments(f.Args) + g.directives("FIELD")
			if composite(g.d.kindOf(f.Type.N)) {
				if g.take("composite-without-selection") {
					// nothing
				} else if depth >= g.maxDepth {
					s += " { __typename }"
				} else {
					s += " " + g.selectionSet(f.Type.N, depth+1)
				}
			} else if g.take("leaf-with-selection") {
				s += " { a }"
			}
			sels = append(sels, s)
		case x < 7:
			sels = append(sels, g.alias()+": __typename"+g.directives("FIELD"))
		case x < 9 && depth < g.maxDepth:
			// inline fragment on a possible type (or on the parent itself / an implemented interface)
			cands := append([]string{parent}, g.possible(parent)...)
			if t.Kind == "object" {
				cands = append(cands, t.Ifaces...)
			}
			on := hx.Pick(g.r, cands)
			if g.take("unknown-type-condition") {
				on = "Nope"
			} else if g.take("impossible-fragment") {
				on = g.impossible(parent, on)
			}
			if g.r.Chance(1, 5) && on == parent {
				sels = append(sels, "..."+g.directives("INLINE_FRAGMENT")+" "+g.selectionSet(parent, depth+1))
			} else {
				sels = append(sels, "... on "+on+g.directives("INLINE_FRAGMENT")+" "+g.selectionSet2(on, depth+1))
			}
		case depth < g.maxDepth:
			cands := append([]string{parent}, g.possible(parent)...)
			on := hx.Pick(g.r, cands)
			g.nFrag++
			fname := "F" + strconv.Itoa(g.nFrag)
			g.frags = append(g.frags, "fragment "+fname+" on "+on+g.directives("FRAGMENT_DEFINITION")+" "+g.selectionSet2(on, depth+1))
			sels = append(sels, "..."+fname+g.directives("FRAGMENT_SPREAD"))
		default:
			sels = append(sels, g.alias()+": __typename")
		}
	}
	return "{ " + strings.Join(sels, " ") + " }"
}

// selectionSet2 tolerates names that are not types of the schema (after a mutation).
func (g *docGen) selectionSet2(on string, depth int) string {
	if g.d.typeByName(on) == nil || !composite(g.d.kindOf(on)) {
		return "{ __typename }"
	}
	return g.selectionSet(on, depth)
}

// impossible picks an object type that cannot occur where parent is expected (falls back to on).
func (g *docGen) impossible(parent, on string) string {
	poss := map[string]bool{}
	for _, p := range g.possible(parent) {
		poss[p] = true
	}
	reach := g.d.reachable()
	for _, o := range g.d.Types {
		if o.Kind == "object" && reach[o.Name] && !poss[o.Name] && o.Name != parent {
			return o.Name
		}
	}
	return on
}

// genDoc returns a document and the mutation that was applied ("none" if none).
func genDoc(r *hx.Rand, d *SDef) (string, string) {
	g := &docGen{r: r, d: d, mut: hx.Pick(r, mutationKinds), maxDepth: r.Range(1, 3)}
	if g.mut == "none" {
		g.mut = ""
	}
	op, root, loc := "query", d.Query, "QUERY"
	if d.Mutation != "" && r.Chance(1, 5) {
		op, root, loc = "mutation", d.Mutation, "MUTATION"
	} else if d.Subscription != "" && r.Chance(1, 6) {
		op, root, loc = "subscription", d.Subscription, "SUBSCRIPTION"
	}
	var body string
	if op == "subscription" {
		// exactly one root field
		t := d.typeByName(root)
		f := hx.Pick(r, t.Fields)
		body = "{ " + g.alias() + ": " + f.Name + g.arguments(f.Args)
		if composite(d.kindOf(f.Type.N)) {
			body += " " + g.selectionSet(f.Type.N, 1)
		}
		body += " }"
	} else {
		body = g.selectionSet(root, 0)
	}
	dirs := g.directives(loc)
	if g.take("unused-variable") {
		g.vars = append(g.vars, "$unused: Int")
	}
	head := op
	if len(g.vars) > 0 || dirs != "" || r.Bool() {
		head += " Op"
	}
	if len(g.vars) > 0 {
		head += "(" + strings.Join(g.vars, ", ") + ")"
	}
	doc := head + dirs + " " + body
	for _, f := range g.frags {
		doc += "\n" + f
	}
	applied := g.applied
	if applied == "" {
		applied = "none"
	}
	return doc, applied
}
