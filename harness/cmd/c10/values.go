// Default values: feeding every printed defaultValue back through the real parser and literal
// coercion, and a purely textual canonicaliser of marshalValue's output (input-object fields come
// out of a Go map in random order).
package main

import (
	"fmt"
	"reflect"
	"sort"
	"strings"

	"github.com/ccbrown/api-fu/graphql/ast"
	"github.com/ccbrown/api-fu/graphql/parser"
	"github.com/ccbrown/api-fu/graphql/schema"
)

// roundTrip parses text as a GraphQL literal with the real parser, coerces it to typ with the real
// CoerceLiteral and compares the result with the configured default.
func roundTrip(text string, typ schema.Type, configured interface{}) (problem string) {
	defer func() {
		if p := recover(); p != nil {
			problem = fmt.Sprintf("panic while parsing/coercing %q: %v", text, p)
		}
	}()
	v, errs := parser.ParseValue([]byte(text))
	if len(errs) > 0 {
		return fmt.Sprintf("printed default %q is not a valid literal: %v", text, errs[0].Message)
	}
	// the whole text must be one literal (ParseValue does not look at what follows)
	doc, derrs := parser.ParseDocument([]byte("{f(a: " + text + "\n)}"))
	if len(derrs) > 0 {
		return fmt.Sprintf("printed default %q is not a valid literal in argument position: %v", text, derrs[0].Message)
	}
	if op, ok := doc.Definitions[0].(*ast.OperationDefinition); !ok || len(op.SelectionSet.Selections) != 1 {
		return fmt.Sprintf("printed default %q does not parse as one argument value", text)
	} else if f, ok := op.SelectionSet.Selections[0].(*ast.Field); !ok || len(f.Arguments) != 1 {
		return fmt.Sprintf("printed default %q does not parse as one argument value", text)
	}
	got, err := schema.CoerceLiteral(v, typ, nil)
	if err != nil {
		return fmt.Sprintf("printed default %q does not coerce to %v: %v", text, typ, err)
	}
	want := configured
	if want == schema.Null {
		want = nil
	}
	if !reflect.DeepEqual(got, want) {
		return fmt.Sprintf("printed default %q coerces to %#v, configured default is %#v", text, got, want)
	}
	return ""
}

// canonLiteral re-emits marshalValue output with the fields of every object sorted by name. It is
// a scanner over the exact output format (`{k: v, k: v}`, `[v, v]`, JSON strings, bare tokens); on
// anything unexpected it returns the text unchanged.
func canonLiteral(text string) string {
	p := &litScanner{s: text}
	out, ok := p.value()
	if !ok || p.i != len(p.s) {
		return text
	}
	return out
}

type litScanner struct {
	s string
	i int
}

func (p *litScanner) value() (string, bool) {
	if p.i >= len(p.s) {
		return "", false
	}
	switch p.s[p.i] {
	case '"':
		j := p.i + 1
		for j < len(p.s) {
			if p.s[j] == '\\' {
				j += 2
				continue
			}
			if p.s[j] == '"' {
				out := p.s[p.i : j+1]
				p.i = j + 1
				return out, true
			}
			j++
		}
		return "", false
	case '[':
		p.i++
		var parts []string
		if p.i < len(p.s) && p.s[p.i] == ']' {
			p.i++
			return "[]", true
		}
		for {
			v, ok := p.value()
			if !ok {
				return "", false
			}
			parts = append(parts, v)
			if strings.HasPrefix(p.s[p.i:], ", ") {
				p.i += 2
				continue
			}
			if p.i < len(p.s) && p.s[p.i] == ']' {
				p.i++
				return "[" + strings.Join(parts, ", ") + "]", true
			}
			return "", false
		}
	case '{':
		p.i++
		var parts []string
		if p.i < len(p.s) && p.s[p.i] == '}' {
			p.i++
			return "{}", true
		}
		for {
			j := strings.Index(p.s[p.i:], ": ")
			if j < 0 {
				return "", false
			}
			key := p.s[p.i : p.i+j]
			p.i += j + 2
			v, ok := p.value()
			if !ok {
				return "", false
			}
			parts = append(parts, key+"\x00: "+v)
			if strings.HasPrefix(p.s[p.i:], ", ") {
				p.i += 2
				continue
			}
			if p.i < len(p.s) && p.s[p.i] == '}' {
				p.i++
				// sorted by key (the NUL keeps "f1" before "f10" whatever follows the colon)
				sort.Strings(parts)
				for i := range parts {
					parts[i] = strings.Replace(parts[i], "\x00: ", ": ", 1)
				}
				return "{" + strings.Join(parts, ", ") + "}", true
			}
			return "", false
		}
	default:
		j := p.i
		for j < len(p.s) && !strings.ContainsRune(",]}", rune(p.s[j])) {
			j++
		}
		if j == p.i {
			return "", false
		}
		out := p.s[p.i:j]
		p.i = j
		return out, true
	}
}

// hasAstral reports whether a value contains a string with a code point above U+FFFF.
func hasAstral(v Val) bool {
	for _, c := range v.S {
		if c > 0xffff {
			return true
		}
	}
	for _, e := range v.L {
		if hasAstral(e) {
			return true
		}
	}
	for _, f := range v.O {
		if hasAstral(f.V) {
			return true
		}
	}
	return false
}

// astralOnly reports whether replacing every code point above U+FFFF of the configured default by
// a BMP character would be the only change needed: used by the F-10b classifier.
func stripAstral(v Val) Val {
	out := v
	var b strings.Builder
	for _, c := range v.S {
		if c > 0xffff {
			b.WriteRune('X')
		} else {
			b.WriteRune(c)
		}
	}
	out.S = b.String()
	out.L = nil
	for _, e := range v.L {
		out.L = append(out.L, stripAstral(e))
	}
	if v.L != nil && out.L == nil {
		out.L = []Val{}
	}
	out.O = nil
	for _, f := range v.O {
		out.O = append(out.O, ObjField{Name: f.Name, V: stripAstral(f.V)})
	}
	if v.O != nil && out.O == nil {
		out.O = []ObjField{}
	}
	return out
}

// normalForm is what literal coercion makes of a configured default: every input object of the
// value gets the fields it omits that have a default of their own (inserted as configured, like
// CoerceLiteral inserts field.DefaultValue). For a value in normal form it is the identity.
func normalForm(d *SDef, v Val, t TRef) Val {
	if v.K == "null" {
		return v
	}
	t = t.nullable()
	switch v.K {
	case "list":
		inner := t
		if strings.HasPrefix(t.W, "L") {
			inner = t.inner()
		}
		out := v
		out.L = make([]Val, len(v.L))
		for i, e := range v.L {
			out.L[i] = normalForm(d, e, inner)
		}
		return out
	case "obj":
		td := d.typeByName(t.N)
		if td == nil {
			return v
		}
		out := v
		out.O = nil
		have := map[string]bool{}
		for _, f := range v.O {
			have[f.Name] = true
			ft := TRef{}
			for _, in := range td.Inputs {
				if in.Name == f.Name {
					ft = in.Type
				}
			}
			out.O = append(out.O, ObjField{Name: f.Name, V: normalForm(d, f.V, ft)})
		}
		for _, in := range td.Inputs {
			if !have[in.Name] && in.Def != nil {
				out.O = append(out.O, ObjField{Name: in.Name, V: *in.Def})
			}
		}
		if out.O == nil {
			out.O = []ObjField{}
		}
		return out
	}
	return v
}
