// Abstract schema definitions (the case format of the C10 harness) and their generator.
//
// An SDef is a plain, JSON-serialisable description of a schema definition: named types refer to
// each other by name, Go maps are written as name-sorted lists. build.go turns it into a real
// *schema.SchemaDefinition; describe.go computes what introspection must say directly from it.
package main

import (
	"fmt"
	"sort"
	"strings"

	"verifharness/hx"
)

// TRef is a type expression: W lists the wrappers outermost first ('L' = list, 'N' = non-null),
// N is the named type. "NLN"+Int is [Int!]!.
type TRef struct {
	W string `json:"w,omitempty"`
	N string `json:"n"`
}

func (t TRef) String() string {
	s := t.N
	for i := len(t.W) - 1; i >= 0; i-- {
		if t.W[i] == 'L' {
			s = "[" + s + "]"
		} else {
			s += "!"
		}
	}
	return s
}

func (t TRef) nonNull() bool { return strings.HasPrefix(t.W, "N") }
func (t TRef) inner() TRef   { return TRef{W: t.W[1:], N: t.N} }
func (t TRef) nullable() TRef {
	if t.nonNull() {
		return t.inner()
	}
	return t
}

// Val is an abstract default / literal value.
// K: null | int | float | str | bool | enum | list | obj
type Val struct {
	K string     `json:"k"`
	I int64      `json:"i,omitempty"`
	F float64    `json:"f,omitempty"`
	S string     `json:"s,omitempty"` // string contents, or the enum value name
	B bool       `json:"b,omitempty"`
	L []Val      `json:"l,omitempty"`
	// NilList: this empty list is configured as a nil Go slice ([]interface{}(nil)) rather than an
	// empty one: it is still the list with no items (printed `[]`, never `null`).
	NilList bool `json:"nil_list,omitempty"`
	O []ObjField `json:"o,omitempty"`
}

type ObjField struct {
	Name string `json:"name"`
	V    Val    `json:"v"`
}

type AppliedArg struct {
	Name string `json:"name"`
	V    Val    `json:"v"`
}

// AppliedDir is a *schema.Directive attached to a definition. Def names a schema-level directive.
type AppliedDir struct {
	Def  string       `json:"def"`
	Args []AppliedArg `json:"args,omitempty"`
	// NilArgs: the Arguments slice is nil (instead of empty/non-empty).
	NilArgs bool `json:"nil_args,omitempty"`
}

type InputVal struct {
	Name string       `json:"name"`
	Desc string       `json:"desc,omitempty"`
	Type TRef         `json:"type"`
	Def  *Val         `json:"def,omitempty"`
	Dirs []AppliedDir `json:"dirs,omitempty"`
}

type FieldDef struct {
	Name string       `json:"name"`
	Desc string       `json:"desc,omitempty"`
	Type TRef         `json:"type"`
	Args []InputVal   `json:"args,omitempty"`
	Depr string       `json:"depr,omitempty"`
	Feat []string     `json:"feat,omitempty"`
	Dirs []AppliedDir `json:"dirs,omitempty"`
}

type EnumVal struct {
	Name string       `json:"name"`
	Desc string       `json:"desc,omitempty"`
	Depr string       `json:"depr,omitempty"`
	Dirs []AppliedDir `json:"dirs,omitempty"`
	// GoVal: the Go value of this enum value is this string ("" = a struct that is no string). Some
	// enums use their own names as values, some use strings that are the NAME of another value of
	// the same enum (BETA has the value "STABLE", STABLE the value "LTS").
	GoVal string `json:"go_val,omitempty"`
}

// TypeDef.Kind: scalar | object | interface | union | enum | input
type TypeDef struct {
	Kind    string       `json:"kind"`
	Name    string       `json:"name"`
	Desc    string       `json:"desc,omitempty"`
	Feat    []string     `json:"feat,omitempty"`
	Fields  []FieldDef   `json:"fields,omitempty"`
	Ifaces  []string     `json:"ifaces,omitempty"`
	Members []string     `json:"members,omitempty"`
	Values  []EnumVal    `json:"values,omitempty"`
	Inputs  []InputVal   `json:"inputs,omitempty"`
	Dirs    []AppliedDir `json:"dirs,omitempty"`
	// Wrap: the input object coerces to a Go struct (InputCoercion) instead of staying a map.
	Wrap bool `json:"wrap,omitempty"`
}

type DirDef struct {
	Name string     `json:"name"`
	Desc string     `json:"desc,omitempty"`
	Locs []string   `json:"locs"`
	Args []InputVal `json:"args,omitempty"`
	// Builtin: "skip" / "include" = the package-level schema.SkipDirective / IncludeDirective.
	Builtin string `json:"builtin,omitempty"`
}

type SDef struct {
	Types        []TypeDef `json:"types"`
	Query        string    `json:"query"`
	Mutation     string    `json:"mutation,omitempty"`
	Subscription string    `json:"subscription,omitempty"`
	Additional   []string  `json:"additional,omitempty"`
	Dirs         []DirDef  `json:"dirs,omitempty"`
	// UDirs: directive definitions that are NOT entries of SchemaDefinition.Directives; they exist only
	// as the Definition of applied directives (AppliedDir.Def names them like the listed ones). Their
	// arguments carry no applied directives.
	UDirs []DirDef `json:"udirs,omitempty"`
	// SharedFeat: feature sets with equal contents are one shared Go map (as applications do when
	// they reuse one FeatureSet variable for a type and its fields).
	SharedFeat bool `json:"shared_feat,omitempty"`
	// EmptyContainers: where the definition has nothing to put into a map the real definition gets an
	// empty but non-nil map instead of nil (RequiredFeatures: NewFeatureSet() of a computed empty
	// list; Arguments: map[string]*InputValueDefinition{}): still a mutable container that a clone
	// must not share.
	EmptyContainers bool `json:"empty_containers,omitempty"`
}

var builtinScalars = []string{"Int", "Float", "String", "Boolean", "ID"}

func isBuiltinScalar(n string) bool {
	for _, b := range builtinScalars {
		if b == n {
			return true
		}
	}
	return false
}

func (d *SDef) typeByName(n string) *TypeDef {
	for i := range d.Types {
		if d.Types[i].Name == n {
			return &d.Types[i]
		}
	}
	return nil
}

func (d *SDef) dirByName(n string) *DirDef {
	for i := range d.Dirs {
		if d.Dirs[i].Name == n {
			return &d.Dirs[i]
		}
	}
	for i := range d.UDirs {
		if d.UDirs[i].Name == n {
			return &d.UDirs[i]
		}
	}
	return nil
}

// kindOf returns the kind of a named type ("scalar" for the built-ins).
func (d *SDef) kindOf(n string) string {
	if isBuiltinScalar(n) {
		return "scalar"
	}
	if t := d.typeByName(n); t != nil {
		return t.Kind
	}
	return ""
}

func (d *SDef) featOf(n string) []string {
	if t := d.typeByName(n); t != nil {
		return t.Feat
	}
	return nil
}

func subset(a, b []string) bool {
	for _, x := range a {
		found := false
		for _, y := range b {
			if x == y {
				found = true
			}
		}
		if !found {
			return false
		}
	}
	return true
}

func union(a, b []string) []string {
	m := map[string]bool{}
	for _, x := range a {
		m[x] = true
	}
	for _, x := range b {
		m[x] = true
	}
	out := []string{}
	for x := range m {
		out = append(out, x)
	}
	sort.Strings(out)
	return out
}

// allFeatures lists every feature mentioned anywhere in the definition.
func (d *SDef) allFeatures() []string {
	var out []string
	for _, t := range d.Types {
		out = union(out, t.Feat)
		for _, f := range t.Fields {
			out = union(out, f.Feat)
		}
	}
	return out
}

var allLocations = []string{"QUERY", "MUTATION", "SUBSCRIPTION", "FIELD", "FRAGMENT_DEFINITION", "FRAGMENT_SPREAD", "INLINE_FRAGMENT",
	"SCHEMA", "SCALAR", "OBJECT", "FIELD_DEFINITION", "ARGUMENT_DEFINITION", "INTERFACE", "UNION", "ENUM", "ENUM_VALUE", "INPUT_OBJECT", "INPUT_FIELD_DEFINITION"}

var builtinDirLocs = []string{"FIELD", "FRAGMENT_SPREAD", "INLINE_FRAGMENT"}

const skipDesc = "The @skip directive may be provided for fields, fragment spreads, and inline fragments, and allows for conditional exclusion during execution as described by the if argument."
const includeDesc = "The @include directive may be provided for fields, fragment spreads, and inline fragments, and allows for conditional inclusion during execution as described by the if argument."

// ---------------------------------------------------------------------------------------------
// generator

type genOpts struct {
	// OnlyBuiltinScalars: no custom scalar types (the rebuild part needs literal coercion on both sides).
	OnlyBuiltinScalars bool
	// AstralStrings: allow code points above U+FFFF in default strings (finding F-10b).
	AstralStrings bool
	// NoFeatures: no feature-gated members (the rebuild part compares with all features enabled anyway).
	Small bool
}

type gen struct {
	r    *hx.Rand
	o    genOpts
	d    *SDef
	feat []string
	// names by kind, decided up front so that references can be cyclic
	scalars, enums, inputs, ifaces, objects, unions []string
	tfeat                                           map[string][]string
	inputRank                                       map[string]int
	complete                                        map[string]bool // input objects whose fields are all generated
	// astralOK: the default being generated belongs to an input value whose type is nullable at the
	// top, so a string with a code point above U+FFFF may occur in it (open finding F-10b: the printed
	// literal does not parse; losing a nullable position's default cannot change a verdict)
	astralOK bool
	// objDepth: how many input objects enclose the value being generated (0 = an object of the
	// default's own type, reached through lists only)
	objDepth int
	// names: how many names have been made; illegalAt: which of them is an illegal one (-1: none)
	names, illegalAt int
	noReserved       bool
}

// omitNestedDefaults: also leave out defaulted fields of input objects nested inside other input
// objects of a default. On since repo-patches/C10/07 (a683152) is applied; before it GetSchemaDefinition
// (patch 06) resolved the field defaults of the default's own input object type first, but not those
// of input objects reached through a field that has no default of its own, so such a default was
// rebuilt or dropped depending on Go map iteration order (finding F-10h).
const omitNestedDefaults = true

var descPool = []string{"", "", "a description", "multi\nline", "with \"quotes\" and \\ backslash", "ünïcödé ✓", " ", "x"}
var deprPool = []string{"", "", "", "no longer supported", "use \"other\"", " ", "old\nreason"}

func (g *gen) desc() string {
	if g.r.Chance(1, 8) {
		return g.boundaryStr()
	}
	return hx.Pick(g.r, descPool)
}
func (g *gen) depr() string {
	if g.r.Chance(1, 10) {
		return g.boundaryStr()
	}
	return hx.Pick(g.r, deprPool)
}

func (g *gen) featSet() []string {
	if !g.r.Chance(1, 4) {
		return nil
	}
	var out []string
	for _, f := range g.feat {
		if g.r.Chance(1, 2) {
			out = append(out, f)
		}
	}
	if len(out) == 0 {
		out = []string{hx.Pick(g.r, g.feat)}
	}
	return out
}

// wrappers draws a wrapper chain of at most max wrappers without two adjacent 'N'.
func (g *gen) wrappers(max int) string {
	n := 0
	switch x := g.r.Intn(20); {
	case x < 7:
		n = 0
	case x < 12:
		n = 1
	case x < 15:
		n = 2
	case x < 17:
		n = 3
	default:
		n = g.r.Range(4, 7)
	}
	if n > max {
		n = max
	}
	var b []byte
	for len(b) < n {
		if len(b) > 0 && b[len(b)-1] == 'N' {
			b = append(b, 'L')
		} else if g.r.Chance(1, 2) {
			b = append(b, 'N')
		} else {
			b = append(b, 'L')
		}
	}
	// a chain may not end in a dangling position that makes "N" adjacent to nothing: fine as is
	return string(b)
}

// name makes the i-th name with the given prefix. One case in twenty gets ONE name that the
// unchanged schema.New refuses (illegalAt = which name request): starting with "__", empty, a digit
// first, an illegal character, a non-ASCII letter — at whatever position that request happens to be
// (type, field, argument, input field, directive, directive argument). Such definitions are counted as
// rejected on the unchanged tree; a tree that accepts them gets every oracle.
func (g *gen) name(prefix string, i int) string {
	n := fmt.Sprintf("%s%d", prefix, i)
	g.names++
	if g.names-1 == g.illegalAt {
		switch g.r.Intn(6) {
		case 0:
			return "__" + n
		case 1:
			return ""
		case 2:
			return "9" + n
		case 3:
			return n + "-x"
		case 4:
			return n + " y"
		default:
			return "ñ" + n
		}
	}
	return n
}

// reservedEnumValue: one enum in twenty-five gets a value named like a keyword literal (`true`, `false`,
// `null`), which the unchanged EnumType.shallowValidate refuses: printed as a default it would read as
// a Boolean / Null literal.
func (g *gen) reservedEnumValue(vs []EnumVal) {
	if len(vs) > 0 && g.r.Chance(1, 25) && !g.noReserved {
		vs[g.r.Intn(len(vs))].Name = hx.Pick(g.r, []string{"true", "false", "null"})
	}
}

// candidates filters names whose required features fit into allowed.
func (g *gen) candidates(names []string, allowed []string) []string {
	var out []string
	for _, n := range names {
		if subset(g.tfeat[n], allowed) {
			out = append(out, n)
		}
	}
	return out
}

func (g *gen) inputLeafs() []string {
	out := append([]string{}, builtinScalars...)
	out = append(out, g.scalars...)
	out = append(out, g.enums...)
	out = append(out, g.inputs...)
	return out
}

func (g *gen) outputLeafs() []string {
	out := append([]string{}, builtinScalars...)
	out = append(out, g.scalars...)
	out = append(out, g.enums...)
	out = append(out, g.objects...)
	out = append(out, g.ifaces...)
	out = append(out, g.unions...)
	return out
}

// inputVal draws an argument / input field whose type's features fit into allowed.
// rank: input objects of rank >= rank may only be referenced without a default (and nullable when
// rank is that of the enclosing input object, to keep values finite).
func (g *gen) inputVal(name string, allowed []string, rank int) InputVal {
	cands := g.candidates(g.inputLeafs(), allowed)
	leaf := hx.Pick(g.r, cands)
	// prefer interesting leaves
	if g.r.Chance(1, 2) {
		var pref []string
		for _, c := range cands {
			if !isBuiltinScalar(c) {
				pref = append(pref, c)
			}
		}
		if len(pref) > 0 {
			leaf = hx.Pick(g.r, pref)
		}
	}
	iv := InputVal{Name: name, Desc: g.desc(), Type: TRef{W: g.wrappers(7), N: leaf}}
	selfish := false
	if r, ok := g.inputRank[leaf]; ok && r >= rank {
		selfish = true
		// keep values of recursive input objects finite: the reference must be nullable at the top
		if iv.Type.nonNull() {
			iv.Type = iv.Type.inner()
		}
	}
	if !selfish && g.r.Chance(1, 2) {
		g.astralOK = !iv.Type.nonNull()
		v := g.value(iv.Type, 0, true)
		g.astralOK = false
		if rank == 1<<30 && v.K == "list" && len(v.L) == 0 && g.r.Chance(1, 3) {
			// the default of an ARGUMENT (of a field or directive) that is the empty list: configured
			// as a nil Go slice one time in three — still the list without items, printed `[]`
			v.NilList = true
		}
		iv.Def = &v
	}
	return iv
}

var stringPool = []string{"", "plain", "with \"quotes\"", "back\\slash", "new\nline", "tab\there", "cr\rlf\n", "ünï ✓ 日本", " sep ", "<html>&amp;", "\x00\x01\x1f\x7f", "\b\f", "\\u0041", "\"\"\"", "#not a comment", "\ufeffbom", "\ufffd", "{a: 1}", "$var", "end\\"}

// boundaryRunes: the runes at which a string printer / lexer may change its treatment, each with
// its neighbours — C0 controls (< 0x20 are escaped), '"' and '\\', DEL, the C1 / Latin-1 range, the
// HTML-sensitive characters and U+2028/9 that encoding/json escapes, the surrogate gap, the last BMP
// code points — and runes that are congruent to a special character modulo 256 (U+0122 = '"',
// U+015C = '\\', U+010A = '\n', U+0100 = NUL, U+011F, U+017F, U+2122, U+205C …): a table indexed with
// a truncated rune would treat them like that character.
var boundaryRunes = []rune{0x00, 0x01, 0x08, 0x09, 0x0a, 0x0b, 0x0c, 0x0d, 0x0e, 0x1e, 0x1f, 0x20, 0x21, 0x22, 0x23, 0x25, 0x26, 0x27, 0x2f,
	0x3b, 0x3c, 0x3d, 0x3e, 0x3f, 0x5b, 0x5c, 0x5d, 0x7e, 0x7f, 0x80, 0x81, 0x9f, 0xa0, 0xa1, 0xad, 0xbf, 0xc0, 0xe9, 0xfe, 0xff,
	0x100, 0x101, 0x10a, 0x10d, 0x11f, 0x120, 0x122, 0x126, 0x13c, 0x13e, 0x15c, 0x17f, 0x180, 0x7ff, 0x800,
	0x2027, 0x2028, 0x2029, 0x202a, 0x2122, 0x205c, 0x200a, 0x2000, 0xd7ff, 0xe000, 0xfeff, 0xfffd, 0xfffe, 0xffff}

// (beyond the BMP — open finding F-10b covers every one of them —: the first and last astral code
// points and runes congruent to '"', '\\', '\n' modulo 65536)
var astralPool = []string{"😀", "a𝄞b", "\U0010ffff", "\U00010000", "\U00010022x", "x\U0001005c", "\U0001000a", "a\U0002005cb"}

// boundaryStr puts one to three boundary runes at the first, an inner and the last position of a
// short string.
func (g *gen) boundaryStr() string {
	a, b, c := hx.Pick(g.r, boundaryRunes), hx.Pick(g.r, boundaryRunes), hx.Pick(g.r, boundaryRunes)
	switch g.r.Intn(5) {
	case 0:
		return string(a) + "mid"
	case 1:
		return "mid" + string(c)
	case 2:
		return "in" + string(b) + "ner"
	case 3:
		return string(a)
	}
	return string(a) + "x" + string(b) + "y" + string(c)
}

func (g *gen) str() string {
	if (g.o.AstralStrings && g.r.Chance(1, 3)) || (g.astralOK && g.r.Chance(1, 10)) {
		return hx.Pick(g.r, astralPool)
	}
	if g.r.Chance(1, 4) {
		return g.boundaryStr()
	}
	if g.r.Chance(1, 4) {
		// random BMP string without surrogates
		n := g.r.Range(1, 6)
		var b strings.Builder
		for i := 0; i < n; i++ {
			var c rune
			switch g.r.Intn(4) {
			case 0:
				c = rune(g.r.Range(0, 0x7f))
			case 1:
				c = rune(g.r.Range(0x80, 0x7ff))
			case 2:
				c = rune(g.r.Range(0x800, 0xd7ff))
			default:
				c = rune(g.r.Range(0xe000, 0xffff))
			}
			b.WriteRune(c)
		}
		return b.String()
	}
	return hx.Pick(g.r, stringPool)
}

var intPool = []int64{0, 1, -1, 7, 42, -2147483648, 2147483647, 100000}
// incl. integral values whose magnitude is in [2^63, 1e21): encoding/json prints them as plain digits
// (an Int literal beyond int64), which must still coerce to Float
var floatPool = []float64{0, 1, -1, 0.5, -2.25, 1e21, 1e-7, 123456.789, 3.0e10, -1e-300, 1.7976931348623157e308, 5e-324,
	1e19, 1.23456789e20, -18446744073709551616, 9223372036854775808, -9223372036854775808, 9.99e20, 4294967296}

// value draws a value of type t, mostly in coercion normal form (what CoerceLiteral would produce
// for the literal that denotes it: input objects carry every field that has a default); one in
// five defaulted fields is left out (values.go normalForm gives what coercion makes of that).
// top: this is the whole default (an explicit null is then written schema.Null).
func (g *gen) value(t TRef, depth int, top bool) Val {
	// a reference to an input object whose fields are not generated yet (itself or a later one):
	// only null / the empty list are available
	_, isInput := g.inputRank[t.N]
	incomplete := isInput && !g.complete[t.N]
	if !t.nonNull() && (incomplete || g.r.Chance(1, 8)) {
		return Val{K: "null"}
	}
	t = t.nullable()
	if strings.HasPrefix(t.W, "L") {
		n := g.r.Intn(4)
		if depth > 3 || incomplete {
			n = 0
		}
		v := Val{K: "list", L: []Val{}}
		for i := 0; i < n; i++ {
			v.L = append(v.L, g.value(t.inner(), depth+1, false))
		}
		// (NilList is only drawn for whole argument defaults, see inputVal: with nil slices as the
		// defaults of input-object FIELDS the unchanged CoerceLiteral reports "the … field is required"
		// for omitted non-null fields and fills omitted ones with the nil slice; what the property
		// demands there is left open — design note, seeded change C10-21)
		return v
	}
	switch g.d.kindOf(t.N) {
	case "enum":
		e := g.d.typeByName(t.N)
		return Val{K: "enum", S: hx.Pick(g.r, e.Values).Name}
	case "input":
		in := g.d.typeByName(t.N)
		v := Val{K: "obj", O: []ObjField{}}
		for _, f := range in.Inputs {
			switch {
			case f.Def != nil && (g.objDepth == 0 || omitNestedDefaults) && g.r.Chance(1, 5):
				// the configured default itself omits a field that has a default (not in coercion
				// normal form): the printed literal omits it too, coercion fills it in
			case f.Def != nil && g.r.Chance(1, 2) && (g.astralOK || !hasAstral(*f.Def)):
				// omitted in the literal: coercion fills in the field's default
				v.O = append(v.O, ObjField{Name: f.Name, V: *f.Def})
			case !f.Type.nonNull() && f.Def == nil && (g.r.Chance(1, 2) || depth > 3):
				// absent
			default:
				g.objDepth++
				v.O = append(v.O, ObjField{Name: f.Name, V: g.value(f.Type, depth+1, false)})
				g.objDepth--
			}
		}
		return v
	}
	switch t.N {
	case "Int":
		return Val{K: "int", I: hx.Pick(g.r, intPool)}
	case "Float":
		return Val{K: "float", F: hx.Pick(g.r, floatPool)}
	case "Boolean":
		return Val{K: "bool", B: g.r.Bool()}
	case "ID":
		if g.r.Bool() {
			return Val{K: "int", I: hx.Pick(g.r, intPool)}
		}
		return Val{K: "str", S: g.str()}
	case "String":
		return Val{K: "str", S: g.str()}
	}
	// custom scalar: the harness's custom scalars accept strings and ints
	if g.r.Bool() {
		return Val{K: "int", I: hx.Pick(g.r, intPool)}
	}
	return Val{K: "str", S: g.str()}
}

func (g *gen) args(allowed []string) []InputVal {
	n := 0
	if g.r.Chance(1, 2) {
		n = g.r.Range(1, 3)
	}
	var out []InputVal
	for i := 0; i < n; i++ {
		out = append(out, g.inputVal(g.name("a", i), allowed, 1<<30))
	}
	return out
}

func (g *gen) applied(loc string) []AppliedDir {
	if g.r.Chance(3, 4) {
		return nil
	}
	var cands []DirDef
	for _, dd := range g.d.Dirs {
		if dd.Builtin == "" {
			cands = append(cands, dd)
		}
	}
	cands = append(cands, g.d.UDirs...)
	if len(cands) == 0 {
		return nil
	}
	var out []AppliedDir
	for i := g.r.Range(1, 2); i > 0; i-- {
		dd := hx.Pick(g.r, cands)
		ad := AppliedDir{Def: dd.Name}
		for _, a := range dd.Args {
			if g.r.Bool() {
				ad.Args = append(ad.Args, AppliedArg{Name: a.Name, V: g.value(a.Type, 2, false)})
			}
		}
		if len(ad.Args) == 0 && g.r.Bool() {
			ad.NilArgs = true
		}
		out = append(out, ad)
	}
	return out
}

// field draws an output field of a type with features parentFeat.
func (g *gen) field(name string, parentFeat []string, gated bool) FieldDef {
	f := FieldDef{Name: name, Desc: g.desc(), Depr: g.depr()}
	if gated {
		f.Feat = g.featSet()
	}
	// choose the type first, then make the field require what the type requires
	leafs := g.outputLeafs()
	leaf := hx.Pick(g.r, leafs)
	if g.r.Chance(2, 3) {
		var pref []string
		for _, c := range leafs {
			if !isBuiltinScalar(c) {
				pref = append(pref, c)
			}
		}
		if len(pref) > 0 {
			leaf = hx.Pick(g.r, pref)
		}
	}
	if !subset(g.tfeat[leaf], union(f.Feat, parentFeat)) {
		if gated {
			f.Feat = union(f.Feat, g.tfeat[leaf])
		} else {
			leaf = hx.Pick(g.r, g.candidates(leafs, parentFeat))
		}
	}
	f.Type = TRef{W: g.wrappers(7), N: leaf}
	f.Args = g.args(union(f.Feat, parentFeat))
	f.Dirs = g.applied("FIELD_DEFINITION")
	return f
}

func sortFields(fs []FieldDef) {
	sort.Slice(fs, func(i, j int) bool { return fs[i].Name < fs[j].Name })
}
func sortInputs(fs []InputVal) {
	sort.Slice(fs, func(i, j int) bool { return fs[i].Name < fs[j].Name })
}

// genSDef draws a definition. One with an illegal name at a position schema.New does not look at
// (illegalNameUnseen) is drawn again without illegal names.
func genSDef(r *hx.Rand, o genOpts) *SDef {
	d := genSDef1(r, o, true)
	for i := 0; d.illegalNameUnseen() && i < 3; i++ {
		d = genSDef1(r, o, false)
	}
	return d
}

func genSDef1(r *hx.Rand, o genOpts, illegalNames bool) *SDef {
	g := &gen{r: r, o: o, d: &SDef{}, feat: []string{"fa", "fb", "fc"}, tfeat: map[string][]string{}, inputRank: map[string]int{}, complete: map[string]bool{}}
	d := g.d
	g.illegalAt = -1
	if r.Chance(1, 20) && illegalNames {
		g.illegalAt = r.Intn(50)
	}
	g.noReserved = !illegalNames
	d.SharedFeat = r.Bool()
	d.EmptyContainers = r.Chance(1, 3)
	small := o.Small
	cnt := func(lo, hi int) int {
		if small && hi > 2 {
			hi = 2
		}
		return r.Range(lo, hi)
	}
	nScalar := cnt(0, 2)
	if o.OnlyBuiltinScalars {
		nScalar = 0
	}
	for i := 0; i < nScalar; i++ {
		g.scalars = append(g.scalars, g.name("Sc", i))
	}
	for i, n := 0, cnt(0, 2); i < n; i++ {
		g.enums = append(g.enums, g.name("En", i))
	}
	for i, n := 0, cnt(0, 3); i < n; i++ {
		in := g.name("In", i) // (one call per name: the call may return the case's illegal name)
		g.inputs = append(g.inputs, in)
		g.inputRank[in] = i
	}
	for i, n := 0, cnt(0, 3); i < n; i++ {
		g.ifaces = append(g.ifaces, g.name("If", i))
	}
	for i, n := 0, cnt(1, 5); i < n; i++ {
		g.objects = append(g.objects, g.name("Ob", i))
	}
	for i, n := 0, cnt(0, 2); i < n; i++ {
		g.unions = append(g.unions, g.name("Un", i))
	}
	// required features per type (unions get theirs from their members below)
	for _, n := range append(append(append(append(append([]string{}, g.scalars...), g.enums...), g.inputs...), g.ifaces...), g.objects...) {
		g.tfeat[n] = g.featSet()
	}
	// union members first (their features decide the union's)
	members := map[string][]string{}
	for _, u := range g.unions {
		k := r.Range(1, 3)
		objs := append([]string{}, g.objects...)
		hx.Shuffle(r, objs)
		if k > len(objs) {
			k = len(objs)
		}
		members[u] = objs[:k]
		var uf []string
		for _, m := range members[u] {
			uf = union(uf, g.tfeat[m])
		}
		if r.Chance(1, 4) {
			uf = union(uf, []string{hx.Pick(r, g.feat)})
		}
		if len(members[u]) >= 2 && r.Chance(1, 4) {
			// a member more gated than its union ("conditional union member"): the unchanged
			// schema.New refuses such a definition (counted as rejected); should a tree accept it,
			// every oracle applies (possibleTypes must then list the visible members only)
			uf = g.tfeat[members[u][0]]
		}
		if len(uf) == 0 {
			uf = nil
		}
		g.tfeat[u] = uf
	}

	// schema-level directives (before types: applied directives refer to them)
	if r.Chance(3, 4) {
		d.Dirs = append(d.Dirs, DirDef{Name: "skip", Builtin: "skip", Desc: skipDesc, Locs: builtinDirLocs, Args: []InputVal{{Name: "if", Type: TRef{W: "N", N: "Boolean"}}}})
	}
	if r.Chance(3, 4) {
		d.Dirs = append(d.Dirs, DirDef{Name: "include", Builtin: "include", Desc: includeDesc, Locs: builtinDirLocs, Args: []InputVal{{Name: "if", Type: TRef{W: "N", N: "Boolean"}}}})
	}

	add := func(t TypeDef) { d.Types = append(d.Types, t) }
	for _, n := range g.scalars {
		add(TypeDef{Kind: "scalar", Name: n, Desc: g.desc(), Feat: g.tfeat[n]})
	}
	for _, n := range g.enums {
		t := TypeDef{Kind: "enum", Name: n, Desc: g.desc(), Feat: g.tfeat[n]}
		for i, k := 0, r.Range(1, 4); i < k; i++ {
			t.Values = append(t.Values, EnumVal{Name: fmt.Sprintf("V%d_%s", i, n), Desc: g.desc(), Depr: g.depr()})
		}
		g.reservedEnumValue(t.Values)
		switch r.Intn(3) {
		case 0: // string values: the names themselves
			for i := range t.Values {
				t.Values[i].GoVal = t.Values[i].Name
			}
		case 1: // string values: the name of the next value (a name / value collision)
			for i := range t.Values {
				t.Values[i].GoVal = t.Values[(i+1)%len(t.Values)].Name
			}
		}
		add(t)
	}
	// custom directives (their arguments may use scalars and enums; input objects come later):
	// listed in SchemaDefinition.Directives, and unlisted ones that exist only as the Definition of
	// applied directives (appdirs.go)
	for i, n := 0, r.Intn(3); i < n; i++ {
		d.Dirs = append(d.Dirs, g.customDir(g.name("dir", i), add))
	}
	for i, n := 0, r.Intn(3); i < n; i++ {
		d.UDirs = append(d.UDirs, g.customDir(g.name("udir", i), add))
	}
	for idx, n := range g.inputs {
		t := TypeDef{Kind: "input", Name: n, Desc: g.desc(), Feat: g.tfeat[n], Wrap: r.Chance(1, 3)}
		add(t) // registered first so that value() can look up earlier inputs
		tp := &d.Types[len(d.Types)-1]
		for i, k := 0, r.Range(1, 4); i < k; i++ {
			tp.Inputs = append(tp.Inputs, g.inputVal(g.name("f", i), g.tfeat[n], idx))
			tp.Inputs[i].Dirs = g.applied("INPUT_FIELD_DEFINITION")
		}
		tp.Dirs = g.applied("INPUT_OBJECT")
		g.complete[n] = true
	}
	for _, n := range g.ifaces {
		t := TypeDef{Kind: "interface", Name: n, Desc: g.desc(), Feat: g.tfeat[n]}
		for i, k := 0, r.Range(1, 3); i < k; i++ {
			t.Fields = append(t.Fields, g.field(fmt.Sprintf("i%s_%d", n, i), g.tfeat[n], i > 0))
		}
		t.Dirs = g.applied("INTERFACE")
		add(t)
	}
	for _, n := range g.objects {
		t := TypeDef{Kind: "object", Name: n, Desc: g.desc(), Feat: g.tfeat[n]}
		for i, k := 0, r.Range(1, 4); i < k; i++ {
			t.Fields = append(t.Fields, g.field(g.name("o", i), g.tfeat[n], i > 0))
		}
		// implement some interfaces: copy their fields (same type, or non-null of it)
		if len(g.ifaces) > 0 && r.Chance(2, 3) {
			ifs := append([]string{}, g.ifaces...)
			hx.Shuffle(r, ifs)
			for _, in := range ifs[:r.Range(1, len(ifs))] {
				it := d.typeByName(in)
				ok := true
				var copied []FieldDef
				for _, f := range it.Fields {
					c := FieldDef{Name: f.Name, Desc: g.desc(), Depr: g.depr(), Type: f.Type, Feat: f.Feat}
					if !f.Type.nonNull() && len(f.Type.W) < 7 && r.Chance(1, 3) {
						c.Type = TRef{W: "N" + f.Type.W, N: f.Type.N}
					}
					if !subset(g.tfeat[c.Type.N], union(c.Feat, g.tfeat[n])) {
						ok = false
					}
					for _, a := range f.Args {
						ca := a
						ca.Desc = g.desc()
						if a.Def != nil && r.Bool() {
							ca.Def = nil
						}
						if !subset(g.tfeat[a.Type.N], union(c.Feat, g.tfeat[n])) {
							ok = false
						}
						c.Args = append(c.Args, ca)
					}
					if r.Chance(1, 4) {
						// an additional argument must be nullable
						extra := g.inputVal("extra", union(c.Feat, g.tfeat[n]), 1<<30)
						if extra.Type.nonNull() {
							extra.Type = extra.Type.inner()
							extra.Def = nil
						}
						c.Args = append(c.Args, extra)
					}
					copied = append(copied, c)
				}
				if ok {
					t.Ifaces = append(t.Ifaces, in)
					t.Fields = append(t.Fields, copied...)
				}
			}
		}
		t.Dirs = g.applied("OBJECT")
		add(t)
	}
	for _, n := range g.unions {
		add(TypeDef{Kind: "union", Name: n, Desc: g.desc(), Feat: g.tfeat[n], Members: members[n], Dirs: g.applied("UNION")})
	}
	// roots
	q := TypeDef{Kind: "object", Name: "Query", Desc: g.desc()}
	for i, k := 0, r.Range(1, 6); i < k; i++ {
		q.Fields = append(q.Fields, g.field(g.name("q", i), nil, i > 0))
	}
	add(q)
	d.Query = "Query"
	if r.Chance(1, 3) {
		m := TypeDef{Kind: "object", Name: "Mutation", Desc: g.desc()}
		if r.Chance(1, 3) {
			m.Feat = g.featSet() // a gated root type: introspected as absent without its features
			g.tfeat[m.Name] = m.Feat
		}
		for i, k := 0, r.Range(1, 3); i < k; i++ {
			m.Fields = append(m.Fields, g.field(g.name("m", i), m.Feat, i > 0))
		}
		add(m)
		d.Mutation = "Mutation"
	}
	if r.Chance(1, 4) {
		s := TypeDef{Kind: "object", Name: "Subscription", Desc: g.desc()}
		if r.Chance(1, 3) {
			s.Feat = g.featSet()
			g.tfeat[s.Name] = s.Feat
		}
		for i, k := 0, r.Range(1, 2); i < k; i++ {
			s.Fields = append(s.Fields, g.field(g.name("s", i), s.Feat, i > 0))
		}
		add(s)
		d.Subscription = "Subscription"
	}
	if r.Chance(1, 6) {
		// the same object as two roots
		d.Mutation = "Query"
	}
	// argument types that only a directive definition refers to
	g.exclusiveArgTypes(add)
	// applied directives on enums / scalars and their values
	for i := range d.Types {
		t := &d.Types[i]
		if t.Kind == "enum" || t.Kind == "scalar" {
			t.Dirs = g.applied("ENUM")
			for j := range t.Values {
				t.Values[j].Dirs = g.applied("ENUM_VALUE")
			}
		}
		for j := range t.Fields {
			for k := range t.Fields[j].Args {
				t.Fields[j].Args[k].Dirs = g.applied("ARGUMENT_DEFINITION")
			}
		}
	}
	g.applyUnlisted()
	g.fewerSelfReferences()
	// additional types: some of everything (objects reachable only through their interfaces,
	// unions / enums / inputs nothing else mentions, a built-in scalar)
	for _, t := range d.Types {
		if t.Name != "Query" && r.Chance(1, 3) {
			d.Additional = append(d.Additional, t.Name)
		}
	}
	if r.Chance(1, 5) {
		d.Additional = append(d.Additional, hx.Pick(r, builtinScalars))
	}
	normalise(d)
	return d
}

// normalise sorts every list that stands for a Go map (and dedups names: later entries win, as in
// a Go map literal built by assignment).
func normalise(d *SDef) {
	for i := range d.Types {
		t := &d.Types[i]
		t.Fields = dedupFields(t.Fields)
		sortFields(t.Fields)
		sortInputs(t.Inputs)
		sort.Slice(t.Values, func(a, b int) bool { return t.Values[a].Name < t.Values[b].Name })
		for j := range t.Fields {
			t.Fields[j].Args = dedupInputs(t.Fields[j].Args)
			sortInputs(t.Fields[j].Args)
		}
	}
	for i := range d.Dirs {
		sortInputs(d.Dirs[i].Args)
	}
	sort.Slice(d.Dirs, func(a, b int) bool { return d.Dirs[a].Name < d.Dirs[b].Name })
	for i := range d.UDirs {
		sortInputs(d.UDirs[i].Args)
	}
}

func dedupFields(fs []FieldDef) []FieldDef {
	seen := map[string]int{}
	var out []FieldDef
	for _, f := range fs {
		if i, ok := seen[f.Name]; ok {
			out[i] = f
			continue
		}
		seen[f.Name] = len(out)
		out = append(out, f)
	}
	return out
}

func dedupInputs(fs []InputVal) []InputVal {
	seen := map[string]int{}
	var out []InputVal
	for _, f := range fs {
		if i, ok := seen[f.Name]; ok {
			out[i] = f
			continue
		}
		seen[f.Name] = len(out)
		out = append(out, f)
	}
	return out
}

func min(a, b int) int {
	if a < b {
		return a
	}
	return b
}
