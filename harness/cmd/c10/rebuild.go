// Rebuild part: introspection JSON -> introspection.SchemaData -> GetSchemaDefinition ->
// schema.New, then the same documents through graphql.ParseAndValidate on both schemas.
package main

import (
	"encoding/json"
	"fmt"
	"sort"

	"github.com/ccbrown/api-fu/graphql"
	"github.com/ccbrown/api-fu/graphql/schema"
	"github.com/ccbrown/api-fu/graphql/schema/introspection"
)

// rebuildSchema turns the "data" JSON of an introspection response into a schema.
func rebuildSchema(data []byte) (*schema.Schema, error) {
	s, _, err := rebuildSchemaDef(data)
	return s, err
}

// rebuildSchemaDef also returns the rebuilt definition.
func rebuildSchemaDef(data []byte) (s *schema.Schema, def *schema.SchemaDefinition, err error) {
	defer func() {
		if p := recover(); p != nil {
			err = fmt.Errorf("panic: %v", p)
		}
	}()
	var result struct {
		Schema introspection.SchemaData `json:"__schema"`
	}
	if err := json.Unmarshal(data, &result); err != nil {
		return nil, nil, fmt.Errorf("introspection result does not decode into SchemaData: %v", err)
	}
	def, err = result.Schema.GetSchemaDefinition()
	if err != nil {
		return nil, nil, fmt.Errorf("GetSchemaDefinition: %v", err)
	}
	s, err = schema.New(def)
	if err != nil {
		return nil, nil, fmt.Errorf("schema.New of the rebuilt definition: %v", err)
	}
	return s, def, nil
}

type verdict struct {
	V    string // ok | invalid | syntax | panic
	Msgs []string
}

func validate(q string, s *schema.Schema, features schema.FeatureSet) (v verdict) {
	defer func() {
		if p := recover(); p != nil {
			v = verdict{V: "panic", Msgs: []string{fmt.Sprint(p)}}
		}
	}()
	_, errs := graphql.ParseAndValidate(q, s, features)
	if len(errs) == 0 {
		return verdict{V: "ok"}
	}
	v.V = "invalid"
	for _, e := range errs {
		v.Msgs = append(v.Msgs, e.Message)
		if len(e.Message) > 12 && e.Message[:12] == "Syntax error" {
			v.V = "syntax"
		}
	}
	return v
}

// restoreDefaults copies the configured defaults of the original schema onto the same arguments,
// input fields and directive arguments of the rebuilt one (used by the F-10a classifier: if the
// verdicts agree afterwards, the only thing that made them differ was a lost default).
func restoreDefaults(orig, rebuilt *schema.Schema) {
	cp := func(from, to map[string]*schema.InputValueDefinition) {
		for name, a := range from {
			if b, ok := to[name]; ok && a.DefaultValue != nil {
				b.DefaultValue = a.DefaultValue
			}
		}
	}
	cpFields := func(from, to map[string]*schema.FieldDefinition) {
		for name, f := range from {
			if g, ok := to[name]; ok {
				cp(f.Arguments, g.Arguments)
			}
		}
	}
	for name, t := range orig.NamedTypes() {
		u, ok := rebuilt.NamedTypes()[name]
		if !ok {
			continue
		}
		switch t := t.(type) {
		case *schema.ObjectType:
			if u, ok := u.(*schema.ObjectType); ok {
				cpFields(t.Fields, u.Fields)
			}
		case *schema.InterfaceType:
			if u, ok := u.(*schema.InterfaceType); ok {
				cpFields(t.Fields, u.Fields)
			}
		case *schema.InputObjectType:
			if u, ok := u.(*schema.InputObjectType); ok {
				cp(t.Fields, u.Fields)
			}
		}
	}
	for name, d := range orig.Directives() {
		if e, ok := rebuilt.Directives()[name]; ok {
			cp(d.Arguments, e.Arguments)
		}
	}
}

// keepsDefaults probes whether GetSchemaDefinition carries default values (fix patch 06): the model
// is asked for the matching variant (`rebuildKeep` / `rebuild`).
func keepsDefaults() bool {
	d := &SDef{Types: []TypeDef{{Kind: "object", Name: "Query", Fields: []FieldDef{{Name: "d", Type: TRef{N: "Int"},
		Args: []InputVal{{Name: "r", Type: TRef{W: "N", N: "Int"}, Def: &Val{K: "int", I: 1}}}}}}}, Query: "Query"}
	_, s, err := safeBuild(d)
	if err != nil {
		return false
	}
	data, errs, crash := execIntro(s, nil)
	if crash != "" || len(errs) > 0 {
		return false
	}
	var result struct {
		Schema introspection.SchemaData `json:"__schema"`
	}
	if json.Unmarshal(data, &result) != nil {
		return false
	}
	def, err := result.Schema.GetSchemaDefinition()
	if err != nil || def.Query == nil || def.Query.Fields["d"] == nil || def.Query.Fields["d"].Arguments["r"] == nil {
		return false
	}
	return def.Query.Fields["d"].Arguments["r"].DefaultValue != nil
}

// reorderIntro returns the introspection data with every list of named members (types, fields,
// args, inputFields, enumValues, directives, …) in ascending / descending name order. The order in
// which a server lists them is arbitrary (this library: Go map iteration order), so a schema must
// rebuild the same way from every order.
func reorderIntro(data []byte, descending bool) []byte {
	var x interface{}
	if json.Unmarshal(data, &x) != nil {
		return data
	}
	var walk func(v interface{})
	walk = func(v interface{}) {
		switch v := v.(type) {
		case map[string]interface{}:
			for _, e := range v {
				walk(e)
			}
		case []interface{}:
			named := len(v) > 0
			for _, e := range v {
				walk(e)
				if m, ok := e.(map[string]interface{}); !ok {
					named = false
				} else if _, ok := m["name"].(string); !ok {
					named = false
				}
			}
			if named {
				sort.SliceStable(v, func(i, j int) bool {
					a, b := v[i].(map[string]interface{})["name"].(string), v[j].(map[string]interface{})["name"].(string)
					if descending {
						return a > b
					}
					return a < b
				})
			}
		}
	}
	walk(x)
	out, err := json.Marshal(x)
	if err != nil {
		return data
	}
	return out
}
