// SDef -> real *schema.SchemaDefinition.
package main

import (
	"fmt"
	"sort"
	"strconv"
	"strings"

	"github.com/ccbrown/api-fu/graphql/ast"
	"github.com/ccbrown/api-fu/graphql/schema"

	"verifharness/hx"
)

// ev is the Go value of an enum value (a comparable struct, deliberately not a string or int so
// that printing it with a generic marshaller cannot look right by accident).
type ev struct {
	T, N string
}

// wrapped is what an input object with Wrap coerces to.
type wrapped struct {
	T string
	M map[string]interface{}
}

type built struct {
	sdef  *SDef
	def   *schema.SchemaDefinition
	types map[string]schema.NamedType
	dirs  map[string]*schema.DirectiveDefinition
	tied  int // how often the model's registries / acceptance were compared for this build
	// defSexp caches the extraction of def for the model
	defSexp *hx.Sexp
	// serial identifies this build (never reused, unlike its address)
	serial int
}

var buildSerial int

func customScalar(name, desc string) *schema.ScalarType {
	return &schema.ScalarType{
		Name:        name,
		Description: desc,
		LiteralCoercion: func(v ast.Value) interface{} {
			switch v := v.(type) {
			case *ast.IntValue:
				if n, err := strconv.ParseInt(v.Value, 10, 64); err == nil {
					return int(n)
				}
			case *ast.StringValue:
				return v.Value
			}
			return nil
		},
		VariableValueCoercion: func(v interface{}) interface{} { return v },
		ResultCoercion:        func(v interface{}) interface{} { return v },
	}
}

type builder struct {
	d     *SDef
	out   *built
	feats map[string]schema.FeatureSet
	// noNil: empty lists are always empty non-nil slices (what coercion of `[]` yields)
	noNil bool
}

func (b *builder) featureSet(fs []string) schema.FeatureSet {
	if len(fs) == 0 {
		if !b.d.EmptyContainers {
			return nil
		}
		fs = []string{} // an empty, non-nil set
	}
	if !b.d.SharedFeat {
		return schema.NewFeatureSet(fs...)
	}
	s := append([]string{}, fs...)
	sort.Strings(s)
	k := strings.Join(s, ",")
	if m, ok := b.feats[k]; ok {
		return m
	}
	m := schema.NewFeatureSet(fs...)
	b.feats[k] = m
	return m
}

func (b *builder) named(n string) schema.NamedType {
	if bt, ok := schema.BuiltInTypes[n]; ok {
		return bt
	}
	if t, ok := b.out.types[n]; ok {
		return t
	}
	panic("harness: reference to undefined type " + n)
}

func (b *builder) typ(t TRef) schema.Type {
	var ret schema.Type = b.named(t.N)
	for i := len(t.W) - 1; i >= 0; i-- {
		if t.W[i] == 'L' {
			ret = schema.NewListType(ret)
		} else {
			ret = schema.NewNonNullType(ret)
		}
	}
	return ret
}

// enumGoValue is the Go value of the enum value `name` of enum `typ`.
func (b *builder) enumGoValue(typ, name string) interface{} {
	if td := b.d.typeByName(typ); td != nil {
		for _, v := range td.Values {
			if v.Name == name && v.GoVal != "" {
				return v.GoVal
			}
		}
	}
	return ev{T: typ, N: name}
}

// goValue is the Go value a default denotes (the coercion normal form, see gen.value).
func (b *builder) goValue(v Val, t TRef, top bool) interface{} {
	if v.K == "null" {
		if top {
			return schema.Null
		}
		return nil
	}
	t = t.nullable()
	switch v.K {
	case "int":
		return int(v.I)
	case "float":
		return v.F
	case "str":
		return v.S
	case "bool":
		return v.B
	case "enum":
		return b.enumGoValue(t.N, v.S)
	case "list":
		if v.NilList && len(v.L) == 0 && !b.noNil {
			return []interface{}(nil)
		}
		out := make([]interface{}, len(v.L))
		inner := t
		if strings.HasPrefix(t.W, "L") {
			inner = t.inner()
		}
		for i, e := range v.L {
			out[i] = b.goValue(e, inner, false)
		}
		return out
	case "obj":
		m := map[string]interface{}{}
		td := b.d.typeByName(t.N)
		for _, f := range v.O {
			var ft TRef
			if td != nil {
				for _, in := range td.Inputs {
					if in.Name == f.Name {
						ft = in.Type
					}
				}
			}
			m[f.Name] = b.goValue(f.V, ft, false)
		}
		if td != nil && td.Wrap {
			return wrapped{T: td.Name, M: m}
		}
		return m
	}
	panic("harness: bad value kind " + v.K)
}

func (b *builder) applied(ds []AppliedDir) []*schema.Directive {
	if ds == nil {
		return nil
	}
	out := make([]*schema.Directive, len(ds))
	for i, ad := range ds {
		dd := b.d.dirByName(ad.Def)
		d := &schema.Directive{Definition: b.out.dirs[ad.Def]}
		if !ad.NilArgs {
			d.Arguments = make([]*schema.Argument, 0, len(ad.Args))
		}
		for _, a := range ad.Args {
			var at TRef
			if dd != nil {
				for _, da := range dd.Args {
					if da.Name == a.Name {
						at = da.Type
					}
				}
			}
			d.Arguments = append(d.Arguments, &schema.Argument{Name: a.Name, Value: b.goValue(a.V, at, false)})
		}
		out[i] = d
	}
	return out
}

func (b *builder) inputValues(ivs []InputVal) map[string]*schema.InputValueDefinition {
	if len(ivs) == 0 && !b.d.EmptyContainers {
		return nil
	}
	out := map[string]*schema.InputValueDefinition{}
	for _, iv := range ivs {
		def := &schema.InputValueDefinition{Description: iv.Desc, Type: b.typ(iv.Type), Directives: b.applied(iv.Dirs)}
		if iv.Def != nil {
			def.DefaultValue = b.goValue(*iv.Def, iv.Type, true)
		}
		out[iv.Name] = def
	}
	return out
}

func (b *builder) fields(fs []FieldDef) map[string]*schema.FieldDefinition {
	out := map[string]*schema.FieldDefinition{}
	for _, f := range fs {
		out[f.Name] = &schema.FieldDefinition{
			Description:       f.Desc,
			Type:              b.typ(f.Type),
			Arguments:         b.inputValues(f.Args),
			DeprecationReason: f.Depr,
			RequiredFeatures:  b.featureSet(f.Feat),
			Directives:        b.applied(f.Dirs),
			Resolve:           func(schema.FieldContext) (interface{}, error) { return nil, nil },
		}
	}
	return out
}

var locByName = map[string]schema.DirectiveLocation{}

func init() {
	for _, l := range allLocations {
		locByName[l] = schema.DirectiveLocation(l)
	}
}

// resetBuiltinDirectives restores the package-level skip/include definitions (a Clone that shares
// their containers lets the mutation step of the clone check write through to them).
func resetBuiltinDirectives() {
	for _, d := range []*schema.DirectiveDefinition{schema.SkipDirective, schema.IncludeDirective} {
		d.Locations = []schema.DirectiveLocation{schema.DirectiveLocationField, schema.DirectiveLocationFragmentSpread, schema.DirectiveLocationInlineFragment}
		d.Arguments = map[string]*schema.InputValueDefinition{"if": {Type: schema.NewNonNullType(schema.BooleanType)}}
	}
	schema.SkipDirective.Description = skipDesc
	schema.IncludeDirective.Description = includeDesc
}

// build constructs the real definition. It panics only on harness bugs.
func build(d *SDef) *built {
	buildSerial++
	b := &builder{d: d, out: &built{sdef: d, serial: buildSerial, types: map[string]schema.NamedType{}, dirs: map[string]*schema.DirectiveDefinition{}}, feats: map[string]schema.FeatureSet{}}
	// shells
	for i := range d.Types {
		t := &d.Types[i]
		switch t.Kind {
		case "scalar":
			sc := customScalar(t.Name, t.Desc)
			sc.RequiredFeatures = b.featureSet(t.Feat)
			b.out.types[t.Name] = sc
		case "enum":
			b.out.types[t.Name] = &schema.EnumType{Name: t.Name, Description: t.Desc, RequiredFeatures: b.featureSet(t.Feat)}
		case "input":
			b.out.types[t.Name] = &schema.InputObjectType{Name: t.Name, Description: t.Desc, RequiredFeatures: b.featureSet(t.Feat)}
		case "interface":
			b.out.types[t.Name] = &schema.InterfaceType{Name: t.Name, Description: t.Desc, RequiredFeatures: b.featureSet(t.Feat)}
		case "object":
			b.out.types[t.Name] = &schema.ObjectType{Name: t.Name, Description: t.Desc, RequiredFeatures: b.featureSet(t.Feat)}
		case "union":
			b.out.types[t.Name] = &schema.UnionType{Name: t.Name, Description: t.Desc, RequiredFeatures: b.featureSet(t.Feat)}
		default:
			panic("harness: bad kind " + t.Kind)
		}
	}
	// directive definitions (shells first: applied directives point at them)
	for i := range d.Dirs {
		dd := &d.Dirs[i]
		switch dd.Builtin {
		case "skip":
			b.out.dirs[dd.Name] = schema.SkipDirective
		case "include":
			b.out.dirs[dd.Name] = schema.IncludeDirective
		default:
			b.out.dirs[dd.Name] = &schema.DirectiveDefinition{Description: dd.Desc}
		}
	}
	// (unlisted definitions: the same structs, but not entered into SchemaDefinition.Directives)
	for i := range d.UDirs {
		b.out.dirs[d.UDirs[i].Name] = &schema.DirectiveDefinition{Description: d.UDirs[i].Desc}
	}
	for _, dd := range append(append([]DirDef{}, d.Dirs...), d.UDirs...) {
		if dd.Builtin != "" {
			continue
		}
		def := b.out.dirs[dd.Name]
		for _, l := range dd.Locs {
			def.Locations = append(def.Locations, locByName[l])
		}
		def.Arguments = b.inputValues(dd.Args)
	}
	// fill
	for i := range d.Types {
		t := &d.Types[i]
		switch n := b.out.types[t.Name].(type) {
		case *schema.ScalarType:
			n.Directives = b.applied(t.Dirs)
		case *schema.EnumType:
			n.Directives = b.applied(t.Dirs)
			n.Values = map[string]*schema.EnumValueDefinition{}
			for _, v := range t.Values {
				n.Values[v.Name] = &schema.EnumValueDefinition{Description: v.Desc, DeprecationReason: v.Depr, Value: b.enumGoValue(t.Name, v.Name), Directives: b.applied(v.Dirs)}
			}
		case *schema.InputObjectType:
			n.Directives = b.applied(t.Dirs)
			n.Fields = b.inputValues(t.Inputs)
			name := t.Name
			if t.Wrap {
				n.InputCoercion = func(m map[string]interface{}) (interface{}, error) { return wrapped{T: name, M: m}, nil }
				n.ResultCoercion = func(v interface{}) (map[string]interface{}, error) {
					if w, ok := v.(wrapped); ok && w.T == name {
						return w.M, nil
					}
					return nil, fmt.Errorf("not a %v", name)
				}
			} else {
				n.ResultCoercion = func(v interface{}) (map[string]interface{}, error) {
					if m, ok := v.(map[string]interface{}); ok {
						return m, nil
					}
					return nil, fmt.Errorf("not a map")
				}
			}
		case *schema.InterfaceType:
			n.Directives = b.applied(t.Dirs)
			n.Fields = b.fields(t.Fields)
		case *schema.ObjectType:
			n.Directives = b.applied(t.Dirs)
			n.Fields = b.fields(t.Fields)
			for _, in := range t.Ifaces {
				n.ImplementedInterfaces = append(n.ImplementedInterfaces, b.out.types[in].(*schema.InterfaceType))
			}
			n.IsTypeOf = func(interface{}) bool { return false }
		case *schema.UnionType:
			n.Directives = b.applied(t.Dirs)
			for _, m := range t.Members {
				n.MemberTypes = append(n.MemberTypes, b.out.types[m].(*schema.ObjectType))
			}
		}
	}
	def := &schema.SchemaDefinition{}
	if len(d.Dirs) > 0 {
		def.Directives = map[string]*schema.DirectiveDefinition{}
		for _, dd := range d.Dirs {
			def.Directives[dd.Name] = b.out.dirs[dd.Name]
		}
	}
	def.Query = b.out.types[d.Query].(*schema.ObjectType)
	if d.Mutation != "" {
		def.Mutation = b.out.types[d.Mutation].(*schema.ObjectType)
	}
	if d.Subscription != "" {
		def.Subscription = b.out.types[d.Subscription].(*schema.ObjectType)
	}
	for _, n := range d.Additional {
		def.AdditionalTypes = append(def.AdditionalTypes, b.named(n))
	}
	b.out.def = def
	return b.out
}
