// Typed extraction of a real *schema.SchemaDefinition into the S-expression the Lean model reads
// (lean/ApiFu/C10/Main.lean documents the grammar). Every map, slice and pointed-to struct gets an
// identity: the index of its address in first-visit order of the allocator that is passed in, so
// that the original and its clone can be numbered consistently (a container of the clone that has
// the address of a container of the original gets the original's number).
package main

import (
	"encoding/json"
	"fmt"
	"reflect"
	"sort"

	"github.com/ccbrown/api-fu/graphql/schema"

	"verifharness/hx"
)

type idAlloc struct {
	byAddr map[uintptr]int
	next   int
}

func newIDAlloc(first int) *idAlloc { return &idAlloc{byAddr: map[uintptr]int{}, next: first} }

// id returns the identity of a pointer / map / slice value ("none" for nil and for zero-capacity
// slices, which have no backing array of their own).
func (a *idAlloc) id(x interface{}) hx.Sexp {
	v := reflect.ValueOf(x)
	if !v.IsValid() {
		return hx.A("none")
	}
	switch v.Kind() {
	case reflect.Ptr, reflect.Map:
		if v.IsNil() {
			return hx.A("none")
		}
	case reflect.Slice:
		if v.IsNil() || v.Cap() == 0 {
			return hx.A("none")
		}
	default:
		return hx.A("none")
	}
	p := v.Pointer()
	if n, ok := a.byAddr[p]; ok {
		return hx.I(int64(n))
	}
	a.byAddr[p] = a.next
	a.next++
	return hx.I(int64(a.next - 1))
}

type extractor struct {
	ids   *idAlloc
	types map[string]schema.NamedType
	order []string
	err   error
}

func isNilSlice(x interface{}) bool {
	v := reflect.ValueOf(x)
	return !v.IsValid() || ((v.Kind() == reflect.Slice || v.Kind() == reflect.Map) && v.IsNil())
}

func (e *extractor) fail(format string, a ...interface{}) {
	if e.err == nil {
		e.err = fmt.Errorf(format, a...)
	}
}

// valOf abstracts an application value (default value, applied-directive argument).
func (e *extractor) valOf(v interface{}) hx.Sexp {
	if v == nil || v == schema.Null {
		return hx.A("null")
	}
	switch v := v.(type) {
	case int:
		return hx.N("int", hx.I(int64(v)))
	case float64:
		b, err := json.Marshal(v)
		if err != nil {
			e.fail("float default that JSON cannot print: %v", v)
		}
		return hx.N("float", hx.A(string(b)))
	case string:
		return hx.N("str", hx.A(v))
	case bool:
		return hx.N("bool", hx.B(v))
	case ev:
		return hx.N("enum", hx.A(v.N))
	case []interface{}:
		xs := []hx.Sexp{}
		for _, x := range v {
			xs = append(xs, e.valOf(x))
		}
		return hx.N("list", xs...)
	case map[string]interface{}:
		return e.objOf(v)
	case wrapped:
		return e.objOf(v.M)
	}
	e.fail("value outside the harness's domain: %#v", v)
	return hx.A("null")
}

// valOfT abstracts an application value stored at a position of type t: the Go value of an enum
// value becomes `(enum NAME)` for the entry that has that value (whatever the Go value is: a
// struct, the name itself, the name of another entry).
func (e *extractor) valOfT(v interface{}, t schema.Type) hx.Sexp {
	if v == nil || v == schema.Null || t == nil {
		return e.valOf(v)
	}
	switch tt := schema.NullableType(t).(type) {
	case *schema.ListType:
		if xs, ok := v.([]interface{}); ok {
			out := []hx.Sexp{}
			for _, x := range xs {
				out = append(out, e.valOfT(x, tt.Type))
			}
			return hx.N("list", out...)
		}
	case *schema.EnumType:
		names := []string{}
		for name := range tt.Values {
			names = append(names, name)
		}
		sort.Strings(names)
		for _, name := range names {
			if reflect.DeepEqual(tt.Values[name].Value, v) {
				return hx.N("enum", hx.A(name))
			}
		}
	case *schema.InputObjectType:
		var m map[string]interface{}
		switch x := v.(type) {
		case map[string]interface{}:
			m = x
		case wrapped:
			m = x.M
		}
		if m != nil {
			keys := []string{}
			for k := range m {
				keys = append(keys, k)
			}
			sort.Strings(keys)
			xs := []hx.Sexp{}
			for _, k := range keys {
				var ft schema.Type
				if f, ok := tt.Fields[k]; ok && f != nil {
					ft = f.Type
				}
				xs = append(xs, hx.L(hx.A(k), e.valOfT(m[k], ft)))
			}
			return hx.N("obj", xs...)
		}
	}
	return e.valOf(v)
}

func (e *extractor) objOf(m map[string]interface{}) hx.Sexp {
	keys := []string{}
	for k := range m {
		keys = append(keys, k)
	}
	sort.Strings(keys)
	xs := []hx.Sexp{}
	for _, k := range keys {
		xs = append(xs, hx.L(hx.A(k), e.valOf(m[k])))
	}
	return hx.N("obj", xs...)
}

func (e *extractor) note(t schema.NamedType) {
	if t == nil || reflect.ValueOf(t).IsNil() {
		return
	}
	name := t.TypeName()
	if old, ok := e.types[name]; ok {
		if old != t {
			// two different structs with one name: by-name references cannot express this
			e.fail("two distinct named types called %v", name)
		}
		return
	}
	e.types[name] = t
	e.order = append(e.order, name)
}

func (e *extractor) typ(t schema.Type) hx.Sexp {
	w := ""
	var outer interface{}
	cur := t
	for {
		switch x := cur.(type) {
		case *schema.ListType:
			if outer == nil {
				outer = x
			}
			w += "L"
			cur = x.Type
			continue
		case *schema.NonNullType:
			if outer == nil {
				outer = x
			}
			w += "N"
			cur = x.Type
			continue
		}
		break
	}
	named, ok := cur.(schema.NamedType)
	if !ok || named == nil {
		e.fail("type expression without a named leaf")
		return hx.N("t", hx.A("none"), hx.A(w), hx.A("?"))
	}
	e.note(named)
	wid := hx.A("none")
	if outer != nil {
		wid = e.ids.id(outer)
	}
	return hx.N("t", wid, hx.A(w), hx.A(named.TypeName()))
}

func (e *extractor) features(fs schema.FeatureSet) hx.Sexp {
	if fs == nil {
		return hx.N("feat", hx.A("none"))
	}
	keys := []string{}
	for k := range fs {
		keys = append(keys, k)
	}
	sort.Strings(keys)
	xs := []hx.Sexp{e.ids.id(fs)}
	for _, k := range keys {
		xs = append(xs, hx.A(k))
	}
	return hx.N("feat", xs...)
}

func (e *extractor) ddef(name string, d *schema.DirectiveDefinition) hx.Sexp {
	if d == nil {
		return hx.N("ddef", hx.A(name), hx.A(""), hx.N("self", hx.A("none")), hx.N("locs", hx.A("none")), hx.N("args", hx.A("none")))
	}
	locs := []hx.Sexp{}
	if d.Locations == nil {
		locs = append(locs, hx.A("none"))
	} else {
		locs = append(locs, e.ids.id(d.Locations))
		for _, l := range d.Locations {
			locs = append(locs, hx.A(string(l)))
		}
	}
	return hx.N("ddef", hx.A(name), hx.A(d.Description), hx.N("self", e.ids.id(d)), hx.N("locs", locs...), e.inputValues("args", d.Arguments))
}

func (e *extractor) applied(ds []*schema.Directive) hx.Sexp {
	if ds == nil {
		return hx.N("dirs", hx.A("none"))
	}
	xs := []hx.Sexp{e.ids.id(ds)}
	for _, d := range ds {
		args := []hx.Sexp{}
		if d.Arguments == nil {
			args = append(args, hx.A("none"))
		} else {
			args = append(args, e.ids.id(d.Arguments))
			for _, a := range d.Arguments {
				args = append(args, hx.N("arg", hx.N("self", e.ids.id(a)), hx.A(a.Name), e.valOf(a.Value)))
			}
		}
		xs = append(xs, hx.N("adir", hx.N("self", e.ids.id(d)), e.ddef("", d.Definition), hx.N("args", args...)))
	}
	return hx.N("dirs", xs...)
}

func (e *extractor) inputValues(tag string, m map[string]*schema.InputValueDefinition) hx.Sexp {
	if m == nil {
		return hx.N(tag, hx.A("none"))
	}
	keys := []string{}
	for k := range m {
		keys = append(keys, k)
	}
	sort.Strings(keys)
	xs := []hx.Sexp{e.ids.id(m)}
	for _, k := range keys {
		iv := m[k]
		def := hx.N("default", hx.A("none"))
		if iv.DefaultValue != nil {
			def = hx.N("default", e.valOfT(iv.DefaultValue, iv.Type))
		}
		xs = append(xs, hx.N("iv", hx.A(k), hx.A(iv.Description), hx.N("self", e.ids.id(iv)), e.typ(iv.Type), def, e.applied(iv.Directives)))
	}
	return hx.N(tag, xs...)
}

func (e *extractor) fields(m map[string]*schema.FieldDefinition) hx.Sexp {
	if m == nil {
		return hx.N("fields", hx.A("none"))
	}
	keys := []string{}
	for k := range m {
		keys = append(keys, k)
	}
	sort.Strings(keys)
	xs := []hx.Sexp{e.ids.id(m)}
	for _, k := range keys {
		f := m[k]
		xs = append(xs, hx.N("field", hx.A(k), hx.A(f.Description), hx.N("self", e.ids.id(f)), e.typ(f.Type), e.inputValues("args", f.Arguments),
			hx.A(f.DeprecationReason), e.features(f.RequiredFeatures), e.applied(f.Directives)))
	}
	return hx.N("fields", xs...)
}

func (e *extractor) namedType(t schema.NamedType) hx.Sexp {
	none := func(tag string) hx.Sexp { return hx.N(tag, hx.A("none")) }
	kind, desc := "", ""
	var feat schema.FeatureSet
	var dirs []*schema.Directive
	fields, ifaces, members, values, inputs := none("fields"), none("ifaces"), none("members"), none("values"), none("inputs")
	switch t := t.(type) {
	case *schema.ScalarType:
		kind, desc, feat, dirs = "scalar", t.Description, t.RequiredFeatures, t.Directives
	case *schema.EnumType:
		kind, desc, feat, dirs = "enum", t.Description, t.RequiredFeatures, t.Directives
		if t.Values != nil {
			keys := []string{}
			for k := range t.Values {
				keys = append(keys, k)
			}
			sort.Strings(keys)
			xs := []hx.Sexp{e.ids.id(t.Values)}
			for _, k := range keys {
				v := t.Values[k]
				xs = append(xs, hx.N("ev", hx.A(k), hx.A(v.Description), hx.N("self", e.ids.id(v)), hx.A(v.DeprecationReason), e.applied(v.Directives)))
			}
			values = hx.N("values", xs...)
		}
	case *schema.InputObjectType:
		kind, desc, feat, dirs = "input", t.Description, t.RequiredFeatures, t.Directives
		inputs = e.inputValues("inputs", t.Fields)
	case *schema.InterfaceType:
		kind, desc, feat, dirs = "interface", t.Description, t.RequiredFeatures, t.Directives
		fields = e.fields(t.Fields)
	case *schema.ObjectType:
		kind, desc, feat, dirs = "object", t.Description, t.RequiredFeatures, t.Directives
		fields = e.fields(t.Fields)
		if t.ImplementedInterfaces != nil {
			xs := []hx.Sexp{e.ids.id(t.ImplementedInterfaces)}
			for _, i := range t.ImplementedInterfaces {
				e.note(i)
				xs = append(xs, hx.A(i.Name))
			}
			ifaces = hx.N("ifaces", xs...)
		}
	case *schema.UnionType:
		kind, desc, feat, dirs = "union", t.Description, t.RequiredFeatures, t.Directives
		if t.MemberTypes != nil {
			xs := []hx.Sexp{e.ids.id(t.MemberTypes)}
			for _, m := range t.MemberTypes {
				e.note(m)
				xs = append(xs, hx.A(m.Name))
			}
			members = hx.N("members", xs...)
		}
	default:
		e.fail("unknown named type %T", t)
	}
	return hx.N("type", hx.A(kind), hx.A(t.TypeName()), hx.A(desc), hx.N("self", e.ids.id(t)), e.features(feat), e.applied(dirs), fields, ifaces, members, values, inputs)
}

// extract abstracts a definition. The result lists every named type reachable by following
// pointers (a superset of what schema.Inspect visits).
func extract(def *schema.SchemaDefinition, ids *idAlloc) (out hx.Sexp, err error) {
	defer func() {
		if p := recover(); p != nil {
			out, err = hx.A("broken"), fmt.Errorf("the definition is no longer well-formed (%v)", p)
		}
	}()
	e := &extractor{ids: ids, types: map[string]schema.NamedType{}}
	optName := func(tag string, o *schema.ObjectType) hx.Sexp {
		if o == nil {
			return hx.N(tag, hx.A("none"))
		}
		e.note(o)
		return hx.N(tag, hx.N("some", hx.A(o.Name)))
	}
	parts := []hx.Sexp{}
	q, m, s := optName("query", def.Query), optName("mutation", def.Mutation), optName("subscription", def.Subscription)
	add := []hx.Sexp{}
	if def.AdditionalTypes == nil {
		add = append(add, hx.A("none"))
	} else {
		add = append(add, e.ids.id(def.AdditionalTypes))
		for _, t := range def.AdditionalTypes {
			e.note(t)
			add = append(add, hx.A(t.TypeName()))
		}
	}
	dirs := []hx.Sexp{}
	if def.Directives == nil {
		dirs = append(dirs, hx.A("none"))
	} else {
		dirs = append(dirs, e.ids.id(def.Directives))
		keys := []string{}
		for k := range def.Directives {
			keys = append(keys, k)
		}
		sort.Strings(keys)
		for _, k := range keys {
			dirs = append(dirs, e.ddef(k, def.Directives[k]))
		}
	}
	// named types: worklist (extraction of a type notes the types it references)
	typeSexps := map[string]hx.Sexp{}
	for i := 0; i < len(e.order); i++ {
		n := e.order[i]
		typeSexps[n] = e.namedType(e.types[n])
	}
	names := append([]string{}, e.order...)
	sort.Strings(names)
	ts := []hx.Sexp{}
	for _, n := range names {
		ts = append(ts, typeSexps[n])
	}
	parts = append(parts, hx.N("types", ts...), q, m, s, hx.N("additional", add...), hx.N("directives", dirs...))
	return hx.N("def", parts...), e.err
}

// eraseIDs returns the expression with every identity replaced by 0 / kept "none": the part of a
// definition that is not about which container lives where.
func eraseIDs(x hx.Sexp) hx.Sexp {
	if !x.IsList {
		return x
	}
	out := hx.Sexp{IsList: true, List: make([]hx.Sexp, len(x.List))}
	tag := ""
	if len(x.List) > 0 && !x.List[0].IsList {
		tag = x.List[0].Atom
	}
	for i, e := range x.List {
		out.List[i] = eraseIDs(e)
	}
	idAt := -1
	switch tag {
	case "self":
		idAt = 1
	case "feat", "dirs", "args", "fields", "ifaces", "members", "values", "inputs", "locs", "additional", "directives", "t":
		idAt = 1
	}
	if idAt > 0 && idAt < len(out.List) && !out.List[idAt].IsList && out.List[idAt].Atom != "none" {
		out.List[idAt] = hx.A("0")
	}
	return out
}
