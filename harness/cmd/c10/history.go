// History part: a definition that has already been used is modified and built again.
//
// A schema must describe the definition it was built from, whatever happened to that definition (or
// to the definition it was cloned from) before: nothing derived from an earlier state may survive in
// the definition structs. Two histories, both with the same modification — the type of a directive
// argument is put behind a new feature "fz" (what a PreprocessGraphQLSchemaDefinition hook may do):
//
//	clone+hook   the definition is built (schema.New), cloned, the type is gated in the clone, the
//	             clone is built;
//	rebuild      a fresh definition is built, the type is gated in place, it is built again.
//
// Expected, computed from the SDef with the type gated (describe): without "fz" the type is not
// listed and the directive argument of that type is hidden; with it both are there.
package main

import (
	"encoding/json"
	"fmt"
	"sort"

	"github.com/ccbrown/api-fu/graphql/schema"
)

func gateType(t schema.NamedType, fs schema.FeatureSet) bool {
	switch t := t.(type) {
	case *schema.ScalarType:
		t.RequiredFeatures = fs
	case *schema.EnumType:
		t.RequiredFeatures = fs
	case *schema.InputObjectType:
		t.RequiredFeatures = fs
	default:
		return false
	}
	return true
}

func (h *harness) historyPart(c *Case, bt *built) (fails []failure) {
	d := c.S
	// a directive argument whose (non-built-in, ungated) type can be gated with the definition
	// still being accepted
	type site struct{ dir, arg, typ string }
	var sites []site
	for _, dd := range d.Dirs {
		for _, a := range dd.Args {
			if n := a.Type.N; !isBuiltinScalar(n) && d.typeByName(n) != nil && len(d.featOf(n)) == 0 && dd.Builtin == "" {
				sites = append(sites, site{dd.Name, a.Name, n})
			}
		}
	}
	sort.Slice(sites, func(i, j int) bool { return sites[i].dir+sites[i].arg < sites[j].dir+sites[j].arg })
	var pick *site
	var d2 *SDef
	for i := range sites {
		b, _ := json.Marshal(d)
		var cand SDef
		json.Unmarshal(b, &cand)
		cand.typeByName(sites[i].typ).Feat = []string{"fz"}
		if _, _, err := safeBuild(&cand); err == nil {
			pick, d2 = &sites[i], &cand
			break
		}
	}
	if pick == nil {
		h.count("history:no-gateable-directive-argument-type")
		return nil
	}
	h.count("history:cases")
	featSets := [][]string{{}, {"fz"}, append(append([]string{}, d.allFeatures()...), "fz")}
	compare := func(label string, s *schema.Schema) {
		for _, F := range featSets {
			data, errs, crash := execIntro(s, F)
			if crash != "" || len(errs) > 0 {
				fails = append(fails, failure{Part: "history", Kind: "property", Class: "history-intro-fails", What: fmt.Sprintf("%s, features %v: introspection fails: %v %v", label, F, crash, errs)})
				return
			}
			got, err := parseIntro(data)
			if err != nil {
				fails = append(fails, failure{Part: "history", Kind: "property", Class: "history-intro-shape", What: fmt.Sprintf("%s, features %v: %v", label, F, err)})
				return
			}
			if df := diff(d2.describe(F), got.maskDefaults()); df != "" {
				fails = append(fails, failure{Part: "history", Kind: "property", Class: "history-describe-mismatch",
					What: fmt.Sprintf("%s (type %s of @%s(%s:) put behind feature fz), features %v: introspection differs from the definition at %s", label, pick.typ, pick.dir, pick.arg, F, df)})
				return
			}
			if dr := got.danglingRefs(); len(dr) > 0 {
				fails = append(fails, failure{Part: "history", Kind: "property", Class: "history-dangling-ref", What: fmt.Sprintf("%s, features %v: type reference does not resolve to a listed type: %s -> %s", label, F, dr[0].Where, dr[0].Name)})
				return
			}
		}
	}
	func() {
		defer func() {
			if p := recover(); p != nil {
				fails = append(fails, failure{Part: "history", Kind: "crash", Class: "history-panic", What: fmt.Sprintf("panic: %v", p)})
			}
		}()
		// clone + hook (bt.def has been built by schema.New already)
		cl := bt.def.Clone()
		if dd := cl.Directives[pick.dir]; dd != nil && dd.Arguments[pick.arg] != nil {
			if gateType(schema.UnwrappedType(dd.Arguments[pick.arg].Type), schema.NewFeatureSet("fz")) {
				if s, err := schema.New(cl); err != nil {
					fails = append(fails, failure{Part: "history", Kind: "property", Class: "history-clone-rejected", What: "schema.New rejects the modified clone although the same definition built afresh is accepted: " + err.Error()})
				} else {
					compare("clone of a built definition, modified, built", s)
				}
			}
		}
		// build, modify in place, build again
		bt2, _, err := safeBuild(d)
		if err != nil {
			return
		}
		if gateType(bt2.types[pick.typ], schema.NewFeatureSet("fz")) {
			if s, err := schema.New(bt2.def); err != nil {
				fails = append(fails, failure{Part: "history", Kind: "property", Class: "history-rebuild-rejected", What: "schema.New rejects the modified definition although the same definition built afresh is accepted: " + err.Error()})
			} else {
				compare("definition built, modified in place, built again", s)
			}
		}
	}()
	return fails
}
