// The model-free oracle: what the standard introspection query must return for an SDef and a
// request feature set, computed directly from the definition (property statement: each element
// exactly once with the configured contents, every type reference resolves to a listed type),
// and the normaliser of the real response into the same shape.
package main

import (
	"encoding/json"
	"fmt"
	"reflect"
	"sort"
	"strings"
)

type RefD struct {
	Kind   string  `json:"kind"`
	Name   *string `json:"name"`
	OfType *RefD   `json:"ofType"`
}

type InputValueD struct {
	Name    string  `json:"name"`
	Desc    *string `json:"description"`
	Type    RefD    `json:"type"`
	Default *string `json:"defaultValue"`
}

type FieldD struct {
	Name         string        `json:"name"`
	Desc         *string       `json:"description"`
	Args         []InputValueD `json:"args"`
	Type         RefD          `json:"type"`
	IsDeprecated bool          `json:"isDeprecated"`
	Depr         *string       `json:"deprecationReason"`
}

type EnumValueD struct {
	Name         string  `json:"name"`
	Desc         *string `json:"description"`
	IsDeprecated bool    `json:"isDeprecated"`
	Depr         *string `json:"deprecationReason"`
}

type TypeD struct {
	Kind          string         `json:"kind"`
	Name          string         `json:"name"`
	Desc          *string        `json:"description"`
	Fields        *[]FieldD      `json:"fields"`
	InputFields   *[]InputValueD `json:"inputFields"`
	Interfaces    *[]RefD        `json:"interfaces"`
	EnumValues    *[]EnumValueD  `json:"enumValues"`
	PossibleTypes *[]RefD        `json:"possibleTypes"`
}

type DirectiveD struct {
	Name      string        `json:"name"`
	Desc      *string       `json:"description"`
	Locations []string      `json:"locations"`
	Args      []InputValueD `json:"args"`
}

type NameD struct {
	Name string `json:"name"`
}

type IntroD struct {
	QueryType        NameD        `json:"queryType"`
	MutationType     *NameD       `json:"mutationType"`
	SubscriptionType *NameD       `json:"subscriptionType"`
	Types            []TypeD      `json:"types"`
	Directives       []DirectiveD `json:"directives"`
}

func optStr(s string) *string {
	if s == "" {
		return nil
	}
	return &s
}

var kindName = map[string]string{"scalar": "SCALAR", "object": "OBJECT", "interface": "INTERFACE", "union": "UNION", "enum": "ENUM", "input": "INPUT_OBJECT"}

// maxRefLevels is the number of kind/name levels the standard query asks for in a type reference
// (query.go: TypeRef has 8 levels, i.e. a named type under at most 7 wrappers).
const maxRefLevels = 8

func (d *SDef) refD(t TRef) RefD {
	return d.refLevels(t, maxRefLevels)
}

func (d *SDef) refLevels(t TRef, levels int) RefD {
	if t.W == "" {
		n := t.N
		return RefD{Kind: kindName[d.kindOf(t.N)], Name: &n}
	}
	k := "LIST"
	if t.W[0] == 'N' {
		k = "NON_NULL"
	}
	r := RefD{Kind: k}
	if levels > 1 {
		in := d.refLevels(t.inner(), levels-1)
		r.OfType = &in
	}
	return r
}

func namedRef(kind, name string) RefD { n := name; return RefD{Kind: kind, Name: &n} }

// reachable is the set of named types of the schema: everything schema.Inspect reaches from the
// directive definitions, the root operation types and the additional types (appdirs.go).
func (d *SDef) reachable() map[string]bool { return d.reach(false) }

const defaultMarker = "<default>"

func (d *SDef) describeInputs(ivs []InputVal) []InputValueD {
	out := []InputValueD{}
	for _, iv := range ivs {
		x := InputValueD{Name: iv.Name, Desc: optStr(iv.Desc), Type: d.refD(iv.Type)}
		if iv.Def != nil {
			m := defaultMarker
			x.Default = &m
		}
		out = append(out, x)
	}
	sort.SliceStable(out, func(i, j int) bool { return out[i].Name < out[j].Name })
	return out
}

// describe computes the expected introspection result for request features F.
func (d *SDef) describe(F []string) IntroD {
	reach := d.reachable()
	visible := func(n string) bool { return reach[n] && subset(d.featOf(n), F) }
	out := IntroD{QueryType: NameD{d.Query}, Types: []TypeD{}, Directives: []DirectiveD{}}
	// a mutation / subscription root type whose required features the request does not have is
	// treated as absent (fix C13/04)
	if d.Mutation != "" && subset(d.featOf(d.Mutation), F) {
		out.MutationType = &NameD{d.Mutation}
	}
	if d.Subscription != "" && subset(d.featOf(d.Subscription), F) {
		out.SubscriptionType = &NameD{d.Subscription}
	}
	var names []string
	for n := range reach {
		names = append(names, n)
	}
	sort.Strings(names)
	for _, n := range names {
		if !visible(n) {
			continue
		}
		if isBuiltinScalar(n) {
			out.Types = append(out.Types, TypeD{Kind: "SCALAR", Name: n})
			continue
		}
		t := d.typeByName(n)
		td := TypeD{Kind: kindName[t.Kind], Name: n, Desc: optStr(t.Desc)}
		switch t.Kind {
		case "object", "interface":
			fs := []FieldD{}
			for _, f := range t.Fields {
				if !subset(f.Feat, F) {
					continue
				}
				fs = append(fs, FieldD{Name: f.Name, Desc: optStr(f.Desc), Args: d.describeInputs(f.Args), Type: d.refD(f.Type), IsDeprecated: f.Depr != "", Depr: optStr(f.Depr)})
			}
			sort.SliceStable(fs, func(i, j int) bool { return fs[i].Name < fs[j].Name })
			td.Fields = &fs
			if t.Kind == "object" {
				is := []RefD{}
				for _, i := range t.Ifaces {
					if visible(i) {
						is = append(is, namedRef("INTERFACE", i))
					}
				}
				sortRefs(is)
				td.Interfaces = &is
			} else {
				ps := []RefD{}
				for _, o := range d.Types {
					if o.Kind != "object" || !visible(o.Name) {
						continue
					}
					for _, i := range o.Ifaces {
						if i == n {
							ps = append(ps, namedRef("OBJECT", o.Name))
						}
					}
				}
				sortRefs(ps)
				td.PossibleTypes = &ps
			}
		case "union":
			ps := []RefD{}
			for _, m := range t.Members {
				// (schema.New guarantees that a member is visible whenever its union is; the
				// visible schema's possible types are the visible members in any case)
				if visible(m) {
					ps = append(ps, namedRef("OBJECT", m))
				}
			}
			sortRefs(ps)
			td.PossibleTypes = &ps
		case "enum":
			vs := []EnumValueD{}
			for _, v := range t.Values {
				vs = append(vs, EnumValueD{Name: v.Name, Desc: optStr(v.Desc), IsDeprecated: v.Depr != "", Depr: optStr(v.Depr)})
			}
			sort.SliceStable(vs, func(i, j int) bool { return vs[i].Name < vs[j].Name })
			td.EnumValues = &vs
		case "input":
			ivs := d.describeInputs(t.Inputs)
			td.InputFields = &ivs
		}
		out.Types = append(out.Types, td)
	}
	for _, dd := range d.Dirs {
		locs := append([]string{}, dd.Locs...)
		sort.Strings(locs)
		// a directive argument whose type's required features the request does not have is treated
		// as undefined (fix C13/05, DirectiveDefinition.VisibleArguments)
		var args []InputVal
		for _, a := range dd.Args {
			if subset(d.featOf(a.Type.N), F) {
				args = append(args, a)
			}
		}
		out.Directives = append(out.Directives, DirectiveD{Name: dd.Name, Desc: optStr(dd.Desc), Locations: locs, Args: d.describeInputs(args)})
	}
	sort.SliceStable(out.Directives, func(i, j int) bool { return out.Directives[i].Name < out.Directives[j].Name })
	return out
}

func refKey(r RefD) string {
	b, _ := json.Marshal(r)
	if r.Name != nil {
		return *r.Name + "\x00" + string(b)
	}
	return "\x00" + string(b)
}

func sortRefs(rs []RefD) {
	sort.SliceStable(rs, func(i, j int) bool { return refKey(rs[i]) < refKey(rs[j]) })
}

// sortIntro normalises list order (everything that comes out of a Go map, plus the slices whose
// order the property does not speak about).
func sortIntro(x *IntroD) {
	sortIVs := func(ivs []InputValueD) {
		sort.SliceStable(ivs, func(i, j int) bool { return ivs[i].Name < ivs[j].Name })
	}
	sort.SliceStable(x.Types, func(i, j int) bool { return x.Types[i].Name < x.Types[j].Name })
	for i := range x.Types {
		t := &x.Types[i]
		if t.Fields != nil {
			fs := *t.Fields
			sort.SliceStable(fs, func(i, j int) bool { return fs[i].Name < fs[j].Name })
			for j := range fs {
				sortIVs(fs[j].Args)
			}
		}
		if t.InputFields != nil {
			sortIVs(*t.InputFields)
		}
		if t.Interfaces != nil {
			sortRefs(*t.Interfaces)
		}
		if t.PossibleTypes != nil {
			sortRefs(*t.PossibleTypes)
		}
		if t.EnumValues != nil {
			vs := *t.EnumValues
			sort.SliceStable(vs, func(i, j int) bool { return vs[i].Name < vs[j].Name })
		}
	}
	sort.SliceStable(x.Directives, func(i, j int) bool { return x.Directives[i].Name < x.Directives[j].Name })
	for i := range x.Directives {
		sort.Strings(x.Directives[i].Locations)
		sortIVs(x.Directives[i].Args)
	}
}

// parseIntro decodes the "data" member of an introspection response.
func parseIntro(data []byte) (*IntroD, error) {
	var wrap struct {
		Schema *IntroD `json:"__schema"`
	}
	dec := json.NewDecoder(strings.NewReader(string(data)))
	dec.DisallowUnknownFields()
	if err := dec.Decode(&wrap); err != nil {
		return nil, err
	}
	if wrap.Schema == nil {
		return nil, fmt.Errorf("no __schema in the response")
	}
	sortIntro(wrap.Schema)
	return wrap.Schema, nil
}

// forEachInputValue visits every argument / input field / directive argument with a path label.
func (x *IntroD) forEachInputValue(f func(path string, iv *InputValueD)) {
	for i := range x.Types {
		t := &x.Types[i]
		if t.Fields != nil {
			for j := range *t.Fields {
				fd := &(*t.Fields)[j]
				for k := range fd.Args {
					f(t.Name+"."+fd.Name+"("+fd.Args[k].Name+":)", &fd.Args[k])
				}
			}
		}
		if t.InputFields != nil {
			for j := range *t.InputFields {
				f(t.Name+"."+(*t.InputFields)[j].Name, &(*t.InputFields)[j])
			}
		}
	}
	for i := range x.Directives {
		for k := range x.Directives[i].Args {
			f("@"+x.Directives[i].Name+"("+x.Directives[i].Args[k].Name+":)", &x.Directives[i].Args[k])
		}
	}
}

// maskDefaults returns a copy in which every printed default value is replaced by the marker.
func (x *IntroD) maskDefaults() *IntroD {
	b, _ := json.Marshal(x)
	var c IntroD
	json.Unmarshal(b, &c)
	c.forEachInputValue(func(_ string, iv *InputValueD) {
		if iv.Default != nil {
			m := defaultMarker
			iv.Default = &m
		}
	})
	return &c
}

// diff returns a description of the first difference between two JSON-able values ("" if equal).
func diff(want, got interface{}) string {
	wb, _ := json.Marshal(want)
	gb, _ := json.Marshal(got)
	if string(wb) == string(gb) {
		return ""
	}
	var w, g interface{}
	json.Unmarshal(wb, &w)
	json.Unmarshal(gb, &g)
	return diffAny("", w, g)
}

func label(v interface{}) string {
	if m, ok := v.(map[string]interface{}); ok {
		if n, ok := m["name"].(string); ok {
			return n
		}
	}
	return ""
}

func short(v interface{}) string {
	b, _ := json.Marshal(v)
	if len(b) > 160 {
		return string(b[:160]) + "…"
	}
	return string(b)
}

func diffAny(path string, w, g interface{}) string {
	if reflect.DeepEqual(w, g) {
		return ""
	}
	switch wv := w.(type) {
	case map[string]interface{}:
		gv, ok := g.(map[string]interface{})
		if !ok {
			return fmt.Sprintf("%s: want %s, got %s", path, short(w), short(g))
		}
		keys := []string{}
		for k := range wv {
			keys = append(keys, k)
		}
		sort.Strings(keys)
		for _, k := range keys {
			if d := diffAny(path+"."+k, wv[k], gv[k]); d != "" {
				return d
			}
		}
	case []interface{}:
		gv, ok := g.([]interface{})
		if !ok {
			return fmt.Sprintf("%s: want %s, got %s", path, short(w), short(g))
		}
		// name-labelled lists: report missing / extra / duplicated members by name
		wn, gn := map[string]int{}, map[string]int{}
		for _, e := range wv {
			wn[label(e)]++
		}
		for _, e := range gv {
			gn[label(e)]++
		}
		for n, c := range wn {
			if n != "" && gn[n] != c {
				return fmt.Sprintf("%s: member %q expected %d time(s), listed %d time(s)", path, n, c, gn[n])
			}
		}
		for n, c := range gn {
			if n != "" && wn[n] != c {
				return fmt.Sprintf("%s: member %q expected %d time(s), listed %d time(s)", path, n, wn[n], c)
			}
		}
		if len(wv) != len(gv) {
			return fmt.Sprintf("%s: want %d entries, got %d", path, len(wv), len(gv))
		}
		for i := range wv {
			p := fmt.Sprintf("%s[%d]", path, i)
			if l := label(wv[i]); l != "" {
				p = path + "[" + l + "]"
			}
			if d := diffAny(p, wv[i], gv[i]); d != "" {
				return d
			}
		}
	}
	return fmt.Sprintf("%s: want %s, got %s", path, short(w), short(g))
}

type dangling struct {
	Where, Name string
}

// danglingRefs lists named type references that do not resolve to a listed type.
func (x *IntroD) danglingRefs() []dangling {
	listed := map[string]bool{}
	for _, t := range x.Types {
		listed[t.Name] = true
	}
	var out []dangling
	var chk func(where string, r *RefD)
	chk = func(where string, r *RefD) {
		for r != nil {
			if r.Name != nil && !listed[*r.Name] {
				out = append(out, dangling{where, *r.Name})
			}
			r = r.OfType
		}
	}
	if !listed[x.QueryType.Name] {
		out = append(out, dangling{"queryType", x.QueryType.Name})
	}
	if x.MutationType != nil && !listed[x.MutationType.Name] {
		out = append(out, dangling{"mutationType", x.MutationType.Name})
	}
	if x.SubscriptionType != nil && !listed[x.SubscriptionType.Name] {
		out = append(out, dangling{"subscriptionType", x.SubscriptionType.Name})
	}
	for i := range x.Types {
		t := &x.Types[i]
		if t.Fields != nil {
			for j := range *t.Fields {
				chk(t.Name+"."+(*t.Fields)[j].Name, &(*t.Fields)[j].Type)
			}
		}
		if t.Interfaces != nil {
			for j := range *t.Interfaces {
				chk(t.Name+" interfaces", &(*t.Interfaces)[j])
			}
		}
		if t.PossibleTypes != nil {
			for j := range *t.PossibleTypes {
				chk(t.Name+" possibleTypes", &(*t.PossibleTypes)[j])
			}
		}
	}
	x.forEachInputValue(func(p string, iv *InputValueD) { chk(p, &iv.Type) })
	return out
}
