// Harness for C10 — introspection describes the visible schema completely, exactly and
// re-buildably.
//
// Per generated schema definition (SDef):
//
//	intro    real graphql.Execute(introspection.Query) for several request feature sets, normalised,
//	         vs (oracle) describe() computed directly from the SDef and (tie) the Lean model's
//	         `introspect` on the extracted real definition + the registries of the real schema.New;
//	defaults every printed defaultValue through the real parser.ParseValue + schema.CoerceLiteral
//	         must give the configured default;
//	rebuild  JSON -> introspection.SchemaData -> GetSchemaDefinition -> schema.New; a stream of valid
//	         and mutated documents must get the same verdict from graphql.ParseAndValidate on both
//	         (built-in scalars only); the rebuilt definition vs the model's `rebuild`;
//	clone    introspection of Clone() equals the original's; no mutable container shared (reflection
//	         walk over addresses); mutating everything in the clone leaves the original unchanged;
//	         sharing pattern vs the model's `clone` over the heap model.
package main

import (
	"context"
	"encoding/json"
	"fmt"
	"os"
	"sort"
	"strings"
	"time"

	"github.com/ccbrown/api-fu/graphql"
	"github.com/ccbrown/api-fu/graphql/schema"
	"github.com/ccbrown/api-fu/graphql/schema/introspection"

	"verifharness/hx"
)

type Case struct {
	S     *SDef      `json:"schema"`
	Feats [][]string `json:"feature_sets"`
	// documents for the rebuild part: generated from DocSeed unless Docs is given
	DocSeed uint64   `json:"doc_seed,omitempty"`
	NDocs   int      `json:"n_docs,omitempty"`
	Docs    []string `json:"docs,omitempty"`
	// Parts restricts what is run (empty = everything)
	Parts []string `json:"parts,omitempty"`
	Note  string   `json:"note,omitempty"`
}

func (c *Case) has(part string) bool {
	if len(c.Parts) == 0 {
		return true
	}
	for _, p := range c.Parts {
		if p == part {
			return true
		}
	}
	return false
}

type failure struct {
	Part    string // intro | defaults | rebuild | clone
	Kind    string // property | correspondence | crash
	Class   string // coarse signature used while shrinking
	What    string
	Finding string // known-finding key the failing case matched ("" = none)
	// NoInput: the model and the code disagree but the oracle holds
	NoInput bool
}

type harness struct {
	run   *hx.Run
	model *hx.Model
	quiet bool // no counters / obligations (shrinking, classifier probes)
	reported map[string]int
	curDef   int // serial of the build whose definition the model driver currently holds
	// keepDefaults: the implementation's GetSchemaDefinition carries default values (fix patch 06)
	keepDefaults bool
	// clonesAll: Clone also copies the named types Inspect does not reach (finding F-10i repaired)
	clonesAll bool
}

func (h *harness) count(k string) {
	if !h.quiet {
		h.run.Count(k)
	}
}

func execIntro(s *schema.Schema, F []string) (data []byte, errs []string, crash string) {
	defer func() {
		if p := recover(); p != nil {
			crash = fmt.Sprintf("panic during introspection: %v", p)
		}
	}()
	var fs schema.FeatureSet
	if F != nil {
		fs = schema.NewFeatureSet(F...)
	}
	resp := graphql.Execute(&graphql.Request{Context: context.Background(), Query: string(introspection.Query), Schema: s, Features: fs})
	for _, e := range resp.Errors {
		errs = append(errs, fmt.Sprintf("%v at %v", e.Message, e.Path))
	}
	if resp.Data == nil {
		return nil, errs, ""
	}
	b, err := json.Marshal(*resp.Data)
	if err != nil {
		return nil, errs, "response data does not marshal: " + err.Error()
	}
	return b, errs, ""
}

func safeBuild(d *SDef) (bt *built, s *schema.Schema, err error) {
	defer func() {
		if p := recover(); p != nil {
			err = fmt.Errorf("build: %v", p)
		}
	}()
	bt = build(d)
	s, err = schema.New(bt.def)
	return bt, s, err
}

// configuredDefaults maps the path label of every argument / input field / directive argument that
// has a default to its real type and configured Go value.
type confDefault struct {
	Typ  schema.Type
	Conf interface{} // the configured Go value
	Val  Val
	// Want: what the printed literal must coerce back to = the configured value in coercion normal
	// form (equal to Conf unless the configured value omits input-object fields that have defaults)
	Want interface{}
}

func configuredDefaults(bt *built) map[string]confDefault {
	out := map[string]confDefault{}
	d := bt.sdef
	add := func(path string, iv InputVal, def *schema.InputValueDefinition) {
		if iv.Def != nil && def != nil {
			nb := &builder{d: d, out: bt, noNil: true}
			out[path] = confDefault{Typ: def.Type, Conf: def.DefaultValue, Val: *iv.Def, Want: nb.goValue(normalForm(d, *iv.Def, iv.Type), iv.Type, true)}
		}
	}
	for _, t := range d.Types {
		switch n := bt.types[t.Name].(type) {
		case *schema.ObjectType:
			for _, f := range t.Fields {
				for _, a := range f.Args {
					add(t.Name+"."+f.Name+"("+a.Name+":)", a, n.Fields[f.Name].Arguments[a.Name])
				}
			}
		case *schema.InterfaceType:
			for _, f := range t.Fields {
				for _, a := range f.Args {
					add(t.Name+"."+f.Name+"("+a.Name+":)", a, n.Fields[f.Name].Arguments[a.Name])
				}
			}
		case *schema.InputObjectType:
			for _, f := range t.Inputs {
				add(t.Name+"."+f.Name, f, n.Fields[f.Name])
			}
		}
	}
	for _, dd := range d.Dirs {
		for _, a := range dd.Args {
			add("@"+dd.Name+"("+a.Name+":)", a, bt.dirs[dd.Name].Arguments[a.Name])
		}
	}
	return out
}

// runCase evaluates one case and returns its failures. rejected: schema.New refused the definition.
func (h *harness) runCase(c *Case) (fails []failure, rejected bool) {
	defer resetBuiltinDirectives()
	if len(c.Parts) == 1 && c.Parts[0] == "clonecrash" {
		return h.cloneCrashPart(c), false
	}
	bt, s, err := safeBuild(c.S)
	if err != nil {
		h.count("schema.New error: " + errClass(err.Error()))
		if c.S.hasIllegalName() {
			h.count("schema:rejected-with-an-illegal-name")
		}
		return nil, true
	}
	fail := func(f failure) { fails = append(fails, f) }
	all := c.S.allFeatures()

	var allData []byte
	var allIntro *IntroD
	if c.has("intro") || c.has("defaults") || c.has("rebuild") {
		feats := c.Feats
		if len(feats) == 0 {
			feats = [][]string{all}
		}
		for _, F := range feats {
			data, errs, crash := execIntro(s, F)
			if crash != "" {
				fail(failure{Part: "intro", Kind: "crash", Class: "intro-crash", What: crash})
				continue
			}
			if len(errs) > 0 {
				fail(failure{Part: "intro", Kind: "property", Class: "intro-errors:" + errClass(errs[0]), What: fmt.Sprintf("features %v: the introspection query answered with errors: %v", F, errs[0])})
				continue
			}
			got, err := parseIntro(data)
			if err != nil {
				fail(failure{Part: "intro", Kind: "property", Class: "intro-shape", What: fmt.Sprintf("features %v: response is not of the shape the query asks for: %v", F, err)})
				continue
			}
			if sameSet(F, all) {
				allData, allIntro = data, got
			}
			if c.has("intro") {
				h.count("intro:feature-sets")
				want := c.S.describe(F)
				if d := diff(want, got.maskDefaults()); d != "" {
					fail(failure{Part: "intro", Kind: "property", Class: "describe-mismatch", What: fmt.Sprintf("features %v: introspection differs from the definition at %s", F, d)})
				}
				if dr := got.danglingRefs(); len(dr) > 0 {
					fail(failure{Part: "intro", Kind: "property", Class: "dangling-ref", What: fmt.Sprintf("features %v: type reference does not resolve to a listed type: %s -> %s", F, dr[0].Where, dr[0].Name)})
				}
				if h.model != nil {
					if f := h.tieIntro(bt, s, F, got); f != nil {
						// model and code disagree: is the property violated on the implementation's output?
						f.NoInput = unexplained(fails) == 0
						if !f.NoInput {
							f = nil // the oracle failure above already carries the input
						}
						if f != nil {
							fail(*f)
						}
					}
				}
			}
		}
		if allIntro == nil && (c.has("defaults") || c.has("rebuild")) {
			data, errs, crash := execIntro(s, all)
			if crash == "" && len(errs) == 0 {
				if got, err := parseIntro(data); err == nil {
					allData, allIntro = data, got
				}
			}
		}
	}

	if c.has("defaults") && allIntro != nil {
		conf := configuredDefaults(bt)
		printed := map[string]string{}
		allIntro.forEachInputValue(func(p string, iv *InputValueD) {
			if iv.Default != nil {
				printed[p] = *iv.Default
			}
		})
		paths := []string{}
		for p := range conf {
			paths = append(paths, p)
		}
		sort.Strings(paths)
		for _, p := range paths {
			cd := conf[p]
			text, ok := printed[p]
			if !ok {
				continue // not listed (unreachable type) or already reported by the intro part
			}
			h.count("defaults:checked")
			h.count("defaults:kind:" + cd.Val.K)
			if h.model != nil && !h.quiet {
				if f := h.tieRoundTrip(bt, cd, p, text); f != nil {
					f.NoInput = true
					fail(*f)
				}
			}
			if prob := roundTrip(text, cd.Typ, cd.Want); prob != "" {
				f := failure{Part: "defaults", Kind: "property", Class: "default-roundtrip", What: p + ": " + prob}
				if hasAstral(cd.Val) && h.astralOnly(c, p) {
					f.Finding = "F-10b-astral-default-string-printed-raw"
				}
				fail(f)
			}
		}
	}

	if c.has("rebuild") && allIntro != nil && onlyBuiltinScalars(c.S) {
		fails = append(fails, h.rebuildPart(c, bt, s, allData, allIntro)...)
	}

	if c.has("history") {
		fails = append(fails, h.historyPart(c, bt)...)
	}

	if c.has("clone") {
		fails = append(fails, h.clonePart(c, bt, s)...)
	}
	if c.has("config") {
		fails = append(fails, h.configPart(c)...)
	}
	return fails, false
}

// errClass keeps the letters of the first words of an error message (a coarse class for shrinking).
func errClass(msg string) string {
	out := []rune{}
	for _, c := range msg {
		if len(out) >= 18 {
			break
		}
		if (c >= 'a' && c <= 'z') || c == ' ' {
			out = append(out, c)
		}
	}
	return string(out)
}

// unexplained counts the failures that are not attributed to a known finding.
func unexplained(fs []failure) int {
	n := 0
	for _, f := range fs {
		if f.Finding == "" {
			n++
		}
	}
	return n
}

func sameSet(a, b []string) bool { return subset(a, b) && subset(b, a) }

func onlyBuiltinScalars(d *SDef) bool {
	for _, t := range d.Types {
		if t.Kind == "scalar" {
			return false
		}
	}
	return true
}

// astralOnly: the default at path fails only because of code points above U+FFFF — the same
// schema with those replaced by a BMP character round-trips at that path.
func (h *harness) astralOnly(c *Case, path string) bool {
	b, _ := json.Marshal(c.S)
	var d SDef
	json.Unmarshal(b, &d)
	strip := func(ivs []InputVal) {
		for i := range ivs {
			if ivs[i].Def != nil {
				v := stripAstral(*ivs[i].Def)
				ivs[i].Def = &v
			}
		}
	}
	for i := range d.Types {
		strip(d.Types[i].Inputs)
		for j := range d.Types[i].Fields {
			strip(d.Types[i].Fields[j].Args)
		}
	}
	for i := range d.Dirs {
		strip(d.Dirs[i].Args)
	}
	bt, s, err := safeBuild(&d)
	if err != nil {
		return false
	}
	data, errs, crash := execIntro(s, d.allFeatures())
	if crash != "" || len(errs) > 0 {
		return false
	}
	got, err := parseIntro(data)
	if err != nil {
		return false
	}
	cd, ok := configuredDefaults(bt)[path]
	if !ok {
		return false
	}
	text := ""
	got.forEachInputValue(func(p string, iv *InputValueD) {
		if p == path && iv.Default != nil {
			text = *iv.Default
		}
	})
	return roundTrip(text, cd.Typ, cd.Want) == ""
}

// ---- rebuild ---------------------------------------------------------------------------------

func (h *harness) docsFor(c *Case) ([]string, []string) {
	if len(c.Docs) > 0 {
		muts := make([]string, len(c.Docs))
		for i := range muts {
			muts[i] = "given"
		}
		return c.Docs, muts
	}
	r := hx.NewRand(c.DocSeed)
	var docs, muts []string
	for i := 0; i < c.NDocs; i++ {
		d, m := genDoc(r.Fork(), c.S)
		docs = append(docs, d)
		muts = append(muts, m)
	}
	return docs, muts
}

func (h *harness) rebuildPart(c *Case, bt *built, s *schema.Schema, data []byte, intro *IntroD) (fails []failure) {
	// the schema is rebuilt from the result as delivered and from the same result with every list of
	// named members in ascending and in descending name order (list order is arbitrary)
	// … and each of them several times: GetSchemaDefinition iterates over Go maps internally, and a
	// rebuilt definition must not depend on that order either. Repeats that give the same definition
	// (always, on a deterministic implementation) are evaluated once.
	type variant struct {
		order string
		data  []byte
		s     *schema.Schema
		def   *schema.SchemaDefinition
	}
	const repeats = 8
	var variants []*variant
	for oi, o := range []struct {
		order string
		data  []byte
	}{{"as delivered", data}, {"ascending", reorderIntro(data, false)}, {"descending", reorderIntro(data, true)}} {
		seen := map[string]bool{}
		for rep := 0; rep < repeats; rep++ {
			s2, def2, err := rebuildSchemaDef(o.data)
			if err != nil {
				return []failure{{Part: "rebuild", Kind: "property", Class: "rebuild-fails", What: "a schema cannot be rebuilt from the introspection result (lists " + o.order + "): " + err.Error()}}
			}
			key := ""
			if x, err := extract(def2, newIDAlloc(1)); err == nil {
				key = eraseIDs(x).String()
			} else {
				key = fmt.Sprintf("unextractable %d: %v", rep, err)
			}
			if seen[key] {
				continue
			}
			seen[key] = true
			name := o.order
			if len(seen) > 1 {
				name = fmt.Sprintf("%s, rebuild no. %d gives a different definition than the first", o.order, rep+1)
				h.count("rebuild:nondeterministic-rebuilds")
			}
			variants = append(variants, &variant{order: name, data: o.data, s: s2, def: def2})
		}
		_ = oi
	}
	h.count("rebuild:schemas")
	allF := schema.NewFeatureSet(c.S.allFeatures()...)
	docs, muts := h.docsFor(c)
	restored := map[string]*schema.Schema{}
	for i, q := range docs {
		v1 := validate(q, s, allF)
		h.count("rebuild:doc:" + muts[i] + ":" + v1.V)
		h.count("rebuild:docs")
		for _, vr := range variants {
			v2 := validate(q, vr.s, nil)
			if v1.V == v2.V {
				continue
			}
			f := failure{Part: "rebuild", Kind: "property", Class: "verdict-differs",
				What: fmt.Sprintf("document %q: original schema says %s %v, schema rebuilt from the introspection result (lists %s) says %s %v", q, v1.V, firstN(v1.Msgs, 2), vr.order, v2.V, firstN(v2.Msgs, 2))}
			// F-10a classifier (the finding is fixed; a match is reported as a recurrence): with the
			// configured defaults copied onto the rebuilt definition the verdicts agree
			if restored[vr.order] == nil {
				if r, err := rebuildSchema(vr.data); err == nil {
					restoreDefaults(s, r)
					restored[vr.order] = r
				}
			}
			if r := restored[vr.order]; r != nil && validate(q, r, nil).V == v1.V && v1.V == "ok" {
				f.Finding = "F-10a-rebuilt-schema-loses-defaults"
				f.Class = "verdict-differs-default-lost"
			}
			fails = append(fails, f)
			break
		}
	}
	if h.model != nil && !h.quiet {
		// the model's rebuilt definition does not depend on list order: compared with the
		// implementation's for the result as delivered and for the descending order
		for _, vr := range variants {
			if strings.HasPrefix(vr.order, "ascending") && vr.order == "ascending" {
				continue // same definition as "descending" on a deterministic implementation; the repeats are still compared
			}
			if f := h.tieRebuild(bt, s, vr.def, vr.order != "as delivered"); f != nil {
				f.What = "(lists " + vr.order + ") " + f.What
				f.NoInput = unexplained(fails) == 0
				if f.NoInput {
					fails = append(fails, *f)
				}
				break
			}
		}
	}
	return fails
}

func firstN(xs []string, n int) []string {
	if len(xs) > n {
		return xs[:n]
	}
	return xs
}

// ---- clone -----------------------------------------------------------------------------------

func (h *harness) clonePart(c *Case, bt *built, s *schema.Schema) (fails []failure) {
	fail := func(f failure) { fails = append(fails, f) }
	all := c.S.allFeatures()
	var cl *schema.SchemaDefinition
	func() {
		defer func() {
			if p := recover(); p != nil {
				fail(failure{Part: "clone", Kind: "crash", Class: "clone-panic", What: fmt.Sprintf("Clone panicked: %v", p)})
			}
		}()
		cl = bt.def.Clone()
	}()
	if cl == nil {
		return fails
	}
	h.count("clone:schemas")
	// (1) the clone introspects identically
	before, errs0, crash0 := execIntro(s, all)
	if crash0 != "" || len(errs0) > 0 {
		return fails // reported by the intro part
	}
	s2, err := schema.New(cl)
	if err != nil {
		fail(failure{Part: "clone", Kind: "property", Class: "clone-rejected", What: "schema.New rejects the clone of an accepted definition: " + err.Error()})
	} else {
		feats := c.Feats
		if len(feats) == 0 {
			feats = [][]string{all}
		}
		for _, F := range feats {
			d1, e1, c1 := execIntro(s, F)
			d2, e2, c2 := execIntro(s2, F)
			if c1 != "" || c2 != "" || len(e1) > 0 || len(e2) > 0 {
				if c2 != "" || len(e2) > 0 {
					fail(failure{Part: "clone", Kind: "property", Class: "clone-intro-differs", What: fmt.Sprintf("features %v: introspection of the clone fails: %v %v", F, c2, e2)})
				}
				continue
			}
			i1, err1 := parseIntro(d1)
			i2, err2 := parseIntro(d2)
			if err1 != nil || err2 != nil {
				continue
			}
			canonDefaults(i1)
			canonDefaults(i2)
			if d := diff(i1, i2); d != "" {
				fail(failure{Part: "clone", Kind: "property", Class: "clone-intro-differs", What: fmt.Sprintf("features %v: the clone introspects differently from its original at %s", F, d)})
			}
		}
	}
	// (2) no mutable container is shared
	// Known finding F-10i: Clone copies the named types schema.Inspect visits; a named type that is
	// part of the definition only through a directive applied to an element Inspect does not look
	// into (anything but an enum / scalar type) keeps its struct, so it — and everything reachable
	// from it in the ORIGINAL — is reachable from the clone. Exactly that set is attributed to the
	// finding; any other shared container is a violation.
	var f10i map[string]bool
	if ni := c.S.notInspected(); len(ni) > 0 && !h.clonesAll {
		var ts []schema.NamedType
		for _, n := range ni {
			if t, ok := bt.types[n]; ok {
				ts = append(ts, t)
			}
		}
		f10i = collectFrom(ts).keys()
		h.count("clone:definitions-with-types-reachable-by-pointer-only")
	}
	w1, w2 := collect(bt.def), collect(cl)
	h.count("clone:containers-walked")
	if !h.quiet {
		h.run.CountN("clone:containers", len(w1.out))
	}
	sharedKnown := false
	if sh := shared(w1, w2); len(sh) > 0 {
		var other, known []container
		for _, c := range sh {
			if f10i[fmt.Sprintf("%s:%x", c.Kind, c.Addr)] {
				known = append(known, c)
			} else {
				other = append(other, c)
			}
		}
		report := func(sh []container, finding string) {
			kinds := map[string]bool{}
			for _, c := range sh {
				kinds[c.Kind+" "+c.Type] = true
			}
			var ks []string
			for k := range kinds {
				ks = append(ks, k)
			}
			sort.Strings(ks)
			fail(failure{Part: "clone", Kind: "property", Class: "clone-shared", Finding: finding, What: fmt.Sprintf("the clone shares %d mutable container(s) with its original, e.g. %s %s at %s (kinds: %s)", len(sh), sh[0].Kind, sh[0].Type, sh[0].Path, strings.Join(ks, "; "))})
		}
		if len(other) > 0 {
			report(other, "")
		}
		if len(known) > 0 {
			sharedKnown = true
			report(known, "F-10i-clone-shares-types-inspect-does-not-reach")
		}
	}
	if !sharedKnown {
		f10i = nil
	}
	// (1b) every configured attribute survives (typed extraction, identities erased)
	x1, xerr1 := extract(bt.def, newIDAlloc(1))
	x2, xerr2 := extract(cl, newIDAlloc(1))
	cloneTwoStructs := false
	if sharedKnown && xerr1 == nil && xerr2 != nil && strings.HasPrefix(xerr2.Error(), "two distinct named types called") {
		// (F-10i) the shared type still points at the original of a type the clone has a copy of:
		// the clone cannot be written with by-name references
		cloneTwoStructs = true
		h.count("clone:F-10i:clone-has-two-structs-of-one-name")
	} else if xerr1 != nil || xerr2 != nil {
		fail(failure{Part: "clone", Kind: "property", Class: "clone-content-differs", What: fmt.Sprintf("definition cannot be abstracted: original %v, clone %v", xerr1, xerr2)})
	} else if a, b := eraseIDs(x1).String(), eraseIDs(x2).String(); a != b {
		fail(failure{Part: "clone", Kind: "property", Class: "clone-content-differs", What: "the clone's contents differ from the original's: " + firstDiff(a, b)})
	}
	// (tie) sharing pattern and contents vs the model's clone over the heap model
	// (the record model's cloneDef keeps the struct of a type Inspect does not reach, like the
	// implementation with finding F-10i; on a repaired tree such definitions are left to the heap tie)
	if h.model != nil && !h.quiet && !cloneTwoStructs && !(h.clonesAll && len(c.S.notInspected()) > 0) {
		if f := h.tieClone(bt, cl); f != nil {
			f.NoInput = unexplained(fails) == 0
			if f.NoInput {
				fail(*f)
			}
		}
	}
	// (tie) the clone as a pointer graph vs the heap model's clone (heapgraph.go)
	if h.model != nil && !h.quiet {
		if f := h.tieHeapClone(c, bt, cl); f != nil {
			f.NoInput = unexplained(fails) == 0
			if f.NoInput {
				fail(*f)
			}
		}
	}
	// (3) mutate everything reachable in the clone; the original must not change
	dumpBefore := ""
	if xerr1 == nil {
		dumpBefore = x1.String()
	}
	if err := mutateAll(cl, f10i); err != nil {
		fail(failure{Part: "clone", Kind: "crash", Class: "mutate-panic", What: err.Error()})
		return fails
	}
	x3, xerr3 := extract(bt.def, newIDAlloc(1))
	if xerr3 != nil || x3.String() != dumpBefore {
		what := "mutating the clone changed the original definition"
		if xerr3 == nil {
			what += ": " + firstDiff(dumpBefore, x3.String())
		} else {
			what += ": " + xerr3.Error()
		}
		fail(failure{Part: "clone", Kind: "property", Class: "clone-mutation-visible", What: what})
	}
	after, errs3, crash3 := execIntro(s, all)
	if crash3 != "" || len(errs3) > 0 {
		fail(failure{Part: "clone", Kind: "property", Class: "clone-mutation-visible", What: fmt.Sprintf("after mutating the clone, introspection of the original fails: %v %v", crash3, errs3)})
	} else {
		i1, err1 := parseIntro(before)
		i2, err2 := parseIntro(after)
		if err1 == nil && err2 == nil {
			canonDefaults(i1)
			canonDefaults(i2)
			if d := diff(i1, i2); d != "" {
				fail(failure{Part: "clone", Kind: "property", Class: "clone-mutation-visible", What: "after mutating the clone, the original introspects differently at " + d})
			}
		}
	}
	return fails
}

func canonDefaults(x *IntroD) {
	x.forEachInputValue(func(_ string, iv *InputValueD) {
		if iv.Default != nil {
			c := canonLiteral(*iv.Default)
			iv.Default = &c
		}
	})
}

func firstDiff(a, b string) string {
	i := 0
	for i < len(a) && i < len(b) && a[i] == b[i] {
		i++
	}
	lo := i - 60
	if lo < 0 {
		lo = 0
	}
	ha, hb := i+60, i+60
	if ha > len(a) {
		ha = len(a)
	}
	if hb > len(b) {
		hb = len(b)
	}
	return fmt.Sprintf("…%s… vs …%s…", a[lo:ha], b[lo:hb])
}

// ---- driving -----------------------------------------------------------------------------------

func sig(f failure) string { return f.Part + "/" + f.Kind + "/" + f.Class + "/" + f.Finding }

func caseKey(c *Case) string {
	b, _ := json.Marshal(c)
	return string(b)
}

// nontrivial: the schema has at least one feature-gated member, one default value, one wrapper
// chain of depth >= 2 and one interface with an implementation or a union.
func nontrivial(d *SDef) bool {
	gated, def, deep, abstract := false, false, false, false
	chk := func(ivs []InputVal) {
		for _, iv := range ivs {
			if iv.Def != nil {
				def = true
			}
			if len(iv.Type.W) >= 2 {
				deep = true
			}
		}
	}
	for _, t := range d.Types {
		if len(t.Feat) > 0 {
			gated = true
		}
		if len(t.Ifaces) > 0 || t.Kind == "union" {
			abstract = true
		}
		chk(t.Inputs)
		for _, f := range t.Fields {
			if len(f.Feat) > 0 {
				gated = true
			}
			if len(f.Type.W) >= 2 {
				deep = true
			}
			chk(f.Args)
		}
	}
	return gated && def && deep && abstract
}

func (h *harness) distribution(d *SDef) {
	maxW := 0
	nDef, nGated, nDepr := 0, 0, 0
	chk := func(ivs []InputVal) {
		for _, iv := range ivs {
			if iv.Def != nil {
				nDef++
			}
			if len(iv.Type.W) > maxW {
				maxW = len(iv.Type.W)
			}
		}
	}
	reach := d.reachable()
	for _, t := range d.Types {
		h.count("types:" + t.Kind)
		if !reach[t.Name] {
			h.count("types:unreachable")
		}
		if len(t.Feat) > 0 {
			nGated++
		}
		chk(t.Inputs)
		for _, f := range t.Fields {
			if len(f.Feat) > 0 {
				nGated++
			}
			if f.Depr != "" {
				nDepr++
			}
			if len(f.Type.W) > maxW {
				maxW = len(f.Type.W)
			}
			chk(f.Args)
		}
		for _, v := range t.Values {
			if v.Depr != "" {
				nDepr++
			}
		}
	}
	h.count(fmt.Sprintf("schema:max-wrapper-depth:%d", maxW))
	h.count("schema:defaults:" + bucket(nDef))
	h.count("schema:gated-members:" + bucket(nGated))
	h.count("schema:deprecated-members:" + bucket(nDepr))
	h.count(fmt.Sprintf("schema:custom-directives:%d", len(d.Dirs)))
	h.count(fmt.Sprintf("schema:unlisted-directive-definitions:%d", len(d.UDirs)))
	if d.hasIllegalName() {
		h.count("schema:accepted-with-an-illegal-name")
	}
	h.appliedStats(d)
}

func bucket(n int) string {
	switch {
	case n == 0:
		return "0"
	case n <= 2:
		return "1-2"
	case n <= 6:
		return "3-6"
	}
	return "7+"
}

var obligations = map[string][2]string{
	"intro":    {"oracle: Execute(introspection.Query) normalised == describe(definition, features); every type reference listed", "oracle"},
	"defaults": {"oracle: CoerceLiteral(ParseValue(printed defaultValue)) == configured default", "oracle"},
	"rebuild":  {"oracle: same ParseAndValidate verdict on the original and on the schema rebuilt from introspection JSON", "oracle"},
	"clone":    {"oracle: Clone introspects identically, shares no mutable container, mutating it leaves the original unchanged", "oracle"},
	"history":  {"oracle: a definition modified after use (clone + hook; modify + build again) introspects as the modified definition", "oracle"},
	"config":   {"oracle: PreprocessGraphQLSchemaDefinition (config.go) gets a clone: nothing shared with the configured types, overwriting it leaves them unchanged, its modifications are served, its error fails NewAPI", "oracle"},
	"model":    {"correspondence: model introspect / new / rebuild / clone == implementation (canonical S-expressions)", "correspondence"},
}

// check runs a case, records it, shrinks and reports its failures.
func (h *harness) check(c *Case) {
	fails, rejected := h.runCase(c)
	if rejected {
		h.run.Count("schema:rejected-by-schema.New")
		return
	}
	h.run.Count("schema:accepted")
	h.distribution(c.S)
	h.run.Case(caseKey(c), nontrivial(c.S))
	bad := map[string]string{}
	for _, f := range fails {
		part := f.Part
		if f.Kind == "correspondence" {
			part = "model"
		}
		if f.Finding == "" {
			if _, ok := bad[part]; !ok {
				bad[part] = f.What
			}
		}
	}
	for part, ob := range obligations {
		if part == "model" && h.model == nil {
			continue
		}
		what, isBad := bad[part]
		h.run.Oblige(ob[0], ob[1], 1, !isBad, what)
	}
	// one report per distinct signature
	seen := map[string]bool{}
	for _, f := range fails {
		if seen[sig(f)] {
			continue
		}
		seen[sig(f)] = true
		if os.Getenv("VERIF_DEBUG") != "" {
			fmt.Printf("FAIL %s: %s\n", sig(f), f.What)
		}
		// hx keeps at most 3 violations per (kind, finding): do not spend time shrinking the rest
		vk := f.Kind + ":" + f.Finding
		h.reported[vk]++
		if h.reported[vk] > 3 {
			h.run.Violate(f.Kind, "["+f.Part+"] "+f.What, f.Finding, f.NoInput, c)
			continue
		}
		sc, sf := h.shrink(c, f)
		h.run.Violate(sf.Kind, "["+sf.Part+"] "+sf.What, sf.Finding, sf.NoInput, sc)
	}
}

// shrink drops parts of the case while a failure with the same signature remains.
func (h *harness) shrink(c *Case, f failure) (*Case, failure) {
	if len(c.Parts) == 1 && c.Parts[0] == "clonecrash" {
		return c, f // only ever run in a child process
	}
	h.quiet = true
	defer func() { h.quiet = false }()
	deadline := time.Now().Add(4 * time.Second)
	cur, curF := c, f
	// restrict to the failing part and, for the rebuild part, to the failing document
	try := func(cand *Case) bool {
		if time.Now().After(deadline) {
			return false
		}
		fs, rej := h.runCase(cand)
		if rej {
			return false
		}
		for _, g := range fs {
			if sig(g) == sig(f) {
				cur, curF = cand, g
				return true
			}
		}
		return false
	}
	{
		cand := cloneCase(cur)
		cand.Parts = []string{f.Part}
		try(cand)
	}
	if f.Part == "rebuild" && len(cur.Docs) == 0 {
		docs, _ := h.docsFor(cur)
		for _, q := range docs {
			cand := cloneCase(cur)
			cand.Docs = []string{q}
			if try(cand) {
				break
			}
		}
	}
	if len(cur.Feats) > 1 {
		for _, F := range cur.Feats {
			cand := cloneCase(cur)
			cand.Feats = [][]string{F}
			if try(cand) {
				break
			}
		}
	}
	for changed := true; changed && time.Now().Before(deadline); {
		changed = false
		for _, cand := range shrinkCandidates(cur) {
			if try(cand) {
				changed = true
				break
			}
		}
	}
	return cur, curF
}

func cloneCase(c *Case) *Case {
	b, _ := json.Marshal(c)
	var out Case
	json.Unmarshal(b, &out)
	return &out
}

// shrinkCandidates proposes smaller cases (one deletion each).
func shrinkCandidates(c *Case) []*Case {
	var out []*Case
	mod := func(f func(d *SDef) bool) {
		cand := cloneCase(c)
		if f(cand.S) {
			out = append(out, cand)
		}
	}
	d := c.S
	for i := range d.Types {
		i := i
		if d.Types[i].Name != d.Query {
			mod(func(d *SDef) bool { d.Types = append(d.Types[:i], d.Types[i+1:]...); return true })
		}
	}
	for i := range d.Additional {
		i := i
		mod(func(d *SDef) bool { d.Additional = append(d.Additional[:i], d.Additional[i+1:]...); return true })
	}
	for i := range d.Dirs {
		i := i
		mod(func(d *SDef) bool { d.Dirs = append(d.Dirs[:i], d.Dirs[i+1:]...); return true })
	}
	if d.Mutation != "" {
		mod(func(d *SDef) bool { d.Mutation = ""; return true })
	}
	if d.Subscription != "" {
		mod(func(d *SDef) bool { d.Subscription = ""; return true })
	}
	for i := range d.Types {
		i := i
		t := &d.Types[i]
		for j := range t.Fields {
			j := j
			mod(func(d *SDef) bool {
				t := &d.Types[i]
				t.Fields = append(t.Fields[:j], t.Fields[j+1:]...)
				return true
			})
			for k := range t.Fields[j].Args {
				k := k
				mod(func(d *SDef) bool {
					f := &d.Types[i].Fields[j]
					f.Args = append(f.Args[:k], f.Args[k+1:]...)
					return true
				})
				if t.Fields[j].Args[k].Def != nil {
					mod(func(d *SDef) bool { d.Types[i].Fields[j].Args[k].Def = nil; return true })
				}
				if t.Fields[j].Args[k].Type.W != "" {
					mod(func(d *SDef) bool { d.Types[i].Fields[j].Args[k].Type.W = ""; d.Types[i].Fields[j].Args[k].Def = nil; return true })
				}
			}
			if t.Fields[j].Type.W != "" {
				mod(func(d *SDef) bool { d.Types[i].Fields[j].Type.W = ""; return true })
			}
			if len(t.Fields[j].Feat) > 0 {
				mod(func(d *SDef) bool { d.Types[i].Fields[j].Feat = nil; return true })
			}
			if t.Fields[j].Desc != "" || t.Fields[j].Depr != "" || len(t.Fields[j].Dirs) > 0 {
				mod(func(d *SDef) bool {
					f := &d.Types[i].Fields[j]
					f.Desc, f.Depr, f.Dirs = "", "", nil
					return true
				})
			}
		}
		for j := range t.Inputs {
			j := j
			mod(func(d *SDef) bool {
				t := &d.Types[i]
				t.Inputs = append(t.Inputs[:j], t.Inputs[j+1:]...)
				return true
			})
			if t.Inputs[j].Def != nil {
				mod(func(d *SDef) bool { d.Types[i].Inputs[j].Def = nil; return true })
			}
		}
		for j := range t.Values {
			j := j
			mod(func(d *SDef) bool {
				t := &d.Types[i]
				t.Values = append(t.Values[:j], t.Values[j+1:]...)
				return true
			})
		}
		for j := range t.Ifaces {
			j := j
			mod(func(d *SDef) bool {
				t := &d.Types[i]
				t.Ifaces = append(t.Ifaces[:j], t.Ifaces[j+1:]...)
				return true
			})
		}
		for j := range t.Members {
			j := j
			mod(func(d *SDef) bool {
				t := &d.Types[i]
				t.Members = append(t.Members[:j], t.Members[j+1:]...)
				return true
			})
		}
		if len(t.Feat) > 0 {
			mod(func(d *SDef) bool { d.Types[i].Feat = nil; return true })
		}
		if t.Desc != "" || len(t.Dirs) > 0 {
			mod(func(d *SDef) bool { d.Types[i].Desc, d.Types[i].Dirs = "", nil; return true })
		}
	}
	return out
}

func (h *harness) replay(path string) {
	var c Case
	if err := hx.LoadReplayCase(path, &c); err != nil || c.S == nil {
		fmt.Fprintln(os.Stderr, "cannot load replay case:", err)
		os.Exit(2)
	}
	fails, rejected := h.runCase(&c)
	fmt.Printf("replay %s: rejected-by-schema.New=%v failures=%d\n", path, rejected, len(fails))
	if bt, s, err := safeBuild(c.S); err == nil && !(len(c.Parts) == 1 && c.Parts[0] == "clonecrash") {
		for _, F := range c.Feats {
			data, errs, crash := execIntro(s, F)
			fmt.Printf("features %v\n implementation: %s errors=%v crash=%q\n", F, data, errs, crash)
			want, _ := json.Marshal(c.S.describe(F))
			fmt.Printf(" describe(definition): %s\n", want)
			if h.model != nil {
				if line, err := h.modelIntroLine(bt, s, F); err == nil {
					rep, _ := h.model.Ask(line)
					fmt.Printf(" model: %s\n", rep)
				}
			}
		}
	}
	for _, f := range fails {
		fmt.Printf(" [%s/%s] %s (finding %q)\n", f.Part, f.Kind, f.What, f.Finding)
		h.run.Violate(f.Kind, "["+f.Part+"] "+f.What, f.Finding, f.NoInput, &c)
	}
}

func featureSetsFor(r *hx.Rand, d *SDef) [][]string {
	all := d.allFeatures()
	out := [][]string{all, {}}
	if len(all) == 0 {
		return [][]string{{}}
	}
	for i := 0; i < 2; i++ {
		var F []string
		for _, f := range all {
			if r.Bool() {
				F = append(F, f)
			}
		}
		if F == nil {
			F = []string{}
		}
		dup := false
		for _, G := range out {
			if sameSet(F, G) {
				dup = true
			}
		}
		if !dup {
			out = append(out, F)
		}
	}
	return out
}

func main() {
	if p := os.Getenv("C10_CLONE_CHILD"); p != "" {
		cloneChild(p)
		return
	}
	run := hx.Init("C10")
	h := &harness{run: run, reported: map[string]int{}}
	if run.ModelPath != "" {
		m, err := hx.StartModel(run.ModelPath)
		if err != nil {
			fmt.Fprintln(os.Stderr, "cannot start model:", err)
			os.Exit(2)
		}
		h.model = m
		defer m.Close()
	}
	h.keepDefaults = keepsDefaults()
	h.clonesAll = clonesUninspectedTypes()
	if h.clonesAll {
		run.Note("Clone copies named types that schema.Inspect does not reach (finding F-10i repaired): pass 1 of the heap model = every named type reachable by pointer")
	} else {
		run.Note("Clone keeps the struct of a named type that schema.Inspect does not reach (finding F-10i): pass 1 of the heap model = what Inspect reaches")
	}
	if h.keepDefaults {
		run.Note("GetSchemaDefinition keeps default values (fix patch 06 present): model variant rebuildKeep")
	} else {
		run.Note("GetSchemaDefinition drops default values (fix patch 06 absent, finding F-10a): model variant rebuild")
	}
	run.SetRule("generated schema definitions (scalars, enums, input objects with defaults, interfaces, objects, unions, directives; wrapper chains up to 7; feature-gated, deprecated and unreachable members) accepted by the real schema.New, each evaluated for 1-4 request feature sets, ~25 generated documents, and one Clone; distinct = distinct (definition, feature sets, document seed); non-trivial = the definition has a feature-gated member, a default value, a wrapper chain of depth >= 2 and an interface implementation or union")

	if run.Replay != "" {
		h.replay(run.Replay)
		run.Finish(h.model)
		return
	}
	for _, f := range run.CorpusFiles() {
		var c Case
		if err := hx.LoadReplayCase(f, &c); err == nil && c.S != nil {
			h.check(&c)
			run.Count("corpus")
		} else {
			fmt.Fprintln(os.Stderr, "unreadable corpus file", f, err)
		}
	}
	n := run.Scale(400, 8000)
	for i := 0; i < n; i++ {
		r := run.Rand.Fork()
		o := genOpts{}
		switch i % 4 {
		case 1:
			o.OnlyBuiltinScalars = true
		case 2:
			o.OnlyBuiltinScalars = true
			o.Small = true
		case 3:
			o.Small = true
		}
		d := genSDef(r, o)
		c := &Case{S: d, Feats: featureSetsFor(r, d), DocSeed: r.Uint64(), NDocs: run.Scale(25, 40)}
		h.check(c)
		if i < 2 {
			run.Sample(c)
		}
	}
	run.Finish(h.model)
}
