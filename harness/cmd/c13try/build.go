package main

// Builds a real *graphql.Schema (through the real schema.New) from a Spec, with deterministic
// resolvers ("world") that log every invocation.

import (
	"encoding/json"
	"fmt"
	"hash/fnv"
	"reflect"
	"sort"
	"strings"
	"sync"
	"time"

	apifu "github.com/ccbrown/api-fu"
	"github.com/ccbrown/api-fu/graphql"
	"github.com/ccbrown/api-fu/graphql/ast"
	gschema "github.com/ccbrown/api-fu/graphql/schema"
)

// ---- type strings ---------------------------------------------------------------------------------

type tref struct {
	name    string // when kind == 0
	kind    int    // 0 named, 1 list, 2 non-null
	inner   *tref
	invalid bool
}

func parseType(s string) *tref {
	if strings.HasSuffix(s, "!") {
		in := parseType(s[:len(s)-1])
		return &tref{kind: 2, inner: in, invalid: in.invalid || in.kind == 2}
	}
	if strings.HasPrefix(s, "[") && strings.HasSuffix(s, "]") {
		in := parseType(s[1 : len(s)-1])
		return &tref{kind: 1, inner: in, invalid: in.invalid}
	}
	if s == "" || strings.ContainsAny(s, "[]!") {
		return &tref{invalid: true}
	}
	return &tref{name: s}
}

// ---- world ----------------------------------------------------------------------------------------

type obj struct {
	typ string
	id  uint64
	// also: further object types whose IsTypeOf accepts this value (overlapping IsTypeOf functions).
	// The world only ever puts types here that are HIDDEN under the request's features, next to one
	// main type: the value then has exactly one type the request can see, whatever the order in which
	// the implementations are tried.
	also []string
}

func (o *obj) isA(tn string) bool {
	if o.typ == tn {
		return true
	}
	for _, a := range o.also {
		if a == tn {
			return true
		}
	}
	return false
}

type edgeVal struct {
	i    int
	node interface{}
}

// world decides what resolvers return. It is a function of the ORIGINAL schema, the request's
// feature set and a seed only, so that the run against S under F and the run against erase(S,F)
// under all features see the same application behaviour.
type world struct {
	seed    uint64
	orig    *Spec // expanded original spec
	F       map[string]bool
	respect bool // abstract fields only ever resolve to objects of types visible under F
	// overlap: values returned through an interface field are also claimed (IsTypeOf) by every
	// implementation of that interface that is hidden under F
	overlap bool
	// force, when set, makes every abstract field resolve to an object of exactly this type, every
	// list have one item, and nothing be null or fail (used to observe type resolution)
	force string
	// forceAlso: with force, the further types whose IsTypeOf accepts the forced value
	forceAlso []string
	mu        sync.Mutex
	log       []string
}

func h64(parts ...interface{}) uint64 {
	h := fnv.New64a()
	for _, p := range parts {
		fmt.Fprintf(h, "%v|", p)
	}
	x := h.Sum64()
	x ^= x >> 33
	x *= 0xff51afd7ed558ccd
	x ^= x >> 33
	return x
}

func (w *world) candidates(name string) []string {
	t := w.orig.find(name)
	if t == nil {
		return nil
	}
	var out []string
	switch t.Kind {
	case "union":
		out = append(out, t.Members...)
	case "interface":
		for _, o := range w.orig.Types {
			if o.Kind != "object" {
				continue
			}
			for _, i := range o.Ifaces {
				if i == name {
					out = append(out, o.Name)
					break
				}
			}
		}
	}
	sort.Strings(out)
	if w.respect {
		var vis []string
		for _, c := range out {
			if ct := w.orig.find(c); ct != nil && subset(ct.Req, w.F) {
				vis = append(vis, c)
			}
		}
		out = vis
	}
	return out
}

// hiddenImplementations: the implementations of interface `name` (in the original schema) that the
// request cannot see.
func (w *world) hiddenImplementations(name string, except string) []string {
	var out []string
	for _, o := range w.orig.Types {
		if o.Kind != "object" || o.Name == except || subset(o.Req, w.F) {
			continue
		}
		for _, i := range o.Ifaces {
			if i == name {
				out = append(out, o.Name)
				break
			}
		}
	}
	return out
}

func (w *world) value(t *tref, h uint64, nonNull bool) (interface{}, error) {
	switch t.kind {
	case 2:
		return w.value(t.inner, h, true)
	case 1:
		if w.force != "" {
			v, err := w.value(t.inner, h64(h, "item", 0), true)
			return []interface{}{v}, err
		}
		if !nonNull && h%11 == 0 {
			return nil, nil
		}
		n := int(h>>8) % 3
		out := make([]interface{}, n)
		for i := range out {
			v, err := w.value(t.inner, h64(h, "item", i), false)
			if err != nil {
				return nil, err
			}
			out[i] = v
		}
		return out, nil
	}
	if w.force != "" {
		nonNull = true
	} else if !nonNull && h%9 == 0 {
		return nil, nil
	}
	if w.force == "" && nonNull && h%31 == 0 {
		return nil, nil // a non-null field resolving to null: the error path
	}
	switch t.name {
	case "Int":
		return int(h>>8) % 1000, nil
	case "Float":
		return float64(int(h>>8)%64) / 4, nil
	case "String":
		return fmt.Sprintf("s%d", (h>>8)%1000), nil
	case "Boolean":
		return (h>>8)%2 == 0, nil
	case "ID":
		return fmt.Sprintf("id%d", (h>>8)%1000), nil
	}
	ts := w.orig.find(t.name)
	if ts == nil {
		return nil, fmt.Errorf("world: unknown type %s", t.name)
	}
	switch ts.Kind {
	case "scalar":
		return fmt.Sprintf("x%d", (h>>8)%1000), nil
	case "enum":
		if len(ts.Values) == 0 {
			return nil, nil
		}
		return ts.Values[int(h>>8)%len(ts.Values)], nil
	case "object":
		return &obj{typ: ts.Name, id: h >> 8}, nil
	case "interface", "union":
		if w.force != "" {
			return &obj{typ: w.force, id: h >> 8, also: w.forceAlso}, nil
		}
		c := w.candidates(ts.Name)
		if len(c) == 0 {
			return nil, nil
		}
		o := &obj{typ: c[int(h>>8)%len(c)], id: h >> 8}
		if w.overlap && ts.Kind == "interface" {
			o.also = w.hiddenImplementations(ts.Name, o.typ)
		}
		return o, nil
	}
	return nil, nil
}

func canonArgs(v interface{}) string {
	b, err := json.Marshal(v) // map keys are sorted by encoding/json
	if err != nil {
		return fmt.Sprintf("%#v", v)
	}
	return string(b)
}

func (w *world) logCall(s string) {
	w.mu.Lock()
	w.log = append(w.log, s)
	w.mu.Unlock()
}

func (w *world) resolver(parent string, f *FieldSpec) func(graphql.FieldContext) (interface{}, error) {
	t := parseType(f.Type)
	name := f.Name
	subRoot := w.orig != nil && w.orig.Subscription != "" && parent == w.orig.Subscription
	return func(ctx graphql.FieldContext) (interface{}, error) {
		w.logCall(parent + "." + name)
		if ctx.IsSubscribe && subRoot {
			// the subscribe step of a root subscription field: a source stream that delivers two events
			// and ends; each event is then executed with the event as the root value
			ch := make(chan *obj, 2)
			ch <- &obj{typ: "(event)", id: 1}
			ch <- &obj{typ: "(event)", id: 2}
			close(ch)
			return &apifu.SubscriptionSourceStream{EventChannel: ch, Stop: func() {}}, nil
		}
		var id uint64
		switch o := ctx.Object.(type) {
		case *obj:
			id = o.id
		case edgeVal:
			id = uint64(o.i) + 77
		}
		h := h64(w.seed, parent, name, id, canonArgs(ctx.Arguments))
		if w.force == "" && h%17 == 0 {
			return nil, fmt.Errorf("boom %d", h%1000)
		}
		return w.value(t, h64(h, "v"), false)
	}
}

// ---- builder --------------------------------------------------------------------------------------

type built struct {
	schema *graphql.Schema
	named  map[string]gschema.NamedType
}

type buildError struct{ msg string }

func (e *buildError) Error() string { return e.msg }

func reqSet(req []string) graphql.FeatureSet {
	if len(req) == 0 {
		return nil
	}
	return graphql.NewFeatureSet(req...)
}

var builtinTypes = map[string]gschema.NamedType{
	"Int": graphql.IntType, "Float": graphql.FloatType, "String": graphql.StringType, "Boolean": graphql.BooleanType, "ID": graphql.IDType,
}

// defaultFor: the default value for an input value of the given type — a function of the type only
// (so that the erased schema, built separately, gets the same defaults): a fixed value for the
// built-in scalars and custom scalars, the first value of an enum, a one-element list for a list type,
// and for an input object the one-key object holding a default for the one field that needs a value
// (non-null without a default of its own), else for its first field. nil when no such value exists
// within depth 3 (or two fields need a value).
func defaultFor(spec *Spec, typ string) interface{} {
	return defaultForT(spec, parseType(typ), 0)
}

func defaultForT(spec *Spec, t *tref, depth int) interface{} {
	if t.invalid || depth > 3 {
		return nil
	}
	if t.kind == 2 {
		t = t.inner
	}
	if t.kind == 1 {
		el := defaultForT(spec, t.inner, depth+1)
		if el == nil {
			return nil
		}
		return []interface{}{el}
	}
	if t.kind != 0 {
		return nil
	}
	switch t.name {
	case "Int":
		return 7
	case "String":
		return "dflt"
	case "Boolean":
		return true
	case "ID":
		return "id0"
	case "Float":
		return 1.5
	}
	ts := spec.find(t.name)
	switch {
	case ts == nil:
		return nil
	case ts.Kind == "enum" && len(ts.Values) > 0:
		return ts.Values[0]
	case ts.Kind == "scalar" && ts.Builtin == "":
		return "sc0"
	case ts.Kind == "input":
		// exactly one key (the library prints a default value in Go map order: two keys would make the
		// introspection text differ from run to run): the one field that needs a value, else the first field
		var need []ArgSpec
		for _, f := range ts.Inputs {
			hasDefault := false
			for _, dn := range ts.InputDefaults {
				hasDefault = hasDefault || dn == f.Name
			}
			if strings.HasSuffix(f.Type, "!") && !hasDefault {
				need = append(need, f)
			}
		}
		if len(need) > 1 || len(ts.Inputs) == 0 {
			return nil
		}
		f := ts.Inputs[0]
		if len(need) == 1 {
			f = need[0]
		}
		v := defaultForT(spec, parseType(f.Type), depth+1)
		if v == nil {
			if len(need) == 1 {
				return nil
			}
			return map[string]interface{}{}
		}
		return map[string]interface{}{f.Name: v}
	}
	return nil
}

// buildSchema constructs the library objects and calls the real schema.New. A *buildError means the
// spec cannot even be expressed with the library's Go types (dangling reference, wrong kind in an
// interface / member list, duplicate name); any other error is schema.New's rejection.
func buildSchema(spec *Spec, w *world) (b *built, err error) {
	def, named, err := buildDefinition(spec, w)
	if err != nil {
		return nil, err
	}
	if spec.Staged == 2 {
		// the clone's list / non-null wrappers exist before its types get their features
		def = def.Clone()
		named = namedTypesOf(def)
		assignTypeReqs(spec, named)
	}
	prebuild(spec, def, named)
	s, err := graphql.NewSchema(def)
	if err != nil {
		return nil, err
	}
	return &built{schema: s, named: named}, nil
}

// buildDefinition constructs the library's type objects for a spec (no schema.New yet).
func buildDefinition(spec *Spec, w *world) (def *graphql.SchemaDefinition, named map[string]gschema.NamedType, err error) {
	defer func() {
		if p := recover(); p != nil {
			if be, ok := p.(*buildError); ok {
				def, named, err = nil, nil, be
				return
			}
			panic(p)
		}
	}()
	fail := func(format string, a ...interface{}) { panic(&buildError{fmt.Sprintf(format, a...)}) }

	named = map[string]gschema.NamedType{}
	typeReq := reqSet
	if spec.Staged >= 1 && spec.Staged <= 3 {
		typeReq = func([]string) graphql.FeatureSet { return nil } // assigned later: assignTypeReqs
	}
	for _, t := range spec.Types {
		if _, dup := named[t.Name]; dup {
			fail("duplicate type name %s", t.Name)
		}
		if bt, ok := builtinTypes[t.Builtin]; ok && t.Kind == "scalar" && t.Name == t.Builtin {
			named[t.Name] = bt
			continue
		} else if t.Builtin == "DateTime" && t.Kind == "scalar" && t.Name == "DateTime" {
			named[t.Name] = apifu.DateTimeType
			continue
		} else if builtinTypes[t.Name] != nil {
			fail("builtin scalar %s redefined", t.Name)
		}
		switch t.Kind {
		case "object":
			if t.Builtin == "PageInfo" {
				named[t.Name] = apifu.PageInfoType
			} else {
				tn := t.Name
				named[t.Name] = &graphql.ObjectType{Name: t.Name, RequiredFeatures: typeReq(t.Req), IsTypeOf: func(v interface{}) bool {
					o, ok := v.(*obj)
					return ok && o.isA(tn)
				}}
			}
		case "interface":
			named[t.Name] = &graphql.InterfaceType{Name: t.Name, RequiredFeatures: typeReq(t.Req)}
		case "union":
			named[t.Name] = &graphql.UnionType{Name: t.Name, RequiredFeatures: typeReq(t.Req)}
		case "enum":
			vs := map[string]*graphql.EnumValueDefinition{}
			for _, v := range t.Values {
				if _, dup := vs[v]; dup {
					fail("duplicate enum value %s.%s", t.Name, v)
				}
				vs[v] = &graphql.EnumValueDefinition{Value: v}
				for _, d := range t.DepValues {
					if d == v {
						vs[v].DeprecationReason = "no longer used"
					}
				}
			}
			named[t.Name] = &graphql.EnumType{Name: t.Name, RequiredFeatures: typeReq(t.Req), Values: vs}
		case "input":
			it := &graphql.InputObjectType{Name: t.Name, RequiredFeatures: typeReq(t.Req)}
			// schema.New wants a result coercion of every input object that is the type of a default value
			it.ResultCoercion = func(v interface{}) (map[string]interface{}, error) {
				if m, ok := v.(map[string]interface{}); ok {
					return m, nil
				}
				return nil, fmt.Errorf("not an input object value: %T", v)
			}
			named[t.Name] = it
		case "scalar":
			named[t.Name] = &graphql.ScalarType{Name: t.Name, RequiredFeatures: typeReq(t.Req),
				LiteralCoercion: func(v ast.Value) interface{} {
					if s, ok := v.(*ast.StringValue); ok {
						return s.Value
					}
					return nil
				},
				VariableValueCoercion: func(v interface{}) interface{} {
					if s, ok := v.(string); ok {
						return s
					}
					return nil
				},
				ResultCoercion: func(v interface{}) interface{} {
					if s, ok := v.(string); ok {
						return s
					}
					return nil
				},
			}
		default:
			fail("unknown kind %q", t.Kind)
		}
	}
	var resolveT func(t *tref) graphql.Type
	resolveT = func(t *tref) graphql.Type {
		if t.invalid {
			fail("malformed type")
		}
		switch t.kind {
		case 1:
			return graphql.NewListType(resolveT(t.inner))
		case 2:
			return graphql.NewNonNullType(resolveT(t.inner))
		}
		nt, ok := named[t.name]
		if !ok {
			fail("undefined type %s", t.name)
		}
		return nt
	}
	mkArgs := func(as []ArgSpec, where string) map[string]*graphql.InputValueDefinition {
		if len(as) == 0 {
			return nil
		}
		out := map[string]*graphql.InputValueDefinition{}
		for _, a := range as {
			if _, dup := out[a.Name]; dup {
				fail("duplicate argument %s.%s", where, a.Name)
			}
			out[a.Name] = &graphql.InputValueDefinition{Type: resolveT(parseType(a.Type))}
		}
		return out
	}
	// setDefaults gives the named input values a default (defaultFor: scalars, enums, lists, input objects)
	setDefaults := func(defs map[string]*graphql.InputValueDefinition, as []ArgSpec, names []string) {
		for _, dn := range names {
			for _, a := range as {
				if a.Name == dn && defs[a.Name] != nil {
					if dv := defaultFor(spec, a.Type); dv != nil {
						defs[a.Name].DefaultValue = dv
					}
				}
			}
		}
	}
	connPrefixes := map[string]bool{}
	connIfaces := map[string]*graphql.InterfaceType{}
	var connIfaceTypes []graphql.NamedType
	for _, ci := range spec.ConnIfaces {
		if connPrefixes[ci.Prefix] || named[ci.Prefix+"Connection"] != nil || named[ci.Prefix+"Edge"] != nil {
			fail("duplicate connection interface prefix %s", ci.Prefix)
		}
		connPrefixes[ci.Prefix] = true
		it := apifu.ConnectionInterface(&apifu.ConnectionInterfaceConfig{
			NamePrefix:       ci.Prefix,
			RequiredFeatures: reqSet(ci.Req),
			EdgeFields:       map[string]*graphql.FieldDefinition{"node": {Type: resolveT(parseType(ci.Node))}},
		})
		connIfaces[ci.Prefix] = it
		edgeIface := gschema.UnwrappedType(it.Fields["edges"].Type)
		named[ci.Prefix+"Connection"], named[ci.Prefix+"Edge"] = it, edgeIface
		connIfaceTypes = append(connIfaceTypes, it, edgeIface)
	}
	var mkConn func(parent string, f *FieldSpec) *graphql.FieldDefinition
	mkFields := func(t *TypeSpec, withResolvers bool) map[string]*graphql.FieldDefinition {
		out := map[string]*graphql.FieldDefinition{}
		for i := range t.Fields {
			f := &t.Fields[i]
			if _, dup := out[f.Name]; dup {
				fail("duplicate field %s.%s", t.Name, f.Name)
			}
			if f.Conn != nil {
				out[f.Name] = mkConn(t.Name, f)
				continue
			}
			def := &graphql.FieldDefinition{Type: resolveT(parseType(f.Type)), RequiredFeatures: reqSet(f.Req), Arguments: mkArgs(f.Args, t.Name+"."+f.Name)}
			setDefaults(def.Arguments, f.Args, f.ArgDefaults)
			if f.Deprecated {
				def.DeprecationReason = "no longer used"
			}
			if withResolvers {
				def.Resolve = w.resolver(t.Name, f)
			}
			out[f.Name] = def
		}
		return out
	}
	mkConn = func(parent string, f *FieldSpec) *graphql.FieldDefinition {
		{
			{
				c := f.Conn
				if connPrefixes[c.Prefix] || named[c.Prefix+"Connection"] != nil || named[c.Prefix+"Edge"] != nil {
					fail("duplicate connection prefix %s", c.Prefix)
				}
				connPrefixes[c.Prefix] = true
				fname, prefix := f.Name, c.Prefix
				var impl []*graphql.InterfaceType
				for _, p := range c.Impl {
					it, ok := connIfaces[p]
					if !ok {
						fail("connection %s implements unknown connection interface %s", c.Prefix, p)
					}
					impl = append(impl, it)
				}
				depReason := ""
				if f.Deprecated {
					depReason = "no longer used"
				}
				// the user-supplied edge fields, each with its own required features / deprecation / arguments
				edgeFields := map[string]*graphql.FieldDefinition{}
				for _, ef := range c.userEdgeFields() {
					ef := ef
					if edgeFields[ef.Name] != nil || ef.Name == "cursor" {
						fail("duplicate edge field %s.%s", c.Prefix, ef.Name)
					}
					ed := &graphql.FieldDefinition{Type: resolveT(parseType(ef.Type)), RequiredFeatures: reqSet(ef.Req),
						Arguments: mkArgs(ef.Args, c.Prefix+"Edge."+ef.Name), Resolve: w.resolver(c.Prefix+"Edge", &ef)}
					if ef.Deprecated {
						ed.DeprecationReason = "no longer used"
					}
					edgeFields[ef.Name] = ed
				}
				count := func(ctx graphql.FieldContext) int {
					var id uint64
					if o, ok := ctx.Object.(*obj); ok {
						id = o.id
					}
					return int(h64(w.seed, parent, fname, prefix, id)>>8) % 4
				}
				var def *graphql.FieldDefinition
				if c.TimeBased {
					base := time.Unix(1600000000, 0).UTC()
					def = apifu.TimeBasedConnection(&apifu.TimeBasedConnectionConfig{
						DeprecationReason:     depReason,
						NamePrefix:            c.Prefix,
						ImplementedInterfaces: impl,
						RequiredFeatures:      reqSet(f.Req),
						Arguments:             mkArgs(c.Args, parent+"."+fname),
						EdgeFields:            edgeFields,
						EdgeCursor: func(e interface{}) apifu.TimeBasedCursor {
							i := e.(edgeVal).i
							return apifu.NewTimeBasedCursor(base.Add(time.Duration(i)*time.Hour), fmt.Sprintf("e%d", i))
						},
						ResolveTotalCount: func(ctx graphql.FieldContext) (interface{}, error) { return count(ctx), nil },
						EdgeGetter: func(ctx graphql.FieldContext, minTime, maxTime time.Time, limit int) (interface{}, error) {
							var edges []edgeVal
							for i, n := 0, count(ctx); i < n; i++ {
								t := base.Add(time.Duration(i) * time.Hour)
								if !t.Before(minTime) && !t.After(maxTime) {
									edges = append(edges, edgeVal{i: i})
								}
							}
							if limit > 0 && len(edges) > limit {
								edges = edges[:limit]
							} else if limit < 0 && len(edges) > -limit {
								edges = edges[len(edges)+limit:]
							}
							return edges, nil
						},
					})
				} else {
					def = apifu.Connection(&apifu.ConnectionConfig{
						DeprecationReason:     depReason,
						NamePrefix:            c.Prefix,
						ImplementedInterfaces: impl,
						RequiredFeatures:      reqSet(f.Req),
						Arguments:             mkArgs(c.Args, parent+"."+fname),
						CursorType:            reflect.TypeOf(int(0)),
						EdgeCursor:            func(e interface{}) interface{} { return e.(edgeVal).i },
						EdgeFields:            edgeFields,
						ResolveAllEdges: func(ctx graphql.FieldContext) (interface{}, func(a, b interface{}) bool, error) {
							edges := make([]edgeVal, count(ctx))
							for i := range edges {
								edges[i] = edgeVal{i: i}
							}
							return edges, func(a, b interface{}) bool { return a.(int) < b.(int) }, nil
						},
					})
				}
				inner := def.Resolve
				def.Resolve = func(ctx graphql.FieldContext) (interface{}, error) {
					w.logCall(parent + "." + fname)
					return inner(ctx)
				}
				return def
			}
		}
	}
	var additional []graphql.NamedType
	additional = append(additional, connIfaceTypes...)
	for i := range spec.Orphans {
		def := mkConn("(orphan)", &spec.Orphans[i])
		additional = append(additional, def.Type.(graphql.NamedType))
	}
	for i := range spec.Types {
		t := &spec.Types[i]
		switch nt := named[t.Name].(type) {
		case *graphql.ObjectType:
			if t.Builtin != "" {
				break
			}
			nt.Fields = mkFields(t, true)
			seen := map[string]bool{}
			for _, in := range t.Ifaces {
				it, ok := named[in].(*graphql.InterfaceType)
				if !ok {
					fail("%s implements %s which is not an interface", t.Name, in)
				}
				if seen[in] {
					fail("%s implements %s twice", t.Name, in)
				}
				seen[in] = true
				nt.ImplementedInterfaces = append(nt.ImplementedInterfaces, it)
			}
		case *graphql.InterfaceType:
			nt.Fields = mkFields(t, false)
		case *graphql.UnionType:
			for _, mn := range t.Members {
				mt, ok := named[mn].(*graphql.ObjectType)
				if !ok {
					fail("%s has member %s which is not an object", t.Name, mn)
				}
				nt.MemberTypes = append(nt.MemberTypes, mt)
			}
		case *graphql.InputObjectType:
			nt.Fields = mkArgs(t.Inputs, t.Name)
			setDefaults(nt.Fields, t.Inputs, t.InputDefaults)
		}
		additional = append(additional, named[t.Name])
	}
	q, ok := named[spec.Query].(*graphql.ObjectType)
	if !ok {
		fail("query type %q is not an object", spec.Query)
	}
	directives := map[string]*graphql.DirectiveDefinition{"include": graphql.IncludeDirective, "skip": graphql.SkipDirective}
	for _, d := range spec.Directives {
		if directives[d.Name] != nil {
			fail("duplicate directive %s", d.Name)
		}
		dd := &graphql.DirectiveDefinition{
			Arguments: mkArgs(d.Args, "@"+d.Name),
			Locations: []gschema.DirectiveLocation{gschema.DirectiveLocationField, gschema.DirectiveLocationFragmentSpread, gschema.DirectiveLocationInlineFragment},
		}
		setDefaults(dd.Arguments, d.Args, d.Defaults)
		if d.Filter {
			dname := d.Name
			dd.FieldCollectionFilter = func(arguments map[string]interface{}) bool {
				// the decision depends on the whole map the executor built (keys and values, defaults
				// included), and the map is logged: an argument the request cannot see must not be in it
				c := canonArgs(arguments)
				w.logCall("@" + dname + " " + c)
				return h64("filter", dname, c)%3 != 0
			}
		}
		directives[d.Name] = dd
	}
	def = &graphql.SchemaDefinition{
		Query:           q,
		AdditionalTypes: additional,
		Directives:      directives,
	}
	if spec.Mutation != "" {
		m, ok := named[spec.Mutation].(*graphql.ObjectType)
		if !ok {
			fail("mutation type %q is not an object", spec.Mutation)
		}
		def.Mutation = m
	}
	if spec.Subscription != "" {
		m, ok := named[spec.Subscription].(*graphql.ObjectType)
		if !ok {
			fail("subscription type %q is not an object", spec.Subscription)
		}
		def.Subscription = m
	}
	if spec.Staged == 1 {
		assignTypeReqs(spec, named)
	}
	return def, named, nil
}

// assignTypeReqs completes the named types the harness declared without features (Spec.Staged).
func assignTypeReqs(spec *Spec, named map[string]gschema.NamedType) {
	for _, t := range spec.Types {
		if t.Builtin != "" || len(t.Req) == 0 {
			continue
		}
		switch nt := named[t.Name].(type) {
		case *graphql.ObjectType:
			nt.RequiredFeatures = reqSet(t.Req)
		case *graphql.InterfaceType:
			nt.RequiredFeatures = reqSet(t.Req)
		case *graphql.UnionType:
			nt.RequiredFeatures = reqSet(t.Req)
		case *graphql.EnumType:
			nt.RequiredFeatures = reqSet(t.Req)
		case *graphql.InputObjectType:
			nt.RequiredFeatures = reqSet(t.Req)
		case *graphql.ScalarType:
			nt.RequiredFeatures = reqSet(t.Req)
		}
	}
}

// prebuild (Spec.Staged 3 and 4): the definition's objects are handed to schema.New once BEFORE they are
// complete, then completed in place — the build that counts is a second build of the same objects after an
// edit. 3: the first build sees no type features at all (they are assigned afterwards); 4: the first build
// sees every object / interface / input object with one field only and no arguments, every union with one
// member, no implemented interfaces, no directive arguments (the rest is added afterwards). The result of
// the first build is ignored; the finished definition is the same as with any other Staged value.
func prebuild(spec *Spec, def *graphql.SchemaDefinition, named map[string]gschema.NamedType) {
	first := func() {
		defer func() { recover() }()
		graphql.NewSchema(def)
	}
	switch spec.Staged {
	case 3:
		first()
		assignTypeReqs(spec, named)
	case 4:
		var restore []func()
		keepOneField := func(m map[string]*graphql.FieldDefinition) map[string]*graphql.FieldDefinition {
			var names []string
			for n := range m {
				names = append(names, n)
			}
			sort.Strings(names)
			out := map[string]*graphql.FieldDefinition{}
			if len(names) > 0 {
				f := m[names[0]]
				args := f.Arguments
				f.Arguments = nil
				restore = append(restore, func() { f.Arguments = args })
				out[names[0]] = f
			}
			return out
		}
		for _, t := range spec.Types {
			if t.Builtin != "" {
				continue
			}
			switch nt := named[t.Name].(type) {
			case *graphql.ObjectType:
				fields, ifaces := nt.Fields, nt.ImplementedInterfaces
				nt.Fields, nt.ImplementedInterfaces = keepOneField(fields), nil
				restore = append(restore, func() { nt.Fields, nt.ImplementedInterfaces = fields, ifaces })
			case *graphql.InterfaceType:
				fields := nt.Fields
				nt.Fields = keepOneField(fields)
				restore = append(restore, func() { nt.Fields = fields })
			case *graphql.UnionType:
				members := nt.MemberTypes
				if len(members) > 1 {
					nt.MemberTypes = members[:1:1]
				}
				restore = append(restore, func() { nt.MemberTypes = members })
			case *graphql.InputObjectType:
				fields := nt.Fields
				var names []string
				for n := range fields {
					names = append(names, n)
				}
				sort.Strings(names)
				nt.Fields = map[string]*graphql.InputValueDefinition{}
				if len(names) > 0 {
					nt.Fields[names[0]] = fields[names[0]]
				}
				restore = append(restore, func() { nt.Fields = fields })
			}
		}
		for _, d := range def.Directives {
			d := d
			args := d.Arguments
			if len(args) > 0 {
				d.Arguments = nil
				restore = append(restore, func() { d.Arguments = args })
			}
		}
		first()
		for i := len(restore) - 1; i >= 0; i-- {
			restore[i]()
		}
	}
}

// namedTypesOf collects the named types a definition reaches, by name.
func namedTypesOf(def *graphql.SchemaDefinition) map[string]gschema.NamedType {
	byName := map[string]gschema.NamedType{}
	gschema.Inspect(def, func(n interface{}) bool {
		if nt, ok := n.(gschema.NamedType); ok {
			if byName[nt.TypeName()] != nil {
				return false // types refer to each other in cycles
			}
			byName[nt.TypeName()] = nt
		}
		return true
	})
	return byName
}
