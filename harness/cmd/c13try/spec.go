package main

// Abstract schema specifications with required-feature sets, the physical erasure erase(S, F)
// (an independent Go function: it never looks at the library's feature tests), the expansion of
// connection fields into plain types (what the Lean model sees), and the S-expression encoding.

import (
	"fmt"
	"sort"
	"strings"

	"verifharness/hx"
)

type ArgSpec struct {
	Name string `json:"name"`
	Type string `json:"type"` // "Int", "[E!]", "In!" …
}

type ConnSpec struct {
	Prefix string `json:"prefix"`
	Node   string `json:"node"` // type string of the edge's node field
	// Impl lists the prefixes of the connection interfaces (Spec.ConnIfaces) this connection implements.
	Impl []string `json:"impl,omitempty"`
	// NodeReq / NodeDeprecated: the node edge field's own required features / deprecation.
	NodeReq        []string `json:"node_req,omitempty"`
	NodeDeprecated bool     `json:"node_deprecated,omitempty"`
	// EdgeFields are further user-supplied edge fields (ConnectionConfig.EdgeFields besides node), each
	// with its own type, arguments, required features and deprecation.
	EdgeFields []FieldSpec `json:"edge_fields,omitempty"`
	// Args are extra connection arguments (ConnectionConfig.Arguments).
	Args []ArgSpec `json:"args,omitempty"`
	// TimeBased builds the field with apifu.TimeBasedConnection (adds atOrAfterTime / beforeTime: DateTime).
	TimeBased bool `json:"time_based,omitempty"`
}

// cloneConn deep-copies a connection spec.
func cloneConn(c *ConnSpec) *ConnSpec {
	n := *c
	n.Impl = append([]string(nil), c.Impl...)
	n.NodeReq = append([]string(nil), c.NodeReq...)
	n.Args = append([]ArgSpec(nil), c.Args...)
	n.EdgeFields = nil
	for _, f := range c.EdgeFields {
		f.Req = append([]string(nil), f.Req...)
		f.Args = append([]ArgSpec(nil), f.Args...)
		n.EdgeFields = append(n.EdgeFields, f)
	}
	return &n
}

// userEdgeFields: the user-supplied edge fields of a connection: node (when there is one) and EdgeFields.
func (c *ConnSpec) userEdgeFields() []FieldSpec {
	var out []FieldSpec
	if c.Node != "" {
		out = append(out, FieldSpec{Name: "node", Type: c.Node, Req: c.NodeReq, Deprecated: c.NodeDeprecated})
	}
	return append(out, c.EdgeFields...)
}

// ConnIface is an apifu.ConnectionInterface: interfaces <Prefix>Connection and <Prefix>Edge, both
// carrying Req.
type ConnIface struct {
	Prefix string   `json:"prefix"`
	Node   string   `json:"node"`
	Req    []string `json:"req,omitempty"`
}

type FieldSpec struct {
	Name string    `json:"name"`
	Type string    `json:"type,omitempty"`
	Req  []string  `json:"req,omitempty"`
	Args []ArgSpec `json:"args,omitempty"`
	// ArgDefaults names the arguments that have a default value (as InputDefaults).
	ArgDefaults []string `json:"arg_defaults,omitempty"`
	// Deprecated gives the field a DeprecationReason (independent of Req: both may be set).
	Deprecated bool `json:"deprecated,omitempty"`
	// Conn, when set, makes this field an apifu.Connection (types <Prefix>Connection / <Prefix>Edge,
	// both carrying the field's required features).
	Conn *ConnSpec `json:"conn,omitempty"`
}

type TypeSpec struct {
	Kind    string      `json:"kind"` // object interface union enum input scalar
	Name    string      `json:"name"`
	Req     []string    `json:"req,omitempty"`
	Fields  []FieldSpec `json:"fields,omitempty"`  // object, interface
	Ifaces  []string    `json:"ifaces,omitempty"`  // object
	Members []string    `json:"members,omitempty"` // union
	Values  []string    `json:"values,omitempty"`  // enum
	// DepValues are the enum values that carry a DeprecationReason.
	DepValues []string  `json:"deprecated_values,omitempty"`
	Inputs    []ArgSpec `json:"inputs,omitempty"` // input object fields
	// InputDefaults names the input fields that have a default value (scalar / enum typed, non-list
	// ones only; the value is a function of the type).
	InputDefaults []string `json:"input_defaults,omitempty"`
	// Builtin marks a type that is provided by the library (apifu.PageInfoType); the builder uses
	// the library's object instead of constructing one.
	Builtin string `json:"builtin,omitempty"`
}

// DirSpec is a custom directive definition (locations FIELD, FRAGMENT_SPREAD, INLINE_FRAGMENT; no
// field-collection filter, so it only matters to validation and introspection). Directives carry no
// required features, and schema.New has no feature rule for their argument types.
type DirSpec struct {
	Name string    `json:"name"`
	Args []ArgSpec `json:"args,omitempty"`
	// Defaults names the arguments that have a default value (only honoured for scalar / enum typed,
	// non-list arguments; the value is a function of the type).
	Defaults []string `json:"defaults,omitempty"`
	// Filter gives the directive a FieldCollectionFilter whose decision depends on the WHOLE argument
	// map the executor hands it (and which logs that map).
	Filter bool `json:"filter,omitempty"`
}

type Spec struct {
	Directives []DirSpec   `json:"directives,omitempty"`
	Types      []TypeSpec  `json:"types"`
	Query      string      `json:"query"`
	Mutation   string      `json:"mutation,omitempty"`
	ConnIfaces []ConnIface `json:"conn_ifaces,omitempty"`
	// Subscription names the subscription root type ("" = none).
	Subscription string `json:"subscription,omitempty"`
	// Orphans are connection fields whose host type was erased while the field itself (hence its
	// <Prefix>Connection / <Prefix>Edge types, which carry the field's features) stays visible: the
	// types are still built and registered, the field hangs nowhere. Only eraseSpec produces them.
	Orphans []FieldSpec `json:"orphans,omitempty"`
	// Staged says in which order the library objects are put together (the finished definition is the
	// same): 0 = every type literal carries its RequiredFeatures before anything refers to it; 1 = the
	// named types are declared without features, all fields / arguments / list and non-null wrappers are
	// built, and the RequiredFeatures are assigned last; 2 = the definition is built without type
	// features, cloned (SchemaDefinition.Clone, what apifu hands its PreprocessGraphQLSchemaDefinition
	// hook), and the features are assigned on the clone; 3 and 4 = the objects go through schema.New once
	// before they are complete and are completed in place, so that the build that counts is a second build
	// of the same objects after an edit (3: type features assigned after the first build; 4: fields,
	// arguments, union members, implemented interfaces, directive arguments added after the first build).
	Staged int `json:"staged,omitempty"`
}

func (s *Spec) clone() *Spec {
	out := &Spec{Query: s.Query, Mutation: s.Mutation, Subscription: s.Subscription, Staged: s.Staged}
	for _, d := range s.Directives {
		out.Directives = append(out.Directives, DirSpec{Name: d.Name, Args: append([]ArgSpec(nil), d.Args...), Defaults: append([]string(nil), d.Defaults...), Filter: d.Filter})
	}
	for _, ci := range s.ConnIfaces {
		ci.Req = append([]string(nil), ci.Req...)
		out.ConnIfaces = append(out.ConnIfaces, ci)
	}
	for _, f := range s.Orphans {
		nf := f
		nf.Conn = cloneConn(f.Conn)
		out.Orphans = append(out.Orphans, nf)
	}
	for _, t := range s.Types {
		nt := t
		nt.Req = append([]string(nil), t.Req...)
		nt.Ifaces = append([]string(nil), t.Ifaces...)
		nt.Members = append([]string(nil), t.Members...)
		nt.Values = append([]string(nil), t.Values...)
		nt.DepValues = append([]string(nil), t.DepValues...)
		nt.Inputs = append([]ArgSpec(nil), t.Inputs...)
		nt.InputDefaults = append([]string(nil), t.InputDefaults...)
		nt.Fields = nil
		for _, f := range t.Fields {
			nf := f
			nf.Req = append([]string(nil), f.Req...)
			nf.Args = append([]ArgSpec(nil), f.Args...)
			if f.Conn != nil {
				nf.Conn = cloneConn(f.Conn)
			}
			nt.Fields = append(nt.Fields, nf)
		}
		out.Types = append(out.Types, nt)
	}
	return out
}

func (s *Spec) find(name string) *TypeSpec {
	for i := range s.Types {
		if s.Types[i].Name == name {
			return &s.Types[i]
		}
	}
	return nil
}

func (s *Spec) features() []string {
	set := map[string]bool{}
	for _, t := range s.Types {
		for _, f := range t.Req {
			set[f] = true
		}
		for _, fd := range t.Fields {
			for _, f := range fd.Req {
				set[f] = true
			}
			if fd.Conn != nil {
				for _, ef := range fd.Conn.userEdgeFields() {
					for _, f := range ef.Req {
						set[f] = true
					}
				}
			}
		}
	}
	for _, ci := range s.ConnIfaces {
		for _, f := range ci.Req {
			set[f] = true
		}
	}
	var out []string
	for f := range set {
		out = append(out, f)
	}
	sort.Strings(out)
	return out
}

var builtinScalarNames = []string{"Boolean", "Float", "ID", "Int", "String"}

// builtinScalarSpecs are the five built-in scalars as explicit (ungated) types: every generated schema
// registers all of them (AdditionalTypes), so that erasing the only field that uses, say, Float does
// not change the type listing for a reason that has nothing to do with features.
func builtinScalarSpecs() []TypeSpec {
	var out []TypeSpec
	for _, n := range builtinScalarNames {
		out = append(out, TypeSpec{Kind: "scalar", Name: n, Builtin: n})
	}
	return out
}

// baseName strips list / non-null wrappers from a type string.
func baseName(t string) string {
	return strings.Trim(t, "[]!")
}

func subset(req []string, F map[string]bool) bool {
	for _, r := range req {
		if !F[r] {
			return false
		}
	}
	return true
}

func fset(fs []string) map[string]bool {
	m := map[string]bool{}
	for _, f := range fs {
		m[f] = true
	}
	return m
}

// expand replaces connection fields by the plain types apifu.Connection creates. The result has no
// Conn fields; it is what the Lean model is given. hasConn reports whether PageInfo is needed.
func expand(s *Spec) *Spec {
	out := s.clone()
	var extra []TypeSpec
	for _, ci := range out.ConnIfaces {
		extra = append(extra,
			TypeSpec{Kind: "interface", Name: ci.Prefix + "Connection", Req: append([]string(nil), ci.Req...), Fields: []FieldSpec{
				{Name: "edges", Type: "[" + ci.Prefix + "Edge!]!"},
				{Name: "pageInfo", Type: "PageInfo!"},
			}},
			TypeSpec{Kind: "interface", Name: ci.Prefix + "Edge", Req: append([]string(nil), ci.Req...), Fields: []FieldSpec{
				{Name: "cursor", Type: "String!"},
				{Name: "node", Type: ci.Node},
			}})
	}
	out.ConnIfaces = nil
	connTypes := func(c *ConnSpec, req []string) {
		var ci, ei []string
		for _, p := range c.Impl {
			ci = append(ci, p+"Connection")
			ei = append(ei, p+"Edge")
		}
		extra = append(extra,
			TypeSpec{Kind: "object", Name: c.Prefix + "Connection", Req: append([]string(nil), req...), Ifaces: ci, Fields: []FieldSpec{
				{Name: "edges", Type: "[" + c.Prefix + "Edge!]!"},
				{Name: "pageInfo", Type: "PageInfo!"},
				{Name: "totalCount", Type: "Int!"},
			}},
			TypeSpec{Kind: "object", Name: c.Prefix + "Edge", Req: append([]string(nil), req...), Ifaces: ei,
				Fields: append([]FieldSpec{{Name: "cursor", Type: "String!"}}, cloneConn(c).userEdgeFields()...)})
	}
	for _, f := range out.Orphans {
		connTypes(f.Conn, f.Req)
	}
	out.Orphans = nil
	for ti := range out.Types {
		t := &out.Types[ti]
		for fi := range t.Fields {
			f := &t.Fields[fi]
			if f.Conn == nil {
				continue
			}
			c := f.Conn
			f.Conn = nil
			f.Type = c.Prefix + "Connection"
			f.Args = []ArgSpec{{"after", "String"}, {"before", "String"}, {"first", "Int"}, {"last", "Int"}}
			if c.TimeBased {
				f.Args = append(f.Args, ArgSpec{"atOrAfterTime", "DateTime"}, ArgSpec{"beforeTime", "DateTime"})
			}
			f.Args = append(f.Args, c.Args...)
			connTypes(c, f.Req)
		}
	}
	out.Types = append(out.Types, extra...)
	return out
}

func pageInfoSpec() TypeSpec {
	return TypeSpec{Kind: "object", Name: "PageInfo", Builtin: "PageInfo", Fields: []FieldSpec{
		{Name: "endCursor", Type: "String!"},
		{Name: "hasNextPage", Type: "Boolean!"},
		{Name: "hasPreviousPage", Type: "Boolean!"},
		{Name: "startCursor", Type: "String!"},
	}}
}

// eraseSpec is the physically reduced schema erase(S, F): every type whose required features are not
// all in F is deleted, every field whose required features are not all in F is deleted, and the
// interface memberships / union members naming a deleted type go with it. Nothing else changes (types
// that merely become unreachable stay registered, exactly as a type listed in AdditionalTypes).
func eraseSpec(s *Spec, F map[string]bool) *Spec {
	alive := map[string]bool{}
	for _, t := range s.Types {
		if subset(t.Req, F) {
			alive[t.Name] = true
		}
	}
	out := &Spec{Query: s.Query, Mutation: s.Mutation, Subscription: s.Subscription}
	// a directive argument whose type is deleted goes with it (there is no construction rule that
	// would forbid such an argument: open findings F-10g / F-13g)
	for _, d := range s.Directives {
		nd := DirSpec{Name: d.Name, Filter: d.Filter}
		for _, a := range d.Args {
			if alive[baseName(a.Type)] {
				nd.Args = append(nd.Args, a)
				for _, dn := range d.Defaults {
					if dn == a.Name {
						nd.Defaults = append(nd.Defaults, dn)
					}
				}
			}
		}
		out.Directives = append(out.Directives, nd)
	}
	if out.Mutation != "" && !alive[out.Mutation] {
		out.Mutation = ""
	}
	if out.Subscription != "" && !alive[out.Subscription] {
		out.Subscription = ""
	}
	aliveCI := map[string]bool{}
	for _, ci := range s.ConnIfaces {
		if subset(ci.Req, F) {
			aliveCI[ci.Prefix] = true
			out.ConnIfaces = append(out.ConnIfaces, ci)
		}
	}
	keepConn := func(f FieldSpec) FieldSpec {
		c := cloneConn(f.Conn)
		c.Impl = nil
		for _, p := range f.Conn.Impl {
			if aliveCI[p] {
				c.Impl = append(c.Impl, p)
			}
		}
		// gated edge fields go (the node field too, when it carries a requirement F does not meet)
		if c.Node != "" && !subset(c.NodeReq, F) {
			c.Node, c.NodeReq, c.NodeDeprecated = "", nil, false
		}
		c.EdgeFields = nil
		for _, ef := range f.Conn.EdgeFields {
			if subset(ef.Req, F) {
				c.EdgeFields = append(c.EdgeFields, ef)
			}
		}
		f.Conn = c
		return f
	}
	for _, f := range s.Orphans {
		if subset(f.Req, F) {
			out.Orphans = append(out.Orphans, keepConn(f))
		}
	}
	for _, t := range s.Types {
		if !alive[t.Name] {
			for _, f := range t.Fields {
				if f.Conn != nil && subset(f.Req, F) {
					out.Orphans = append(out.Orphans, keepConn(f)) // its connection types are visible and stay
				}
			}
			continue
		}
		nt := TypeSpec{Kind: t.Kind, Name: t.Name, Req: append([]string(nil), t.Req...), Builtin: t.Builtin,
			Values: append([]string(nil), t.Values...), DepValues: append([]string(nil), t.DepValues...), Inputs: append([]ArgSpec(nil), t.Inputs...),
			InputDefaults: append([]string(nil), t.InputDefaults...)}
		for _, f := range t.Fields {
			if !subset(f.Req, F) {
				continue
			}
			nf := f
			nf.Req = append([]string(nil), f.Req...)
			nf.Args = append([]ArgSpec(nil), f.Args...)
			if f.Conn != nil {
				nf = keepConn(nf)
			}
			nt.Fields = append(nt.Fields, nf)
		}
		for _, i := range t.Ifaces {
			if alive[i] {
				nt.Ifaces = append(nt.Ifaces, i)
			}
		}
		for _, m := range t.Members {
			if alive[m] {
				nt.Members = append(nt.Members, m)
			}
		}
		out.Types = append(out.Types, nt)
	}
	return out
}

// ---- S-expression encoding (for the Lean driver) and canonical form --------------------------

func strs(xs []string) hx.Sexp {
	out := make([]hx.Sexp, len(xs))
	for i, x := range xs {
		out[i] = hx.A(x)
	}
	return hx.L(out...)
}

func argsSexp(as []ArgSpec) hx.Sexp {
	out := make([]hx.Sexp, len(as))
	for i, a := range as {
		out[i] = hx.L(hx.A(a.Name), hx.A(a.Type))
	}
	return hx.L(out...)
}

// specSexp encodes an expanded spec: (schema query mutation|"" subscription|"" (type kind name (req…) (fields (f name type (req…) ((arg type)…))…) (ifaces…) (members…) (values…) (inputs (n t)…))…)
func specSexp(s *Spec) hx.Sexp {
	ts := []hx.Sexp{hx.A("schema"), hx.A(s.Query), hx.A(s.Mutation), hx.A(s.Subscription)}
	for _, t := range s.Types {
		fs := make([]hx.Sexp, len(t.Fields))
		for i, f := range t.Fields {
			if f.Conn != nil {
				panic("specSexp needs an expanded spec")
			}
			dep := "-"
			if f.Deprecated {
				dep = "dep"
			}
			fs[i] = hx.L(hx.A(f.Name), hx.A(f.Type), strs(f.Req), argsSexp(f.Args), hx.A(dep))
		}
		ts = append(ts, hx.L(hx.A(t.Kind), hx.A(t.Name), strs(t.Req), hx.L(fs...), strs(t.Ifaces), strs(t.Members), strs(t.Values), argsSexp(t.Inputs), strs(t.DepValues)))
	}
	return hx.L(ts...)
}

// canonSpec is an order-insensitive rendering of an expanded spec (types, fields, arguments, lists sorted).
func canonSpec(s *Spec) string {
	var ts []string
	for _, t := range s.Types {
		var fs []string
		for _, f := range t.Fields {
			var as []string
			for _, a := range f.Args {
				as = append(as, a.Name+":"+a.Type)
			}
			sort.Strings(as)
			r := append([]string(nil), f.Req...)
			sort.Strings(r)
			dep := ""
			if f.Deprecated {
				dep = "~"
			}
			fs = append(fs, fmt.Sprintf("%s%s(%s):%s@%s", f.Name, dep, strings.Join(as, ","), f.Type, strings.Join(r, "+")))
		}
		sort.Strings(fs)
		var in []string
		for _, a := range t.Inputs {
			in = append(in, a.Name+":"+a.Type)
		}
		sort.Strings(in)
		r := append([]string(nil), t.Req...)
		sort.Strings(r)
		i := append([]string(nil), t.Ifaces...)
		sort.Strings(i)
		m := append([]string(nil), t.Members...)
		sort.Strings(m)
		v := append([]string(nil), t.Values...)
		for _, d := range t.DepValues {
			v = append(v, d+"~")
		}
		sort.Strings(v)
		ts = append(ts, fmt.Sprintf("%s %s@%s{%s}impl[%s]mem[%s]val[%s]in[%s]", t.Kind, t.Name, strings.Join(r, "+"), strings.Join(fs, ";"), strings.Join(i, ","), strings.Join(m, ","), strings.Join(v, ","), strings.Join(in, ",")))
	}
	sort.Strings(ts)
	return fmt.Sprintf("query=%s mutation=%s subscription=%s\n%s", s.Query, s.Mutation, s.Subscription, strings.Join(ts, "\n"))
}

// wellFormed: the conventions every generated spec obeys and the shrinker must keep — all five
// built-in scalars are registered, and PageInfo is registered whenever a connection field exists
// (otherwise a type would come and go with a field for reasons unrelated to features).
func wellFormed(s *Spec) bool {
	for _, n := range builtinScalarNames {
		if t := s.find(n); t == nil || t.Builtin != n {
			return false
		}
	}
	for _, t := range s.Types {
		for _, f := range t.Fields {
			if f.Conn != nil {
				if p := s.find("PageInfo"); p == nil || p.Builtin != "PageInfo" {
					return false
				}
			}
		}
	}
	if len(s.Orphans) > 0 || len(s.ConnIfaces) > 0 {
		if p := s.find("PageInfo"); p == nil || p.Builtin != "PageInfo" {
			return false
		}
	}
	timeBased := false
	for _, f := range s.Orphans {
		timeBased = timeBased || f.Conn.TimeBased
	}
	for _, t := range s.Types {
		for _, f := range t.Fields {
			timeBased = timeBased || f.Conn != nil && f.Conn.TimeBased
		}
	}
	if timeBased {
		if p := s.find("DateTime"); p == nil || p.Builtin != "DateTime" {
			return false
		}
	}
	return true
}

// stripReq removes every required-feature set. Applied to erase(S,F) it gives the reduced schema as a
// plain schema without any feature machinery: under all features every remaining requirement holds,
// so this is the same schema — but the reference no longer depends on the library's feature tests
// or on the plumbing of the request's feature set.
func stripReq(s *Spec) *Spec {
	out := s.clone()
	for i := range out.Types {
		out.Types[i].Req = nil
		for j := range out.Types[i].Fields {
			out.Types[i].Fields[j].Req = nil
			stripConnReq(out.Types[i].Fields[j].Conn)
		}
	}
	for i := range out.Orphans {
		out.Orphans[i].Req = nil
		stripConnReq(out.Orphans[i].Conn)
	}
	for i := range out.ConnIfaces {
		out.ConnIfaces[i].Req = nil
	}
	return out
}

func stripConnReq(c *ConnSpec) {
	if c == nil {
		return
	}
	c.NodeReq = nil
	for i := range c.EdgeFields {
		c.EdgeFields[i].Req = nil
	}
}

func dateTimeSpec() TypeSpec { return TypeSpec{Kind: "scalar", Name: "DateTime", Builtin: "DateTime"} }

// allDirectives: the custom directives plus the two the builder always registers.
func allDirectives(s *Spec) []DirSpec {
	return append([]DirSpec{{Name: "include", Args: []ArgSpec{{"if", "Boolean!"}}}, {Name: "skip", Args: []ArgSpec{{"if", "Boolean!"}}}}, s.Directives...)
}

// dirSexp: (directives (name ((arg type)…))…), sent to the driver before the schema it belongs to.
func dirSexp(s *Spec) hx.Sexp {
	out := []hx.Sexp{hx.A("directives")}
	for _, d := range allDirectives(s) {
		out = append(out, hx.L(hx.A(d.Name), argsSexp(d.Args)))
	}
	return hx.L(out...)
}

func canonDirectives(s *Spec) string {
	var ds []string
	for _, d := range allDirectives(s) {
		var as []string
		for _, a := range d.Args {
			as = append(as, a.Name+":"+a.Type)
		}
		sort.Strings(as)
		ds = append(ds, "@"+d.Name+"("+strings.Join(as, ",")+")")
	}
	sort.Strings(ds)
	return strings.Join(ds, " ")
}

// hiddenDirectiveArgs lists "directive.arg" for the directive arguments whose type is not visible under F.
// Since fix 05 (a3e0047) the library hides a directive argument whose type is not visible to the
// request (DirectiveDefinition.VisibleArguments), which is what erase does: nothing is outside the
// theorems' domain on account of directive arguments.
func hiddenDirectiveArgs(s *Spec, F map[string]bool) []string { return nil }

func gatedDirectiveArgs(s *Spec, F map[string]bool) []string {
	var out []string
	for _, d := range s.Directives {
		for _, a := range d.Args {
			if t := s.find(baseName(a.Type)); t != nil && !subset(t.Req, F) {
				out = append(out, d.Name+"."+a.Name)
			}
		}
	}
	return out
}
