package main

// Introspection probes, and the "view": what the real schema objects answer through the accessors
// the model transliterates (GetField, feature-aware type lookup, introspection listings, spread
// possibility), rendered as canonical lines comparable with the Lean driver's reply.

import (
	"context"
	"encoding/json"
	"fmt"
	"sort"
	"strings"

	"github.com/ccbrown/api-fu/graphql"
	"github.com/ccbrown/api-fu/graphql/schema/introspection"

	"verifharness/hx"
)

const typeRefFrag = `fragment R on __Type { kind name ofType { kind name ofType { kind name ofType { kind name ofType { kind name } } } } }`

func typeProbe(name string) string {
	return fmt.Sprintf(`{ __type(name: %q) { kind name fields(includeDeprecated: true) { name isDeprecated type { ...R } args { name type { ...R } } } interfaces { name } possibleTypes { name } inputFields { name type { ...R } } enumValues(includeDeprecated: true) { name isDeprecated } } } %s`, name, typeRefFrag)
}

// typeProbeND: the same listings without includeDeprecated (default false).
func typeProbeND(name string) string {
	return fmt.Sprintf(`{ __type(name: %q) { name fields { name isDeprecated type { ...R } } enumValues { name } } } %s`, name, typeRefFrag)
}

// typeProbeVar passes includeDeprecated through a variable.
const typeProbeVarText = `query Q($n: String!, $d: Boolean) { __type(name: $n) { name fields(includeDeprecated: $d) { name isDeprecated type { ...R } } enumValues(includeDeprecated: $d) { name isDeprecated } } } ` + typeRefFrag

var introspectionQueryText = introspection.Query

// dirTies: the driver knows directive definitions (it answered "ok" to (directives …)).
var dirTies bool

const schemaProbe = `{ __schema { queryType { name } mutationType { name } subscriptionType { name } types { name } } }`

// navigation probes: reach types through other types' listings rather than by name
func navProbe(name string) string {
	return fmt.Sprintf(`{ __type(name: %q) { name possibleTypes { name kind fields { name type { ...R } } interfaces { name possibleTypes { name } } } interfaces { name kind fields { name } possibleTypes { name interfaces { name } } } fields { name type { ...R } args { name type { ...R } } } } } %s`, name, typeRefFrag)
}

const listNavProbe = `{ __schema { types { name kind interfaces { name } possibleTypes { name } fields { name type { name kind ofType { name kind ofType { name kind ofType { name } } } } } inputFields { name type { name ofType { name ofType { name } } } } } } }`

// universe is every type name a probe may mention: all names of the original schema (gated ones
// included), a name that never exists, and an introspection type.
func universe(orig *Spec) []string {
	var out []string
	for _, t := range orig.Types {
		out = append(out, t.Name)
	}
	out = append(out, "Nope", "__Type")
	sort.Strings(out)
	return out
}

type query struct {
	Kind  string                 `json:"kind"` // probe | doc
	Label string                 `json:"label"`
	Text  string                 `json:"text"`
	Vars  map[string]interface{} `json:"vars,omitempty"`
	doc   *Doc
}

func introspectionProbes(orig *Spec) []query {
	qs := []query{
		{Kind: "probe", Label: "full-introspection", Text: string(introspection.Query)},
		{Kind: "probe", Label: "schema-types", Text: schemaProbe},
		{Kind: "probe", Label: "types-nav", Text: listNavProbe},
		{Kind: "probe", Label: "directives", Text: `{ __schema { directives { name locations args { name type { ...R } } } } } ` + typeRefFrag},
	}
	for _, n := range universe(orig) {
		qs = append(qs, query{Kind: "probe", Label: "type:" + n, Text: typeProbe(n)})
	}
	for _, t := range orig.Types {
		// deprecation only matters where something is deprecated
		hasDep := len(t.DepValues) > 0
		for _, f := range t.Fields {
			hasDep = hasDep || f.Deprecated
		}
		if hasDep {
			qs = append(qs, query{Kind: "probe", Label: "type-nd:" + t.Name, Text: typeProbeND(t.Name)},
				query{Kind: "probe", Label: "type-var:" + t.Name, Text: typeProbeVarText, Vars: map[string]interface{}{"n": t.Name, "d": true}},
				query{Kind: "probe", Label: "type-var:" + t.Name, Text: typeProbeVarText, Vars: map[string]interface{}{"n": t.Name, "d": false}})
		}
	}
	for _, t := range orig.Types {
		if t.Kind == "interface" || t.Kind == "union" || t.Kind == "object" && len(t.Ifaces) > 0 {
			qs = append(qs, query{Kind: "probe", Label: "nav:" + t.Name, Text: navProbe(t.Name)})
		}
	}
	return qs
}

// ---- running a query --------------------------------------------------------------------------------

type outcome struct {
	Resp  string   `json:"resp"`
	Log   []string `json:"log"`
	Panic string   `json:"panic,omitempty"`
}

func sortJSON(v interface{}) interface{} {
	switch x := v.(type) {
	case map[string]interface{}:
		for k, e := range x {
			x[k] = sortJSON(e)
		}
		return x
	case []interface{}:
		keyed := make([]struct {
			k string
			v interface{}
		}, len(x))
		for i, e := range x {
			e = sortJSON(e)
			b, _ := json.Marshal(e)
			keyed[i].k, keyed[i].v = string(b), e
		}
		sort.SliceStable(keyed, func(i, j int) bool { return keyed[i].k < keyed[j].k })
		for i := range x {
			x[i] = keyed[i].v
		}
		return x
	}
	return v
}

// runQuery executes q through the real graphql.Execute (parse, validate with the feature set,
// execute). The response is canonicalised: for introspection probes every list is a set that came
// out of a Go map (or out of the schema traversal order), so all arrays are sorted; for ordinary
// documents only the list of validation errors (no data) is sorted, data and execution errors keep
// their order.
// requestFeatures is the FeatureSet of a request that enables exactly the named features. "No features"
// is written both ways an application can write it: an empty set, and no set at all (nil) — which one is
// a function of the world's seed.
func requestFeatures(features []string, w *world) graphql.FeatureSet {
	if len(features) == 0 && w.seed%2 == 0 {
		return nil
	}
	return graphql.NewFeatureSet(features...)
}

func runQuery(b *built, w *world, features []string, q *query) (o outcome) {
	w.log = nil
	defer func() {
		if p := recover(); p != nil {
			o.Panic = fmt.Sprint(p)
			o.Log = append([]string(nil), w.log...)
		}
	}()
	resp := graphql.Execute(&graphql.Request{
		Context:        context.Background(),
		Query:          q.Text,
		Schema:         b.schema,
		Features:       requestFeatures(features, w),
		VariableValues: q.Vars,
	})
	raw, err := json.Marshal(resp)
	if err != nil {
		o.Resp = "marshal error: " + err.Error()
	} else if q.Kind == "probe" || resp.Data == nil {
		var v interface{}
		json.Unmarshal(raw, &v)
		c, _ := json.Marshal(sortJSON(v))
		o.Resp = string(c)
	} else {
		o.Resp = string(raw)
	}
	o.Log = append([]string(nil), w.log...)
	return o
}

// ---- the view of the real schema ------------------------------------------------------------------

func refString(v interface{}) string {
	m, ok := v.(map[string]interface{})
	if !ok {
		return "?"
	}
	switch m["kind"] {
	case "NON_NULL":
		return refString(m["ofType"]) + "!"
	case "LIST":
		return "[" + refString(m["ofType"]) + "]"
	}
	s, _ := m["name"].(string)
	return s
}

func namesOf(v interface{}) string {
	l, ok := v.([]interface{})
	if !ok {
		return "none"
	}
	var out []string
	for _, e := range l {
		if m, ok := e.(map[string]interface{}); ok {
			s, _ := m["name"].(string)
			out = append(out, s)
		}
	}
	sort.Strings(out)
	return "[" + strings.Join(out, ",") + "]"
}

func inputsOf(v interface{}) string {
	l, ok := v.([]interface{})
	if !ok {
		return "none"
	}
	var out []string
	for _, e := range l {
		if m, ok := e.(map[string]interface{}); ok {
			s, _ := m["name"].(string)
			out = append(out, s+":"+refString(m["type"]))
		}
	}
	sort.Strings(out)
	return "[" + strings.Join(out, ",") + "]"
}

func fieldsOf(v interface{}) string {
	l, ok := v.([]interface{})
	if !ok {
		return "none"
	}
	var out []string
	for _, e := range l {
		if m, ok := e.(map[string]interface{}); ok {
			s, _ := m["name"].(string)
			if d, _ := m["isDeprecated"].(bool); d {
				s += "~"
			}
			args := ""
			if _, ok := m["args"]; ok {
				args = inputsOf(m["args"])
			}
			out = append(out, s+args+":"+refString(m["type"]))
		}
	}
	sort.Strings(out)
	return "[" + strings.Join(out, ";") + "]"
}

func hasError(resp string, msg string) bool {
	var r struct {
		Errors []struct {
			Message string `json:"message"`
		} `json:"errors"`
	}
	json.Unmarshal([]byte(resp), &r)
	for _, e := range r.Errors {
		if e.Message == msg {
			return true
		}
	}
	return false
}

// realView asks the real schema everything the model's view contains. names is the universe of
// type names; orig (expanded original spec) supplies the (type, field) pairs to try with GetField.
func realView(b *built, w *world, features []string, orig *Spec) ([]string, error) {
	var lines []string
	F := graphql.NewFeatureSet(features...)
	run := func(text string) (map[string]interface{}, string, error) {
		o := runQuery(b, w, features, &query{Kind: "probe", Text: text})
		if o.Panic != "" {
			return nil, "", fmt.Errorf("panic: %s", o.Panic)
		}
		var v struct {
			Data map[string]interface{} `json:"data"`
		}
		if err := json.Unmarshal([]byte(o.Resp), &v); err != nil {
			return nil, o.Resp, err
		}
		return v.Data, o.Resp, nil
	}
	d, raw, err := run(schemaProbe)
	if err != nil || d == nil {
		return nil, fmt.Errorf("schema probe failed: %v %s", err, raw)
	}
	sch, _ := d["__schema"].(map[string]interface{})
	lines = append(lines, "types: "+namesOf(sch["types"]))
	nameOrDash := func(v interface{}) string {
		if m, ok := v.(map[string]interface{}); ok {
			s, _ := m["name"].(string)
			return s
		}
		return "-"
	}
	lines = append(lines, "query: "+nameOrDash(sch["queryType"]), "mutation: "+nameOrDash(sch["mutationType"]), "subscription: "+nameOrDash(sch["subscriptionType"]))
	names := universe(orig)
	for _, n := range names {
		d, raw, err := run(typeProbe(n))
		if err != nil || d == nil {
			return nil, fmt.Errorf("type probe %s failed: %v %s", n, err, raw)
		}
		t, ok := d["__type"].(map[string]interface{})
		if !ok {
			lines = append(lines, fmt.Sprintf("type %s: none", n))
		} else {
			lines = append(lines, fmt.Sprintf("type %s: %v fields=%s interfaces=%s possible=%s inputs=%s values=%s", n, t["kind"],
				fieldsOf(t["fields"]), namesOf(t["interfaces"]), namesOf(t["possibleTypes"]), inputsOf(t["inputFields"]), namesOf(t["enumValues"])))
			// the listings without includeDeprecated
			d2, raw2, err := run(typeProbeND(n))
			if err != nil || d2 == nil {
				return nil, fmt.Errorf("type probe (no deprecated) %s failed: %v %s", n, err, raw2)
			}
			if t2, ok := d2["__type"].(map[string]interface{}); ok {
				lines = append(lines, fmt.Sprintf("typend %s: fields=%s values=%s", n, fieldsOf(t2["fields"]), namesOf(t2["enumValues"])))
			}
		}
		// feature-aware type lookup of the validator, observed through a fragment definition
		o := runQuery(b, w, features, &query{Kind: "probe", Text: fmt.Sprintf("{ __typename ...X } fragment X on %s { __typename }", n)})
		switch {
		case hasError(o.Resp, "Validation error: undefined type"):
			lines = append(lines, fmt.Sprintf("lk %s: none", n))
		case hasError(o.Resp, "Validation error: fragments may only be defined on objects, interfaces, and unions"):
			lines = append(lines, fmt.Sprintf("lk %s: leaf", n))
		default:
			lines = append(lines, fmt.Sprintf("lk %s: composite", n))
		}
	}
	// directives: the introspection listing, and the argument definitions the validator consults
	// (observed through "undefined directive" / "undefined argument")
	if dirTies {
		d, raw, err := run(`{ __schema { directives { name args { name type { ...R } } } } } ` + typeRefFrag)
		if err != nil || d == nil {
			return nil, fmt.Errorf("directives probe failed: %v %s", err, raw)
		}
		sch, _ := d["__schema"].(map[string]interface{})
		dl, _ := sch["directives"].([]interface{})
		for _, e := range dl {
			m, _ := e.(map[string]interface{})
			name, _ := m["name"].(string)
			lines = append(lines, fmt.Sprintf("dir @%s: %s", name, inputsOf(m["args"])))
			argNames := []string{"nope"}
			if al, ok := m["args"].([]interface{}); ok {
				for _, a := range al {
					if am, ok := a.(map[string]interface{}); ok {
						an, _ := am["name"].(string)
						argNames = append(argNames, an)
					}
				}
			}
			for _, an := range argNames {
				o := runQuery(b, w, features, &query{Kind: "probe", Text: fmt.Sprintf("{ __typename @%s(%s: 1) }", name, an)})
				verdict := "defined"
				if hasError(o.Resp, "Validation error: undefined argument") {
					verdict = "undefined"
				}
				lines = append(lines, fmt.Sprintf("da %s.%s: %s", name, an, verdict))
			}
		}
		o := runQuery(b, w, features, &query{Kind: "probe", Text: "{ __typename @nope(x: 1) }"})
		verdict := "?"
		if hasError(o.Resp, "Validation error: undefined directive") {
			verdict = "nodirective"
		}
		lines = append(lines, "da nope.x: "+verdict)
	}
	// GetField, called directly on the library's type objects (gated types included: the accessor
	// itself does not test the type's own features)
	for _, t := range orig.Types {
		if t.Kind != "object" && t.Kind != "interface" {
			continue
		}
		nt := b.schema.NamedTypes()[t.Name]
		if nt == nil {
			continue // erased schema: the type does not exist
		}
		fnames := []string{"nope"}
		for _, f := range t.Fields {
			fnames = append(fnames, f.Name)
		}
		for _, fn := range fnames {
			var def *graphql.FieldDefinition
			switch x := nt.(type) {
			case *graphql.ObjectType:
				def = x.GetField(fn, F)
			case *graphql.InterfaceType:
				def = x.GetField(fn, F)
			}
			if def == nil {
				lines = append(lines, fmt.Sprintf("gf %s.%s: none", t.Name, fn))
			} else {
				var as []string
				for an, a := range def.Arguments {
					as = append(as, an+":"+a.Type.String())
				}
				sort.Strings(as)
				lines = append(lines, fmt.Sprintf("gf %s.%s: [%s]:%s", t.Name, fn, strings.Join(as, ","), def.Type.String()))
			}
		}
	}
	// spread possibility, observed through validation (only for pairs of visible composite types;
	// with an invisible one the validator reports "undefined type" instead)
	var comp []string
	for _, l := range lines {
		if strings.HasPrefix(l, "lk ") && strings.HasSuffix(l, ": composite") {
			comp = append(comp, strings.TrimSuffix(strings.TrimPrefix(l, "lk "), ": composite"))
		}
	}
	for _, p := range comp {
		for _, t := range comp {
			if strings.HasPrefix(p, "__") || strings.HasPrefix(t, "__") {
				continue
			}
			o := runQuery(b, w, features, &query{Kind: "probe", Text: fmt.Sprintf("{ __typename } fragment X on %s { ... on %s { __typename } }", p, t)})
			lines = append(lines, fmt.Sprintf("sp %s %s: %v", p, t, !hasError(o.Resp, "Validation error: impossible fragment spread")))
		}
	}
	sort.Strings(lines)
	return lines, nil
}

// ---- the model's view -------------------------------------------------------------------------------

func sexpNames(x hx.Sexp) string {
	if !x.IsList {
		return "none"
	}
	var out []string
	for _, e := range x.List {
		out = append(out, e.Atom)
	}
	sort.Strings(out)
	return "[" + strings.Join(out, ",") + "]"
}

func sexpInputs(x hx.Sexp) string {
	if !x.IsList {
		return "none"
	}
	var out []string
	for _, e := range x.List {
		if e.IsList && len(e.List) == 2 {
			out = append(out, e.List[0].Atom+":"+e.List[1].Atom)
		}
	}
	sort.Strings(out)
	return "[" + strings.Join(out, ",") + "]"
}

func sexpFields(x hx.Sexp, withArgs bool) string {
	if !x.IsList {
		return "none"
	}
	var out []string
	for _, e := range x.List {
		if e.IsList && len(e.List) == 3 {
			args := ""
			if withArgs {
				args = sexpInputs(e.List[2])
			}
			out = append(out, e.List[0].Atom+args+":"+e.List[1].Atom)
		}
	}
	sort.Strings(out)
	return "[" + strings.Join(out, ";") + "]"
}

// modelViewLines turns the driver's (view …) reply into the same canonical lines as realView.
func modelViewLines(reply string) ([]string, error) {
	x, err := hx.ParseSexp(reply)
	if err != nil || !x.IsList || len(x.List) == 0 || x.List[0].Atom != "view" {
		return nil, fmt.Errorf("unexpected view reply %.200q (%v)", reply, err)
	}
	var lines []string
	for _, e := range x.List[1:] {
		if !e.IsList || len(e.List) == 0 {
			return nil, fmt.Errorf("bad view entry %s", e.String())
		}
		a := e.List
		switch a[0].Atom {
		case "types":
			lines = append(lines, "types: "+sexpNames(hx.L(a[1:]...)))
		case "query":
			lines = append(lines, "query: "+a[1].Atom)
		case "mutation":
			lines = append(lines, "mutation: "+a[1].Atom)
		case "subscription":
			lines = append(lines, "subscription: "+a[1].Atom)
		case "type":
			if len(a) == 3 {
				lines = append(lines, fmt.Sprintf("type %s: none", a[1].Atom))
			} else if len(a) == 10 {
				lines = append(lines, fmt.Sprintf("type %s: %s fields=%s interfaces=%s possible=%s inputs=%s values=%s", a[1].Atom, a[2].Atom,
					sexpFields(a[3], true), sexpNames(a[4]), sexpNames(a[5]), sexpInputs(a[6]), sexpNames(a[7])))
				lines = append(lines, fmt.Sprintf("typend %s: fields=%s values=%s", a[1].Atom, sexpFields(a[8], false), sexpNames(a[9])))
			} else {
				return nil, fmt.Errorf("bad type entry %s", e.String())
			}
		case "lk":
			lines = append(lines, fmt.Sprintf("lk %s: %s", a[1].Atom, a[2].Atom))
		case "gf":
			if !a[3].IsList {
				lines = append(lines, fmt.Sprintf("gf %s.%s: none", a[1].Atom, a[2].Atom))
			} else {
				as := sexpInputs(a[3].List[1])
				lines = append(lines, fmt.Sprintf("gf %s.%s: %s:%s", a[1].Atom, a[2].Atom, as, a[3].List[0].Atom))
			}
		case "sp":
			lines = append(lines, fmt.Sprintf("sp %s %s: %s", a[1].Atom, a[2].Atom, a[3].Atom))
		case "rc":
			lines = append(lines, fmt.Sprintf("rc %s %s: %s", a[1].Atom, a[2].Atom, a[3].Atom))
		case "dir":
			lines = append(lines, fmt.Sprintf("dir @%s: %s", a[1].Atom, sexpInputs(a[2])))
		case "da":
			lines = append(lines, fmt.Sprintf("da %s.%s: %s", a[1].Atom, a[2].Atom, a[3].Atom))
		default:
			return nil, fmt.Errorf("unknown view entry %s", e.String())
		}
	}
	sort.Strings(lines)
	return lines, nil
}

func diffLines(a, b []string) string {
	ma, mb := map[string]bool{}, map[string]bool{}
	for _, l := range a {
		ma[l] = true
	}
	for _, l := range b {
		mb[l] = true
	}
	var out []string
	for _, l := range a {
		if !mb[l] {
			out = append(out, "- "+l)
		}
	}
	for _, l := range b {
		if !ma[l] {
			out = append(out, "+ "+l)
		}
	}
	if len(out) > 8 {
		out = append(out[:8], fmt.Sprintf("… (%d more)", len(out)-8))
	}
	return strings.Join(out, " | ")
}

// runPrevalidated parses and validates q with ALL features enabled and then executes the resulting
// document with the request's feature set F (graphql.Request.Document is the documented way to skip
// re-validation). It returns the resolver log, or ok=false when the document is not valid even with
// all features (or the library panics, which is not this property's business).
// runSubscribe sends a subscription operation's query text to graphql.Subscribe (the subscribe step):
// the outcome is the error list, or "subscribed" with the resolver calls it made. Other operations: empty.
func runSubscribe(b *built, w *world, features []string, q *query) (o outcome) {
	if !(q.doc != nil && q.doc.Op == "subscription") && !strings.HasPrefix(strings.TrimSpace(q.Text), "subscription") {
		return o
	}
	w.log = nil
	defer func() {
		if p := recover(); p != nil {
			o.Resp = "panic: " + fmt.Sprint(p)
			o.Log = append([]string(nil), w.log...)
		}
	}()
	_, errs := graphql.Subscribe(&graphql.Request{
		Context:        context.Background(),
		Query:          q.Text,
		Schema:         b.schema,
		Features:       requestFeatures(features, w),
		VariableValues: q.Vars,
	})
	if len(errs) > 0 {
		raw, _ := json.Marshal(errs)
		var v interface{}
		json.Unmarshal(raw, &v)
		c, _ := json.Marshal(sortJSON(v))
		o.Resp = "errors: " + string(c)
	} else {
		o.Resp = "subscribed"
	}
	o.Log = append([]string(nil), w.log...)
	return o
}

func runPrevalidated(b *built, w *world, all, features []string, q *query) (log []string, ok bool) {
	w.log = nil
	defer func() {
		if p := recover(); p != nil {
			log, ok = nil, false
		}
	}()
	doc, errs := graphql.ParseAndValidate(q.Text, b.schema, graphql.NewFeatureSet(all...))
	if len(errs) > 0 {
		return nil, false
	}
	req := &graphql.Request{
		Context:        context.Background(),
		Document:       doc,
		Schema:         b.schema,
		Features:       requestFeatures(features, w),
		VariableValues: q.Vars,
	}
	if graphql.IsSubscription(doc, "") {
		graphql.Subscribe(req) // invokes the root field's resolver with IsSubscribe set
	}
	graphql.Execute(req)
	return append([]string(nil), w.log...), true
}
