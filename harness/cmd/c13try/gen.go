package main

// Generators: schemas with required-feature sets, and type-directed documents.

import (
	"encoding/json"
	"fmt"
	"sort"
	"strings"

	"verifharness/hx"
)

// ---- schemas --------------------------------------------------------------------------------------

type schemaGen struct {
	r      *hx.Rand
	feats  []string
	sloppy int // remaining decisions that may ignore the construction rules
	// sloppyKind is the one kind of decision this schema may get wrong (so that every construction
	// rule is violated about equally often, not just the first one the generator meets)
	sloppyKind string
	spec       *Spec
	kinds      map[string]string
	req        map[string][]string
}

func union(a, b []string) []string {
	m := map[string]bool{}
	for _, x := range a {
		m[x] = true
	}
	for _, x := range b {
		m[x] = true
	}
	out := make([]string, 0, len(m))
	for x := range m {
		out = append(out, x)
	}
	sort.Strings(out)
	return out
}

func minus(a, b []string) []string {
	m := fset(b)
	var out []string
	for _, x := range a {
		if !m[x] {
			out = append(out, x)
		}
	}
	return out
}

func (g *schemaGen) randReq() []string {
	k := g.r.Intn(100)
	switch {
	case k < 50:
		return nil
	case k < 82 || len(g.feats) < 2:
		return []string{hx.Pick(g.r, g.feats)}
	default:
		i := g.r.Intn(len(g.feats))
		j := (i + 1 + g.r.Intn(len(g.feats)-1)) % len(g.feats)
		return union([]string{g.feats[i]}, []string{g.feats[j]})
	}
}

// careless reports whether this decision may ignore the rules (consumes one unit of sloppiness).
func (g *schemaGen) careless(kind string) bool {
	if g.sloppy > 0 && kind == g.sloppyKind && g.r.Chance(3, 5) {
		g.sloppy--
		return true
	}
	return false
}

func (g *schemaGen) typeReq(t string) []string { return g.req[baseName(t)] }

func wrap(r *hx.Rand, base string, allowNonNull bool) string {
	k := r.Intn(100)
	switch {
	case k < 55:
		return base
	case k < 68:
		if allowNonNull {
			return base + "!"
		}
		return base
	case k < 82:
		return "[" + base + "]"
	case k < 92:
		return "[" + base + "!]"
	default:
		return "[" + base + "!]!"
	}
}

func (g *schemaGen) names(kind string) []string {
	var out []string
	for _, t := range g.spec.Types {
		if t.Kind == kind && t.Builtin == "" {
			out = append(out, t.Name)
		}
	}
	return out
}

func imin(a, b int) int {
	if a < b {
		return a
	}
	return b
}

func (g *schemaGen) inputBase(before string) string {
	pool := []string{"Int", "String", "Boolean", "ID", "Int", "String"}
	pool = append(pool, g.names("enum")...)
	pool = append(pool, g.names("enum")...)
	pool = append(pool, g.names("scalar")...)
	for _, n := range g.names("input") {
		if before == "" || n < before {
			pool = append(pool, n, n)
		}
	}
	return hx.Pick(g.r, pool)
}

func (g *schemaGen) outputBase() string {
	pool := []string{"Int", "String", "Boolean", "ID", "Float", "Int", "String"}
	pool = append(pool, g.names("enum")...)
	pool = append(pool, g.names("scalar")...)
	for i := 0; i < 2; i++ {
		pool = append(pool, g.names("object")...)
		pool = append(pool, g.names("interface")...)
		pool = append(pool, g.names("union")...)
	}
	return hx.Pick(g.r, pool)
}

func (g *schemaGen) genArgs() []ArgSpec {
	n := 0
	if g.r.Chance(2, 5) {
		n = g.r.Range(1, 2)
	}
	var out []ArgSpec
	for i := 0; i < n; i++ {
		out = append(out, ArgSpec{Name: fmt.Sprintf("x%d", i), Type: wrap(g.r, g.inputBase(""), g.r.Chance(1, 3))})
	}
	return out
}

// fieldReq picks the required features of a field of parent type `parent` given its type and arguments.
func (g *schemaGen) fieldReq(parent string, ftype string, args []ArgSpec) []string {
	if g.careless("field") {
		return g.randReq()
	}
	need := g.typeReq(ftype)
	for _, a := range args {
		need = union(need, g.typeReq(a.Type))
	}
	need = minus(need, g.req[parent])
	if g.r.Chance(1, 6) {
		need = union(need, g.randReq())
	}
	return need
}

func (g *schemaGen) argDefaults(args []ArgSpec) []string {
	var out []string
	for _, a := range args {
		if g.r.Chance(1, 2) {
			out = append(out, a.Name)
		}
	}
	return out
}

func (g *schemaGen) genField(parent string, name string) FieldSpec {
	t := wrap(g.r, g.outputBase(), true)
	args := g.genArgs()
	// deprecation is drawn independently of the required features: a field can be both
	return FieldSpec{Name: name, Type: t, Args: args, ArgDefaults: g.argDefaults(args), Req: g.fieldReq(parent, t, args), Deprecated: g.r.Chance(1, 5)}
}

func genSpec(r *hx.Rand) *Spec {
	g := &schemaGen{r: r, spec: &Spec{Query: "Query", Types: builtinScalarSpecs()}, kinds: map[string]string{}, req: map[string][]string{}}
	g.feats = []string{"a", "b", "c"}[:r.Range(1, 3)]
	if r.Chance(1, 2) {
		g.sloppy = r.Range(1, 2)
		g.sloppyKind = hx.Pick(r, []string{"field", "field", "field", "union", "input", "impl", "implreq", "implargs", "nouncond", "conn"})
	}
	add := func(kind, name string, req []string) {
		g.spec.Types = append(g.spec.Types, TypeSpec{Kind: kind, Name: name, Req: req})
		g.kinds[name] = kind
		g.req[name] = req
	}
	for i, n := 0, r.Range(0, 2); i < n; i++ {
		add("enum", fmt.Sprintf("E%d", i), g.randReq())
	}
	if r.Chance(1, 3) {
		add("scalar", "Sc0", g.randReq())
	}
	for i, n := 0, r.Range(0, 2); i < n; i++ {
		add("input", fmt.Sprintf("In%d", i), g.randReq())
	}
	for i, n := 0, r.Range(0, 2); i < n; i++ {
		add("interface", fmt.Sprintf("I%d", i), g.randReq())
	}
	for i, n := 0, r.Range(2, 5); i < n; i++ {
		add("object", fmt.Sprintf("O%d", i), g.randReq())
	}
	for i, n := 0, r.Range(0, 2); i < n; i++ {
		add("union", fmt.Sprintf("U%d", i), nil)
	}
	add("object", "Query", nil)
	if r.Chance(1, 3) {
		var mreq []string
		if r.Chance(1, 8) {
			// a gated root operation type: outside the domain in which the property holds (open finding F-13f)
			mreq = []string{hx.Pick(r, g.feats)}
		}
		add("object", "Mutation", mreq)
		g.spec.Mutation = "Mutation"
	}
	if r.Chance(1, 4) {
		var sreq []string
		if r.Chance(1, 10) {
			sreq = []string{hx.Pick(r, g.feats)} // a gated root (F-13f)
		}
		add("object", "Subscription", sreq)
		g.spec.Subscription = "Subscription"
	}
	// unions first: their requirement must cover the members' (no conditional members)
	for i := range g.spec.Types {
		t := &g.spec.Types[i]
		if t.Kind != "union" {
			continue
		}
		objs := []string{}
		for _, o := range g.names("object") {
			if o != "Query" && o != "Mutation" && o != "Subscription" {
				objs = append(objs, o)
			}
		}
		hx.Shuffle(r, objs)
		t.Members = append(t.Members, objs[:r.Range(1, imin(3, len(objs)))]...)
		sort.Strings(t.Members)
		if g.careless("union") {
			t.Req = g.randReq()
		} else {
			for _, m := range t.Members {
				t.Req = union(t.Req, g.req[m])
			}
			if r.Chance(1, 5) {
				t.Req = union(t.Req, g.randReq())
			}
		}
		g.req[t.Name] = t.Req
	}
	// enum values, input fields (an input object's requirement must cover its fields' types)
	for i := range g.spec.Types {
		t := &g.spec.Types[i]
		switch t.Kind {
		case "enum":
			for j, n := 0, r.Range(1, 3); j < n; j++ {
				t.Values = append(t.Values, fmt.Sprintf("V%d", j))
				if r.Chance(1, 4) {
					t.DepValues = append(t.DepValues, fmt.Sprintf("V%d", j))
				}
			}
		case "input":
			for j, n := 0, r.Range(1, 3); j < n; j++ {
				ft := wrap(r, g.inputBase(t.Name), r.Chance(1, 4))
				t.Inputs = append(t.Inputs, ArgSpec{Name: fmt.Sprintf("k%d", j), Type: ft})
				if r.Chance(1, 2) {
					// with and without defaults: the construction rules must not depend on them
					t.InputDefaults = append(t.InputDefaults, fmt.Sprintf("k%d", j))
				}
				if !g.careless("input") {
					t.Req = union(t.Req, g.typeReq(ft))
					g.req[t.Name] = t.Req
				}
			}
		}
	}
	// interface fields
	for i := range g.spec.Types {
		t := &g.spec.Types[i]
		if t.Kind != "interface" {
			continue
		}
		t.Fields = append(t.Fields, FieldSpec{Name: "id", Type: hx.Pick(r, []string{"ID", "ID!", "Int"})})
		for j, n := 0, r.Range(0, 3); j < n; j++ {
			t.Fields = append(t.Fields, g.genField(t.Name, fmt.Sprintf("%sf%d", strings.ToLower(t.Name), j)))
		}
	}
	// object fields, interface implementations
	for i := range g.spec.Types {
		t := &g.spec.Types[i]
		if t.Kind != "object" {
			continue
		}
		if t.Name != "Query" && t.Name != "Mutation" && t.Name != "Subscription" {
			for _, in := range g.names("interface") {
				if !r.Chance(2, 5) {
					continue
				}
				it := g.spec.find(in)
				compatible := true
				for _, f := range it.Fields {
					if !subset(minus(union(g.typeReq(f.Type), argReqs(g, f.Args)), t.Req), fset(f.Req)) {
						compatible = false // the object could not expose this field's types with the interface field's features
					}
				}
				if !compatible && !g.careless("impl") {
					continue
				}
				t.Ifaces = append(t.Ifaces, in)
				for _, f := range it.Fields {
					if hasField(t, f.Name) {
						continue
					}
					nf := FieldSpec{Name: f.Name, Type: f.Type, Args: append([]ArgSpec(nil), f.Args...), Req: append([]string(nil), f.Req...), Deprecated: f.Deprecated != r.Chance(1, 6)}
					switch {
					case g.careless("implreq"):
						nf.Req = g.randReq()
					case r.Chance(1, 6):
						// fewer features than the interface field asks for (allowed when the object's own
						// requirement covers the type)
						nf.Req = minus(union(g.typeReq(f.Type), argReqs(g, f.Args)), t.Req)
					}
					if !strings.HasSuffix(nf.Type, "!") && r.Chance(1, 6) {
						nf.Type += "!" // covariant
					}
					if g.careless("implargs") && len(nf.Args) > 0 {
						nf.Args = nf.Args[1:]
					}
					t.Fields = append(t.Fields, nf)
				}
			}
		}
		noUncond := t.Name != "Query" && len(t.Ifaces) == 0 && g.careless("nouncond")
		switch {
		case noUncond:
		case t.Name == "Mutation" || t.Name == "Subscription":
			t.Fields = append(t.Fields, FieldSpec{Name: "touch", Type: "Int"})
		case t.Name != "Query" && (!hasField(t, "id") || len(t.Fields) == 0):
			t.Fields = append(t.Fields, FieldSpec{Name: "n", Type: hx.Pick(r, []string{"Int", "String", "Int!"})})
		}
		for j, n := 0, r.Range(1, 3); j < n; j++ {
			t.Fields = append(t.Fields, g.genField(t.Name, fmt.Sprintf("%sf%d", strings.ToLower(t.Name), j)))
		}
		if noUncond {
			// every field asks for a feature the type itself does not require: schema.New must refuse
			// ("must have at least one field"), and an erasure could leave the type empty
			for fi := range t.Fields {
				if extra := minus(g.feats, t.Req); subset(t.Fields[fi].Req, fset(t.Req)) && len(extra) > 0 {
					t.Fields[fi].Req = union(t.Fields[fi].Req, []string{hx.Pick(r, extra)})
				}
			}
		}
	}
	// custom directives; their argument types are drawn like any input type — gated ones included,
	// since nothing in schema.New forbids that
	if r.Chance(2, 5) {
		for d, n := 0, r.Range(1, 2); d < n; d++ {
			ds := DirSpec{Name: fmt.Sprintf("d%d", d)}
			for a, m := 0, r.Range(0, 2); a < m; a++ {
				ds.Args = append(ds.Args, ArgSpec{Name: fmt.Sprintf("x%d", a), Type: wrap(r, g.inputBase(""), r.Chance(1, 4))})
				if r.Chance(1, 2) {
					ds.Defaults = append(ds.Defaults, fmt.Sprintf("x%d", a))
				}
			}
			ds.Filter = r.Chance(1, 2)
			g.spec.Directives = append(g.spec.Directives, ds)
		}
	}
	// root fields reaching every composite type, so that most of the schema is reachable
	q := g.spec.find("Query")
	q.Fields = append(q.Fields, FieldSpec{Name: "ok", Type: "Boolean"})
	for _, t := range g.spec.Types {
		if (t.Kind == "object" || t.Kind == "interface" || t.Kind == "union") && t.Name != "Query" && t.Name != "Mutation" && t.Name != "Subscription" && r.Chance(3, 4) {
			ft := wrap(r, t.Name, true)
			args := g.genArgs()
			q.Fields = append(q.Fields, FieldSpec{Name: "get" + t.Name, Type: ft, Args: args, Req: g.fieldReq("Query", ft, args), Deprecated: r.Chance(1, 8)})
		}
	}
	// connections
	if r.Chance(1, 3) {
		g.spec.Types = append(g.spec.Types, pageInfoSpec())
		var ciNode string
		if r.Chance(1, 2) {
			// a connection interface that the connections below may implement
			ciNode = g.outputBase()
			var req []string
			if g.careless("conn") {
				req = g.randReq()
			} else {
				req = union(g.typeReq(ciNode), nil)
				if r.Chance(1, 2) {
					req = union(req, g.randReq())
				}
			}
			g.spec.ConnIfaces = append(g.spec.ConnIfaces, ConnIface{Prefix: "Ci0", Node: ciNode, Req: req})
		}
		for c, n := 0, r.Range(1, 2); c < n; c++ {
			hosts := []string{"Query"}
			hosts = append(hosts, g.names("object")...)
			host := g.spec.find(hx.Pick(r, hosts))
			if host.Builtin != "" {
				host = q
			}
			node := g.outputBase()
			var impl []string
			if ciNode != "" && r.Chance(2, 3) {
				impl = []string{"Ci0"}
				if !g.careless("conn") {
					node = ciNode // the edge's node must be a subtype of the interface's
				}
			}
			if r.Chance(1, 3) {
				node += "!"
			}
			var req []string
			if g.careless("conn") {
				req = g.randReq()
			} else {
				// the connection/edge types carry the field's requirement, so it must cover the node type
				req = union(g.typeReq(node), nil)
				if r.Chance(1, 2) {
					req = union(req, g.randReq())
				}
			}
			cs := &ConnSpec{Prefix: fmt.Sprintf("Cn%d", c), Node: node, Impl: impl}
			// the node edge field may carry the requirement itself instead of the whole connection
			if len(impl) == 0 && r.Chance(1, 3) {
				cs.NodeReq = union(g.typeReq(node), g.randReq())
				if !g.careless("conn") {
					req = nil
					if r.Chance(1, 2) {
						req = g.randReq()
					}
				}
			}
			cs.NodeDeprecated = r.Chance(1, 6)
			// further edge fields with their own required features, deprecation and arguments (the
			// edge type carries the connection field's requirement)
			edge := cs.Prefix + "Edge"
			g.req[edge] = req
			for e, n := 0, r.Range(0, 2); e < n; e++ {
				ef := g.genField(edge, fmt.Sprintf("ef%d", e))
				if r.Chance(1, 2) {
					ef.Req = union(ef.Req, g.randReq())
				}
				ef.Deprecated = r.Chance(1, 4)
				cs.EdgeFields = append(cs.EdgeFields, ef)
			}
			if r.Chance(1, 3) {
				cs.Args = g.genArgs()
				if !g.careless("conn") {
					req = union(req, argReqs(g, cs.Args)) // extra arguments are arguments of the connection field
					if len(cs.NodeReq) > 0 || len(cs.EdgeFields) > 0 {
						// the edge type's requirement grew with it: harmless, requirements only got weaker to satisfy
						g.req[edge] = req
					}
				}
			}
			if r.Chance(1, 3) {
				cs.TimeBased = true
				if g.spec.find("DateTime") == nil {
					g.spec.Types = append(g.spec.Types, dateTimeSpec())
				}
			}
			host = g.spec.find(host.Name) // the Types slice may have been reallocated
			host.Fields = append(host.Fields, FieldSpec{Name: fmt.Sprintf("conn%d", c), Req: req, Deprecated: r.Chance(1, 5), Conn: cs})
		}
	}
	return g.spec
}

func argReqs(g *schemaGen, as []ArgSpec) []string {
	var out []string
	for _, a := range as {
		out = union(out, g.typeReq(a.Type))
	}
	return out
}

func hasField(t *TypeSpec, name string) bool {
	for _, f := range t.Fields {
		if f.Name == name {
			return true
		}
	}
	return false
}

// ---- documents ------------------------------------------------------------------------------------

type ArgVal struct {
	Name string `json:"name"`
	Text string `json:"text"`
}

type Sel struct {
	Kind  string   `json:"kind"` // field | inline | spread
	Alias string   `json:"alias,omitempty"`
	Name  string   `json:"name,omitempty"` // field name / fragment name
	Args  []ArgVal `json:"args,omitempty"`
	On    string   `json:"on,omitempty"` // inline fragment type condition ("" = none)
	Dir   string   `json:"dir,omitempty"`
	Sub   []*Sel   `json:"sub,omitempty"`
}

type FragDef struct {
	Name string `json:"name"`
	On   string `json:"on"`
	Sub  []*Sel `json:"sub"`
}

type VarDecl struct {
	Name    string `json:"name"`
	Type    string `json:"type"`
	Default string `json:"default,omitempty"`
}

type Doc struct {
	Op    string                 `json:"op"` // query | mutation | subscription
	Vars  []VarDecl              `json:"vars,omitempty"`
	Sels  []*Sel                 `json:"sels"`
	Frags []FragDef              `json:"frags,omitempty"`
	Vals  map[string]interface{} `json:"vals,omitempty"`
}

func printSels(b *strings.Builder, sels []*Sel, indent string) {
	b.WriteString("{\n")
	for _, s := range sels {
		b.WriteString(indent + "  ")
		switch s.Kind {
		case "field":
			if s.Alias != "" {
				b.WriteString(s.Alias + ": ")
			}
			b.WriteString(s.Name)
			if len(s.Args) > 0 {
				b.WriteString("(")
				for i, a := range s.Args {
					if i > 0 {
						b.WriteString(", ")
					}
					b.WriteString(a.Name + ": " + a.Text)
				}
				b.WriteString(")")
			}
			if s.Dir != "" {
				b.WriteString(" " + s.Dir)
			}
			if s.Sub != nil {
				b.WriteString(" ")
				printSels(b, s.Sub, indent+"  ")
			}
		case "inline":
			b.WriteString("...")
			if s.On != "" {
				b.WriteString(" on " + s.On)
			}
			if s.Dir != "" {
				b.WriteString(" " + s.Dir)
			}
			b.WriteString(" ")
			printSels(b, s.Sub, indent+"  ")
		case "spread":
			b.WriteString("..." + s.Name)
			if s.Dir != "" {
				b.WriteString(" " + s.Dir)
			}
		}
		b.WriteString("\n")
	}
	b.WriteString(indent + "}")
}

func (d *Doc) text() string {
	var b strings.Builder
	b.WriteString(d.Op)
	if len(d.Vars) > 0 {
		b.WriteString(" Q(")
		for i, v := range d.Vars {
			if i > 0 {
				b.WriteString(", ")
			}
			b.WriteString("$" + v.Name + ": " + v.Type)
			if v.Default != "" {
				b.WriteString(" = " + v.Default)
			}
		}
		b.WriteString(")")
	}
	b.WriteString(" ")
	printSels(&b, d.Sels, "")
	b.WriteString("\n")
	for _, f := range d.Frags {
		b.WriteString("fragment " + f.Name + " on " + f.On + " ")
		printSels(&b, f.Sub, "")
		b.WriteString("\n")
	}
	return b.String()
}

type docGen struct {
	r     *hx.Rand
	spec  *Spec           // expanded original schema
	G     map[string]bool // features under which elements are offered to the generator
	doc   *Doc
	n     int
	used  map[string]bool
	nfrag int
}

func (g *docGen) visibleFields(t *TypeSpec) []*FieldSpec {
	var out []*FieldSpec
	for i := range t.Fields {
		if subset(t.Fields[i].Req, g.G) {
			out = append(out, &t.Fields[i])
		}
	}
	return out
}

func (g *docGen) composite() []string {
	var out []string
	for _, t := range g.spec.Types {
		if t.Kind == "object" || t.Kind == "interface" || t.Kind == "union" {
			out = append(out, t.Name)
		}
	}
	return out
}

// related returns type names that can sensibly appear as a type condition inside parent type p.
func (g *docGen) related(p *TypeSpec) []string {
	set := map[string]bool{p.Name: true}
	poss := func(t *TypeSpec) []string {
		switch t.Kind {
		case "object":
			return []string{t.Name}
		case "union":
			return t.Members
		case "interface":
			var out []string
			for _, o := range g.spec.Types {
				for _, i := range o.Ifaces {
					if i == t.Name {
						out = append(out, o.Name)
					}
				}
			}
			return out
		}
		return nil
	}
	mine := fset(poss(p))
	for _, t := range g.spec.Types {
		if t.Kind != "object" && t.Kind != "interface" && t.Kind != "union" {
			continue
		}
		for _, o := range poss(&t) {
			if mine[o] {
				set[t.Name] = true
			}
		}
	}
	var out []string
	for n := range set {
		out = append(out, n)
	}
	sort.Strings(out)
	return out
}

func (g *docGen) literal(t *tref, depth int) string {
	switch t.kind {
	case 2:
		return g.literalNN(t.inner, depth)
	}
	if g.r.Chance(1, 12) {
		return "null"
	}
	return g.literalNN(t, depth)
}

func (g *docGen) literalNN(t *tref, depth int) string {
	if t.kind == 2 {
		t = t.inner
	}
	if t.kind == 1 {
		if g.r.Chance(1, 5) {
			return g.literal(t.inner, depth) // item-to-list coercion
		}
		n := g.r.Range(0, 2)
		parts := make([]string, n)
		for i := range parts {
			parts[i] = g.literal(t.inner, depth)
		}
		return "[" + strings.Join(parts, ", ") + "]"
	}
	switch t.name {
	case "Int":
		return fmt.Sprint(g.r.Range(0, 9))
	case "Float":
		return "1.5"
	case "String":
		return fmt.Sprintf("%q", fmt.Sprintf("t%d", g.r.Intn(5)))
	case "Boolean":
		return hx.Pick(g.r, []string{"true", "false"})
	case "ID":
		return fmt.Sprintf("%q", fmt.Sprintf("i%d", g.r.Intn(5)))
	}
	ts := g.spec.find(t.name)
	if ts == nil {
		return "null"
	}
	switch ts.Kind {
	case "scalar":
		if ts.Builtin == "DateTime" {
			return hx.Pick(g.r, []string{`"2020-09-13T12:26:40Z"`, `"2020-09-13T14:00:00Z"`, `"2020-09-13T13:26:40Z"`, `"nonsense"`})
		}
		return `"sc"`
	case "enum":
		if len(ts.Values) == 0 || g.r.Chance(1, 25) {
			return "NOPE"
		}
		return hx.Pick(g.r, ts.Values)
	case "input":
		var parts []string
		for _, f := range ts.Inputs {
			ft := parseType(f.Type)
			if ft.kind == 2 || g.r.Chance(1, 2) || depth > 2 {
				if depth > 3 && ft.kind != 2 {
					continue
				}
				parts = append(parts, f.Name+": "+g.literal(ft, depth+1))
			}
		}
		return "{" + strings.Join(parts, ", ") + "}"
	}
	return "null"
}

func (g *docGen) jsonValue(t *tref, depth int) interface{} {
	if t.kind == 2 {
		t = t.inner
	} else if g.r.Chance(1, 12) {
		return nil
	}
	if t.kind == 1 {
		n := g.r.Range(0, 2)
		out := make([]interface{}, n)
		for i := range out {
			out[i] = g.jsonValue(t.inner, depth)
		}
		return out
	}
	switch t.name {
	case "Int":
		return float64(g.r.Range(0, 9))
	case "Float":
		return 2.5
	case "String":
		return fmt.Sprintf("t%d", g.r.Intn(5))
	case "Boolean":
		return g.r.Bool()
	case "ID":
		return fmt.Sprintf("i%d", g.r.Intn(5))
	}
	ts := g.spec.find(t.name)
	if ts == nil {
		return nil
	}
	switch ts.Kind {
	case "scalar":
		if ts.Builtin == "DateTime" {
			return hx.Pick(g.r, []string{"2020-09-13T12:26:40Z", "2020-09-13T14:00:00Z", "2020-09-13T13:26:40Z"})
		}
		return "sc"
	case "enum":
		if len(ts.Values) == 0 {
			return "NOPE"
		}
		return hx.Pick(g.r, ts.Values)
	case "input":
		out := map[string]interface{}{}
		for _, f := range ts.Inputs {
			ft := parseType(f.Type)
			if ft.kind == 2 || (g.r.Chance(1, 2) && depth < 3) {
				out[f.Name] = g.jsonValue(ft, depth+1)
			}
		}
		return out
	}
	return nil
}

func (g *docGen) argValue(typ string) string {
	t := parseType(typ)
	if g.r.Chance(1, 5) && len(g.doc.Vars) < 4 {
		name := fmt.Sprintf("v%d", len(g.doc.Vars))
		vd := VarDecl{Name: name, Type: typ}
		switch g.r.Intn(4) {
		case 0:
			// omitted (nullable) or defaulted
			if t.kind == 2 {
				vd.Default = g.literalNN(t, 0)
			}
		default:
			g.doc.Vals[name] = g.jsonValue(t, 0)
		}
		g.doc.Vars = append(g.doc.Vars, vd)
		return "$" + name
	}
	return g.literal(t, 0)
}

func (g *docGen) fieldSel(p *TypeSpec, f *FieldSpec, depth int) *Sel {
	s := &Sel{Kind: "field", Name: f.Name}
	if g.used[f.Name] || g.r.Chance(1, 3) {
		g.n++
		s.Alias = fmt.Sprintf("r%d", g.n)
	} else {
		g.used[f.Name] = true
	}
	for _, a := range f.Args {
		if strings.HasSuffix(a.Type, "!") || g.r.Chance(1, 2) {
			s.Args = append(s.Args, ArgVal{Name: a.Name, Text: g.argValue(a.Type)})
		}
	}
	if bt := g.spec.find(baseName(f.Type)); bt != nil && (bt.Kind == "object" || bt.Kind == "interface" || bt.Kind == "union") {
		s.Sub = g.sels(bt, depth-1)
	}
	return s
}

func (g *docGen) directive() string {
	if len(g.spec.Directives) > 0 && g.r.Chance(1, 5) {
		d := hx.Pick(g.r, g.spec.Directives)
		var args []string
		for _, a := range d.Args {
			if bt := g.spec.find(baseName(a.Type)); bt != nil && !subset(bt.Req, g.G) {
				continue // the argument's type is not available with the features the document is written for
			}
			hasDefault := false
			for _, dn := range d.Defaults {
				hasDefault = hasDefault || dn == a.Name
			}
			if (strings.HasSuffix(a.Type, "!") && !hasDefault) || g.r.Chance(1, 2) {
				args = append(args, a.Name+": "+g.literal(parseType(a.Type), 0))
			}
		}
		if g.r.Chance(1, 30) {
			args = append(args, "nope: 1")
		}
		if len(args) == 0 {
			return "@" + d.Name
		}
		return "@" + d.Name + "(" + strings.Join(args, ", ") + ")"
	}
	if !g.r.Chance(1, 10) {
		return ""
	}
	return hx.Pick(g.r, []string{"@skip(if: false)", "@skip(if: true)", "@include(if: true)", "@include(if: false)"})
}

func (g *docGen) typeCondition(p *TypeSpec) string {
	k := g.r.Intn(100)
	switch {
	case k < 84:
		return hx.Pick(g.r, g.related(p))
	case k < 96:
		return hx.Pick(g.r, g.composite())
	case k < 98:
		return "Nope"
	default:
		all := []string{"Int"}
		for _, t := range g.spec.Types {
			all = append(all, t.Name)
		}
		return hx.Pick(g.r, all)
	}
}

func (g *docGen) sels(p *TypeSpec, depth int) []*Sel {
	var out []*Sel
	n := g.r.Range(1, 3)
	fields := g.visibleFields(p)
	if p.Kind == "union" {
		fields = nil
	}
	for i := 0; i < n; i++ {
		k := g.r.Intn(100)
		switch {
		case k < 8 || depth <= 0 && k < 40:
			s := &Sel{Kind: "field", Name: "__typename"}
			if g.used["__typename"] {
				g.n++
				s.Alias = fmt.Sprintf("r%d", g.n)
			}
			g.used["__typename"] = true
			out = append(out, s)
		case k < 64 && len(fields) > 0:
			f := hx.Pick(g.r, fields)
			if g.r.Chance(1, 40) {
				// a field that does not exist here
				g.n++
				out = append(out, &Sel{Kind: "field", Name: f.Name + "x", Alias: fmt.Sprintf("r%d", g.n)})
				continue
			}
			s := g.fieldSel(p, f, depth)
			s.Dir = g.directive()
			out = append(out, s)
		case k < 88 && depth > 0:
			on := g.typeCondition(p)
			var sub []*Sel
			if t := g.spec.find(on); t != nil && (t.Kind == "object" || t.Kind == "interface" || t.Kind == "union") {
				sub = g.sels(t, depth-1)
			} else {
				sub = []*Sel{{Kind: "field", Name: "__typename", Alias: g.alias()}}
			}
			if g.r.Chance(1, 12) {
				on = ""
				sub = g.sels(p, depth-1)
			}
			out = append(out, &Sel{Kind: "inline", On: on, Sub: sub, Dir: g.directive()})
		case depth > 0 && g.nfrag < 3:
			on := g.typeCondition(p)
			g.nfrag++
			name := fmt.Sprintf("F%d", g.nfrag)
			var sub []*Sel
			if t := g.spec.find(on); t != nil && (t.Kind == "object" || t.Kind == "interface" || t.Kind == "union") {
				sub = g.sels(t, depth-1)
			} else {
				sub = []*Sel{{Kind: "field", Name: "__typename", Alias: g.alias()}}
			}
			g.doc.Frags = append(g.doc.Frags, FragDef{Name: name, On: on, Sub: sub})
			out = append(out, &Sel{Kind: "spread", Name: name, Dir: g.directive()})
		}
	}
	if len(out) == 0 {
		out = append(out, &Sel{Kind: "field", Name: "__typename", Alias: g.alias()})
	}
	return out
}

func (g *docGen) alias() string {
	g.n++
	return fmt.Sprintf("r%d", g.n)
}

// genDoc generates a document that is type-correct for `spec` when the features G are enabled
// (up to the deliberate slips above).
func genDoc(r *hx.Rand, spec *Spec, G map[string]bool) *Doc {
	g := &docGen{r: r, spec: spec, G: G, doc: &Doc{Op: "query", Vals: map[string]interface{}{}}, used: map[string]bool{}}
	root := spec.find(spec.Query)
	if spec.Mutation != "" && r.Chance(1, 6) {
		if m := spec.find(spec.Mutation); m != nil && subset(m.Req, G) {
			g.doc.Op = "mutation"
			root = m
		}
	}
	if spec.Subscription != "" && r.Chance(1, 8) {
		if m := spec.find(spec.Subscription); m != nil && subset(m.Req, G) {
			// a subscription has exactly one root field
			if fs := g.visibleFields(m); len(fs) > 0 {
				g.doc.Op = "subscription"
				g.doc.Sels = []*Sel{g.fieldSel(m, hx.Pick(r, fs), r.Range(1, 3))}
				return g.doc
			}
		}
	}
	g.doc.Sels = g.sels(root, r.Range(2, 4))
	return g.doc
}

func docKey(d *Doc) string {
	b, _ := json.Marshal(d)
	return string(b)
}
