package main

// The same differential through the application layer: apifu.API with Config.Features, served over
// HTTP (API.ServeGraphQL, api.go:236-238) and over a graphql-ws WebSocket (graphqlws.go:46-64). The
// feature set travels in the request context, as in the repo's TestFeatures / TestGraphQLWS.

import (
	"bytes"
	"context"
	"crypto/sha256"
	"encoding/hex"
	"encoding/json"
	"fmt"
	"io"
	"net/http"
	"net/http/httptest"
	"strings"
	"sync"
	"time"

	"github.com/gorilla/websocket"
	"github.com/sirupsen/logrus"

	apifu "github.com/ccbrown/api-fu"
	"github.com/ccbrown/api-fu/graphql"
	gschema "github.com/ccbrown/api-fu/graphql/schema"
)

type featKey struct{}

func featuresFromContext(ctx context.Context) graphql.FeatureSet {
	fs, _ := ctx.Value(featKey{}).(graphql.FeatureSet)
	return fs
}

// wsInitHook is the application's Config.HandleGraphQLWSInit: when the connection_init payload carries
// a "features" member, the connection's feature set is the one listed there (granting and revoking
// relative to the upgrade request's context, as an auth token in connection_init would); otherwise the
// upgrade request's context stands.
func wsInitHook(ctx context.Context, parameters json.RawMessage) (context.Context, error) {
	var p struct {
		Features *[]string `json:"features"`
	}
	if len(parameters) > 0 && json.Unmarshal(parameters, &p) == nil && p.Features != nil {
		return context.WithValue(ctx, featKey{}, graphql.NewFeatureSet((*p.Features)...)), nil
	}
	return ctx, nil
}

// WSVariant says how a socket obtains its features.
type WSVariant struct {
	Proto   string    `json:"proto"`          // graphql-ws | graphql-transport-ws
	Upgrade []string  `json:"upgrade"`        // features in the upgrade request's context
	Init    *[]string `json:"init,omitempty"` // features in the connection_init payload (the hook installs them)
}

func (v WSVariant) String() string {
	if v.Init == nil {
		return fmt.Sprintf("%s upgrade=%v", v.Proto, v.Upgrade)
	}
	return fmt.Sprintf("%s upgrade=%v init=%v", v.Proto, v.Upgrade, *v.Init)
}

// apiCompatible: apifu.Config owns the types named Query, Mutation and Node; a spec can only be
// mounted on it when nothing refers to the spec's own root objects as a field type and no type
// collides with the names the configuration defines itself.
func apiCompatible(spec *Spec) bool {
	if spec.Subscription != "" && spec.Subscription != "Subscription" {
		return false // apifu.Config names its subscription root itself
	}
	for _, t := range spec.Types {
		if t.Name == "Node" || (t.Name == "Subscription" && spec.Subscription != "Subscription") {
			return false
		}
		if t.Name == "Subscription" && (len(t.Req) > 0 || len(t.Ifaces) > 0) {
			return false // Config.AddSubscription builds an ungated root of its own
		}
		for _, f := range t.Fields {
			b := baseName(f.Type)
			if f.Conn != nil {
				b = baseName(f.Conn.Node)
			}
			if b == spec.Query || (spec.Mutation != "" && b == spec.Mutation) || (spec.Subscription != "" && b == spec.Subscription) {
				return false
			}
			if f.Conn != nil {
				for _, ef := range f.Conn.EdgeFields {
					if eb := baseName(ef.Type); eb == spec.Query || eb == spec.Mutation || (spec.Subscription != "" && eb == spec.Subscription) {
						return false
					}
				}
			}
		}
		for _, m := range t.Members {
			if m == spec.Query || m == spec.Mutation || (spec.Subscription != "" && m == spec.Subscription) {
				return false
			}
		}
		if t.Name == spec.Query || t.Name == spec.Mutation {
			if len(t.Req) > 0 || len(t.Ifaces) > 0 {
				return false
			}
			for _, f := range t.Fields {
				if f.Name == "node" || f.Name == "nodes" {
					return false
				}
			}
		}
	}
	for _, f := range spec.Orphans {
		if b := baseName(f.Conn.Node); b == spec.Query || b == spec.Mutation || (spec.Subscription != "" && b == spec.Subscription) {
			return false
		}
	}
	for _, ci := range spec.ConnIfaces {
		if b := baseName(ci.Node); b == spec.Query || b == spec.Mutation || (spec.Subscription != "" && b == spec.Subscription) {
			return false
		}
	}
	return true
}

func buildAPI(spec *Spec, w *world) (*apifu.API, error) {
	def, named, err := buildDefinition(spec, w)
	if err != nil {
		return nil, err
	}
	prebuild(spec, def, named) // Staged 3 / 4: the API is a second build of objects schema.New has seen before
	logger := logrus.New()
	logger.SetOutput(io.Discard)
	cfg := &apifu.Config{Features: featuresFromContext, Logger: logger, HandleGraphQLWSInit: wsInitHook,
		PersistedQueryStorage: &pqStore{m: map[string]string{}}}
	cfg.PreprocessGraphQLSchemaDefinition = preprocessHook(spec, def)
	for name, f := range def.Query.Fields {
		cfg.AddQueryField(name, f)
	}
	if def.Mutation != nil {
		for name, f := range def.Mutation.Fields {
			cfg.AddMutation(name, f)
		}
	}
	if def.Subscription != nil {
		for name, f := range def.Subscription.Fields {
			cfg.AddSubscription(name, f)
		}
	}
	for _, t := range def.AdditionalTypes {
		if t == graphql.NamedType(def.Query) || (def.Mutation != nil && t == graphql.NamedType(def.Mutation)) ||
			(def.Subscription != nil && t == graphql.NamedType(def.Subscription)) {
			continue
		}
		cfg.AddNamedType(t)
	}
	return apifu.NewAPI(cfg)
}

// preprocessHook is the API's PreprocessGraphQLSchemaDefinition hook. It registers the custom
// directive definitions of def on the API's schema: apifu.Config fixes the directive map and hands the
// hook a deep copy of the definition, so the argument types are re-pointed at the copy's named types (by
// name: every type the harness builds is an AdditionalType, hence in the copy). With Spec.Staged == 2 it
// is also where the named types get their RequiredFeatures (the definition was built without).
func preprocessHook(spec *Spec, def *graphql.SchemaDefinition) func(sd *graphql.SchemaDefinition) error {
	custom := map[string]*graphql.DirectiveDefinition{}
	for name, d := range def.Directives {
		if name != "skip" && name != "include" {
			custom[name] = d
		}
	}
	if len(custom) == 0 && spec.Staged != 2 {
		return nil
	}
	return func(sd *graphql.SchemaDefinition) error {
		byName := namedTypesOf(sd)
		var remap func(t gschema.Type) (gschema.Type, error)
		remap = func(t gschema.Type) (gschema.Type, error) {
			switch t := t.(type) {
			case *gschema.ListType:
				in, err := remap(t.Type)
				return gschema.NewListType(in), err
			case *gschema.NonNullType:
				in, err := remap(t.Type)
				return gschema.NewNonNullType(in), err
			case gschema.NamedType:
				if nt := byName[t.TypeName()]; nt != nil {
					return nt, nil
				}
				return nil, fmt.Errorf("directive argument type %s is not in the mounted schema", t.TypeName())
			}
			return nil, fmt.Errorf("unexpected type %T", t)
		}
		for name, d := range custom {
			nd := *d
			nd.Arguments = map[string]*graphql.InputValueDefinition{}
			for an, a := range d.Arguments {
				na := *a
				nt, err := remap(a.Type)
				if err != nil {
					return err
				}
				na.Type = nt
				nd.Arguments[an] = &na
			}
			sd.Directives[name] = &nd
		}
		if spec.Staged == 2 {
			assignTypeReqs(spec, byName)
		}
		return nil
	}
}

func canonResponse(raw []byte, q *query) string {
	var v map[string]interface{}
	if err := json.Unmarshal(raw, &v); err != nil {
		return "unparseable: " + string(raw)
	}
	if _, hasData := v["data"]; q.Kind == "probe" || !hasData {
		c, _ := json.Marshal(sortJSON(v))
		return string(c)
	}
	return string(bytes.TrimSpace(raw))
}

// pqStore is the application's PersistedQueryStorage: a plain map.
type pqStore struct {
	mu sync.Mutex
	m  map[string]string
}

func (s *pqStore) GetPersistedQuery(ctx context.Context, hash []byte) string {
	s.mu.Lock()
	defer s.mu.Unlock()
	return s.m[string(hash)]
}

func (s *pqStore) PersistQuery(ctx context.Context, query string, hash []byte) {
	s.mu.Lock()
	defer s.mu.Unlock()
	s.m[string(hash)] = query
}

// pqMode: how a request uses the persisted-query extension.
const (
	pqNone     = 0 // plain request
	pqRegister = 1 // query text + its sha256Hash (stores it)
	pqHashOnly = 2 // sha256Hash only (the stored text is executed)
)

func serveHTTP(api *apifu.API, w *world, features []string, q *query) (o outcome) {
	return serveHTTPPQ(api, w, features, q, pqNone)
}

func serveHTTPPQ(api *apifu.API, w *world, features []string, q *query, mode int) (o outcome) {
	w.log = nil
	defer func() {
		if p := recover(); p != nil {
			o.Panic = fmt.Sprint(p)
		}
	}()
	payload := map[string]interface{}{"query": q.Text, "variables": q.Vars}
	if mode != pqNone {
		sum := sha256.Sum256([]byte(q.Text))
		payload["extensions"] = map[string]interface{}{"persistedQuery": map[string]interface{}{"version": 1, "sha256Hash": hex.EncodeToString(sum[:])}}
		if mode == pqHashOnly {
			delete(payload, "query")
		}
	}
	body, _ := json.Marshal(payload)
	ctx := context.WithValue(context.Background(), featKey{}, requestFeatures(features, w))
	r, _ := http.NewRequestWithContext(ctx, "POST", "/graphql", bytes.NewReader(body))
	r.Header.Set("Content-Type", "application/json")
	rec := httptest.NewRecorder()
	api.ServeGraphQL(rec, r)
	if rec.Code != 200 {
		o.Resp = fmt.Sprintf("HTTP %d %s", rec.Code, strings.TrimSpace(rec.Body.String()))
	} else {
		o.Resp = canonResponse(rec.Body.Bytes(), q)
	}
	o.Log = append([]string(nil), w.log...)
	return o
}

type wsSession struct {
	api   *apifu.API
	ts    *httptest.Server
	conn  *websocket.Conn
	n     int
	proto string
}

type wsMessage struct {
	Id      string          `json:"id,omitempty"`
	Type    string          `json:"type"`
	Payload json.RawMessage `json:"payload,omitempty"`
}

func dialWS(api *apifu.API, v WSVariant) (*wsSession, error) {

	if v.Proto == "" {
		v.Proto = "graphql-ws"
	}
	s := &wsSession{api: api, proto: v.Proto}
	s.ts = httptest.NewServer(http.HandlerFunc(func(w http.ResponseWriter, r *http.Request) {
		r = r.WithContext(context.WithValue(r.Context(), featKey{}, graphql.NewFeatureSet(v.Upgrade...)))
		api.ServeGraphQLWS(w, r)
	}))
	dialer := &websocket.Dialer{HandshakeTimeout: 2 * time.Second, Subprotocols: []string{v.Proto}}
	conn, _, err := dialer.Dial("ws"+strings.TrimPrefix(s.ts.URL, "http"), nil)
	if err != nil {
		s.close()
		return nil, err
	}
	s.conn = conn
	if conn.Subprotocol() != v.Proto {
		s.close()
		return nil, fmt.Errorf("server chose sub-protocol %q, wanted %q", conn.Subprotocol(), v.Proto)
	}
	init := wsMessage{Type: "connection_init"}
	if v.Init != nil {
		fs := *v.Init
		if fs == nil {
			fs = []string{}
		}
		init.Payload, _ = json.Marshal(map[string]interface{}{"features": fs})
	}
	if err := conn.WriteJSON(init); err != nil {
		s.close()
		return nil, err
	}
	for {
		conn.SetReadDeadline(time.Now().Add(5 * time.Second))
		var m wsMessage
		if err := conn.ReadJSON(&m); err != nil {
			s.close()
			return nil, err
		}
		if m.Type == "connection_ack" {
			return s, nil
		}
		if m.Type != "ka" && m.Type != "ping" && m.Type != "pong" {
			s.close()
			return nil, fmt.Errorf("unexpected %s before ack", m.Type)
		}
	}
}

// closeClient ends the client's side (so that the server-side close below never has to wait for a
// close handshake that nobody answers).
func (s *wsSession) closeClient() {
	if s.conn == nil {
		return
	}
	if s.proto == "graphql-ws" {
		s.conn.WriteJSON(wsMessage{Type: "connection_terminate"})
	}
	s.conn.WriteControl(websocket.CloseMessage, websocket.FormatCloseMessage(websocket.CloseNormalClosure, ""), time.Now().Add(time.Second))
	s.conn.SetReadDeadline(time.Now().Add(time.Second))
	for {
		if _, _, err := s.conn.ReadMessage(); err != nil {
			break
		}
	}
	s.conn.Close()
	s.conn = nil
}

func (s *wsSession) close() {
	s.closeClient()
	s.api.CloseHijackedConnections()
	s.ts.Close()
}

func (s *wsSession) run(w *world, q *query) (o outcome) {

	w.mu.Lock()
	w.log = nil
	w.mu.Unlock()
	s.n++
	id := fmt.Sprintf("q%d", s.n)
	payload, _ := json.Marshal(map[string]interface{}{"query": q.Text, "variables": q.Vars})
	start := "start"
	if s.proto == "graphql-transport-ws" {
		start = "subscribe"
	}
	if err := s.conn.WriteJSON(wsMessage{Id: id, Type: start, Payload: payload}); err != nil {
		o.Resp = "ws write: " + err.Error()
		return o
	}
	for {
		s.conn.SetReadDeadline(time.Now().Add(5 * time.Second))
		var m wsMessage
		if err := s.conn.ReadJSON(&m); err != nil {
			o.Resp = "ws read: " + err.Error()
			return o
		}
		switch {
		case m.Type == "ka":
		case m.Type == "ping":
			s.conn.WriteJSON(wsMessage{Type: "pong"})
		case m.Id == id && (m.Type == "data" || m.Type == "next"):
			// a query answers once; a subscription answers once per delivered event
			if o.Resp != "" {
				o.Resp += " || "
			}
			o.Resp += canonResponse(m.Payload, q)
		case m.Id == id && m.Type == "error":
			o.Resp = "error " + string(m.Payload)
		case m.Id == id && m.Type == "complete":
			w.mu.Lock()
			o.Log = append([]string(nil), w.log...)
			w.mu.Unlock()
			return o
		}
	}
}

const obAPI = "oracle (API layer): ServeGraphQL and graphql-ws / graphql-transport-ws sockets (features from the upgrade context or installed by the HandleGraphQLWSInit hook) with Config.Features: response(S,F,q) == response(requirement-free erase(S,F), no features, q)"

// checkAPI runs the differential through apifu.API for one schema. It returns false when the spec
// cannot be mounted on an apifu.Config.
func (h *harness) checkAPI(spec *Spec, r interface {
	Intn(int) int
	Uint64() uint64
}, qs func(F []string) []query, withWS bool) bool {
	if !apiCompatible(spec) {
		return false
	}
	origX := expand(spec)
	feats := spec.features()
	for _, F := range subsets(feats) {
		Fm := fset(F)
		fw := &world{orig: origX, F: Fm}
		ew := &world{orig: origX, F: Fm}
		full, err := buildAPI(spec, fw)
		if err != nil {
			h.run.Count("api:unmountable")
			return false
		}
		// the reference carries no requirements and is queried without features: it does not depend
		// on the plumbing under test
		erased, err := buildAPI(stripReq(eraseSpec(spec, Fm)), ew)
		if err != nil {
			h.run.Violate("property", fmt.Sprintf("API layer: erase(S,F) cannot be mounted for F=%v: %v", F, err), "", false, &Case{Spec: spec, F: F})
			continue
		}
		// sockets on S: one takes F from the upgrade request's context, one gets a different set there
		// and F from the init hook (connection_init payload); the two sub-protocols alternate
		var wsA []*wsSession
		var wsVar []WSVariant
		var wsB *wsSession
		if withWS {
			protos := []string{"graphql-ws", "graphql-transport-ws"}
			h.wsCount++
			other := []string(nil)
			switch {
			case len(F) == 0:
				other = feats
			case len(F) == len(feats):
			case r.Intn(2) == 0:
				other = feats
			}
			initF := append([]string{}, F...)
			wsVar = []WSVariant{
				{Proto: protos[h.wsCount%2], Upgrade: F},
				{Proto: protos[(h.wsCount+1)%2], Upgrade: other, Init: &initF},
			}
			var err error
			for _, v := range wsVar {
				var sess *wsSession
				if sess, err = dialWS(full, v); err != nil {
					break
				}
				wsA = append(wsA, sess)
			}
			if err == nil {
				wsB, err = dialWS(erased, WSVariant{Proto: protos[h.wsCount%2]})
			}
			if err != nil {
				for _, sess := range wsA {
					sess.close()
				}
				h.run.Note("websocket setup failed: %v", err)
				wsA, wsB = nil, nil
			}
		}
		closeWS := func() {
			for _, sess := range wsA {
				sess.closeClient() // all clients of this API first: CloseHijackedConnections closes every connection of the API
			}
			for _, sess := range wsA {
				sess.close()
			}
			if wsB != nil {
				wsB.close()
			}
			wsA, wsB = nil, nil
		}
		for _, q := range qs(F) {
			q := q
			respect := r.Intn(2) == 0
			overlap := r.Intn(2) == 0
			seed := r.Uint64()
			for _, w := range []*world{fw, ew} {
				w.respect, w.seed, w.overlap = respect, seed, overlap
			}
			// histories: a third of the requests reach an API that has already served the same request
			// (plain and through the persisted-query extension) under other feature sets
			var before [][]string
			if len(feats) > 0 && r.Intn(3) == 0 {
				before = drawHistory(intnRand{r}, subsets(feats), F)
				warmUpAPI(full, fw, before, Fm, &q)
				h.run.Count("api:history:requests-after-other-feature-sets")
			}
			a := serveHTTP(full, fw, F, &q)
			b := serveHTTP(erased, ew, nil, &q)
			what := compareOutcomes(origX, F, a, b)
			if what != "" {
				for i := 0; i < 4 && what != ""; i++ { // Go map order may pick another of several errors
					a2 := serveHTTP(full, fw, F, &q)
					if a2.Resp == b.Resp {
						what = ""
					}
				}
			}
			h.run.Count("api:http")
			h.run.Oblige(obAPI, "oracle", 1, what == "", what)
			if what != "" {
				h.reportAPI(&Case{Spec: spec.clone(), F: F, Query: q, Respect: respect, Overlap: overlap, Seed: seed, Doc: q.doc, Before: before}, "API/HTTP: "+what)
			}
			// the same query through the persisted-query extension on S (Config.PersistedQueryStorage
			// together with Config.Features): registering it (text + hash) and then asking for it by
			// hash only must both answer like the plain request against the erased schema
			if a.Panic == "" && b.Panic == "" && q.Text != "" {
				for _, mode := range []int{pqRegister, pqHashOnly} {
					ap := serveHTTPPQ(full, fw, F, &q, mode)
					what := compareOutcomes(origX, F, ap, b)
					if what != "" {
						for i := 0; i < 4 && what != ""; i++ {
							if a2 := serveHTTPPQ(full, fw, F, &q, mode); a2.Resp == b.Resp {
								what = ""
							}
						}
					}
					h.run.Count("api:http:persisted-query")
					h.run.Oblige(obAPI, "oracle", 1, what == "", what)
					if what != "" {
						h.reportAPI(&Case{Spec: spec.clone(), F: F, Query: q, Respect: respect, Overlap: overlap, Seed: seed, Doc: q.doc, PQ: true, Before: before}, "API/HTTP persisted query: "+what)
					}
				}
			}
			// a panic in the HTTP path (recovered there, equal on both sides) would kill the process on
			// the WebSocket connection's goroutine: such a query is not sent over the socket
			if wsB != nil && a.Panic == "" && b.Panic == "" {
				b := wsB.run(ew, &q)
				for vi := 0; vi < len(wsA) && wsB != nil; vi++ {
					a := wsA[vi].run(fw, &q)
					if strings.HasPrefix(a.Resp, "ws ") || strings.HasPrefix(b.Resp, "ws ") {
						// socket I/O failed (deadline under load): not a verdict about the library
						h.run.Count("api:ws-io-error")
						h.run.Note("websocket I/O error, socket comparison abandoned for this schema: %s / %s", a.Resp, b.Resp)
						closeWS()
						break
					}
					what := compareOutcomes(origX, F, a, b)
					if what != "" {
						a2 := wsA[vi].run(fw, &q)
						if a2.Resp == b.Resp {
							what = ""
						}
					}
					h.run.Count("api:ws:" + wsVar[vi].Proto)
					if q.Label == "subscription" {
						h.run.Count("api:ws:subscription")
						if strings.Contains(a.Resp, " || ") {
							h.run.Count("api:ws:subscription-with-events")
						}
					}
					if wsVar[vi].Init != nil {
						h.run.Count("api:ws:features-from-init-hook")
					}
					h.run.Oblige(obAPI, "oracle", 1, what == "", what)
					if what != "" {
						v := wsVar[vi]
						h.reportAPI(&Case{Spec: spec.clone(), F: F, Query: q, Respect: respect, Overlap: overlap, Seed: seed, Doc: q.doc, WS: &v, Before: before}, "API/WS ("+v.String()+"): "+what)
					}
				}
			}
		}
		closeWS()
	}
	return true
}

// warmUpAPI sends q to the API under each feature set of a history: over HTTP, plain and through the
// persisted-query extension (register, then by hash).
func warmUpAPI(api *apifu.API, w *world, before [][]string, Fm map[string]bool, q *query) {
	for _, G := range before {
		w.F = fset(G)
		if o := serveHTTP(api, w, G, q); o.Panic == "" && q.Text != "" {
			serveHTTPPQ(api, w, G, q, pqRegister)
			serveHTTPPQ(api, w, G, q, pqHashOnly)
		}
	}
	w.F = Fm
}

// intnRand adapts checkAPI's random source to drawHistory.
type intnRand struct {
	r interface {
		Intn(int) int
		Uint64() uint64
	}
}

func (x intnRand) Intn(n int) int { return x.r.Intn(n) }

func compareOutcomes(origX *Spec, F []string, a, b outcome) string {
	if a.Panic != "" || b.Panic != "" {
		if a.Panic != b.Panic {
			return fmt.Sprintf("panic differs: under F %q, erased %q", a.Panic, b.Panic)
		}
		return ""
	}
	if g := gatedCalls(origX, fset(F), a.Log); len(g) > 0 {
		return fmt.Sprintf("gated resolver invoked under F=%v: %v", F, g)
	}
	if a.Resp != b.Resp {
		return fmt.Sprintf("response differs: under F=%v %s ; erased schema %s", F, clip(a.Resp), clip(b.Resp))
	}
	if strings.Join(a.Log, ",") != strings.Join(b.Log, ",") {
		return fmt.Sprintf("resolver call log differs: under F %v ; erased %v", a.Log, b.Log)
	}
	return ""
}

// reportAPI records an API-layer failure. If the same case also fails through graphql.Execute it is
// a defect of the core (shrunk and reported there); otherwise the plumbing of the feature set is at
// fault and the case is reported as is, marked with Via.
func (h *harness) reportAPI(c *Case, what string) {
	class := "api/" + failureClass(strings.SplitN(what, ": ", 2)[1])
	h.perClass[class]++
	h.run.Count("failure:" + class)
	if h.perClass[class] > 2 {
		return
	}
	if w := failsSame(c); w != "" {
		h.reportOracle(c, w)
		return
	}
	c.Via = "api"
	h.run.Violate("property", what, classify(c, what), false, c)
}
