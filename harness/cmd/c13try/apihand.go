package main

// Fixed schemas for the API-layer stream (apifu.Config with Features, HTTP + sockets + persisted
// queries + the cost rule apifu always attaches) in which exactly ONE kind of element is gated, one
// kind at a time, with fixed requests that use the gated element — in particular with the feature
// ENABLED, and through VARIABLES declared with gated types — next to the usual probes and generated
// documents. And fixed "leaky" definitions that schema.New must refuse.

type apiCase struct {
	name    string
	spec    *Spec
	queries []query
	withWS  bool
}

func fixedQ(text string, vars map[string]interface{}) query {
	return query{Kind: "doc", Label: "fixed", Text: text, Vars: vars}
}

func singleGateAPICases() []apiCase {
	a := []string{"a"}
	out := []apiCase{
		{name: "interface-field", withWS: true, spec: &Spec{Query: "Query", Types: withBuiltins(
			TypeSpec{Kind: "interface", Name: "Thing", Fields: []FieldSpec{{Name: "id", Type: "ID"}, {Name: "createdAt", Type: "String", Req: a}}},
			TypeSpec{Kind: "object", Name: "Widget", Ifaces: []string{"Thing"}, Fields: []FieldSpec{{Name: "id", Type: "ID"}, {Name: "createdAt", Type: "String"}}},
			TypeSpec{Kind: "object", Name: "Query", Fields: []FieldSpec{{Name: "ok", Type: "Boolean"}, {Name: "thing", Type: "Thing"}}})},
			queries: []query{fixedQ("{ thing { id createdAt } }", nil), fixedQ("{ thing { ... on Widget { createdAt } id } }", nil),
				{Kind: "probe", Label: "type:Thing", Text: typeProbe("Thing")}}},
		{name: "object-field", withWS: true, spec: &Spec{Query: "Query", Types: withBuiltins(
			TypeSpec{Kind: "object", Name: "Query", Fields: []FieldSpec{{Name: "ok", Type: "Boolean"}, {Name: "secret", Type: "Int", Req: a}}})},
			queries: []query{fixedQ("{ ok secret }", nil), {Kind: "probe", Label: "type:Query", Text: typeProbe("Query")}}},
		{name: "object-type", spec: &Spec{Query: "Query", Types: withBuiltins(
			TypeSpec{Kind: "interface", Name: "Thing", Fields: []FieldSpec{{Name: "id", Type: "ID"}}},
			TypeSpec{Kind: "object", Name: "Widget", Ifaces: []string{"Thing"}, Fields: []FieldSpec{{Name: "id", Type: "ID"}}},
			TypeSpec{Kind: "object", Name: "Extra", Req: a, Ifaces: []string{"Thing"}, Fields: []FieldSpec{{Name: "id", Type: "ID"}, {Name: "x", Type: "Int"}}},
			TypeSpec{Kind: "object", Name: "Query", Fields: []FieldSpec{{Name: "ok", Type: "Boolean"}, {Name: "things", Type: "[Thing]"}}})},
			queries: []query{fixedQ("{ things { __typename id ... on Extra { x } } }", nil), fixedQ("{ things { __typename id } }", nil),
				{Kind: "probe", Label: "type:Extra", Text: typeProbe("Extra")}, {Kind: "probe", Label: "nav:Thing", Text: navProbe("Thing")}}},
		{name: "interface-type", spec: &Spec{Query: "Query", Types: withBuiltins(
			TypeSpec{Kind: "interface", Name: "Hidden", Req: a, Fields: []FieldSpec{{Name: "id", Type: "ID"}}},
			TypeSpec{Kind: "object", Name: "Widget", Ifaces: []string{"Hidden"}, Fields: []FieldSpec{{Name: "id", Type: "ID"}}},
			TypeSpec{Kind: "object", Name: "Query", Fields: []FieldSpec{{Name: "w", Type: "Widget"}}})},
			queries: []query{fixedQ("{ w { ... on Hidden { id } } }", nil), {Kind: "probe", Label: "nav:Widget", Text: navProbe("Widget")},
				{Kind: "probe", Label: "type:Hidden", Text: typeProbe("Hidden")}}},
		{name: "union-type", spec: &Spec{Query: "Query", Types: withBuiltins(
			TypeSpec{Kind: "object", Name: "Widget", Fields: []FieldSpec{{Name: "id", Type: "ID"}}},
			TypeSpec{Kind: "union", Name: "Any", Req: a, Members: []string{"Widget"}},
			TypeSpec{Kind: "object", Name: "Query", Fields: []FieldSpec{{Name: "w", Type: "Widget"}}})},
			queries: []query{fixedQ("{ w { ... on Any { __typename } } }", nil), {Kind: "probe", Label: "type:Any", Text: typeProbe("Any")}}},
		{name: "input-type", withWS: true, spec: &Spec{Query: "Query", Types: withBuiltins(
			TypeSpec{Kind: "input", Name: "Filter", Req: a, Inputs: []ArgSpec{{"n", "Int"}, {"s", "String"}}, InputDefaults: []string{"s"}},
			TypeSpec{Kind: "object", Name: "Query", Fields: []FieldSpec{{Name: "ok", Type: "Boolean"}, {Name: "search", Type: "Int", Req: a, Args: []ArgSpec{{"filter", "Filter"}}}}})},
			queries: []query{
				fixedQ("query Q($f: Filter) { search(filter: $f) }", map[string]interface{}{"f": map[string]interface{}{"n": float64(1)}}),
				fixedQ("query Q($f: Filter = {n: 2}) { search(filter: $f) }", nil),
				fixedQ("{ search(filter: {n: 3}) }", nil),
				{Kind: "probe", Label: "type:Filter", Text: typeProbe("Filter")}}},
		{name: "enum-type", spec: &Spec{Query: "Query", Types: withBuiltins(
			TypeSpec{Kind: "enum", Name: "Color", Req: a, Values: []string{"RED", "GREEN"}},
			TypeSpec{Kind: "object", Name: "Query", Fields: []FieldSpec{{Name: "ok", Type: "Boolean"}, {Name: "paint", Type: "Color", Req: a, Args: []ArgSpec{{"c", "Color"}}, ArgDefaults: []string{"c"}}}})},
			queries: []query{
				fixedQ("query Q($c: Color!) { paint(c: $c) }", map[string]interface{}{"c": "RED"}),
				fixedQ("query Q($c: Color = GREEN) { paint(c: $c) }", nil),
				fixedQ("query Q($c: [Color!]) { paint }", map[string]interface{}{"c": []interface{}{"RED"}}),
				fixedQ("{ paint }", nil),
				{Kind: "probe", Label: "type:Color", Text: typeProbe("Color")}}},
		{name: "scalar-type", spec: &Spec{Query: "Query", Types: withBuiltins(
			TypeSpec{Kind: "scalar", Name: "Token", Req: a},
			TypeSpec{Kind: "object", Name: "Query", Fields: []FieldSpec{{Name: "ok", Type: "Boolean"}, {Name: "echo", Type: "Token", Req: a, Args: []ArgSpec{{"t", "Token"}}}}})},
			queries: []query{fixedQ("query Q($t: Token) { echo(t: $t) }", map[string]interface{}{"t": "x"}), fixedQ(`{ echo(t: "y") }`, nil),
				{Kind: "probe", Label: "type:Token", Text: typeProbe("Token")}}},
		{name: "connection-edge-field", spec: &Spec{Query: "Query", Types: append(withBuiltins(
			TypeSpec{Kind: "object", Name: "Item", Fields: []FieldSpec{{Name: "n", Type: "Int"}}},
			TypeSpec{Kind: "object", Name: "Query", Fields: []FieldSpec{{Name: "ok", Type: "Boolean"},
				{Name: "items", Conn: &ConnSpec{Prefix: "Item", Node: "Item", EdgeFields: []FieldSpec{{Name: "score", Type: "Int", Req: a}}}}}}), pageInfoSpec())},
			queries: []query{fixedQ("{ items(first: 3) { edges { score node { n } } } }", nil), {Kind: "probe", Label: "type:ItemEdge", Text: typeProbe("ItemEdge")}}},
	}
	return append(out, moreSingleGateAPICases()...)
}

// moreSingleGateAPICases: the gated element kinds at further positions.
func moreSingleGateAPICases() []apiCase {
	a := []string{"a"}
	return []apiCase{
		// a gated interface field next to every kind of implementer: the object's own field gated too,
		// the object's field ungated, and a gated object whose field is ungated
		{name: "interface-field-implementers", withWS: true, spec: &Spec{Query: "Query", Types: withBuiltins(
			TypeSpec{Kind: "interface", Name: "Thing", Fields: []FieldSpec{{Name: "id", Type: "ID"}, {Name: "createdAt", Type: "String", Req: a}}},
			TypeSpec{Kind: "object", Name: "Widget", Ifaces: []string{"Thing"}, Fields: []FieldSpec{{Name: "id", Type: "ID"}, {Name: "createdAt", Type: "String", Req: a}}},
			TypeSpec{Kind: "object", Name: "Open", Ifaces: []string{"Thing"}, Fields: []FieldSpec{{Name: "id", Type: "ID"}, {Name: "createdAt", Type: "String"}}},
			TypeSpec{Kind: "object", Name: "Gadget", Req: a, Ifaces: []string{"Thing"}, Fields: []FieldSpec{{Name: "id", Type: "ID"}, {Name: "createdAt", Type: "String"}}},
			TypeSpec{Kind: "object", Name: "Query", Fields: []FieldSpec{{Name: "ok", Type: "Boolean"}, {Name: "thing", Type: "Thing"}, {Name: "things", Type: "[Thing!]"}, {Name: "widget", Type: "Widget"}}})},
			queries: []query{
				fixedQ("{ things { __typename id createdAt } }", nil),
				fixedQ("{ things { id ... on Widget { createdAt } ... on Open { createdAt } ... on Gadget { createdAt } } }", nil),
				fixedQ("{ things { ... on Open { createdAt } } widget { createdAt } }", nil),
				fixedQ("{ things { ...T } } fragment T on Thing { createdAt ... on Gadget { id } }", nil),
				{Kind: "probe", Label: "type:Thing", Text: typeProbe("Thing")}, {Kind: "probe", Label: "type:Widget", Text: typeProbe("Widget")},
				{Kind: "probe", Label: "type:Gadget", Text: typeProbe("Gadget")}, {Kind: "probe", Label: "nav:Thing", Text: navProbe("Thing")}}},
		// a gated union with an ungated and a gated member, behind a gated field; the ungated member is also reachable directly
		{name: "union-members", withWS: true, spec: &Spec{Query: "Query", Types: withBuiltins(
			TypeSpec{Kind: "object", Name: "Widget", Fields: []FieldSpec{{Name: "id", Type: "ID"}}},
			TypeSpec{Kind: "object", Name: "Extra", Req: a, Fields: []FieldSpec{{Name: "id", Type: "ID"}, {Name: "x", Type: "Int"}}},
			TypeSpec{Kind: "union", Name: "Any", Req: a, Members: []string{"Widget", "Extra"}},
			TypeSpec{Kind: "object", Name: "Query", Fields: []FieldSpec{{Name: "w", Type: "Widget"}, {Name: "any", Type: "[Any]", Req: a}, {Name: "one", Type: "Any!", Req: a}}})},
			queries: []query{
				fixedQ("{ any { __typename ... on Extra { x } ... on Widget { id } } }", nil),
				fixedQ("{ one { __typename ... on Extra { id x } } w { ... on Any { __typename } } }", nil),
				fixedQ("{ w { id ...A } } fragment A on Any { ... on Widget { id } }", nil),
				{Kind: "probe", Label: "type:Any", Text: typeProbe("Any")}, {Kind: "probe", Label: "type:Extra", Text: typeProbe("Extra")},
				{Kind: "probe", Label: "nav:Any", Text: navProbe("Any")}}},
		// gated input types whose fields are reached through defaults: an argument default of input-object
		// type, an input field default of input-object / list-of-enum / enum type, variables with and without
		// defaults, literals that leave the defaulted fields out
		{name: "input-defaults", withWS: true, spec: &Spec{Query: "Query", Types: withBuiltins(
			TypeSpec{Kind: "enum", Name: "Mode", Req: a, Values: []string{"X", "Y"}},
			TypeSpec{Kind: "input", Name: "Inner", Req: a, Inputs: []ArgSpec{{"mode", "Mode"}, {"n", "Int"}}, InputDefaults: []string{"mode", "n"}},
			TypeSpec{Kind: "input", Name: "Filter", Req: a, Inputs: []ArgSpec{{"inner", "Inner"}, {"modes", "[Mode!]"}, {"s", "String"}}, InputDefaults: []string{"inner", "modes"}},
			TypeSpec{Kind: "object", Name: "Query", Fields: []FieldSpec{{Name: "ok", Type: "Boolean"},
				{Name: "search", Type: "Int", Req: a, Args: []ArgSpec{{"filter", "Filter"}, {"m", "Mode"}, {"ms", "[Mode]"}}, ArgDefaults: []string{"filter", "m", "ms"}},
				{Name: "plain", Type: "Int", Args: []ArgSpec{{"n", "Int"}}, ArgDefaults: []string{"n"}}}})},
			queries: []query{
				fixedQ("{ search plain }", nil),
				fixedQ("{ search(filter: {}) }", nil),
				fixedQ("{ search(filter: {inner: {}}) }", nil),
				fixedQ("{ search(filter: {inner: {n: 1}, s: \"t\"}, m: Y) }", nil),
				fixedQ("query Q($f: Filter = {}) { search(filter: $f) }", nil),
				fixedQ("query Q($f: Filter = {inner: {mode: Y}}) { search(filter: $f) }", nil),
				fixedQ("query Q($f: Filter) { search(filter: $f) }", map[string]interface{}{"f": map[string]interface{}{"inner": map[string]interface{}{}}}),
				fixedQ("query Q($f: Filter) { search(filter: $f) }", nil),
				fixedQ("query Q($i: Inner = {}) { search(filter: {inner: $i}) }", nil),
				fixedQ("query Q($m: Mode = X, $ms: [Mode] = [Y]) { search(m: $m, ms: $ms) }", nil),
				fixedQ("query Q($ms: [Mode!]) { search(filter: {modes: $ms}) }", map[string]interface{}{"ms": []interface{}{"X", "Y"}}),
				{Kind: "probe", Label: "type:Filter", Text: typeProbe("Filter")}, {Kind: "probe", Label: "type:Inner", Text: typeProbe("Inner")},
				{Kind: "probe", Label: "type:Mode", Text: typeProbe("Mode")}, {Kind: "probe", Label: "type:Query", Text: typeProbe("Query")}}},
		// custom directives (with field-collection filters) whose arguments have a gated type: defaulted,
		// required, list-typed; applied with literals, variables, and with the arguments left out
		{name: "directive-argument", withWS: true, spec: &Spec{Query: "Query",
			Directives: []DirSpec{
				{Name: "paint", Args: []ArgSpec{{"mode", "Mode"}, {"n", "Int"}}, Defaults: []string{"mode", "n"}, Filter: true},
				{Name: "need", Args: []ArgSpec{{"mode", "Mode!"}, {"s", "String"}}, Filter: true},
				{Name: "many", Args: []ArgSpec{{"modes", "[Mode!]"}, {"f", "Opts"}}, Defaults: []string{"modes", "f"}, Filter: true}},
			Types: withBuiltins(
				TypeSpec{Kind: "enum", Name: "Mode", Req: a, Values: []string{"X", "Y"}},
				TypeSpec{Kind: "input", Name: "Opts", Req: a, Inputs: []ArgSpec{{"mode", "Mode"}, {"k", "Int"}}, InputDefaults: []string{"mode"}},
				TypeSpec{Kind: "object", Name: "Query", Fields: []FieldSpec{{Name: "ok", Type: "Boolean"}, {Name: "n", Type: "Int"}, {Name: "g", Type: "Int", Req: a}}})},
			queries: []query{
				fixedQ("{ ok @paint n @many }", nil),
				fixedQ("{ ok @paint(mode: Y) n @paint(n: 1) }", nil),
				fixedQ("{ ok @need(mode: X) n @need(s: \"t\") }", nil),
				fixedQ("{ ok @need(s: \"t\") }", nil),
				fixedQ("{ ok @many(modes: [X, Y]) n @many(f: {}) g @many(f: {mode: Y, k: 1}) }", nil),
				fixedQ("query Q($m: Mode = Y) { ok @paint(mode: $m) }", nil),
				fixedQ("query Q($m: Mode!) { ok @need(mode: $m) }", map[string]interface{}{"m": "X"}),
				fixedQ("query Q($f: Opts = {}) { ok @many(f: $f) }", nil),
				fixedQ("query Q($n: Int) { ok @paint(n: $n) n @skip(if: false) }", map[string]interface{}{"n": float64(3)}),
				fixedQ("{ ... @paint { ok } ...F @need(mode: Y) } fragment F on Query { n }", nil),
				{Kind: "probe", Label: "directives", Text: `{ __schema { directives { name locations args { name defaultValue type { ...R } } } } } ` + typeRefFrag},
				{Kind: "probe", Label: "type:Mode", Text: typeProbe("Mode")}, {Kind: "probe", Label: "type:Opts", Text: typeProbe("Opts")}}},
	}
}

// leakySpecs: definitions in which an element exposes a type that needs a feature its owner does not
// need — with and without default values. schema.New must refuse every one of them (and the model's
// Accepted does): the construction rule is part of the property's mechanism.
func leakySpecs() []*Spec {
	a := []string{"a"}
	tier := TypeSpec{Kind: "enum", Name: "Tier", Req: a, Values: []string{"FREE", "PRO"}}
	q := func(fields ...FieldSpec) TypeSpec {
		return TypeSpec{Kind: "object", Name: "Query", Fields: append([]FieldSpec{{Name: "ok", Type: "Boolean"}}, fields...)}
	}
	search := FieldSpec{Name: "search", Type: "Int", Args: []ArgSpec{{"filter", "Filter"}}}
	return []*Spec{
		// input field of a gated enum type, ungated input object: with default, without, non-null with default
		{Query: "Query", Types: withBuiltins(tier, TypeSpec{Kind: "input", Name: "Filter", Inputs: []ArgSpec{{"tier", "Tier"}, {"n", "Int"}}, InputDefaults: []string{"tier"}}, q(search))},
		{Query: "Query", Types: withBuiltins(tier, TypeSpec{Kind: "input", Name: "Filter", Inputs: []ArgSpec{{"tier", "Tier"}, {"n", "Int"}}}, q(search))},
		{Query: "Query", Types: withBuiltins(tier, TypeSpec{Kind: "input", Name: "Filter", Inputs: []ArgSpec{{"n", "Int"}, {"tier", "Tier!"}}, InputDefaults: []string{"tier", "n"}}, q(search))},
		// input field of a gated scalar / gated input type
		{Query: "Query", Types: withBuiltins(TypeSpec{Kind: "scalar", Name: "Token", Req: a}, TypeSpec{Kind: "input", Name: "Filter", Inputs: []ArgSpec{{"t", "Token"}}, InputDefaults: []string{"t"}}, q(search))},
		{Query: "Query", Types: withBuiltins(TypeSpec{Kind: "input", Name: "Inner", Req: a, Inputs: []ArgSpec{{"n", "Int"}}}, TypeSpec{Kind: "input", Name: "Filter", Inputs: []ArgSpec{{"inner", "Inner"}}}, q(search))},
		// a less gated input object (b) with a field needing a as well
		{Query: "Query", Types: withBuiltins(tier, TypeSpec{Kind: "input", Name: "Filter", Req: []string{"b"}, Inputs: []ArgSpec{{"tier", "Tier"}}, InputDefaults: []string{"tier"}},
			q(FieldSpec{Name: "search", Type: "Int", Req: []string{"b"}, Args: []ArgSpec{{"filter", "Filter"}}}))},
		// field argument of a gated type on an ungated field: with and without default
		{Query: "Query", Types: withBuiltins(tier, q(FieldSpec{Name: "plan", Type: "Int", Args: []ArgSpec{{"tier", "Tier"}}, ArgDefaults: []string{"tier"}}))},
		{Query: "Query", Types: withBuiltins(tier, q(FieldSpec{Name: "plan", Type: "Int", Args: []ArgSpec{{"tier", "Tier"}}}))},
		// field / interface field of a gated type on an ungated field
		{Query: "Query", Types: withBuiltins(tier, q(FieldSpec{Name: "tier", Type: "Tier"}))},
		{Query: "Query", Types: withBuiltins(tier, TypeSpec{Kind: "interface", Name: "Plan", Fields: []FieldSpec{{Name: "id", Type: "ID"}, {Name: "tier", Type: "[Tier!]"}}}, q())},
		// ungated union with a gated member
		{Query: "Query", Types: withBuiltins(TypeSpec{Kind: "object", Name: "Pro", Req: a, Fields: []FieldSpec{{Name: "id", Type: "ID"}}},
			TypeSpec{Kind: "object", Name: "Free", Fields: []FieldSpec{{Name: "id", Type: "ID"}}}, TypeSpec{Kind: "union", Name: "Plan", Members: []string{"Free", "Pro"}}, q())},
		// ungated connection whose (ungated) node field has a gated type
		{Query: "Query", Types: append(withBuiltins(TypeSpec{Kind: "object", Name: "Pro", Req: a, Fields: []FieldSpec{{Name: "id", Type: "ID"}}},
			q(FieldSpec{Name: "pros", Conn: &ConnSpec{Prefix: "Pro", Node: "Pro"}})), pageInfoSpec())},
	}
}
