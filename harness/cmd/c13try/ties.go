package main

// Ties of the model's client functions (Client.lean) to the real code:
//   introspect — the model's answer to a selection tree == the real response (graphql.Execute);
//   walk       — the model's validation walk predicts exactly the real validation errors of the four
//                kinds it models (unknown field, undefined type, non-composite type condition,
//                impossible spread);
//   rc         — the model's type-resolution candidates == what the real executor resolves when the
//                application is forced to return an object of a given type through an abstract field.

import (
	"encoding/json"
	"fmt"
	"sort"
	"strings"

	"verifharness/hx"
)

// PSel is a selection tree over the introspection schema, printable both as GraphQL and as the
// model's Sels.
type PSel struct {
	Tag string
	Arg string
	Sub []PSel
}

func P(tag string, sub ...PSel) PSel { return PSel{Tag: tag, Sub: sub} }

// PD is a `fields` / `enumValues` selection with includeDeprecated: true.
func PD(tag string, sub ...PSel) PSel { return PSel{Tag: tag, Arg: "true", Sub: sub} }

func (p PSel) gql(b *strings.Builder) {
	b.WriteString(p.Tag)
	switch p.Tag {
	case "__type":
		fmt.Fprintf(b, "(name: %q)", p.Arg)
	case "fields", "enumValues":
		if p.Arg == "true" {
			b.WriteString("(includeDeprecated: true)")
		}
	}
	if len(p.Sub) > 0 {
		b.WriteString(" { ")
		for _, s := range p.Sub {
			s.gql(b)
			b.WriteString(" ")
		}
		b.WriteString("}")
	}
}

func pselText(ps []PSel) string {
	var b strings.Builder
	b.WriteString("{ ")
	for _, p := range ps {
		p.gql(&b)
		b.WriteString(" ")
	}
	b.WriteString("}")
	return b.String()
}

func pselSexp(ps []PSel) hx.Sexp {
	out := make([]hx.Sexp, len(ps))
	for i, p := range ps {
		out[i] = hx.L(hx.A(p.Tag), hx.A(p.Arg), pselSexp(p.Sub))
	}
	return hx.L(out...)
}

func refSel(depth int) []PSel {
	s := []PSel{P("kind"), P("name")}
	if depth > 0 {
		s = append(s, P("ofType", refSel(depth-1)...))
	}
	return s
}

func modelProbes(orig *Spec) [][]PSel {
	var out [][]PSel
	out = append(out, []PSel{P("__schema", P("queryType", P("name")), P("mutationType", P("name")), P("subscriptionType", P("name"), P("fields", P("name"))), P("types", P("name")))})
	out = append(out, []PSel{P("__schema", P("types", P("name"), P("kind"),
		P("interfaces", P("name")), P("possibleTypes", P("name")),
		P("fields", P("name"), P("type", refSel(3)...)),
		P("inputFields", P("name"), P("type", refSel(3)...))))})
	if dirTies {
		out = append(out, []PSel{P("__schema", P("directives", P("name"), P("args", P("name"), P("type", refSel(3)...))))})
	}
	for _, n := range universe(orig) {
		tp := PSel{Tag: "__type", Arg: n, Sub: []PSel{P("kind"), P("name"),
			PD("fields", P("name"), P("isDeprecated"), P("type", refSel(4)...), P("args", P("name"), P("type", refSel(4)...))),
			P("interfaces", P("name")), P("possibleTypes", P("name")),
			P("inputFields", P("name"), P("type", refSel(4)...)), PD("enumValues", P("name"))}}
		out = append(out, []PSel{tp})
		if t := orig.find(n); t != nil && (t.Kind == "object" || t.Kind == "interface" || t.Kind == "enum") {
			out = append(out, []PSel{{Tag: "__type", Arg: n, Sub: []PSel{P("name"),
				P("fields", P("name"), P("isDeprecated"), P("type", refSel(2)...)), P("enumValues", P("name"))}}})
		}
	}
	for _, t := range orig.Types {
		if t.Kind == "interface" || t.Kind == "union" || t.Kind == "object" && len(t.Ifaces) > 0 {
			out = append(out, []PSel{{Tag: "__type", Arg: t.Name, Sub: []PSel{P("name"),
				P("possibleTypes", P("name"), P("kind"), P("fields", P("name"), P("type", refSel(2)...)), P("interfaces", P("name"), P("possibleTypes", P("name")))),
				P("interfaces", P("name"), P("kind"), P("fields", P("name")), P("possibleTypes", P("name"), P("interfaces", P("name")))),
				P("fields", P("name"), P("type", refSel(2)...), P("args", P("name"), P("type", refSel(2)...)))}}})
		}
	}
	return out
}

const obIntrospect = "correspondence: model introspect(view(S,F), q) == real introspection response on (S,F)"
const obWalk = "correspondence: model walk(view(S,F), doc) predicts the real validation errors (unknown field / undefined type / non-composite condition / impossible spread)"

func canonJSONText(s string) (string, error) {
	var v interface{}
	if err := json.Unmarshal([]byte(s), &v); err != nil {
		return "", err
	}
	b, _ := json.Marshal(sortJSON(v))
	return string(b), nil
}

// tieIntrospect compares the model's introspection answers with the real ones for (S, F).
func (h *harness) tieIntrospect(env *pairEnv, spec *Spec, F []string) {
	for _, ps := range modelProbes(env.origX) {
		q := &query{Kind: "probe", Label: "model-probe", Text: pselText(ps)}
		real := runQuery(env.full, env.fullW, F, q)
		rep := h.ask("(introspect " + featSexp(F) + " full " + pselSexp(ps).String() + ")")
		mc, err := canonJSONText(`{"data":` + rep + `}`)
		what := ""
		if err != nil {
			what = fmt.Sprintf("model reply is not JSON: %.200s", rep)
		} else if mc != real.Resp {
			what = fmt.Sprintf("F=%v %s: model %s ; real %s", F, clip(q.Text), clip(mc), clip(real.Resp))
		}
		h.run.Oblige(obIntrospect, "correspondence", 1, what == "", what)
		if what != "" {
			h.perClass["introspect-tie"]++
			if h.perClass["introspect-tie"] > 2 {
				continue
			}
			// is the property itself broken on this probe?
			if w, _, _ := env.differential(q, true, 1); w != "" {
				h.reportOracle(&Case{Spec: spec.clone(), F: F, Query: *q, Respect: true, Seed: 1}, w)
			} else {
				h.run.Violate("correspondence", "introspection answers differ: "+what, "", true, &Case{Spec: spec, F: F, Query: *q})
			}
		}
	}
}

func docSels(d *Doc, sels []*Sel, inlined map[string]bool) hx.Sexp {
	var out []hx.Sexp
	for _, s := range sels {
		switch s.Kind {
		case "field":
			if s.Name == "__typename" {
				out = append(out, hx.L(hx.A("typename"), hx.A(""), hx.L()))
			} else {
				out = append(out, hx.L(hx.A("field"), hx.A(s.Name), docSels(d, s.Sub, inlined)))
			}
		case "inline":
			if s.On == "" {
				out = append(out, hx.L(hx.A("group"), hx.A(""), docSels(d, s.Sub, inlined)))
			} else {
				out = append(out, hx.L(hx.A("on"), hx.A(s.On), docSels(d, s.Sub, inlined)))
			}
		case "spread":
			for _, f := range d.Frags {
				if f.Name == s.Name {
					inlined[f.Name] = true
					out = append(out, hx.L(hx.A("on"), hx.A(f.On), docSels(d, f.Sub, inlined)))
				}
			}
		}
	}
	return hx.L(out...)
}

func modelledError(m string) bool {
	m = strings.TrimPrefix(m, "Validation error: ")
	return m == "undefined type" || m == "impossible fragment spread" ||
		m == "fragments may only be defined on objects, interfaces, and unions" ||
		(strings.HasPrefix(m, "field ") && strings.Contains(m, " does not exist on "))
}

// tieWalk compares the validation errors the model's walk predicts with the real ones.
func (h *harness) tieWalk(env *pairEnv, spec *Spec, F []string, q *query, real outcome) {
	d := q.doc
	if d == nil || real.Panic != "" {
		return
	}
	root := spec.Query
	if d.Op == "mutation" {
		root = spec.Mutation
	} else if d.Op == "subscription" {
		root = spec.Subscription
	}
	if rootsFixed && root != spec.Query {
		if t := spec.find(root); t != nil && !subset(t.Req, fset(F)) {
			root = "" // the operation has no scope: its root type is treated as absent
		}
	}
	inlined := map[string]bool{}
	rep := h.ask("(walk " + featSexp(F) + " full " + hx.A(root).String() + " " + docSels(d, d.Sels, inlined).String() + ")")
	x, err := hx.ParseSexp(rep)
	if err != nil || !x.IsList {
		h.run.Oblige(obWalk, "correspondence", 1, false, "bad walk reply "+clip(rep))
		return
	}
	events := x.List
	// fragment definitions no spread reaches are validated all the same, in no scope
	spreadSomewhere := map[string]bool{}
	var mark func(sels []*Sel)
	mark = func(sels []*Sel) {
		for _, s := range sels {
			if s.Kind == "spread" {
				spreadSomewhere[s.Name] = true
			}
			mark(s.Sub)
		}
	}
	mark(d.Sels)
	for _, f := range d.Frags {
		mark(f.Sub)
	}
	for _, f := range d.Frags {
		if inlined[f.Name] || spreadSomewhere[f.Name] {
			continue // walked where it is spread (each generated fragment is spread at most once)
		}
		inlined[f.Name] = true
		body := hx.L(hx.L(hx.A("on"), hx.A(f.On), docSels(d, f.Sub, inlined)))
		y, err := hx.ParseSexp(h.ask("(walk " + featSexp(F) + " full \"\" " + body.String() + ")"))
		if err == nil && y.IsList {
			events = append(events, y.List...)
		}
	}
	var predicted []string
	for _, e := range events {
		if !e.IsList || len(e.List) == 0 {
			continue
		}
		switch e.List[0].Atom {
		case "noField":
			predicted = append(predicted, fmt.Sprintf("Validation error: field %s does not exist on %s", e.List[2].Atom, e.List[1].Atom))
		case "undefinedType":
			predicted = append(predicted, "Validation error: undefined type")
		case "notComposite":
			predicted = append(predicted, "Validation error: fragments may only be defined on objects, interfaces, and unions")
		case "impossible":
			predicted = append(predicted, "Validation error: impossible fragment spread")
		}
	}
	var got []string
	for _, m := range errorMessages(real.Resp) {
		if modelledError(m) {
			got = append(got, m)
		}
	}
	sort.Strings(predicted)
	sort.Strings(got)
	what := ""
	if strings.Join(predicted, "|") != strings.Join(got, "|") {
		what = fmt.Sprintf("F=%v doc %s: model predicts %v ; real %v", F, clip(q.Text), predicted, got)
	}
	h.run.Oblige(obWalk, "correspondence", 1, what == "", what)
	if what != "" {
		h.perClass["walk-tie"]++
		if h.perClass["walk-tie"] <= 2 {
			h.run.Violate("correspondence", "validation walk differs: "+what, "", true, &Case{Spec: spec, F: F, Query: *q, Doc: d})
		}
	}
}

func implements(t *TypeSpec, iface string) bool {
	for _, i := range t.Ifaces {
		if i == iface {
			return true
		}
	}
	return false
}

// modelRC2 asks the driver for the model's answer to every overlapping-claim line the real side observed.
func (h *harness) modelRC2(F []string, real []string) []string {
	var out []string
	for _, l := range real {
		f := strings.Fields(l)
		if len(f) < 3 || f[0] != "rc2" {
			continue
		}
		claim := strings.Split(strings.TrimSuffix(f[2], ":"), "+")
		rep := h.ask("(resolve " + featSexp(F) + " " + hx.A(f[1]).String() + " " + strs(claim).String() + ")")
		if rep == "bad-op" {
			return nil // a driver without the operation: the lines are dropped on both sides by the caller
		}
		out = append(out, fmt.Sprintf("rc2 %s %s %s", f[1], f[2], rep))
	}
	return out
}

// realResolveCandidates observes the executor's type resolution: for every abstract type A that a
// visible, argument-free-callable Query field returns, and every object type O of the original
// schema, the application is forced to return an object of type O; A resolves it iff the response
// carries __typename O.
func realResolveCandidates(b *built, w *world, reqF map[string]bool, features []string, orig *Spec, view *Spec, plainSpec *Spec) []string {
	var lines []string
	F := fset(features)
	q := view.find(view.Query)
	if q == nil {
		return nil
	}
	seen := map[string]bool{}
	for _, f := range q.Fields {
		a := orig.find(baseName(f.Type))
		if a == nil || (a.Kind != "interface" && a.Kind != "union") || seen[a.Name] || !subset(f.Req, F) {
			continue
		}
		required := false
		for _, arg := range f.Args {
			if strings.HasSuffix(arg.Type, "!") {
				required = true
			}
		}
		if required {
			continue
		}
		seen[a.Name] = true
		for _, o := range plainSpec.Types {
			// only objects the harness itself defines: the library's connection / edge / PageInfo
			// objects recognise their own Go values, not the forced stand-in
			if o.Kind != "object" || o.Builtin != "" {
				continue
			}
			w.force = o.Name
			out := runQuery(b, w, features, &query{Kind: "doc", Text: fmt.Sprintf("{ r: %s { __typename } }", f.Name)})
			w.force = ""
			ok := strings.Contains(out.Resp, fmt.Sprintf(`"__typename":%q`, o.Name))
			if !ok && !strings.Contains(out.Resp, "Unable to determine object type.") {
				lines = append(lines, fmt.Sprintf("rc %s %s: unexpected %s", a.Name, o.Name, clip(out.Resp)))
				continue
			}
			lines = append(lines, fmt.Sprintf("rc %s %s: %v", a.Name, o.Name, ok))
		}
		// overlapping IsTypeOf: a value claimed by one implementation the request cannot see and by one
		// object type it can (exactly one visible claimant, so the answer does not depend on the order in
		// which the library happens to have registered the implementations)
		if a.Kind == "interface" {
			for _, g := range orig.Types {
				if g.Kind != "object" || subset(g.Req, reqF) || !implements(&g, a.Name) {
					continue
				}
				for _, u := range plainSpec.Types {
					if u.Kind != "object" || u.Builtin != "" || !subset(u.Req, reqF) {
						continue
					}
					w.force, w.forceAlso = u.Name, []string{g.Name}
					out := runQuery(b, w, features, &query{Kind: "doc", Text: fmt.Sprintf("{ r: %s { __typename } }", f.Name)})
					w.force, w.forceAlso = "", nil
					res := "-"
					if strings.Contains(out.Resp, fmt.Sprintf(`"__typename":%q`, u.Name)) {
						res = u.Name
					} else if strings.Contains(out.Resp, fmt.Sprintf(`"__typename":%q`, g.Name)) {
						res = g.Name
					} else if !strings.Contains(out.Resp, "Unable to determine object type.") {
						res = "unexpected " + clip(out.Resp)
					}
					lines = append(lines, fmt.Sprintf("rc2 %s %s+%s: %s", a.Name, g.Name, u.Name, res))
				}
			}
		}
	}
	return lines
}
