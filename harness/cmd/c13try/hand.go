package main

// Hand-written schemas: the shapes in which the defects F-13a–e were found, plus the shapes the
// repo's own feature tests use. They run on every check before the generated ones.

func withBuiltins(ts ...TypeSpec) []TypeSpec {
	return append(builtinScalarSpecs(), ts...)
}

func handSpecs() []*Spec {
	return []*Spec{
		// gated object type reachable by name / through an ungated interface (F-13a, F-13b, F-13e)
		{Query: "Query", Types: withBuiltins(
			TypeSpec{Kind: "interface", Name: "Node", Fields: []FieldSpec{{Name: "id", Type: "ID"}}},
			TypeSpec{Kind: "object", Name: "Pub", Ifaces: []string{"Node"}, Fields: []FieldSpec{{Name: "id", Type: "ID"}, {Name: "n", Type: "Int"}}},
			TypeSpec{Kind: "object", Name: "Secret", Req: []string{"a"}, Ifaces: []string{"Node"}, Fields: []FieldSpec{{Name: "id", Type: "ID"}, {Name: "s", Type: "String"}}},
			TypeSpec{Kind: "object", Name: "Query", Fields: []FieldSpec{{Name: "node", Type: "Node"}, {Name: "nodes", Type: "[Node]"}, {Name: "secret", Type: "Secret", Req: []string{"a"}}}},
		)},
		// gated interface implemented by an ungated object (F-13c)
		{Query: "Query", Types: withBuiltins(
			TypeSpec{Kind: "interface", Name: "Hidden", Req: []string{"a"}, Fields: []FieldSpec{{Name: "id", Type: "ID"}}},
			TypeSpec{Kind: "object", Name: "Pub", Ifaces: []string{"Hidden"}, Fields: []FieldSpec{{Name: "id", Type: "ID"}}},
			TypeSpec{Kind: "object", Name: "Query", Fields: []FieldSpec{{Name: "pub", Type: "Pub"}, {Name: "hidden", Type: "Hidden", Req: []string{"a"}}}},
		)},
		// two interfaces whose only common implementation is gated (F-13d)
		{Query: "Query", Types: withBuiltins(
			TypeSpec{Kind: "interface", Name: "I", Fields: []FieldSpec{{Name: "id", Type: "ID"}}},
			TypeSpec{Kind: "interface", Name: "J", Fields: []FieldSpec{{Name: "id", Type: "ID"}}},
			TypeSpec{Kind: "object", Name: "OnlyI", Ifaces: []string{"I"}, Fields: []FieldSpec{{Name: "id", Type: "ID"}}},
			TypeSpec{Kind: "object", Name: "OnlyJ", Ifaces: []string{"J"}, Fields: []FieldSpec{{Name: "id", Type: "ID"}}},
			TypeSpec{Kind: "object", Name: "Both", Req: []string{"a"}, Ifaces: []string{"I", "J"}, Fields: []FieldSpec{{Name: "id", Type: "ID"}}},
			TypeSpec{Kind: "object", Name: "Query", Fields: []FieldSpec{{Name: "i", Type: "I"}, {Name: "j", Type: "J"}}},
		)},
		// the repo's tests: gated field on interface and implementer, ungated on another implementer
		{Query: "Query", Types: withBuiltins(
			TypeSpec{Kind: "interface", Name: "Pet", Fields: []FieldSpec{{Name: "nickname", Type: "String"}, {Name: "age", Type: "Int", Req: []string{"petage"}}}},
			TypeSpec{Kind: "object", Name: "Dog", Ifaces: []string{"Pet"}, Fields: []FieldSpec{{Name: "nickname", Type: "String"}, {Name: "barkVolume", Type: "Int"}, {Name: "age", Type: "Int", Req: []string{"petage"}}}},
			TypeSpec{Kind: "object", Name: "Cat", Ifaces: []string{"Pet"}, Fields: []FieldSpec{{Name: "nickname", Type: "String"}, {Name: "age", Type: "Int"}}},
			TypeSpec{Kind: "object", Name: "ExperimentalObject", Req: []string{"experimentalobject"}, Fields: []FieldSpec{{Name: "foo", Type: "Boolean"}}},
			TypeSpec{Kind: "object", Name: "Query", Fields: []FieldSpec{{Name: "pet", Type: "Pet"}, {Name: "experimentalObject", Type: "ExperimentalObject", Req: []string{"experimentalobject"}}}},
		)},
		// gated input / enum types used by a gated field's arguments; gated union; two-feature requirement
		{Query: "Query", Mutation: "Mutation", Types: withBuiltins(
			TypeSpec{Kind: "enum", Name: "Color", Req: []string{"a"}, Values: []string{"RED", "GREEN"}},
			TypeSpec{Kind: "input", Name: "Filter", Req: []string{"a", "b"}, Inputs: []ArgSpec{{"color", "Color"}, {"n", "Int!"}}},
			TypeSpec{Kind: "object", Name: "A", Req: []string{"a"}, Fields: []FieldSpec{{Name: "x", Type: "Int"}, {Name: "color", Type: "Color"}}},
			TypeSpec{Kind: "object", Name: "B", Fields: []FieldSpec{{Name: "y", Type: "Int"}, {Name: "both", Type: "String", Req: []string{"a", "b"}}}},
			TypeSpec{Kind: "union", Name: "AB", Req: []string{"a"}, Members: []string{"A", "B"}},
			TypeSpec{Kind: "object", Name: "Mutation", Fields: []FieldSpec{{Name: "set", Type: "Boolean", Args: []ArgSpec{{"to", "Color"}}, Req: []string{"a"}}, {Name: "touch", Type: "Int"}}},
			TypeSpec{Kind: "object", Name: "Query", Fields: []FieldSpec{
				{Name: "ab", Type: "[AB!]", Req: []string{"a"}},
				{Name: "b", Type: "B"},
				{Name: "search", Type: "[B]", Args: []ArgSpec{{"filter", "Filter"}, {"limit", "Int"}}, Req: []string{"a", "b"}},
				{Name: "paint", Type: "Color", Args: []ArgSpec{{"c", "Color!"}}, Req: []string{"a"}},
			}},
		)},
		// connections implementing a gated / an ungated connection interface
		{Query: "Query", ConnIfaces: []ConnIface{{Prefix: "Things", Node: "Item"}, {Prefix: "BetaThings", Node: "Item", Req: []string{"b"}}}, Types: append(withBuiltins(
			TypeSpec{Kind: "object", Name: "Item", Fields: []FieldSpec{{Name: "n", Type: "Int"}}},
			TypeSpec{Kind: "object", Name: "Query", Fields: []FieldSpec{
				{Name: "ok", Type: "Boolean"},
				{Name: "things", Type: "ThingsConnection"},
				{Name: "betaThings", Type: "BetaThingsConnection", Req: []string{"b"}},
				{Name: "items", Conn: &ConnSpec{Prefix: "Item", Node: "Item", Impl: []string{"Things", "BetaThings"}}},
				{Name: "gatedItems", Req: []string{"a"}, Conn: &ConnSpec{Prefix: "GatedItem", Node: "Item!", Impl: []string{"Things"}}},
			}},
		), pageInfoSpec())},
		// deprecated and gated at once: fields (object and interface) and a deprecated value of a gated enum
		{Query: "Query", Types: withBuiltins(
			TypeSpec{Kind: "enum", Name: "Mode", Req: []string{"a"}, Values: []string{"OLD", "NEW"}, DepValues: []string{"OLD"}},
			TypeSpec{Kind: "enum", Name: "Open", Values: []string{"X", "Y"}, DepValues: []string{"Y"}},
			TypeSpec{Kind: "interface", Name: "Thing", Fields: []FieldSpec{{Name: "id", Type: "ID"}, {Name: "legacy", Type: "Mode", Req: []string{"a"}, Deprecated: true}, {Name: "old", Type: "Int", Deprecated: true}}},
			TypeSpec{Kind: "object", Name: "Widget", Ifaces: []string{"Thing"}, Fields: []FieldSpec{{Name: "id", Type: "ID"}, {Name: "legacy", Type: "Mode", Req: []string{"a"}, Deprecated: true}, {Name: "old", Type: "Int", Deprecated: true}, {Name: "gated", Type: "Int", Req: []string{"a"}}}},
			TypeSpec{Kind: "object", Name: "Query", Fields: []FieldSpec{{Name: "thing", Type: "Thing"}, {Name: "open", Type: "Open"}, {Name: "mode", Type: "Mode", Req: []string{"a"}, Deprecated: true}}},
		)},
		// custom directives: ungated argument types (inside the domain) and an argument of a gated enum type (F-13g)
		{Query: "Query", Directives: []DirSpec{{Name: "tag", Args: []ArgSpec{{"label", "String"}, {"n", "Int!"}}}, {Name: "mark"}},
			Types: withBuiltins(TypeSpec{Kind: "object", Name: "Query", Fields: []FieldSpec{{Name: "ok", Type: "Boolean"}, {Name: "n", Type: "Int", Req: []string{"a"}}}})},
		{Query: "Query", Directives: []DirSpec{{Name: "paint", Args: []ArgSpec{{"mode", "Mode"}, {"n", "Int"}}, Defaults: []string{"mode", "n"}, Filter: true},
			{Name: "need", Args: []ArgSpec{{"mode", "Mode!"}, {"s", "String"}}, Filter: true}},
			Types: withBuiltins(
				TypeSpec{Kind: "enum", Name: "Mode", Req: []string{"a"}, Values: []string{"X", "Y"}},
				TypeSpec{Kind: "object", Name: "Query", Fields: []FieldSpec{{Name: "ok", Type: "Boolean"}}})},
		// gated / deprecated EDGE FIELDS on ungated connections (Connection and TimeBasedConnection)
		{Query: "Query", Types: append(withBuiltins(
			TypeSpec{Kind: "object", Name: "Item", Fields: []FieldSpec{{Name: "n", Type: "Int"}}},
			TypeSpec{Kind: "object", Name: "Extra", Req: []string{"a"}, Fields: []FieldSpec{{Name: "x", Type: "Int"}}},
			TypeSpec{Kind: "object", Name: "Query", Fields: []FieldSpec{
				{Name: "ok", Type: "Boolean"},
				{Name: "items", Conn: &ConnSpec{Prefix: "Item", Node: "Item", EdgeFields: []FieldSpec{
					{Name: "score", Type: "Int", Req: []string{"a"}},
					{Name: "extra", Type: "Extra", Req: []string{"a"}, Deprecated: true},
					{Name: "legacy", Type: "String", Deprecated: true},
					{Name: "both", Type: "Int!", Req: []string{"a", "b"}, Args: []ArgSpec{{"x", "Int"}}},
				}}},
				{Name: "events", Conn: &ConnSpec{Prefix: "Event", Node: "Item", NodeReq: []string{"b"}, TimeBased: true, Args: []ArgSpec{{"kind", "String"}},
					EdgeFields: []FieldSpec{{Name: "weight", Type: "Float", Req: []string{"a"}, Deprecated: true}}}},
			}},
		), pageInfoSpec(), dateTimeSpec())},
		// connections with features
		{Query: "Query", Types: append(withBuiltins(
			TypeSpec{Kind: "object", Name: "Item", Fields: []FieldSpec{{Name: "n", Type: "Int"}}},
			TypeSpec{Kind: "object", Name: "Beta", Req: []string{"b"}, Fields: []FieldSpec{{Name: "n", Type: "Int"}}},
			TypeSpec{Kind: "object", Name: "Query", Fields: []FieldSpec{
				{Name: "ok", Type: "Boolean"},
				{Name: "items", Conn: &ConnSpec{Prefix: "Item", Node: "Item"}},
				{Name: "gatedItems", Req: []string{"a"}, Conn: &ConnSpec{Prefix: "GatedItem", Node: "Item!"}},
				{Name: "betas", Req: []string{"a", "b"}, Conn: &ConnSpec{Prefix: "Beta", Node: "Beta"}},
			}},
		), pageInfoSpec())},
	}
}
