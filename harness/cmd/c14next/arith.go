package main

// The arithmetic helpers (validate_cost.go:15-37) through the `verif` hook, against the generated
// Lean definitions (driver `(mul a b)` / `(add a b)`) and against the exact big.Int specification.

import (
	"fmt"
	"math/big"
	"strconv"

	"github.com/ccbrown/api-fu/graphql/validator"

	"verifharness/hx"
)

// arithSpec is the property's statement of the two helpers on Go ints: the exact product / sum of
// two non-negative numbers when it is representable, else the overflow marker -1; a negative
// argument (the marker) gives the marker — except that zero times anything is zero.
func arithSpec(fn string, a, b int) int {
	x, y := big.NewInt(int64(a)), big.NewInt(int64(b))
	if fn == "mul" {
		if a == 0 || b == 0 {
			return 0
		}
		if a < 0 || b < 0 {
			return -1
		}
		p := new(big.Int).Mul(x, y)
		if p.Cmp(bigMaxInt) > 0 {
			return -1
		}
		return int(p.Int64())
	}
	if a < 0 || b < 0 {
		return -1
	}
	s := new(big.Int).Add(x, y)
	if s.Cmp(bigMaxInt) > 0 {
		return -1
	}
	return int(s.Int64())
}

func realArith(fn string, a, b int) (res string) {
	defer func() {
		if p := recover(); p != nil {
			res = fmt.Sprintf("panic:%v", p)
		}
	}()
	if fn == "mul" {
		return "(some " + strconv.Itoa(validator.VerifCheckedMul(a, b)) + ")"
	}
	return "(some " + strconv.Itoa(validator.VerifCheckedAdd(a, b)) + ")"
}

func (h *harness) arithOne(c Case, verbose bool) *failure {
	real := realArith(c.Fn, c.A, c.B)
	want := "(some " + strconv.Itoa(arithSpec(c.Fn, c.A, c.B)) + ")"
	model := ""
	if h.model != nil {
		var err error
		model, err = h.model.Ask(fmt.Sprintf("(%s %d %d)", c.Fn, c.A, c.B))
		if err != nil {
			return &failure{"correspondence", "model driver failed: " + err.Error()}
		}
	}
	if verbose {
		fmt.Printf("implementation: %s  model: %s  exact specification: %s\n", real, model, want)
	}
	return arithJudge(c, real, model, want)
}

func arithJudge(c Case, real, model, want string) *failure {
	if real != want {
		kind := "property"
		if len(real) > 5 && real[:6] == "panic:" {
			kind = "crash"
		}
		return &failure{kind, fmt.Sprintf("checkedNonNegative%s(%d, %d) = %s, the exact saturating result is %s", map[string]string{"mul": "Multiply", "add": "Add"}[c.Fn], c.A, c.B, real, want)}
	}
	if model != "" && model != real {
		return &failure{"correspondence", fmt.Sprintf("%s(%d, %d): implementation %s, generated Lean definition %s", c.Fn, c.A, c.B, real, model)}
	}
	return nil
}

func (h *harness) arithGrid() {
	grid := []int{0, 1, 2, 3, 1<<31 - 1, 1 << 31, 1<<31 + 1, 1 << 32, 3037000498, 3037000499, 3037000500, 3037000501,
		maxInt/2 - 1, maxInt / 2, maxInt/2 + 1, maxInt - 1, maxInt, -1, -2, minInt, minInt + 1}
	var cases []Case
	for _, fn := range []string{"mul", "add"} {
		for _, a := range grid {
			for _, b := range grid {
				cases = append(cases, Case{Kind: "arith", Fn: fn, A: a, B: b})
			}
		}
	}
	h.run.CountN("arith:grid", len(cases))
	r := h.run.Rand.Fork()
	n := h.run.Scale(6000, 200000)
	for i := 0; i < n; i++ {
		fn := hx.Pick(r, []string{"mul", "add"})
		var a, b int
		switch r.Intn(6) {
		case 0: // any 64-bit pair
			a, b = int(r.Uint64()), int(r.Uint64())
			h.run.Count("arith:random-64-bit")
		case 1: // non-negative of random magnitude
			a, b = int(r.Uint64()>>uint(r.Range(1, 63))), int(r.Uint64()>>uint(r.Range(1, 63)))
			h.run.Count("arith:random-magnitudes")
		case 2, 3: // around the overflow boundary of the operation
			a = int(r.Uint64()>>uint(r.Range(1, 62))) + 1
			if fn == "mul" {
				b = maxInt/a + r.Range(-2, 2)
			} else {
				b = maxInt - a + r.Range(-2, 2)
			}
			if r.Bool() {
				a, b = b, a
			}
			h.run.Count("arith:around-overflow-boundary")
		case 4: // products that wrap to something plausible: (2^k) * (2^(64-k) + small)
			k := uint(r.Range(2, 61))
			a, b = 1<<k, (1<<(64-k))+r.Range(0, 5)
			if fn == "mul" && r.Bool() {
				a, b = b, a
			}
			h.run.Count("arith:wraps-to-small")
		default: // one grid value, one random
			a, b = hx.Pick(r, grid), int(r.Uint64()>>uint(r.Range(0, 63)))
			if r.Bool() {
				a, b = b, a
			}
			h.run.Count("arith:grid×random")
		}
		cases = append(cases, Case{Kind: "arith", Fn: fn, A: a, B: b})
	}
	var replies []string
	if h.model != nil {
		lines := make([]string, len(cases))
		for i, c := range cases {
			lines[i] = fmt.Sprintf("(%s %d %d)", c.Fn, c.A, c.B)
		}
		var err error
		replies, err = h.model.AskAll(lines)
		if err != nil {
			h.run.Oblige("arithmetic correspondence (hook vs generated Lean definitions)", "correspondence", len(cases), false, err.Error())
			h.run.Violate("correspondence", "model driver failed on the arithmetic grid: "+err.Error(), "", true, nil)
			return
		}
	}
	for i, c := range cases {
		real := realArith(c.Fn, c.A, c.B)
		want := "(some " + strconv.Itoa(arithSpec(c.Fn, c.A, c.B)) + ")"
		model := ""
		if replies != nil {
			model = replies[i]
		}
		f := arithJudge(c, real, model, want)
		nontrivial := c.A > 1 && c.B > 1
		h.run.Case(fmt.Sprintf("arith|%s|%d|%d", c.Fn, c.A, c.B), nontrivial)
		h.run.Oblige("arithmetic correspondence (hook vs generated Lean definitions)", "correspondence", 1, f == nil || f.Kind != "correspondence", fmtFail(f))
		h.run.Oblige("oracle: checkedNonNegativeMultiply/Add = exact result or -1 (big.Int)", "oracle", 1, f == nil || f.Kind == "correspondence", fmtFail(f))
		if f != nil {
			h.report(f, c)
		}
	}
}
