package main

// RelayRef — an independent Go rendering of the Relay Cursor Connections pagination algorithm
// (EdgesToReturn / ApplyCursorsToEdges / HasPreviousPage / HasNextPage), written from the text of
// the specification. It shares nothing with /repo's pagination package and nothing with the Lean
// model; the Lean Spec (ApiFu.C09.Relay) is compared with it on every direct case ("oracle
// agreement") so that a slip in either shows up.

import "sort"

// pos is a cursor argument: absent, or a position in the cursor order.
type pos struct {
	Set bool
	C   int
}

type refOut struct {
	Err   bool  // the specification says "throw an error" (or the property statement demands one)
	Edges []int // the page, in connection (= cursor) order
	// requirement on hasPreviousPage / hasNextPage: Must* set → the flag must equal the value;
	// otherwise the flag may be true only if MayPrev / MayNext.
	MustPrev, MustNext *bool
	MayPrev, MayNext   bool
}

func sortedCopy(e []int) []int {
	s := append([]int{}, e...)
	sort.Ints(s)
	return s
}

func indexOf(s []int, c int) int {
	for i, x := range s {
		if x == c {
			return i
		}
	}
	return -1
}

// applyCursors: ApplyCursorsToEdges over the list in connection order. A cursor that belongs to no
// edge is a position in the cursor order (property statement), not ignored.
func refApplyCursors(all []int, after, before pos) []int {
	edges := append([]int{}, all...)
	if after.Set {
		if i := indexOf(edges, after.C); i >= 0 {
			edges = edges[i+1:]
		} else {
			var keep []int
			for _, c := range edges {
				if c > after.C {
					keep = append(keep, c)
				}
			}
			edges = keep
		}
	}
	if before.Set {
		if i := indexOf(edges, before.C); i >= 0 {
			edges = edges[:i]
		} else {
			var keep []int
			for _, c := range edges {
				if c < before.C {
					keep = append(keep, c)
				}
			}
			edges = keep
		}
	}
	return edges
}

func bp(b bool) *bool { return &b }

// relayRef computes what the specification selects from the edge set E (any order).
// requireCount: the connection field demands exactly one of first/last (property statement:
// "a negative count, a missing count or first and last together yield an error").
func relayRef(E []int, after, before pos, first, last *int, requireCount bool) refOut {
	all := sortedCopy(E)
	if (first != nil && *first < 0) || (last != nil && *last < 0) {
		return refOut{Err: true}
	}
	if requireCount && ((first == nil) == (last == nil)) {
		return refOut{Err: true}
	}
	ranged := refApplyCursors(all, after, before)
	edges := ranged
	if first != nil && len(edges) > *first {
		edges = edges[:*first]
	}
	if last != nil && len(edges) > *last {
		edges = edges[len(edges)-*last:]
	}
	out := refOut{Edges: append([]int{}, edges...)}
	// HasPreviousPage
	if last != nil {
		// Relay: "If edges contains more than last elements" where edges = ApplyCursorsToEdges(...).
		// (With first also set the Go code counts after the first-truncation; both-set is an error
		// for the connection field and only the direct API can reach it — the direct oracle treats
		// the flag as unconstrained there, see checkDirect.)
		out.MustPrev = bp(len(ranged) > *last)
	} else if after.Set {
		for _, c := range all {
			if c <= after.C {
				out.MayPrev = true
			}
		}
	} else {
		out.MustPrev = bp(false)
	}
	// HasNextPage
	if first != nil {
		out.MustNext = bp(len(ranged) > *first)
	} else if before.Set {
		for _, c := range all {
			if c >= before.C {
				out.MayNext = true
			}
		}
	} else {
		out.MustNext = bp(false)
	}
	return out
}

// edgeBeyond reports whether E holds an edge that is not on the page and lies after (dir>0) /
// before (dir<0) every edge of the page: the property's "never true when no further edge exists
// in that direction".
func edgeBeyond(E, page []int, dir int) bool {
	on := map[int]bool{}
	for _, p := range page {
		on[p] = true
	}
	for _, e := range E {
		if on[e] {
			continue
		}
		ok := true
		for _, p := range page {
			if dir > 0 && !(p < e) || dir < 0 && !(e < p) {
				ok = false
			}
		}
		if ok {
			return true
		}
	}
	return false
}
