package main

import (
	"context"
	"encoding/json"
	"fmt"

	jsoniter "github.com/json-iterator/go"

	"github.com/ccbrown/api-fu/graphql"
	"github.com/ccbrown/api-fu/graphql/schema"
	"github.com/ccbrown/api-fu/graphql/schema/introspection"
)

// ---- the real server schema with resolver worlds ------------------------------------------------

// obj is the value every object resolver returns: the concrete type plus two seeds. `vs` drives the
// values (world dependent), `ps` identifies the position (world independent) so that the world's
// rotation walks an abstract position through all of its concrete types.
type obj struct {
	typ string
	vs  uint64
	ps  uint64
	w   *world
}

type world struct {
	spec    *SchemaSpec
	rot     int
	nullPct int // chance (in %) that a nullable position is null
}

func mix(a uint64, s string, i int) uint64 {
	h := a*0x9E3779B97F4A7C15 + 0x632BE59BD9B4E019
	for _, c := range []byte(s) {
		h = (h ^ uint64(c)) * 0x100000001B3
	}
	h ^= uint64(i+1) * 0xD6E8FEB86659FD93
	h ^= h >> 32
	h *= 0xBF58476D1CE4E5B9
	h ^= h >> 29
	return h
}

var intPool = []int{0, 1, -1, 7, 42, -2147483648, 2147483647, 100000, -35}
var floatPool = []float64{0, 1.5, -0.25, 3, 1e21, 2.5e-7, 0.1, -123456.789, 1e6}
var stringPool = []string{"", "a", "hello world", "quo\"te", "back\\slash", "ünï→😀", "null", "0", "line\nbreak", "<tag>&"}

func (w *world) value(t TypeRef, vs, ps uint64, nn bool) interface{} {
	switch t.Kind {
	case "nn":
		return w.value(*t.Of, vs, ps, true)
	}
	if !nn && int(mix(vs, "null", 0)%100) < w.nullPct {
		return nil
	}
	switch t.Kind {
	case "list":
		n := int(mix(vs, "len", 0) % 4)
		out := make([]interface{}, n)
		for i := range out {
			out[i] = w.value(*t.Of, mix(vs, "item", i), mix(ps, "item", i), false)
		}
		return out
	}
	switch t.Name {
	case "Int":
		return intPool[mix(vs, "v", 0)%uint64(len(intPool))]
	case "Float":
		return floatPool[mix(vs, "v", 0)%uint64(len(floatPool))]
	case "String":
		return stringPool[mix(vs, "v", 0)%uint64(len(stringPool))]
	case "Boolean":
		return mix(vs, "v", 0)%2 == 0
	case "ID":
		if mix(vs, "idkind", 0)%2 == 0 {
			return int(mix(vs, "v", 0) % 1000)
		}
		return fmt.Sprintf("id-%d", mix(vs, "v", 0)%1000)
	}
	ts := w.spec.Type(t.Name)
	switch ts.Kind {
	case "enum":
		return ts.Values[mix(vs, "v", 0)%uint64(len(ts.Values))]
	case "object":
		return &obj{typ: ts.Name, vs: vs, ps: ps, w: w}
	default:
		poss := w.spec.Possible(ts.Name)
		if len(poss) == 0 {
			return nil
		}
		return &obj{typ: poss[(int(mix(ps, "type", 0)%uint64(len(poss)))+w.rot)%len(poss)], vs: vs, ps: ps, w: w}
	}
}

// buildSchema builds the real schema (resolvers read the world from the object they are called on).
// descPool: descriptions must never change the validity of the generated source.
var descPool = []string{
	"The colours.\n\nMixed colours are not offered.",
	"ends a comment */ and // starts one",
	"a `backtick`, a \"quote\" and a \\ backslash",
	"ünï→😀 non-ASCII\nsecond line",
	"\nleading newline",
	"tab\tand trailing newline\n",
	"}\nfunc init() { panic(1) }\n",
	"plain words",
}

func (spec *SchemaSpec) desc(what string) string {
	switch spec.DescMode {
	case 1:
		return "About " + what + "."
	case 2:
		return descPool[mix(7, what, 0)%uint64(len(descPool))]
	}
	return ""
}

func buildSchema(spec *SchemaSpec) (*graphql.Schema, error) {
	enums := map[string]*graphql.EnumType{}
	objects := map[string]*graphql.ObjectType{}
	ifaces := map[string]*graphql.InterfaceType{}
	unions := map[string]*graphql.UnionType{}
	for i := range spec.Types {
		t := &spec.Types[i]
		switch t.Kind {
		case "enum":
			e := &graphql.EnumType{Name: t.Name, Description: spec.desc(t.Name), Values: map[string]*graphql.EnumValueDefinition{}}
			for _, v := range t.Values {
				e.Values[v] = &graphql.EnumValueDefinition{Value: v, Description: spec.desc(t.Name + "." + v)}
			}
			enums[t.Name] = e
		case "object":
			name := t.Name
			objects[t.Name] = &graphql.ObjectType{Name: t.Name, Description: spec.desc(t.Name), Fields: map[string]*graphql.FieldDefinition{},
				IsTypeOf: func(v interface{}) bool { o, ok := v.(*obj); return ok && o.typ == name }}
		case "iface":
			ifaces[t.Name] = &graphql.InterfaceType{Name: t.Name, Description: spec.desc(t.Name), Fields: map[string]*graphql.FieldDefinition{}}
		case "union":
			unions[t.Name] = &graphql.UnionType{Name: t.Name, Description: spec.desc(t.Name)}
		default:
			return nil, fmt.Errorf("unknown type kind %q", t.Kind)
		}
	}
	var conv func(t TypeRef) (graphql.Type, error)
	conv = func(t TypeRef) (graphql.Type, error) {
		switch t.Kind {
		case "list":
			in, err := conv(*t.Of)
			if err != nil {
				return nil, err
			}
			return graphql.NewListType(in), nil
		case "nn":
			in, err := conv(*t.Of)
			if err != nil {
				return nil, err
			}
			return graphql.NewNonNullType(in), nil
		}
		switch t.Name {
		case "Int":
			return graphql.IntType, nil
		case "Float":
			return graphql.FloatType, nil
		case "String":
			return graphql.StringType, nil
		case "Boolean":
			return graphql.BooleanType, nil
		case "ID":
			return graphql.IDType, nil
		}
		if e, ok := enums[t.Name]; ok {
			return e, nil
		}
		if o, ok := objects[t.Name]; ok {
			return o, nil
		}
		if o, ok := ifaces[t.Name]; ok {
			return o, nil
		}
		if o, ok := unions[t.Name]; ok {
			return o, nil
		}
		return nil, fmt.Errorf("unknown type %q", t.Name)
	}
	mkField := func(f FieldSpec, resolve bool) (*graphql.FieldDefinition, error) {
		ty, err := conv(f.Type)
		if err != nil {
			return nil, err
		}
		def := &graphql.FieldDefinition{Type: ty, Description: spec.desc("field " + f.Name)}
		if f.HasArg {
			def.Arguments = map[string]*graphql.InputValueDefinition{"n": {Type: graphql.IntType, Description: spec.desc("arg n of " + f.Name)}}
		}
		if resolve {
			f := f
			def.Resolve = func(ctx graphql.FieldContext) (interface{}, error) {
				o := ctx.Object.(*obj)
				arg := 0
				if n, ok := ctx.Arguments["n"].(int); ok {
					arg = n + 1
				}
				return o.w.value(f.Type, mix(o.vs, f.Name, arg), mix(o.ps, f.Name, arg), false), nil
			}
		}
		return def, nil
	}
	var additional []graphql.NamedType
	for i := range spec.Types {
		t := &spec.Types[i]
		switch t.Kind {
		case "object":
			o := objects[t.Name]
			for _, f := range t.Fields {
				def, err := mkField(f, true)
				if err != nil {
					return nil, err
				}
				o.Fields[f.Name] = def
			}
			for _, in := range t.Ifaces {
				if ifaces[in] == nil {
					return nil, fmt.Errorf("unknown interface %q", in)
				}
				o.ImplementedInterfaces = append(o.ImplementedInterfaces, ifaces[in])
			}
			additional = append(additional, o)
		case "iface":
			for _, f := range t.Fields {
				def, err := mkField(f, false)
				if err != nil {
					return nil, err
				}
				ifaces[t.Name].Fields[f.Name] = def
			}
			additional = append(additional, ifaces[t.Name])
		case "union":
			for _, m := range t.Members {
				if objects[m] == nil {
					return nil, fmt.Errorf("unknown union member %q", m)
				}
				unions[t.Name].MemberTypes = append(unions[t.Name].MemberTypes, objects[m])
			}
			additional = append(additional, unions[t.Name])
		case "enum":
			additional = append(additional, enums[t.Name])
		}
	}
	def := &graphql.SchemaDefinition{
		Query:           objects[spec.Query],
		AdditionalTypes: additional,
		Directives:      declaredDirectives(spec),
	}
	if spec.Mutation != "" {
		def.Mutation = objects[spec.Mutation]
	}
	if spec.Subscription != "" {
		def.Subscription = objects[spec.Subscription]
	}
	if def.Query == nil {
		return nil, fmt.Errorf("no query type")
	}
	return graphql.NewSchema(def)
}

// introspectionJSON is what the tool is given: the real response to introspection.Query.
func introspectionJSON(s *graphql.Schema) ([]byte, error) {
	resp := graphql.Execute(&graphql.Request{Context: context.Background(), Query: string(introspection.Query), Schema: s})
	if len(resp.Errors) > 0 {
		return nil, fmt.Errorf("introspection query failed: %v", resp.Errors[0].Message)
	}
	return jsoniter.Marshal(resp)
}

// execute runs one operation in one world and returns the `data` member of the serialised response
// (serialised the way api.go serialises it: jsoniter.Marshal of the Response).
func execute(s *graphql.Schema, spec *SchemaSpec, docText, opName, rootType string, seed uint64, wi int) (data []byte, errs []string, panicked string) {
	defer func() {
		if p := recover(); p != nil {
			panicked = fmt.Sprint(p)
		}
	}()
	w := &world{spec: spec, rot: wi, nullPct: []int{25, 0, 60, 10}[wi%4]}
	root := &obj{typ: rootType, vs: mix(seed, "world", wi), ps: mix(seed, "pos", 0), w: w}
	resp := graphql.Execute(&graphql.Request{Context: context.Background(), Query: docText, Schema: s, OperationName: opName, InitialValue: root})
	for _, e := range resp.Errors {
		errs = append(errs, e.Message)
	}
	b, err := jsoniter.Marshal(resp)
	if err != nil {
		return nil, append(errs, "marshal: "+err.Error()), ""
	}
	var env struct {
		Data json.RawMessage `json:"data"`
	}
	if err := json.Unmarshal(b, &env); err != nil {
		return nil, append(errs, "envelope: "+err.Error()), ""
	}
	return env.Data, errs, ""
}

func validate(s *graphql.Schema, docText string) (ok bool, msgs []string) {
	defer func() {
		if p := recover(); p != nil {
			ok = false
			msgs = []string{fmt.Sprint("validator panic: ", p)}
		}
	}()
	_, errs := graphql.ParseAndValidate(docText, s, nil)
	for _, e := range errs {
		msgs = append(msgs, e.Message)
	}
	return len(errs) == 0, msgs
}

// declaredDirectives: in this library @skip/@include are opt-in (SchemaDefinition.Directives).
func declaredDirectives(spec *SchemaSpec) map[string]*graphql.DirectiveDefinition {
	out := map[string]*graphql.DirectiveDefinition{}
	switch spec.Dirs {
	case "none":
	case "skip":
		out["skip"] = graphql.SkipDirective
	case "include":
		out["include"] = graphql.IncludeDirective
	default:
		out["skip"] = graphql.SkipDirective
		out["include"] = graphql.IncludeDirective
	}
	if spec.Dirs == "custom" {
		out["tag"] = &graphql.DirectiveDefinition{
			Description: spec.desc("directive tag"),
			Locations:   []schema.DirectiveLocation{schema.DirectiveLocationField, schema.DirectiveLocationInlineFragment, schema.DirectiveLocationFragmentSpread},
		}
	}
	return out
}
