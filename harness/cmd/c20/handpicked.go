package main

// Hand-picked cases (the same cases are committed under corpus/C20 as replay files; the pre-fix
// failing inputs of F-20a/b/c are among them).

func fixedSchema() SchemaSpec {
	id := FieldSpec{Name: "id", Type: nonNull(named("ID"))}
	x := FieldSpec{Name: "x", Type: named("Int")}
	return SchemaSpec{
		Query: "Query",
		Types: []TypeSpec{
			{Kind: "enum", Name: "Color", Values: []string{"RED", "DARK_BLUE"}},
			{Kind: "iface", Name: "Node", Fields: []FieldSpec{id, x}},
			{Kind: "object", Name: "Alpha", Ifaces: []string{"Node"}, Fields: []FieldSpec{id, x,
				{Name: "c", Type: named("Color")},
				{Name: "next", Type: named("Alpha")},
				{Name: "items", Type: listOf(nonNull(named("Node")))}}},
			{Kind: "object", Name: "Beta", Ifaces: []string{"Node"}, Fields: []FieldSpec{id, x,
				{Name: "y", Type: listOf(nonNull(named("Float")))},
				{Name: "peer", Type: named("Thing")},
				{Name: "grid", Type: nonNull(listOf(listOf(named("Boolean"))))},
				{Name: "cube", Type: nonNull(listOf(nonNull(listOf(nonNull(listOf(nonNull(named("Int"))))))))}}},
			{Kind: "union", Name: "Thing", Members: []string{"Alpha", "Beta"}},
			{Kind: "object", Name: "Query", Fields: []FieldSpec{
				{Name: "a", Type: named("Alpha")},
				{Name: "u", Type: named("Thing")},
				{Name: "i", Type: listOf(named("Node"))},
				{Name: "n", Type: nonNull(named("Node"))},
				{Name: "s", Type: named("String")}}},
		},
	}
}

func f(name string, sels ...Sel) Sel        { return Sel{Kind: "f", Name: name, Sels: sels} }
func fa(alias, name string, sels ...Sel) Sel { return Sel{Kind: "f", Alias: alias, Name: name, Sels: sels} }
func on(cond string, sels ...Sel) Sel       { return Sel{Kind: "i", Cond: cond, Sels: sels} }
func spread(name string) Sel                { return Sel{Kind: "s", Name: name} }

func handPickedNamed() map[string]Case {
	mk := func(defs ...Def) Case {
		return Case{Schema: fixedSchema(), Docs: []Doc{{Defs: defs}}, Seed: 7, Worlds: 4}
	}
	q := func(sels ...Sel) Def { return Def{Kind: "query", Name: "Q1", Sels: sels} }
	clash := fixedSchema()
	clash.Types[0].Values = []string{"RED", "red", "A_B", "AB", "_"}
	sn := selNameClash()
	return map[string]Case{
		"F-20f-enum-constant-collision": {Schema: clash, Docs: []Doc{{Defs: []Def{q(f("a", f("c")))}}}, Seed: 7, Worlds: 4},
		"F-20g-sel-type-name-collision": sn,
		"repeated-type-condition-with-directive": mk(
			q(f("u", f("__typename"), on("Alpha", f("x")), Sel{Kind: "i", Cond: "Alpha", Dir: "@include(if: true)", Sels: []Sel{f("c")}},
				Sel{Kind: "i", Cond: "Beta", Dir: "@skip(if: false)", Sels: []Sel{f("y")}}, on("Beta", f("grid"))),
				Sel{Kind: "f", Name: "s", Dir: "@include(if: true)"})),
		"hostile-descriptions":          withSchema(func(s *SchemaSpec) { s.DescMode = 2 }, q(f("a", f("c"), f("x")), f("u", f("__typename"), on("Alpha", f("c"))))),
		"single-line-descriptions":      withSchema(func(s *SchemaSpec) { s.DescMode = 1 }, q(f("a", f("c")))),
		"undeclared-include-directive":  withSchema(func(s *SchemaSpec) { s.Dirs = "none" }, q(Sel{Kind: "f", Name: "s", Dir: "@include(if: true)"})),
		"undeclared-skip-on-fragment":   withSchema(func(s *SchemaSpec) { s.Dirs = "include" }, q(f("u", f("__typename"), Sel{Kind: "i", Cond: "Alpha", Dir: "@skip(if: false)", Sels: []Sel{f("x")}}))),
		"declared-custom-directive":     withSchema(func(s *SchemaSpec) { s.Dirs = "custom"; s.DescMode = 2 }, q(Sel{Kind: "f", Name: "s", Dir: "@tag"}, f("a", Sel{Kind: "f", Name: "x", Dir: "@skip(if: false)"}))),
		"subscription-root-without-mutation-root": subscriptionOnly(false),
		"subscription-root-with-mutation-root":    subscriptionOnly(true),
		"interface-only-self-referential-object": interfaceOnly(),
		"F-20h-enum-named-int":    reservedEnum("int"),
		"F-20h-enum-named-type":   reservedEnum("type"),
		"F-20h-enum-named-string": reservedEnum("string"),
		"F-20h-enum-named-json":   reservedEnum("json"),
		"F-20d-response-key-vs-fragment-holder-name": mk(q(f("a", on("Alpha", f("x")), fa("alpha", "id")))),
		"F-20d-holder-vs-holder-and-key": mk(q(f("u", f("__typename"), spread("Alpha"), on("Alpha", f("x")), fa("alpha_", "__typename"))),
			Def{Kind: "frag", Name: "Alpha", Cond: "Beta", Sels: []Sel{f("y")}}),
		"F-20e-repeated-type-condition-loses-fields": mk(q(f("u", f("__typename"), on("Alpha", f("x")), on("Alpha", f("c"), on("Alpha", fa("again", "x"))), Sel{Kind: "i", Sels: []Sel{f("__typename")}}))),
		"F-20a-inline-fragment-without-type-condition": mk(q(f("a", Sel{Kind: "i", Sels: []Sel{f("x")}}))),
		"F-20b-union-condition-inside-object":          mk(q(f("a", on("Thing", f("__typename")), f("x")))),
		"F-20b-union-condition-inside-interface":       mk(q(f("i", f("__typename"), on("Thing", f("__typename"), on("Alpha", f("c")), on("Beta", f("y")))))),
		"F-20c-aliased-typename":                       mk(q(f("u", fa("t", "__typename"), on("Alpha", f("x")), on("Beta", f("grid"))))),
		"readme-node":                                  mk(q(f("n", f("__typename"), on("Alpha", f("c"), f("x")), f("id")))),
		"deepest-describable-type": mk(q(f("u", f("__typename"), on("Beta", f("cube"), f("grid"))))),
		"root-spread": mk(q(spread("F1"), f("s")),
			Def{Kind: "frag", Name: "F1", Cond: "Query", Sels: []Sel{f("a", f("x"), f("next", f("c")))}}),
		"nested-fragments-and-lists": mk(q(f("a", f("items", f("__typename"), f("id"), spread("NodeBits"), on("Beta", f("peer", f("__typename"), on("Node", f("x")))))), f("i", f("__typename"), spread("NodeBits"))),
			Def{Kind: "frag", Name: "NodeBits", Cond: "Node", Sels: []Sel{fa("ident", "id"), f("__typename"), on("Alpha", fa("colour", "c"))}}),
	}
}

func handPicked() []Case {
	m := handPickedNamed()
	var out []Case
	for _, k := range sortedKeys(m) {
		c := m[k]
		c.Label = "hand:" + k
		out = append(out, c)
	}
	return out
}

// findingCases are the committed replays of the open findings (none at present).
func findingCases() map[string]Case {
	return map[string]Case{}
}

// selNameClash: the generated type names are "sel" + type name + a run-wide counter. With object types
// Node and Node1, the first sel type (on Node1, counter 0) and the eleventh (on Node, counter 10) are
// both called selNode10.
func selNameClash() Case {
	x := FieldSpec{Name: "x", Type: named("Int")}
	s := SchemaSpec{Query: "Query", Types: []TypeSpec{
		{Kind: "object", Name: "Node", Fields: []FieldSpec{x}},
		{Kind: "object", Name: "Node1", Fields: []FieldSpec{x}},
		{Kind: "object", Name: "Query", Fields: []FieldSpec{{Name: "a", Type: named("Node1")}, {Name: "b", Type: named("Node")}}},
	}}
	sels := []Sel{f("a", Sel{Kind: "i", Sels: []Sel{f("x")}})}
	for i := 1; i <= 10; i++ {
		sels = append(sels, fa("b"+string(rune('a'+i)), "b", Sel{Kind: "i", Sels: []Sel{f("x")}}))
	}
	return Case{Schema: s, Docs: []Doc{{Defs: []Def{{Kind: "query", Name: "Q1", Sels: sels}}}}, Seed: 7, Worlds: 2}
}

// reservedEnum: an enum type whose name is a Go keyword / predeclared identifier / the json import,
// next to an Int field (which `type int string` used to hijack) and a fragment (which imports json).
func reservedEnum(name string) Case {
	s := fixedSchema()
	s.Types[0].Name = name
	for ti := range s.Types {
		for fi := range s.Types[ti].Fields {
			if s.Types[ti].Fields[fi].Type.Base() == "Color" {
				s.Types[ti].Fields[fi].Type = named(name)
			}
		}
	}
	q := Def{Kind: "query", Name: "Q1", Sels: []Sel{f("a", f("c"), f("x")), f("u", f("__typename"), on("Alpha", f("c")))}}
	return Case{Schema: s, Docs: []Doc{{Defs: []Def{q}}}, Seed: 7, Worlds: 4}
}

// interfaceOnly: Folder and File implement Node and Named and are returned through `nodes: [Node!]!`
// only; Folder refers to itself (parent) and File to Folder (dir). The tool can know these objects
// only from the `types` list of the introspection result.
func interfaceOnly() Case {
	id := FieldSpec{Name: "id", Type: nonNull(named("ID"))}
	name := FieldSpec{Name: "name", Type: nonNull(named("String"))}
	s := SchemaSpec{Query: "Query", Types: []TypeSpec{
		{Kind: "iface", Name: "Node", Fields: []FieldSpec{id}},
		{Kind: "iface", Name: "Named", Fields: []FieldSpec{name}},
		{Kind: "object", Name: "Folder", Ifaces: []string{"Node", "Named"}, Fields: []FieldSpec{id, name, {Name: "parent", Type: named("Folder")}}},
		{Kind: "object", Name: "File", Ifaces: []string{"Node", "Named"}, Fields: []FieldSpec{id, name, {Name: "dir", Type: named("Folder")}}},
		{Kind: "object", Name: "Query", Fields: []FieldSpec{{Name: "nodes", Type: nonNull(listOf(nonNull(named("Node"))))}}},
	}}
	q1 := Def{Kind: "query", Name: "Q1", Sels: []Sel{f("nodes", f("__typename"), f("id"),
		on("Folder", f("name"), f("parent", f("name"), f("parent", f("id")))),
		on("File", f("dir", f("name"))))}}
	q2 := Def{Kind: "query", Name: "Q2", Sels: []Sel{f("nodes", f("__typename"), on("Named", f("name")), spread("Dir"))}}
	dir := Def{Kind: "frag", Name: "Dir", Cond: "File", Sels: []Sel{f("dir", f("__typename"), on("Node", f("id")))}}
	return Case{Schema: s, Docs: []Doc{{Defs: []Def{q1}}, {Defs: []Def{q2, dir}}}, Seed: 11, Worlds: 4}
}

// subscriptionOnly: a schema with a subscription root and (optionally) no mutation root — in the
// introspection result `mutationType` is then null while `subscriptionType` is not — and named
// subscription operations (one root field each), next to a query.
func subscriptionOnly(withMutation bool) Case {
	s := fixedSchema()
	s.Types = append(s.Types, TypeSpec{Kind: "object", Name: "Subscription", Fields: []FieldSpec{
		{Name: "changed", Type: named("Thing")}, {Name: "tick", Type: nonNull(named("Int"))}}})
	s.Subscription = "Subscription"
	if withMutation {
		s.Types = append(s.Types, TypeSpec{Kind: "object", Name: "Mutation", Fields: []FieldSpec{{Name: "count", Type: named("Int")}}})
		s.Mutation = "Mutation"
	}
	s1 := Def{Kind: "subscription", Name: "S1", Sels: []Sel{f("changed", f("__typename"), on("Alpha", f("x"), f("c")), on("Beta", f("y")))}}
	s2 := Def{Kind: "subscription", Name: "S2", Sels: []Sel{on("Subscription", fa("beat", "tick"))}}
	q := Def{Kind: "query", Name: "Q1", Sels: []Sel{f("s")}}
	return Case{Schema: s, Docs: []Doc{{Defs: []Def{s1}}, {Defs: []Def{s2}}, {Defs: []Def{q}}}, Seed: 14, Worlds: 4}
}

func withSchema(edit func(*SchemaSpec), defs ...Def) Case {
	s := fixedSchema()
	edit(&s)
	return Case{Schema: s, Docs: []Doc{{Defs: defs}}, Seed: 7, Worlds: 4}
}
