package main

import "strings"

// Hand-picked cases (the same cases are committed under corpus/C20 as replay files; the pre-fix
// failing inputs of F-20a/b/c are among them).

func fixedSchema() SchemaSpec {
	id := FieldSpec{Name: "id", Type: nonNull(named("ID"))}
	x := FieldSpec{Name: "x", Type: named("Int")}
	return SchemaSpec{
		Query: "Query",
		Types: []TypeSpec{
			{Kind: "enum", Name: "Color", Values: []string{"RED", "DARK_BLUE"}},
			{Kind: "iface", Name: "Node", Fields: []FieldSpec{id, x}},
			{Kind: "object", Name: "Alpha", Ifaces: []string{"Node"}, Fields: []FieldSpec{id, x,
				{Name: "c", Type: named("Color")},
				{Name: "next", Type: named("Alpha")},
				{Name: "items", Type: listOf(nonNull(named("Node")))}}},
			{Kind: "object", Name: "Beta", Ifaces: []string{"Node"}, Fields: []FieldSpec{id, x,
				{Name: "y", Type: listOf(nonNull(named("Float")))},
				{Name: "peer", Type: named("Thing")},
				{Name: "grid", Type: nonNull(listOf(listOf(named("Boolean"))))},
				{Name: "cube", Type: nonNull(listOf(nonNull(listOf(nonNull(listOf(nonNull(named("Int"))))))))}}},
			{Kind: "union", Name: "Thing", Members: []string{"Alpha", "Beta"}},
			{Kind: "object", Name: "Query", Fields: []FieldSpec{
				{Name: "a", Type: named("Alpha")},
				{Name: "u", Type: named("Thing")},
				{Name: "i", Type: listOf(named("Node"))},
				{Name: "n", Type: nonNull(named("Node"))},
				{Name: "s", Type: named("String")}}},
		},
	}
}

func f(name string, sels ...Sel) Sel        { return Sel{Kind: "f", Name: name, Sels: sels} }
func fa(alias, name string, sels ...Sel) Sel { return Sel{Kind: "f", Alias: alias, Name: name, Sels: sels} }
func on(cond string, sels ...Sel) Sel       { return Sel{Kind: "i", Cond: cond, Sels: sels} }
func spread(name string) Sel                { return Sel{Kind: "s", Name: name} }

func handPickedNamed() map[string]Case {
	mk := func(defs ...Def) Case {
		return Case{Schema: fixedSchema(), Docs: []Doc{{Defs: defs}}, Seed: 7, Worlds: 4}
	}
	q := func(sels ...Sel) Def { return Def{Kind: "query", Name: "Q1", Sels: sels} }
	clash := fixedSchema()
	clash.Types[0].Values = []string{"RED", "red", "A_B", "AB", "_"}
	sn := selNameClash()
	m := scopeCases()
	for k, c := range handPickedBase(mk, q, clash, sn) {
		m[k] = c
	}
	return m
}

func handPickedBase(mk func(defs ...Def) Case, q func(sels ...Sel) Def, clash SchemaSpec, sn Case) map[string]Case {
	return map[string]Case{
		"F-20f-enum-constant-collision": {Schema: clash, Docs: []Doc{{Defs: []Def{q(f("a", f("c")))}}}, Seed: 7, Worlds: 4},
		"F-20g-sel-type-name-collision": sn,
		"repeated-type-condition-with-directive": mk(
			q(f("u", f("__typename"), on("Alpha", f("x")), Sel{Kind: "i", Cond: "Alpha", Dir: "@include(if: true)", Sels: []Sel{f("c")}},
				Sel{Kind: "i", Cond: "Beta", Dir: "@skip(if: false)", Sels: []Sel{f("y")}}, on("Beta", f("grid"))),
				Sel{Kind: "f", Name: "s", Dir: "@include(if: true)"})),
		"hostile-descriptions":          withSchema(func(s *SchemaSpec) { s.DescMode = 2 }, q(f("a", f("c"), f("x")), f("u", f("__typename"), on("Alpha", f("c"))))),
		"single-line-descriptions":      withSchema(func(s *SchemaSpec) { s.DescMode = 1 }, q(f("a", f("c")))),
		"undeclared-include-directive":  withSchema(func(s *SchemaSpec) { s.Dirs = "none" }, q(Sel{Kind: "f", Name: "s", Dir: "@include(if: true)"})),
		"undeclared-skip-on-fragment":   withSchema(func(s *SchemaSpec) { s.Dirs = "include" }, q(f("u", f("__typename"), Sel{Kind: "i", Cond: "Alpha", Dir: "@skip(if: false)", Sels: []Sel{f("x")}}))),
		"declared-custom-directive":     withSchema(func(s *SchemaSpec) { s.Dirs = "custom"; s.DescMode = 2 }, q(Sel{Kind: "f", Name: "s", Dir: "@tag"}, f("a", Sel{Kind: "f", Name: "x", Dir: "@skip(if: false)"}))),
		"subscription-root-without-mutation-root": subscriptionOnly(false),
		"subscription-root-with-mutation-root":    subscriptionOnly(true),
		"interface-only-self-referential-object": interfaceOnly(),
		"F-20h-enum-named-int":    reservedEnum("int"),
		"F-20h-enum-named-type":   reservedEnum("type"),
		"F-20h-enum-named-string": reservedEnum("string"),
		"F-20h-enum-named-json":   reservedEnum("json"),
		"F-20d-response-key-vs-fragment-holder-name": mk(q(f("a", on("Alpha", f("x")), fa("alpha", "id")))),
		"F-20d-holder-vs-holder-and-key": mk(q(f("u", f("__typename"), spread("Alpha"), on("Alpha", f("x")), fa("alpha_", "__typename"))),
			Def{Kind: "frag", Name: "Alpha", Cond: "Beta", Sels: []Sel{f("y")}}),
		"F-20e-repeated-type-condition-loses-fields": mk(q(f("u", f("__typename"), on("Alpha", f("x")), on("Alpha", f("c"), on("Alpha", fa("again", "x"))), Sel{Kind: "i", Sels: []Sel{f("__typename")}}))),
		"F-20a-inline-fragment-without-type-condition": mk(q(f("a", Sel{Kind: "i", Sels: []Sel{f("x")}}))),
		"F-20b-union-condition-inside-object":          mk(q(f("a", on("Thing", f("__typename")), f("x")))),
		"F-20b-union-condition-inside-interface":       mk(q(f("i", f("__typename"), on("Thing", f("__typename"), on("Alpha", f("c")), on("Beta", f("y")))))),
		"F-20c-aliased-typename":                       mk(q(f("u", fa("t", "__typename"), on("Alpha", f("x")), on("Beta", f("grid"))))),
		"readme-node":                                  mk(q(f("n", f("__typename"), on("Alpha", f("c"), f("x")), f("id")))),
		"deepest-describable-type": mk(q(f("u", f("__typename"), on("Beta", f("cube"), f("grid"))))),
		"root-spread": mk(q(spread("F1"), f("s")),
			Def{Kind: "frag", Name: "F1", Cond: "Query", Sels: []Sel{f("a", f("x"), f("next", f("c")))}}),
		"nested-fragments-and-lists": mk(q(f("a", f("items", f("__typename"), f("id"), spread("NodeBits"), on("Beta", f("peer", f("__typename"), on("Node", f("x")))))), f("i", f("__typename"), spread("NodeBits"))),
			Def{Kind: "frag", Name: "NodeBits", Cond: "Node", Sels: []Sel{fa("ident", "id"), f("__typename"), on("Alpha", fa("colour", "c"))}}),
	}
}

func handPicked() []Case {
	m := handPickedNamed()
	var out []Case
	for _, k := range sortedKeys(m) {
		c := m[k]
		c.Label = "hand:" + k
		out = append(out, c)
	}
	return out
}

// findingCases are the committed replays of the open findings.
func findingCases() map[string]Case {
	return map[string]Case{
		"F-20i-enum-identifier-collides-in-package-scope": scopeCase([]TypeSpec{
			{Kind: "enum", Name: "A", Values: []string{"B_C"}}, {Kind: "enum", Name: "AB", Values: []string{"C"}}},
			[]FieldSpec{{Name: "p", Type: named("A")}, {Name: "q", Type: named("AB")}}, "Q1", f("p"), f("q")),
		"F-20j-typename-field-name-collision": Case{Schema: fixedSchema(), Seed: 7, Worlds: 4, Docs: []Doc{{Defs: []Def{
			{Kind: "query", Name: "Q1", Sels: []Sel{f("a", f("__typename"), fa("typename__", "id"))}}}}}},
		"F-20k-enum-type-shadowed-in-generated-method": scopeEnumNamed("b"),
		"F-20l-holder-is-blank-identifier": blankNamed(true),
	}
}

// scopeCase: a schema of the given enums (+ object Alpha{x}) and a Query with the given fields.
func scopeCase(enums []TypeSpec, qfields []FieldSpec, opName string, sels ...Sel) Case {
	types := append([]TypeSpec{}, enums...)
	types = append(types, TypeSpec{Kind: "object", Name: "Query", Fields: qfields})
	return Case{Schema: SchemaSpec{Query: "Query", Types: types}, Seed: 7, Worlds: 4,
		Docs: []Doc{{Defs: []Def{{Kind: "query", Name: opName, Sels: sels}}}}}
}

// blankNamed: a fragment named `_` (asFragment) or an object type named `_` in a union.
func blankNamed(asFragment bool) Case {
	obj := "Alpha"
	if !asFragment {
		obj = "_"
	}
	s := SchemaSpec{Query: "Query", Types: []TypeSpec{
		{Kind: "object", Name: obj, Fields: []FieldSpec{{Name: "x", Type: named("Int")}}},
		{Kind: "union", Name: "U", Members: []string{obj}},
		{Kind: "object", Name: "Query", Fields: []FieldSpec{{Name: "u", Type: named("U")}}},
	}}
	if asFragment {
		return Case{Schema: s, Seed: 7, Worlds: 4, Docs: []Doc{{Defs: []Def{
			{Kind: "query", Name: "Q1", Sels: []Sel{f("u", f("__typename"), spread("_"))}},
			{Kind: "frag", Name: "_", Cond: "Alpha", Sels: []Sel{f("x")}}}}}}
	}
	return Case{Schema: s, Seed: 7, Worlds: 4, Docs: []Doc{{Defs: []Def{
		{Kind: "query", Name: "Q1", Sels: []Sel{f("u", f("__typename"), on("_", f("x")))}}}}}}
}

// scopeEnumNamed: an enum with the given name used inside a selection set that carries a fragment (so
// that a `sel…` type with an UnmarshalJSON method is generated around it).
func scopeEnumNamed(name string) Case {
	return Case{Schema: SchemaSpec{Query: "Query", Types: []TypeSpec{
		{Kind: "enum", Name: name, Values: []string{"RED", "dark_blue"}},
		{Kind: "object", Name: "Alpha", Fields: []FieldSpec{{Name: "c", Type: named(name)}, {Name: "x", Type: named("Int")}}},
		{Kind: "object", Name: "Query", Fields: []FieldSpec{{Name: "a", Type: named("Alpha")}}},
	}}, Seed: 7, Worlds: 4, Docs: []Doc{{Defs: []Def{{Kind: "query", Name: "Q1", Sels: []Sel{f("a", f("c"), on("Alpha", f("x")))}}}}}}
}

// wrapperChains: every chain of list / non-null wrappers up to list depth 3 (2+4+8+16 = 30 types) over Int,
// an enum and an object, selected in one operation; the worlds put null at every nullable level.
func wrapperChains() Case {
	var chains []TypeRef
	var build func(depth int, inner func(TypeRef) TypeRef)
	bases := []string{"Int", "Color", "Alpha"}
	for _, base := range bases {
		level := []TypeRef{named(base), nonNull(named(base))}
		chains = append(chains, level...)
		for d := 1; d <= 3; d++ {
			var next []TypeRef
			for _, t := range level {
				next = append(next, listOf(t), nonNull(listOf(t)))
			}
			chains = append(chains, next...)
			level = next
		}
	}
	_ = build
	s := SchemaSpec{Query: "Query", Types: []TypeSpec{
		{Kind: "enum", Name: "Color", Values: []string{"RED", "dark_blue"}},
		{Kind: "object", Name: "Alpha", Fields: []FieldSpec{{Name: "x", Type: named("Int")}, {Name: "id", Type: nonNull(named("ID"))}}},
	}}
	q := TypeSpec{Kind: "object", Name: "Query"}
	var sels []Sel
	for i, t := range chains {
		name := "w" + string(rune('a'+i/26)) + string(rune('a'+i%26))
		q.Fields = append(q.Fields, FieldSpec{Name: name, Type: t})
		if t.Base() == "Alpha" {
			sels = append(sels, f(name, f("x"), f("id")))
		} else {
			sels = append(sels, f(name))
		}
	}
	s.Types = append(s.Types, q)
	return Case{Schema: s, Seed: 21, Worlds: 4, Docs: []Doc{{Defs: []Def{{Kind: "query", Name: "Q1", Sels: sels}}}}}
}

// scopeCases: hand-picked cases around the Go scopes of the generated identifiers (session 3).
func scopeCases() map[string]Case {
	long := strings.Repeat("VeryLongName_", 40) + "z9"
	longSchema := SchemaSpec{Query: "Query", Types: []TypeSpec{
		{Kind: "enum", Name: "E" + long, Values: []string{"V_" + long, "v_" + strings.ToLower(long)}},
		{Kind: "iface", Name: "I" + long, Fields: []FieldSpec{{Name: "f" + long, Type: named("E" + long)}}},
		{Kind: "object", Name: "O" + long, Ifaces: []string{"I" + long}, Fields: []FieldSpec{{Name: "f" + long, Type: named("E" + long)},
			{Name: "g" + long, Type: nonNull(listOf(listOf(named("Int"))))}}},
		{Kind: "object", Name: "Query", Fields: []FieldSpec{{Name: "r" + long, Type: named("I" + long)}}},
	}}
	underscore := SchemaSpec{Query: "Query", Types: []TypeSpec{
		{Kind: "enum", Name: "_e_1", Values: []string{"_", "__1", "_1_", "A__1", "a_1", "A1", "_9x"}},
		{Kind: "object", Name: "_Thing", Fields: []FieldSpec{{Name: "x", Type: named("Int")}, {Name: "_e", Type: named("_e_1")}, {Name: "_9", Type: listOf(named("_e_1"))}}},
		{Kind: "object", Name: "_1Other", Fields: []FieldSpec{{Name: "x", Type: named("Int")}}},
		{Kind: "union", Name: "_U", Members: []string{"_Thing", "_1Other"}},
		{Kind: "object", Name: "Query", Fields: []FieldSpec{{Name: "u", Type: named("_U")}, {Name: "_t", Type: named("_Thing")}}},
	}}
	boundary := SchemaSpec{Query: "Query", Types: []TypeSpec{
		{Kind: "iface", Name: "Node", Fields: []FieldSpec{{Name: "x", Type: named("Int")}}},
		{Kind: "object", Name: "Alpha", Ifaces: []string{"Node"}, Fields: []FieldSpec{{Name: "x", Type: named("Int")}, {Name: "c", Type: named("String")}}},
		{Kind: "object", Name: "Beta", Ifaces: []string{"Node"}, Fields: []FieldSpec{{Name: "x", Type: named("Int")}, {Name: "y", Type: nonNull(named("Float"))}}},
		{Kind: "object", Name: "Query", Fields: []FieldSpec{{Name: "n", Type: named("Node")}, {Name: "l", Type: listOf(named("Node"))}}},
	}}
	return map[string]Case{
		"scope-F-20i-constant-vs-enum-type": scopeCase([]TypeSpec{
			{Kind: "enum", Name: "Color", Values: []string{"RED"}}, {Kind: "enum", Name: "ColorRed", Values: []string{"X"}}},
			[]FieldSpec{{Name: "p", Type: named("Color")}, {Name: "q", Type: named("ColorRed")}}, "Q1", f("p"), f("q")),
		"scope-F-20i-constant-vs-operation-type": scopeCase([]TypeSpec{{Kind: "enum", Name: "Q1", Values: []string{"DATA"}}},
			[]FieldSpec{{Name: "p", Type: named("Q1")}}, "Q1", f("p")),
		"scope-F-20i-constant-shadows-float64": scopeCase([]TypeSpec{{Kind: "enum", Name: "float", Values: []string{"_64"}}},
			[]FieldSpec{{Name: "p", Type: named("float")}, {Name: "q", Type: named("Float")}}, "Q1", f("p"), f("q")),
		"wrapper-chains-every-null-mix":   wrapperChains(),
		"repeated-type-conditions-every-order": Case{Schema: fixedSchema(), Seed: 7, Worlds: 4, Docs: []Doc{{Defs: []Def{{Kind: "query", Name: "Q1", Sels: []Sel{
			f("u", on("Alpha", f("x")), on("Alpha", f("c")), on("Beta", f("y")), f("__typename"), on("Thing", f("__typename")), on("Beta", f("grid")),
				Sel{Kind: "i", Sels: []Sel{f("__typename"), on("Alpha", fa("x3", "x")), on("Beta", fa("y3", "y"))}}, on("Alpha", fa("x4", "x"))),
			f("i", f("__typename"), on("Beta", f("y")), on("Alpha", f("c")), on("Beta", f("cube")), on("Alpha", f("next", f("c"))),
				Sel{Kind: "i", Sels: []Sel{f("__typename"), on("Beta", fa("g2", "grid"))}}, Sel{Kind: "i", Sels: []Sel{f("__typename"), on("Alpha", fa("c2", "c"))}}),
		}}}}}},
		"scope-F-20l-type-named-underscore": blankNamed(false),
		"scope-F-20k-enum-named-s":        scopeEnumNamed("s"),
		"scope-enum-named-base":           scopeEnumNamed("base"),
		"scope-enum-named-err":            scopeEnumNamed("err"),
		"scope-F-20i-enum-named-like-sel-type": scopeEnumNamed("selAlpha_0"),
		"scope-F-20i-enum-named-like-operation-type": scopeCase([]TypeSpec{{Kind: "enum", Name: "Q1Data", Values: []string{"X"}}},
			[]FieldSpec{{Name: "p", Type: named("Q1Data")}}, "Q1", f("p")),
		"scope-uppercase-typename-alias":  Case{Schema: fixedSchema(), Seed: 7, Worlds: 4, Docs: []Doc{{Defs: []Def{{Kind: "query", Name: "Q1", Sels: []Sel{f("u", f("__typename"), fa("TYPENAME__", "__typename"), on("Alpha", f("x")))}}}}}},
		"scope-very-long-names": Case{Schema: longSchema, Seed: 7, Worlds: 4, Docs: []Doc{{Defs: []Def{
			{Kind: "query", Name: "Q" + long, Sels: []Sel{f("r"+long, f("__typename"), f("f"+long), on("O"+long, f("g"+long)), spread("F"+long))}},
			{Kind: "frag", Name: "F" + long, Cond: "O" + long, Sels: []Sel{fa("a"+long, "f"+long)}}}}}},
		"scope-underscore-and-digit-names": Case{Schema: underscore, Seed: 7, Worlds: 4, Docs: []Doc{{Defs: []Def{
			{Kind: "query", Name: "Q_1", Sels: []Sel{f("u", f("__typename"), on("_Thing", f("x"), fa("e", "_e"), fa("n9", "_9")), on("_1Other", f("x")), spread("_F")),
				fa("t", "_t", fa("e_1", "_e"), on("_Thing", f("x")))}},
			{Kind: "frag", Name: "_F", Cond: "_Thing", Sels: []Sel{fa("fx", "x")}}}}}},
		// keys differing only in case across a fragment boundary: with disjoint object conditions they never
		// meet in one response object (inside the theorems; the harness's envelope checker is conservative and
		// calls it outside); with an interface and an implementing object they do meet — outside the envelope:
		// encoding/json delivers both `x` and `X` to the field X of each holder (model and real code agree)
		"case-boundary-disjoint-conditions": Case{Schema: boundary, Seed: 7, Worlds: 4, Docs: []Doc{{Defs: []Def{
			{Kind: "query", Name: "Q1", Sels: []Sel{f("l", f("__typename"), on("Alpha", f("x")), on("Beta", fa("X", "y")))}}}}}},
		"case-boundary-overlapping-conditions": Case{Schema: boundary, Seed: 7, Worlds: 4, Docs: []Doc{{Defs: []Def{
			{Kind: "query", Name: "Q1", Sels: []Sel{f("n", f("__typename"), on("Node", f("x")), on("Alpha", fa("X", "c")))}}}}}},
	}
}

// selNameClash: the generated type names are "sel" + type name + a run-wide counter. With object types
// Node and Node1, the first sel type (on Node1, counter 0) and the eleventh (on Node, counter 10) are
// both called selNode10.
func selNameClash() Case {
	x := FieldSpec{Name: "x", Type: named("Int")}
	s := SchemaSpec{Query: "Query", Types: []TypeSpec{
		{Kind: "object", Name: "Node", Fields: []FieldSpec{x}},
		{Kind: "object", Name: "Node1", Fields: []FieldSpec{x}},
		{Kind: "object", Name: "Query", Fields: []FieldSpec{{Name: "a", Type: named("Node1")}, {Name: "b", Type: named("Node")}}},
	}}
	sels := []Sel{f("a", Sel{Kind: "i", Sels: []Sel{f("x")}})}
	for i := 1; i <= 10; i++ {
		sels = append(sels, fa("b"+string(rune('a'+i)), "b", Sel{Kind: "i", Sels: []Sel{f("x")}}))
	}
	return Case{Schema: s, Docs: []Doc{{Defs: []Def{{Kind: "query", Name: "Q1", Sels: sels}}}}, Seed: 7, Worlds: 2}
}

// reservedEnum: an enum type whose name is a Go keyword / predeclared identifier / the json import,
// next to an Int field (which `type int string` used to hijack) and a fragment (which imports json).
func reservedEnum(name string) Case {
	s := fixedSchema()
	s.Types[0].Name = name
	for ti := range s.Types {
		for fi := range s.Types[ti].Fields {
			if s.Types[ti].Fields[fi].Type.Base() == "Color" {
				s.Types[ti].Fields[fi].Type = named(name)
			}
		}
	}
	q := Def{Kind: "query", Name: "Q1", Sels: []Sel{f("a", f("c"), f("x")), f("u", f("__typename"), on("Alpha", f("c")))}}
	return Case{Schema: s, Docs: []Doc{{Defs: []Def{q}}}, Seed: 7, Worlds: 4}
}

// interfaceOnly: Folder and File implement Node and Named and are returned through `nodes: [Node!]!`
// only; Folder refers to itself (parent) and File to Folder (dir). The tool can know these objects
// only from the `types` list of the introspection result.
func interfaceOnly() Case {
	id := FieldSpec{Name: "id", Type: nonNull(named("ID"))}
	name := FieldSpec{Name: "name", Type: nonNull(named("String"))}
	s := SchemaSpec{Query: "Query", Types: []TypeSpec{
		{Kind: "iface", Name: "Node", Fields: []FieldSpec{id}},
		{Kind: "iface", Name: "Named", Fields: []FieldSpec{name}},
		{Kind: "object", Name: "Folder", Ifaces: []string{"Node", "Named"}, Fields: []FieldSpec{id, name, {Name: "parent", Type: named("Folder")}}},
		{Kind: "object", Name: "File", Ifaces: []string{"Node", "Named"}, Fields: []FieldSpec{id, name, {Name: "dir", Type: named("Folder")}}},
		{Kind: "object", Name: "Query", Fields: []FieldSpec{{Name: "nodes", Type: nonNull(listOf(nonNull(named("Node"))))}}},
	}}
	q1 := Def{Kind: "query", Name: "Q1", Sels: []Sel{f("nodes", f("__typename"), f("id"),
		on("Folder", f("name"), f("parent", f("name"), f("parent", f("id")))),
		on("File", f("dir", f("name"))))}}
	q2 := Def{Kind: "query", Name: "Q2", Sels: []Sel{f("nodes", f("__typename"), on("Named", f("name")), spread("Dir"))}}
	dir := Def{Kind: "frag", Name: "Dir", Cond: "File", Sels: []Sel{f("dir", f("__typename"), on("Node", f("id")))}}
	return Case{Schema: s, Docs: []Doc{{Defs: []Def{q1}}, {Defs: []Def{q2, dir}}}, Seed: 11, Worlds: 4}
}

// subscriptionOnly: a schema with a subscription root and (optionally) no mutation root — in the
// introspection result `mutationType` is then null while `subscriptionType` is not — and named
// subscription operations (one root field each), next to a query.
func subscriptionOnly(withMutation bool) Case {
	s := fixedSchema()
	s.Types = append(s.Types, TypeSpec{Kind: "object", Name: "Subscription", Fields: []FieldSpec{
		{Name: "changed", Type: named("Thing")}, {Name: "tick", Type: nonNull(named("Int"))}}})
	s.Subscription = "Subscription"
	if withMutation {
		s.Types = append(s.Types, TypeSpec{Kind: "object", Name: "Mutation", Fields: []FieldSpec{{Name: "count", Type: named("Int")}}})
		s.Mutation = "Mutation"
	}
	s1 := Def{Kind: "subscription", Name: "S1", Sels: []Sel{f("changed", f("__typename"), on("Alpha", f("x"), f("c")), on("Beta", f("y")))}}
	s2 := Def{Kind: "subscription", Name: "S2", Sels: []Sel{on("Subscription", fa("beat", "tick"))}}
	q := Def{Kind: "query", Name: "Q1", Sels: []Sel{f("s")}}
	return Case{Schema: s, Docs: []Doc{{Defs: []Def{s1}}, {Defs: []Def{s2}}, {Defs: []Def{q}}}, Seed: 14, Worlds: 4}
}

func withSchema(edit func(*SchemaSpec), defs ...Def) Case {
	s := fixedSchema()
	edit(&s)
	return Case{Schema: s, Docs: []Doc{{Defs: defs}}, Seed: 7, Worlds: 4}
}
