package main

import (
	"bufio"
	"bytes"
	"encoding/json"
	"fmt"
	"go/ast"
	"go/importer"
	"go/parser"
	"go/token"
	"go/types"
	"io"
	"os"
	"os/exec"
	"path/filepath"
	"regexp"
	"sort"
	"strings"
)

// ---- in-process type check of one generated file (fast; used for every case and while shrinking) --

const jsonStub = `package json
func Unmarshal(data []byte, v interface{}) error { return nil }
`

type stubImporter struct{ pkg *types.Package }

func (s stubImporter) Import(path string) (*types.Package, error) {
	if path == "encoding/json" {
		return s.pkg, nil
	}
	return importer.Default().Import(path)
}

var theStub stubImporter

func initStub() error {
	fset := token.NewFileSet()
	f, err := parser.ParseFile(fset, "json.go", jsonStub, 0)
	if err != nil {
		return err
	}
	pkg, err := (&types.Config{}).Check("encoding/json", fset, []*ast.File{f}, nil)
	if err != nil {
		return err
	}
	theStub = stubImporter{pkg}
	return nil
}

// typeCheck returns the type errors of the generated source ("" when it type-checks).
func typeCheck(src string) string {
	fset := token.NewFileSet()
	f, err := parser.ParseFile(fset, "gen.go", src, 0)
	if err != nil {
		return "syntax: " + err.Error()
	}
	var msgs []string
	conf := types.Config{Importer: theStub, Error: func(err error) {
		if len(msgs) < 4 {
			msgs = append(msgs, err.Error())
		}
	}}
	conf.Check(f.Name.Name, fset, []*ast.File{f}, nil)
	return strings.Join(msgs, "; ")
}

// ---- the scratch module: every generated output of a batch + a decode harness, compiled once -----

const scratchMain = `import (
	"bufio"
	"encoding/json"
	"fmt"
	"math"
	"os"
	"reflect"
	"strconv"
)

type DV struct {
	K string  ` + "`json:\"k\"`" + `
	B bool    ` + "`json:\"b,omitempty\"`" + `
	I string  ` + "`json:\"i,omitempty\"`" + `
	X string  ` + "`json:\"x,omitempty\"`" + `
	S *string ` + "`json:\"s,omitempty\"`" + `
	V *DV     ` + "`json:\"v,omitempty\"`" + `
	L []DV    ` + "`json:\"l,omitempty\"`" + `
	F []DF    ` + "`json:\"f,omitempty\"`" + `
}

type DF struct {
	N      string ` + "`json:\"n\"`" + `
	HasTag bool   ` + "`json:\"ht,omitempty\"`" + `
	Tag    string ` + "`json:\"t,omitempty\"`" + `
	V      DV     ` + "`json:\"v\"`" + `
}

func dump(v reflect.Value) DV {
	switch v.Kind() {
	case reflect.Bool:
		return DV{K: "bool", B: v.Bool()}
	case reflect.Int, reflect.Int8, reflect.Int16, reflect.Int32, reflect.Int64:
		return DV{K: "int", I: strconv.FormatInt(v.Int(), 10)}
	case reflect.Float32, reflect.Float64:
		return DV{K: "float", X: strconv.FormatUint(math.Float64bits(v.Float()), 16)}
	case reflect.String:
		s := v.String()
		return DV{K: "str", S: &s}
	case reflect.Ptr:
		if v.IsNil() {
			return DV{K: "nil"}
		}
		in := dump(v.Elem())
		return DV{K: "ptr", V: &in}
	case reflect.Slice:
		if v.IsNil() {
			return DV{K: "nil"}
		}
		out := DV{K: "slice", L: []DV{}}
		for i := 0; i < v.Len(); i++ {
			out.L = append(out.L, dump(v.Index(i)))
		}
		return out
	case reflect.Struct:
		out := DV{K: "struct", F: []DF{}}
		t := v.Type()
		for i := 0; i < v.NumField(); i++ {
			sf := t.Field(i)
			f := DF{N: sf.Name, V: dump(v.Field(i))}
			if tag, ok := sf.Tag.Lookup("json"); ok {
				f.HasTag = true
				name := tag
				for j := 0; j < len(tag); j++ {
					if tag[j] == ',' {
						name = tag[:j]
						break
					}
				}
				f.Tag = name
			}
			out.F = append(out.F, f)
		}
		return out
	case reflect.Interface:
		if v.IsNil() {
			return DV{K: "nil"}
		}
		return DV{K: "iface"}
	}
	return DV{K: "other"}
}

type request struct {
	C    string          ` + "`json:\"c\"`" + `
	Op   string          ` + "`json:\"op\"`" + `
	Data json.RawMessage ` + "`json:\"data\"`" + `
}

type reply struct {
	Err   string ` + "`json:\"err,omitempty\"`" + `
	Panic string ` + "`json:\"panic,omitempty\"`" + `
	Dump  *DV    ` + "`json:\"dump,omitempty\"`" + `
}

func one(req request) (rep reply) {
	defer func() {
		if p := recover(); p != nil {
			rep = reply{Panic: fmt.Sprint(p)}
		}
	}()
	dec := decoders[req.C]
	if dec == nil {
		return reply{Err: "harness: no such case " + req.C}
	}
	v, err := dec(req.Op, req.Data)
	if err != nil {
		return reply{Err: err.Error()}
	}
	if v == nil {
		return reply{Err: "harness: no such operation " + req.Op}
	}
	d := dump(reflect.ValueOf(v).Elem())
	return reply{Dump: &d}
}

func main() {
	in := bufio.NewReaderSize(os.Stdin, 1<<20)
	out := bufio.NewWriter(os.Stdout)
	defer out.Flush()
	for {
		line, err := in.ReadBytes('\n')
		if len(line) > 0 {
			var req request
			var rep reply
			if e := json.Unmarshal(line, &req); e != nil {
				rep = reply{Err: "harness: bad request: " + e.Error()}
			} else {
				rep = one(req)
			}
			b, _ := json.Marshal(rep)
			out.Write(b)
			out.WriteByte('\n')
		}
		if err != nil {
			return
		}
	}
}
`

type scratchPkg struct {
	Name string   // package / directory name
	Src  string   // the tool's output
	Ops  []string // named operations (types <Op>Data)
}

type scratch struct {
	dir     string
	bin     string
	failed  map[string]string // package → compiler messages
	built   bool
	buildMs int64
}

var reBuildErr = regexp.MustCompile(`(?m)^(?:\./)?([A-Za-z0-9_]+)/[a-z]+\.go:\d+:\d+: (.*)$`)

// newScratch writes the module and compiles it once; packages that do not compile are reported in
// failed and left out of a second build (so the rest of the batch can still be decoded).
func newScratch(root string, pkgs []scratchPkg) (*scratch, error) {
	dir, err := os.MkdirTemp(root, "c20-scratch-")
	if err != nil {
		return nil, err
	}
	s := &scratch{dir: dir, failed: map[string]string{}}
	if err := os.WriteFile(filepath.Join(dir, "go.mod"), []byte("module c20scratch\n\ngo 1.18\n"), 0o644); err != nil {
		return s, err
	}
	for _, p := range pkgs {
		pd := filepath.Join(dir, p.Name)
		if err := os.MkdirAll(pd, 0o755); err != nil {
			return s, err
		}
		if err := os.WriteFile(filepath.Join(pd, "gen.go"), []byte(p.Src), 0o644); err != nil {
			return s, err
		}
		var b strings.Builder
		fmt.Fprintf(&b, "package %s\n\nimport \"encoding/json\"\n\nvar _ = json.Unmarshal\n\n", p.Name)
		b.WriteString("// Decode unmarshals the server's data into the generated type of the operation.\n")
		b.WriteString("func Decode(op string, data []byte) (interface{}, error) {\n\tswitch op {\n")
		for _, op := range p.Ops {
			fmt.Fprintf(&b, "\tcase %q:\n\t\tv := new(%sData)\n\t\terr := json.Unmarshal(data, v)\n\t\treturn v, err\n", op, op)
		}
		b.WriteString("\t}\n\treturn nil, nil\n}\n")
		if err := os.WriteFile(filepath.Join(pd, "dec.go"), []byte(b.String()), 0o644); err != nil {
			return s, err
		}
	}
	include := map[string]bool{}
	for _, p := range pkgs {
		include[p.Name] = true
	}
	for attempt := 0; attempt < 3; attempt++ {
		var names []string
		for n := range include {
			if include[n] {
				names = append(names, n)
			}
		}
		sort.Strings(names)
		var imp, reg strings.Builder
		for _, n := range names {
			fmt.Fprintf(&imp, "import %s \"c20scratch/%s\"\n", n, n)
			fmt.Fprintf(&reg, "\t%q: %s.Decode,\n", n, n)
		}
		src := "package main\n\n" + imp.String() + "\n" + scratchMain +
			"\nvar decoders = map[string]func(string, []byte) (interface{}, error){\n" + reg.String() + "}\n"
		if err := os.WriteFile(filepath.Join(dir, "main.go"), []byte(src), 0o644); err != nil {
			return s, err
		}
		s.bin = filepath.Join(dir, "decode-harness")
		cmd := exec.Command("go", "build", "-o", s.bin, ".")
		cmd.Dir = dir
		cmd.Env = append(os.Environ(), "GOFLAGS=-mod=mod", "GOWORK=off")
		out, err := cmd.CombinedOutput()
		if err == nil {
			s.built = true
			return s, nil
		}
		progress := false
		for _, m := range reBuildErr.FindAllStringSubmatch(string(out), -1) {
			if include[m[1]] {
				include[m[1]] = false
				progress = true
			}
			if len(s.failed[m[1]]) < 600 {
				s.failed[m[1]] += m[2] + "; "
			}
		}
		if !progress {
			return s, fmt.Errorf("go build of the scratch module failed: %s", strings.TrimSpace(string(out)))
		}
	}
	return s, fmt.Errorf("go build of the scratch module keeps failing")
}

type decodeReq struct {
	C    string          `json:"c"`
	Op   string          `json:"op"`
	Data json.RawMessage `json:"data"`
}

type decodeRep struct {
	Err   string `json:"err,omitempty"`
	Panic string `json:"panic,omitempty"`
	Dump  *DV    `json:"dump,omitempty"`
}

// decodeAll runs the compiled decode harness over the requests (one process, pipelined).
func (s *scratch) decodeAll(reqs []decodeReq) ([]decodeRep, error) {
	if !s.built {
		return nil, fmt.Errorf("scratch module was not built")
	}
	var in bytes.Buffer
	for _, r := range reqs {
		b, err := json.Marshal(r)
		if err != nil {
			return nil, err
		}
		in.Write(b)
		in.WriteByte('\n')
	}
	cmd := exec.Command(s.bin)
	cmd.Stdin = &in
	var stderr bytes.Buffer
	cmd.Stderr = &stderr
	stdout, err := cmd.StdoutPipe()
	if err != nil {
		return nil, err
	}
	if err := cmd.Start(); err != nil {
		return nil, err
	}
	rd := bufio.NewReaderSize(stdout, 1<<20)
	var reps []decodeRep
	for {
		line, err := rd.ReadBytes('\n')
		if len(bytes.TrimSpace(line)) > 0 {
			var rep decodeRep
			if e := json.Unmarshal(line, &rep); e != nil {
				rep = decodeRep{Err: "harness: unreadable reply: " + e.Error()}
			}
			reps = append(reps, rep)
		}
		if err != nil {
			if err != io.EOF {
				return reps, err
			}
			break
		}
	}
	werr := cmd.Wait()
	if len(reps) != len(reqs) {
		return reps, fmt.Errorf("decode harness answered %d of %d requests (%v) %s", len(reps), len(reqs), werr, stderr.String())
	}
	return reps, nil
}

func (s *scratch) remove() {
	if s != nil && s.dir != "" {
		os.RemoveAll(s.dir)
	}
}
