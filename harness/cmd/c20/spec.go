package main

import (
	"fmt"
	"sort"
	"strings"

	"verifharness/hx"
)

// ---- case structure (this is also the replay format) ---------------------------------------------

// TypeRef is a GraphQL type reference: Kind "n" (named), "list", "nn".
type TypeRef struct {
	Kind string   `json:"k"`
	Name string   `json:"n,omitempty"`
	Of   *TypeRef `json:"of,omitempty"`
}

func named(n string) TypeRef   { return TypeRef{Kind: "n", Name: n} }
func listOf(t TypeRef) TypeRef { return TypeRef{Kind: "list", Of: &t} }
func nonNull(t TypeRef) TypeRef {
	if t.Kind == "nn" {
		return t
	}
	return TypeRef{Kind: "nn", Of: &t}
}

func (t TypeRef) String() string {
	switch t.Kind {
	case "list":
		return "[" + t.Of.String() + "]"
	case "nn":
		return t.Of.String() + "!"
	}
	return t.Name
}

func (t TypeRef) Base() string {
	for t.Kind != "n" {
		t = *t.Of
	}
	return t.Name
}

func (t TypeRef) Sexp() hx.Sexp {
	switch t.Kind {
	case "list":
		return hx.N("list", t.Of.Sexp())
	case "nn":
		return hx.N("nn", t.Of.Sexp())
	}
	return hx.N("n", hx.A(t.Name))
}

type FieldSpec struct {
	Name   string  `json:"name"`
	Type   TypeRef `json:"type"`
	HasArg bool    `json:"arg,omitempty"` // takes an optional argument `n: Int`
}

// TypeSpec: Kind enum | object | iface | union.
type TypeSpec struct {
	Kind    string      `json:"kind"`
	Name    string      `json:"name"`
	Values  []string    `json:"values,omitempty"`
	Fields  []FieldSpec `json:"fields,omitempty"`
	Ifaces  []string    `json:"ifaces,omitempty"`
	Members []string    `json:"members,omitempty"`
}

type SchemaSpec struct {
	Types    []TypeSpec `json:"types"`
	Query    string     `json:"query"`
	Mutation string     `json:"mutation,omitempty"`
	// Dirs: which executable directives the server declares: "" = @skip and @include (default), "none",
	// "skip", "include", "custom" (both + @tag).
	Dirs string `json:"dirs,omitempty"`
	// DescMode: 0 = no descriptions, 1 = single-line, 2 = hostile (newlines, */, //, backticks, quotes,
	// non-ASCII) descriptions on types, fields, arguments, enum values and directives.
	DescMode int `json:"desc_mode,omitempty"`
	// Subscription root (independent of Mutation: all four combinations are generated)
	Subscription string `json:"subscription,omitempty"`
}

func (s *SchemaSpec) Type(name string) *TypeSpec {
	for i := range s.Types {
		if s.Types[i].Name == name {
			return &s.Types[i]
		}
	}
	return nil
}

func (t *TypeSpec) Field(name string) *FieldSpec {
	for i := range t.Fields {
		if t.Fields[i].Name == name {
			return &t.Fields[i]
		}
	}
	return nil
}

var builtinScalars = []string{"Int", "Float", "String", "Boolean", "ID"}

func isBuiltinScalar(n string) bool {
	for _, b := range builtinScalars {
		if b == n {
			return true
		}
	}
	return false
}

func (s *SchemaSpec) IsComposite(name string) bool {
	t := s.Type(name)
	return t != nil && (t.Kind == "object" || t.Kind == "iface" || t.Kind == "union")
}

func (s *SchemaSpec) IsAbstract(name string) bool {
	t := s.Type(name)
	return t != nil && (t.Kind == "iface" || t.Kind == "union")
}

// Possible returns the object types an object of static type `name` can have.
func (s *SchemaSpec) Possible(name string) []string {
	t := s.Type(name)
	if t == nil {
		return nil
	}
	switch t.Kind {
	case "object":
		return []string{t.Name}
	case "union":
		return append([]string{}, t.Members...)
	case "iface":
		var out []string
		for _, o := range s.Types {
			if o.Kind == "object" && contains(o.Ifaces, name) {
				out = append(out, o.Name)
			}
		}
		return out
	}
	return nil
}

func contains(xs []string, x string) bool {
	for _, y := range xs {
		if y == x {
			return true
		}
	}
	return false
}

func overlaps(a, b []string) bool {
	for _, x := range a {
		if contains(b, x) {
			return true
		}
	}
	return false
}

func (s *SchemaSpec) Sexp() hx.Sexp {
	opt := func(n string) hx.Sexp {
		if n == "" {
			return hx.A("none")
		}
		return hx.N("some", hx.A(n))
	}
	names := func(xs []string) hx.Sexp {
		out := make([]hx.Sexp, len(xs))
		for i, x := range xs {
			out[i] = hx.A(x)
		}
		return hx.L(out...)
	}
	fields := func(fs []FieldSpec) hx.Sexp {
		out := make([]hx.Sexp, len(fs))
		for i, f := range fs {
			out[i] = hx.L(hx.A(f.Name), f.Type.Sexp())
		}
		return hx.L(out...)
	}
	parts := []hx.Sexp{hx.A(s.Query), opt(s.Mutation), opt(s.Subscription)}
	for _, t := range s.Types {
		switch t.Kind {
		case "enum":
			parts = append(parts, hx.N("enum", hx.A(t.Name), names(t.Values)))
		case "object":
			parts = append(parts, hx.N("object", hx.A(t.Name), fields(t.Fields), names(t.Ifaces)))
		case "iface":
			parts = append(parts, hx.N("iface", hx.A(t.Name), fields(t.Fields)))
		case "union":
			parts = append(parts, hx.N("union", hx.A(t.Name), names(t.Members)))
		}
	}
	for _, b := range builtinScalars {
		parts = append(parts, hx.N("scalar", hx.A(b)))
	}
	return hx.N("schema", parts...)
}

// Sel: Kind "f" (field), "s" (fragment spread), "i" (inline fragment).
type Sel struct {
	Kind    string `json:"k"`
	Alias   string `json:"alias,omitempty"`
	Name    string `json:"name,omitempty"` // field name / fragment name
	Arg     *int   `json:"arg,omitempty"`  // value of the optional argument n
	Cond    string `json:"cond,omitempty"` // inline fragment type condition ("" = none)
	Sels    []Sel  `json:"sels,omitempty"`
	Dir     string `json:"dir,omitempty"`  // a directive on the selection, e.g. "@include(if: true)" (ignored by the generator and the model)
	RawTail string `json:"raw,omitempty"` // appended verbatim (used by the syntax-error mutation)
}

func (s Sel) Key() string {
	if s.Alias != "" {
		return s.Alias
	}
	return s.Name
}

// Def: Kind query | mutation | subscription | frag. Name "" = anonymous operation.
type Def struct {
	Kind string `json:"kind"`
	Name string `json:"name,omitempty"`
	Cond string `json:"cond,omitempty"`
	Sels []Sel  `json:"sels"`
}

type Doc struct {
	Defs []Def  `json:"defs"`
	Raw  string `json:"raw,omitempty"` // when set, the document text (overrides Defs; never sent to the model as valid)
}

type Case struct {
	Label  string     `json:"label"`
	Schema SchemaSpec `json:"schema"`
	Docs   []Doc      `json:"docs"`
	Seed   uint64     `json:"seed"`   // world seed
	Worlds int        `json:"worlds"` // number of resolver worlds per operation
	// WorldIdx, when set, lists the worlds to run instead of 0..Worlds-1 (used by shrinking).
	WorldIdx []int `json:"world_idx,omitempty"`
}

func renderSels(b *strings.Builder, sels []Sel) {
	b.WriteString("{")
	for i, s := range sels {
		if i > 0 {
			b.WriteString(" ")
		}
		switch s.Kind {
		case "f":
			if s.Alias != "" {
				b.WriteString(s.Alias + ": ")
			}
			b.WriteString(s.Name)
			if s.Arg != nil {
				fmt.Fprintf(b, "(n: %d)", *s.Arg)
			}
			if s.Dir != "" {
				b.WriteString(" " + s.Dir)
			}
			if len(s.Sels) > 0 {
				b.WriteString(" ")
				renderSels(b, s.Sels)
			}
		case "s":
			b.WriteString("..." + s.Name)
			if s.Dir != "" {
				b.WriteString(" " + s.Dir)
			}
		case "i":
			b.WriteString("...")
			if s.Cond != "" {
				b.WriteString(" on " + s.Cond)
			}
			if s.Dir != "" {
				b.WriteString(" " + s.Dir)
			}
			b.WriteString(" ")
			renderSels(b, s.Sels)
		}
		b.WriteString(s.RawTail)
	}
	b.WriteString("}")
}

func (d Doc) Text() string {
	if d.Raw != "" {
		return d.Raw
	}
	var b strings.Builder
	for i, def := range d.Defs {
		if i > 0 {
			b.WriteString("\n")
		}
		switch def.Kind {
		case "frag":
			b.WriteString("fragment " + def.Name + " on " + def.Cond + " ")
		default:
			if def.Name != "" || def.Kind != "query" {
				b.WriteString(def.Kind + " ")
				if def.Name != "" {
					b.WriteString(def.Name + " ")
				}
			}
		}
		renderSels(&b, def.Sels)
	}
	return b.String()
}

func optName(n string) hx.Sexp {
	if n == "" {
		return hx.A("none")
	}
	return hx.N("some", hx.A(n))
}

func selsSexp(sels []Sel) hx.Sexp {
	out := make([]hx.Sexp, 0, len(sels))
	for _, s := range sels {
		switch s.Kind {
		case "f":
			out = append(out, hx.N("f", optName(s.Alias), hx.A(s.Name), selsSexp(s.Sels)))
		case "s":
			out = append(out, hx.N("s", hx.A(s.Name)))
		case "i":
			out = append(out, hx.N("i", optName(s.Cond), selsSexp(s.Sels)))
		}
	}
	return hx.L(out...)
}

func (d Doc) Sexp(valid bool) hx.Sexp {
	parts := []hx.Sexp{hx.B(valid)}
	if d.Raw == "" {
		for _, def := range d.Defs {
			if def.Kind == "frag" {
				parts = append(parts, hx.N("frag", hx.A(def.Name), hx.A(def.Cond), selsSexp(def.Sels)))
			} else {
				parts = append(parts, hx.N("op", hx.A(def.Kind), optName(def.Name), selsSexp(def.Sels)))
			}
		}
	}
	return hx.N("doc", parts...)
}

// ---- small helpers on documents ---------------------------------------------------------------

func (d Doc) Frag(name string) *Def {
	for i := range d.Defs {
		if d.Defs[i].Kind == "frag" && d.Defs[i].Name == name {
			return &d.Defs[i]
		}
	}
	return nil
}

func (d Doc) Ops() []Def {
	var out []Def
	for _, def := range d.Defs {
		if def.Kind != "frag" {
			out = append(out, def)
		}
	}
	return out
}

func (s *SchemaSpec) RootFor(kind string) string {
	if kind == "mutation" {
		return s.Mutation
	}
	if kind == "query" {
		return s.Query
	}
	if kind == "subscription" {
		return s.Subscription
	}
	return ""
}

func sortedKeys[M ~map[string]V, V any](m M) []string {
	out := make([]string, 0, len(m))
	for k := range m {
		out = append(out, k)
	}
	sort.Strings(out)
	return out
}
