package main

import (
	"bytes"
	"fmt"
	"go/ast"
	"go/parser"
	"go/printer"
	"go/token"
	"reflect"
	"regexp"
	"sort"
	"strconv"
	"strings"

	"verifharness/hx"
)

// ---- abstract Go syntax of the tool's output (mirrors ApiFu.C20.GoTy / Decl) -----------------------

type GoTy struct {
	K      string    `json:"k"` // bool int float64 string any named ptr slice struct
	Name   string    `json:"n,omitempty"`
	Elem   *GoTy     `json:"e,omitempty"`
	Fields []GoField `json:"f,omitempty"`
}

type GoField struct {
	Name string `json:"name"`
	Ty   GoTy   `json:"ty"`
	Tag  string `json:"tag"` // "none" | "dash" | "key:<k>"
}

type Action struct {
	Kind  string   `json:"kind"` // u | sw
	Tn    string   `json:"tn,omitempty"`
	Oks   []string `json:"oks,omitempty"`
	Field string   `json:"field"`
}

type Decl struct {
	Kind   string      `json:"kind"` // enum | sel | typedef
	Name   string      `json:"name"`
	Consts [][2]string `json:"consts,omitempty"`
	Fields []GoField   `json:"fields,omitempty"`
	Acts   []Action    `json:"acts,omitempty"`
	Ty     *GoTy       `json:"ty,omitempty"`
	Fwd    bool        `json:"fwd,omitempty"`
}

type Output struct {
	ImportsJSON bool
	Decls       []Decl
}

func (t GoTy) Sexp() hx.Sexp {
	switch t.K {
	case "named":
		return hx.N("named", hx.A(t.Name))
	case "ptr":
		return hx.N("ptr", t.Elem.Sexp())
	case "slice":
		return hx.N("slice", t.Elem.Sexp())
	case "struct":
		fs := make([]hx.Sexp, len(t.Fields))
		for i, f := range t.Fields {
			fs[i] = f.Sexp()
		}
		return hx.N("struct", fs...)
	}
	return hx.A(t.K)
}

func tagSexp(tag string) hx.Sexp {
	if strings.HasPrefix(tag, "key:") {
		return hx.N("key", hx.A(tag[4:]))
	}
	return hx.A(tag)
}

func (f GoField) Sexp() hx.Sexp { return hx.N("fld", hx.A(f.Name), f.Ty.Sexp(), tagSexp(f.Tag)) }

func (d Decl) Sexp() hx.Sexp {
	switch d.Kind {
	case "enum":
		parts := []hx.Sexp{hx.A(d.Name)}
		for _, c := range d.Consts {
			parts = append(parts, hx.N("c", hx.A(c[0]), hx.A(c[1])))
		}
		return hx.N("enum", parts...)
	case "sel":
		fs := make([]hx.Sexp, len(d.Fields))
		for i, f := range d.Fields {
			fs[i] = f.Sexp()
		}
		acts := make([]hx.Sexp, len(d.Acts))
		for i, a := range d.Acts {
			if a.Kind == "u" {
				acts[i] = hx.N("u", hx.A(a.Field))
			} else {
				oks := make([]hx.Sexp, len(a.Oks))
				for j, o := range a.Oks {
					oks[j] = hx.A(o)
				}
				acts[i] = hx.N("sw", hx.A(a.Tn), hx.L(oks...), hx.A(a.Field))
			}
		}
		return hx.N("sel", hx.A(d.Name), hx.L(fs...), hx.L(acts...))
	}
	return hx.N("typedef", hx.A(d.Name), d.Ty.Sexp(), hx.B(d.Fwd))
}

func declsSexp(ds []Decl) hx.Sexp {
	parts := make([]hx.Sexp, len(ds))
	for i, d := range ds {
		parts[i] = d.Sexp()
	}
	return hx.N("decls", parts...)
}

// ---- from the model's reply ------------------------------------------------------------------------

func goTyFromSexp(x hx.Sexp) (GoTy, error) {
	if !x.IsList {
		switch x.Atom {
		case "bool", "int", "float64", "string", "any":
			return GoTy{K: x.Atom}, nil
		}
		return GoTy{}, fmt.Errorf("bad type atom %q", x.Atom)
	}
	if len(x.List) == 0 || x.List[0].IsList {
		return GoTy{}, fmt.Errorf("bad type")
	}
	switch x.List[0].Atom {
	case "named":
		return GoTy{K: "named", Name: x.List[1].Atom}, nil
	case "ptr", "slice":
		e, err := goTyFromSexp(x.List[1])
		if err != nil {
			return GoTy{}, err
		}
		return GoTy{K: x.List[0].Atom, Elem: &e}, nil
	case "struct":
		t := GoTy{K: "struct"}
		for _, f := range x.List[1:] {
			gf, err := goFieldFromSexp(f)
			if err != nil {
				return GoTy{}, err
			}
			t.Fields = append(t.Fields, gf)
		}
		return t, nil
	}
	return GoTy{}, fmt.Errorf("bad type %s", x.String())
}

func goFieldFromSexp(x hx.Sexp) (GoField, error) {
	if !x.IsList || len(x.List) != 4 {
		return GoField{}, fmt.Errorf("bad field %s", x.String())
	}
	ty, err := goTyFromSexp(x.List[2])
	if err != nil {
		return GoField{}, err
	}
	tag := x.List[3].Atom
	if x.List[3].IsList {
		tag = "key:" + x.List[3].List[1].Atom
	}
	return GoField{Name: x.List[1].Atom, Ty: ty, Tag: tag}, nil
}

func declFromSexp(x hx.Sexp) (Decl, error) {
	if !x.IsList || len(x.List) < 2 {
		return Decl{}, fmt.Errorf("bad decl %s", x.String())
	}
	switch x.List[0].Atom {
	case "enum":
		d := Decl{Kind: "enum", Name: x.List[1].Atom}
		for _, c := range x.List[2:] {
			d.Consts = append(d.Consts, [2]string{c.List[1].Atom, c.List[2].Atom})
		}
		return d, nil
	case "sel":
		d := Decl{Kind: "sel", Name: x.List[1].Atom}
		for _, f := range x.List[2].List {
			gf, err := goFieldFromSexp(f)
			if err != nil {
				return Decl{}, err
			}
			d.Fields = append(d.Fields, gf)
		}
		for _, a := range x.List[3].List {
			if a.List[0].Atom == "u" {
				d.Acts = append(d.Acts, Action{Kind: "u", Field: a.List[1].Atom})
			} else {
				act := Action{Kind: "sw", Tn: a.List[1].Atom, Field: a.List[3].Atom}
				for _, o := range a.List[2].List {
					act.Oks = append(act.Oks, o.Atom)
				}
				d.Acts = append(d.Acts, act)
			}
		}
		return d, nil
	case "typedef":
		ty, err := goTyFromSexp(x.List[2])
		if err != nil {
			return Decl{}, err
		}
		return Decl{Kind: "typedef", Name: x.List[1].Atom, Ty: &ty, Fwd: x.List[3].Atom == "true"}, nil
	}
	return Decl{}, fmt.Errorf("bad decl %s", x.String())
}

// ---- canonical form ---------------------------------------------------------------------------------
// Go map iteration decides the order of enum constants, of the statements in UnmarshalJSON and of
// the case list; none of these orders is observable in the property, so they are sorted. Struct
// fields are sorted by name on both sides as well (the tool sorts the rendered field lines; fields with
// *equal* names — only outside the envelope — would be ordered by their type text).

func canonTy(t *GoTy) {
	if t.Elem != nil {
		canonTy(t.Elem)
	}
	canonFields(t.Fields)
}

func canonFields(fs []GoField) {
	for i := range fs {
		canonTy(&fs[i].Ty)
	}
	sort.SliceStable(fs, func(i, j int) bool {
		if fs[i].Name != fs[j].Name {
			return fs[i].Name < fs[j].Name
		}
		return fs[i].Sexp().String() < fs[j].Sexp().String()
	})
}

func canonDecls(ds []Decl) {
	for i := range ds {
		d := &ds[i]
		sort.Slice(d.Consts, func(a, b int) bool {
			if d.Consts[a][0] != d.Consts[b][0] {
				return d.Consts[a][0] < d.Consts[b][0]
			}
			return d.Consts[a][1] < d.Consts[b][1]
		})
		canonFields(d.Fields)
		for j := range d.Acts {
			sort.Strings(d.Acts[j].Oks)
		}
		sort.SliceStable(d.Acts, func(a, b int) bool {
			x, y := d.Acts[a], d.Acts[b]
			if x.Field != y.Field {
				return x.Field < y.Field
			}
			if x.Kind != y.Kind {
				return x.Kind < y.Kind
			}
			return strings.Join(x.Oks, ",") < strings.Join(y.Oks, ",")
		})
		if d.Ty != nil {
			canonTy(d.Ty)
		}
	}
}

func canonString(o *Output) string {
	canonDecls(o.Decls)
	var b strings.Builder
	fmt.Fprintf(&b, "import-json=%v", o.ImportsJSON)
	for _, d := range o.Decls {
		b.WriteString("\n  ")
		b.WriteString(d.Sexp().String())
	}
	return b.String()
}

// ---- from the tool's output (go/ast) -------------------------------------------------------------

func nodeText(fset *token.FileSet, n ast.Node) string {
	var b bytes.Buffer
	printer.Fprint(&b, fset, n)
	return b.String()
}

func exprToGoTy(e ast.Expr) (GoTy, error) {
	switch e := e.(type) {
	case *ast.Ident:
		switch e.Name {
		case "bool", "int", "float64", "string":
			return GoTy{K: e.Name}, nil
		}
		return GoTy{K: "named", Name: e.Name}, nil
	case *ast.StarExpr:
		in, err := exprToGoTy(e.X)
		if err != nil {
			return GoTy{}, err
		}
		return GoTy{K: "ptr", Elem: &in}, nil
	case *ast.ArrayType:
		if e.Len != nil {
			return GoTy{}, fmt.Errorf("array type")
		}
		in, err := exprToGoTy(e.Elt)
		if err != nil {
			return GoTy{}, err
		}
		return GoTy{K: "slice", Elem: &in}, nil
	case *ast.InterfaceType:
		if e.Methods != nil && len(e.Methods.List) > 0 {
			return GoTy{}, fmt.Errorf("non-empty interface")
		}
		return GoTy{K: "any"}, nil
	case *ast.StructType:
		t := GoTy{K: "struct"}
		for _, f := range e.Fields.List {
			if len(f.Names) != 1 {
				return GoTy{}, fmt.Errorf("struct field with %d names", len(f.Names))
			}
			ft, err := exprToGoTy(f.Type)
			if err != nil {
				return GoTy{}, err
			}
			tag := "none"
			if f.Tag != nil {
				raw, err := strconv.Unquote(f.Tag.Value)
				if err != nil {
					return GoTy{}, err
				}
				j, ok := reflect.StructTag(raw).Lookup("json")
				switch {
				case !ok || strings.Count(raw, "json:") != 1:
					tag = "raw:" + raw
				case j == "-":
					tag = "dash"
				default:
					tag = "key:" + j
				}
			}
			t.Fields = append(t.Fields, GoField{Name: f.Names[0].Name, Ty: ft, Tag: tag})
		}
		return t, nil
	}
	return GoTy{}, fmt.Errorf("unsupported type expression %T", e)
}

var reUnmarshalInto = regexp.MustCompile(`^err := json\.Unmarshal\(b, &s\.(\w+)\)$`)
var reBaseField = regexp.MustCompile(`^base\.(\w*)$`)

func parseUnmarshalIf(fset *token.FileSet, st ast.Stmt) (field string, ok bool) {
	ifs, isIf := st.(*ast.IfStmt)
	if !isIf || ifs.Init == nil || ifs.Else != nil {
		return "", false
	}
	m := reUnmarshalInto.FindStringSubmatch(nodeText(fset, ifs.Init))
	if m == nil || nodeText(fset, ifs.Cond) != "err != nil" || len(ifs.Body.List) != 1 || nodeText(fset, ifs.Body.List[0]) != "return err" {
		return "", false
	}
	return m[1], true
}

// parseOutput turns the tool's stdout into the abstract declarations.
func parseOutput(src string, pkg string) (*Output, error) {
	fset := token.NewFileSet()
	f, err := parser.ParseFile(fset, "gen.go", src, 0)
	if err != nil {
		return nil, fmt.Errorf("output does not parse: %v", err)
	}
	if f.Name.Name != pkg {
		return nil, fmt.Errorf("package clause %q, want %q", f.Name.Name, pkg)
	}
	out := &Output{}
	methods := map[string]*ast.FuncDecl{}
	consts := map[string][][2]string{}
	var types []*ast.TypeSpec
	for _, d := range f.Decls {
		switch d := d.(type) {
		case *ast.FuncDecl:
			if d.Recv == nil || len(d.Recv.List) != 1 || d.Name.Name != "UnmarshalJSON" {
				return nil, fmt.Errorf("unexpected function %s", d.Name.Name)
			}
			star, ok := d.Recv.List[0].Type.(*ast.StarExpr)
			if !ok {
				return nil, fmt.Errorf("UnmarshalJSON with a value receiver")
			}
			id, ok := star.X.(*ast.Ident)
			if !ok {
				return nil, fmt.Errorf("odd receiver")
			}
			if nodeText(fset, d.Type) != "func(b []byte) error" {
				return nil, fmt.Errorf("UnmarshalJSON has signature %s", nodeText(fset, d.Type))
			}
			if methods[id.Name] != nil {
				return nil, fmt.Errorf("two UnmarshalJSON methods on %s", id.Name)
			}
			methods[id.Name] = d
		case *ast.GenDecl:
			switch d.Tok {
			case token.IMPORT:
				for _, s := range d.Specs {
					is := s.(*ast.ImportSpec)
					if is.Path.Value == `"encoding/json"` && is.Name == nil {
						out.ImportsJSON = true
					} else {
						return nil, fmt.Errorf("unexpected import %s", is.Path.Value)
					}
				}
			case token.TYPE:
				for _, s := range d.Specs {
					ts := s.(*ast.TypeSpec)
					if ts.Assign.IsValid() || ts.TypeParams != nil {
						return nil, fmt.Errorf("alias or generic type %s", ts.Name.Name)
					}
					types = append(types, ts)
				}
			case token.CONST:
				for _, s := range d.Specs {
					vs := s.(*ast.ValueSpec)
					id, ok := vs.Type.(*ast.Ident)
					if !ok || len(vs.Names) != 1 || len(vs.Values) != 1 {
						return nil, fmt.Errorf("unexpected const spec")
					}
					lit, ok := vs.Values[0].(*ast.BasicLit)
					if !ok || lit.Kind != token.STRING {
						return nil, fmt.Errorf("const %s is not a string literal", vs.Names[0].Name)
					}
					v, err := strconv.Unquote(lit.Value)
					if err != nil {
						return nil, err
					}
					consts[id.Name] = append(consts[id.Name], [2]string{vs.Names[0].Name, v})
				}
			default:
				return nil, fmt.Errorf("unexpected declaration %v", d.Tok)
			}
		}
	}
	seenMethod := map[string]bool{}
	for _, ts := range types {
		name := ts.Name.Name
		ty, err := exprToGoTy(ts.Type)
		if err != nil {
			return nil, fmt.Errorf("type %s: %v", name, err)
		}
		m := methods[name]
		seenMethod[name] = m != nil
		switch {
		case ty.K == "string" && m == nil:
			cs, ok := consts[name]
			if !ok {
				return nil, fmt.Errorf("type %s string without constants", name)
			}
			out.Decls = append(out.Decls, Decl{Kind: "enum", Name: name, Consts: cs})
			delete(consts, name)
		case m == nil:
			t := ty
			out.Decls = append(out.Decls, Decl{Kind: "typedef", Name: name, Ty: &t})
		case ty.K == "struct":
			// a sel type: parse the body of the generated UnmarshalJSON
			body := m.Body.List
			if len(body) < 4 || m.Recv.List[0].Names[0].Name != "s" {
				return nil, fmt.Errorf("%s.UnmarshalJSON: unexpected shape", name)
			}
			ds, ok := body[0].(*ast.DeclStmt)
			if !ok {
				return nil, fmt.Errorf("%s.UnmarshalJSON: no `var base`", name)
			}
			gd := ds.Decl.(*ast.GenDecl)
			vs, ok := gd.Specs[0].(*ast.ValueSpec)
			if !ok || gd.Tok != token.VAR || len(vs.Names) != 1 || vs.Names[0].Name != "base" || vs.Values != nil {
				return nil, fmt.Errorf("%s.UnmarshalJSON: no `var base`", name)
			}
			bt, err := exprToGoTy(vs.Type)
			if err != nil {
				return nil, err
			}
			if bt.Sexp().String() != ty.Sexp().String() {
				return nil, fmt.Errorf("%s.UnmarshalJSON: base has a different type than %s", name, name)
			}
			if got := nodeText(fset, body[1]); strings.Join(strings.Fields(got), " ") != "if err := json.Unmarshal(b, &base); err != nil { return err }" {
				return nil, fmt.Errorf("%s.UnmarshalJSON: unexpected base decoding %q", name, got)
			}
			if nodeText(fset, body[2]) != "*s = base" {
				return nil, fmt.Errorf("%s.UnmarshalJSON: no `*s = base`", name)
			}
			if nodeText(fset, body[len(body)-1]) != "return nil" {
				return nil, fmt.Errorf("%s.UnmarshalJSON: does not end in `return nil`", name)
			}
			d := Decl{Kind: "sel", Name: name, Fields: ty.Fields}
			for _, st := range body[3 : len(body)-1] {
				if field, ok := parseUnmarshalIf(fset, st); ok {
					d.Acts = append(d.Acts, Action{Kind: "u", Field: field})
					continue
				}
				sw, ok := st.(*ast.SwitchStmt)
				if !ok || sw.Init != nil || sw.Tag == nil || len(sw.Body.List) != 1 {
					return nil, fmt.Errorf("%s.UnmarshalJSON: unexpected statement %q", name, nodeText(fset, st))
				}
				tm := reBaseField.FindStringSubmatch(nodeText(fset, sw.Tag))
				cc := sw.Body.List[0].(*ast.CaseClause)
				if tm == nil || cc.List == nil || len(cc.Body) != 1 {
					return nil, fmt.Errorf("%s.UnmarshalJSON: unexpected switch %q", name, nodeText(fset, st))
				}
				field, ok := parseUnmarshalIf(fset, cc.Body[0])
				if !ok {
					return nil, fmt.Errorf("%s.UnmarshalJSON: unexpected case body", name)
				}
				act := Action{Kind: "sw", Tn: tm[1], Field: field}
				for _, e := range cc.List {
					lit, ok := e.(*ast.BasicLit)
					if !ok || lit.Kind != token.STRING {
						return nil, fmt.Errorf("%s.UnmarshalJSON: case is not a string literal", name)
					}
					v, _ := strconv.Unquote(lit.Value)
					act.Oks = append(act.Oks, v)
				}
				// the generator joins an empty list into `case "":`
				if len(act.Oks) == 1 && act.Oks[0] == "" {
					act.Oks = nil
				}
				d.Acts = append(d.Acts, act)
			}
			out.Decls = append(out.Decls, d)
		default:
			// typedef with the forwarding UnmarshalJSON
			want := fmt.Sprintf("return (*%s)(t).UnmarshalJSON(b)", nodeText(fset, ts.Type))
			if len(m.Body.List) != 1 || nodeText(fset, m.Body.List[0]) != want || m.Recv.List[0].Names[0].Name != "t" {
				return nil, fmt.Errorf("%s.UnmarshalJSON: not the forwarding method", name)
			}
			t := ty
			out.Decls = append(out.Decls, Decl{Kind: "typedef", Name: name, Ty: &t, Fwd: true})
		}
	}
	for n := range methods {
		if !seenMethod[n] {
			return nil, fmt.Errorf("UnmarshalJSON on undeclared type %s", n)
		}
	}
	if len(consts) > 0 {
		return nil, fmt.Errorf("constants of a type that is not a string type: %v", sortedKeys(consts))
	}
	return out, nil
}

func parseModelOutput(reply string) (out *Output, errs []string, err error) {
	x, err := hx.ParseSexp(reply)
	if err != nil || !x.IsList || len(x.List) == 0 {
		return nil, nil, fmt.Errorf("unexpected model reply %q", reply)
	}
	switch x.List[0].Atom {
	case "err":
		for _, e := range x.List[1:] {
			errs = append(errs, e.Atom)
		}
		return nil, errs, nil
	case "ok":
		out = &Output{ImportsJSON: x.List[1].Atom == "true"}
		for _, d := range x.List[2:] {
			dd, err := declFromSexp(d)
			if err != nil {
				return nil, nil, err
			}
			out.Decls = append(out.Decls, dd)
		}
		return out, nil, nil
	}
	return nil, nil, fmt.Errorf("unexpected model reply %q", reply)
}
