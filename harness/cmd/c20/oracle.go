package main

import (
	"bytes"
	"encoding/json"
	"fmt"
	"math"
	"strconv"
	"strings"

	"verifharness/hx"
)

// ---- ordered JSON ---------------------------------------------------------------------------------

// JV is a JSON value with ordered members and number literals kept as text.
type JV struct {
	K    string // null bool num str arr obj
	B    bool
	S    string
	Arr  []JV
	Keys []string
	Vals []JV
}

func (j *JV) Get(k string) (*JV, bool) {
	for i, kk := range j.Keys {
		if kk == k {
			return &j.Vals[i], true
		}
	}
	return nil, false
}

func parseJSON(b []byte) (JV, error) {
	dec := json.NewDecoder(bytes.NewReader(b))
	dec.UseNumber()
	v, err := parseJV(dec)
	if err != nil {
		return JV{}, err
	}
	if _, err := dec.Token(); err == nil {
		return JV{}, fmt.Errorf("trailing data")
	}
	return v, nil
}

func parseJV(dec *json.Decoder) (JV, error) {
	tok, err := dec.Token()
	if err != nil {
		return JV{}, err
	}
	switch t := tok.(type) {
	case nil:
		return JV{K: "null"}, nil
	case bool:
		return JV{K: "bool", B: t}, nil
	case json.Number:
		return JV{K: "num", S: t.String()}, nil
	case string:
		return JV{K: "str", S: t}, nil
	case json.Delim:
		switch t {
		case '[':
			out := JV{K: "arr", Arr: []JV{}}
			for dec.More() {
				x, err := parseJV(dec)
				if err != nil {
					return JV{}, err
				}
				out.Arr = append(out.Arr, x)
			}
			_, err := dec.Token()
			return out, err
		case '{':
			out := JV{K: "obj"}
			for dec.More() {
				kt, err := dec.Token()
				if err != nil {
					return JV{}, err
				}
				x, err := parseJV(dec)
				if err != nil {
					return JV{}, err
				}
				out.Keys = append(out.Keys, kt.(string))
				out.Vals = append(out.Vals, x)
			}
			_, err := dec.Token()
			return out, err
		}
	}
	return JV{}, fmt.Errorf("unexpected token %v", tok)
}

func isIntLiteral(s string) bool { return !strings.ContainsAny(s, ".eE") }

func (j JV) Sexp() hx.Sexp {
	switch j.K {
	case "null":
		return hx.A("null")
	case "bool":
		return hx.B(j.B)
	case "num":
		k := "float"
		if isIntLiteral(j.S) {
			k = "int"
		}
		return hx.N("num", hx.A(k), hx.A(j.S))
	case "str":
		return hx.N("str", hx.A(j.S))
	case "arr":
		xs := make([]hx.Sexp, len(j.Arr))
		for i, x := range j.Arr {
			xs[i] = x.Sexp()
		}
		return hx.N("arr", xs...)
	}
	ms := make([]hx.Sexp, len(j.Keys))
	for i, k := range j.Keys {
		ms[i] = hx.N("m", hx.A(k), j.Vals[i].Sexp())
	}
	return hx.N("obj", ms...)
}

// ---- the dump of a decoded Go value (written by the scratch program by reflection) ----------------

type DV struct {
	K string  `json:"k"`           // bool int float str nil ptr slice struct iface other
	B bool    `json:"b,omitempty"` // bool
	I string  `json:"i,omitempty"` // int (decimal)
	X string  `json:"x,omitempty"` // float64 bits (hex)
	S *string `json:"s,omitempty"` // string
	V *DV     `json:"v,omitempty"` // ptr
	L []DV    `json:"l,omitempty"` // slice
	F []DF    `json:"f,omitempty"` // struct
}

type DF struct {
	N      string `json:"n"`
	HasTag bool   `json:"ht,omitempty"`
	Tag    string `json:"t,omitempty"` // value of the json tag (name part)
	V      DV     `json:"v"`
}

func (d DV) brief() string {
	b, _ := json.Marshal(d)
	if len(b) > 160 {
		return string(b[:160]) + "…"
	}
	return string(b)
}

// structFieldFor finds the field encoding/json fills for a key: exact JSON name first, then
// case-insensitive; fields tagged "-" and unexported fields never match.
func structFieldFor(d *DV, key string) *DF {
	jsonName := func(f *DF) (string, bool) {
		if f.N == "" || !(f.N[0] >= 'A' && f.N[0] <= 'Z') {
			return "", false
		}
		if f.HasTag {
			if f.Tag == "-" {
				return "", false
			}
			if f.Tag != "" {
				return f.Tag, true
			}
		}
		return f.N, true
	}
	for i := range d.F {
		if n, ok := jsonName(&d.F[i]); ok && n == key {
			return &d.F[i]
		}
	}
	for i := range d.F {
		if n, ok := jsonName(&d.F[i]); ok && strings.EqualFold(n, key) {
			return &d.F[i]
		}
	}
	return nil
}

// holdersFor lists the `json:"-"` members that can be the holder of the fragment `name`: the member
// named like it, or — when that Go name was taken — like it with underscores appended.
func holdersFor(d *DV, name string) []*DF {
	var out []*DF
	for i := range d.F {
		f := &d.F[i]
		if f.HasTag && f.Tag == "-" && len(f.N) >= len(name) && strings.EqualFold(f.N[:len(name)], name) && strings.Trim(f.N[len(name):], "_") == "" {
			out = append(out, f)
		}
	}
	return out
}

// ---- the leaf oracle: every selected leaf of the response is held by the decoded value -------------

type leafChecker struct {
	spec   *SchemaSpec
	doc    *Doc
	leaves int
	nulls  int
	lists  int
	frags  int // type-conditioned fragments that applied and were checked
	skipped int // selections a directive removed from the response
	errs   []string
}

func (lc *leafChecker) fail(path, format string, a ...any) {
	if len(lc.errs) < 5 {
		lc.errs = append(lc.errs, path+": "+fmt.Sprintf(format, a...))
	}
}

func (lc *leafChecker) value(t TypeRef, sels []Sel, j *JV, d *DV, path string) {
	if t.Kind == "nn" {
		t = *t.Of
	}
	if j.K == "null" {
		lc.nulls++
		if d.K != "nil" {
			lc.fail(path, "the server sent null, the decoded value holds %s", d.brief())
		}
		return
	}
	if d.K == "nil" {
		lc.fail(path, "the server sent %s, the decoded value is nil", j.K)
		return
	}
	if d.K == "ptr" {
		d = d.V
	}
	if t.Kind == "list" {
		lc.lists++
		if j.K != "arr" {
			lc.fail(path, "harness: response is not a list")
			return
		}
		if d.K != "slice" {
			lc.fail(path, "the server sent a list, the decoded value is %s", d.brief())
			return
		}
		if len(d.L) != len(j.Arr) {
			lc.fail(path, "the server sent %d items, the decoded slice has %d", len(j.Arr), len(d.L))
			return
		}
		for i := range j.Arr {
			lc.value(*t.Of, sels, &j.Arr[i], &d.L[i], fmt.Sprintf("%s[%d]", path, i))
		}
		return
	}
	if lc.spec.IsComposite(t.Name) {
		if j.K != "obj" {
			lc.fail(path, "harness: response is not an object")
			return
		}
		if d.K != "struct" {
			lc.fail(path, "the server sent an object, the decoded value is %s", d.brief())
			return
		}
		lc.object(t.Name, sels, j, d, path)
		return
	}
	// leaf
	lc.leaves++
	switch j.K {
	case "bool":
		if d.K != "bool" || d.B != j.B {
			lc.fail(path, "the server sent %v, the decoded value holds %s", j.B, d.brief())
		}
	case "str":
		if d.K != "str" || d.S == nil || *d.S != j.S {
			lc.fail(path, "the server sent %q, the decoded value holds %s", j.S, d.brief())
		}
	case "num":
		want, err := strconv.ParseFloat(j.S, 64)
		if err != nil {
			lc.fail(path, "harness: unparsable number %q", j.S)
			return
		}
		switch d.K {
		case "int":
			got, _ := strconv.ParseInt(d.I, 10, 64)
			if float64(got) != want || !isIntLiteral(j.S) && want != math.Trunc(want) {
				lc.fail(path, "the server sent %s, the decoded value holds %s", j.S, d.brief())
			}
		case "float":
			bits, _ := strconv.ParseUint(d.X, 16, 64)
			if math.Float64frombits(bits) != want {
				lc.fail(path, "the server sent %s, the decoded value holds %v", j.S, math.Float64frombits(bits))
			}
		default:
			lc.fail(path, "the server sent %s, the decoded value holds %s", j.S, d.brief())
		}
	default:
		lc.fail(path, "harness: unexpected response value of kind %s for a leaf", j.K)
	}
}

// object checks one response object against one selection set whose static parent type is `parent`.
func (lc *leafChecker) object(parent string, sels []Sel, j *JV, d *DV, path string) {
	pt := lc.spec.Type(parent)
	concrete := ""
	if pt.Kind == "object" {
		concrete = parent
	} else {
		for _, s := range sels {
			if s.Kind == "f" && s.Name == "__typename" {
				if v, ok := j.Get(s.Key()); ok && v.K == "str" {
					concrete = v.S
				}
				break
			}
		}
	}
	for _, s := range sels {
		switch s.Kind {
		case "f":
			if removesSelection(s.Dir) {
				// @skip(if: true) / @include(if: false): the server sends nothing for THIS selection (the key may
				// still be present because a sibling selects the same field — with the sibling's sub-selections,
				// which the sibling's walk checks): nothing is demanded here
				lc.skipped++
				continue
			}
			jv, ok := j.Get(s.Key())
			if !ok {
				lc.fail(path+"."+s.Key(), "harness: the response has no such key")
				continue
			}
			f := structFieldFor(d, s.Key())
			if f == nil {
				lc.fail(path+"."+s.Key(), "no struct field receives this response key (struct has %s)", fieldNames(d))
				continue
			}
			ft := nonNull(named("String"))
			if s.Name != "__typename" {
				fs := pt.Field(s.Name)
				if fs == nil {
					lc.fail(path+"."+s.Key(), "harness: unknown field")
					continue
				}
				ft = fs.Type
			}
			lc.value(ft, s.Sels, jv, &f.V, path+"."+s.Key())
		case "i", "s":
			if removesSelection(s.Dir) {
				lc.skipped++
				continue // the fragment's fields are not in the response (unless a sibling selects them too)
			}
			cond, name, body := s.Cond, s.Cond, s.Sels
			if s.Kind == "i" && s.Cond == "" {
				cond, name = parent, parent
			}
			if s.Kind == "s" {
				def := lc.doc.Frag(s.Name)
				if def == nil {
					continue
				}
				cond, name, body = def.Cond, s.Name, def.Sels
			}
			if concrete == "" || !contains(lc.spec.Possible(cond), concrete) {
				continue // the fragment does not apply to this object: nothing is demanded
			}
			cands := holdersFor(d, name)
			if len(cands) == 0 {
				lc.fail(path, "the fragment %q applies to this %s but the struct has no holder for it (struct has %s)", name, concrete, fieldNames(d))
				continue
			}
			// several members can be named like the fragment (`Alpha`, `Alpha_`): the fragment's leaves must be
			// held by one of them
			var firstErrs []string
			ok := false
			for _, h := range cands {
				sub := &leafChecker{spec: lc.spec, doc: lc.doc}
				hv := &h.V
				switch {
				case hv.K == "nil":
					sub.fail(path, "the fragment %q applies to this %s but its holder %s is nil", name, concrete, h.N)
				default:
					if hv.K == "ptr" {
						hv = hv.V
					}
					if hv.K != "struct" {
						sub.fail(path, "holder %s is %s", h.N, hv.brief())
					} else {
						sub.object(cond, body, j, hv, path+"<"+name+">")
					}
				}
				if len(sub.errs) == 0 {
					ok = true
					lc.frags++
					lc.leaves += sub.leaves
					lc.nulls += sub.nulls
					lc.lists += sub.lists
					lc.frags += sub.frags
					lc.skipped += sub.skipped
					break
				}
				if firstErrs == nil {
					firstErrs = sub.errs
				}
			}
			if !ok {
				for _, e := range firstErrs {
					if len(lc.errs) < 5 {
						lc.errs = append(lc.errs, e)
					}
				}
			}
		}
	}
}

func fieldNames(d *DV) string {
	var ns []string
	for _, f := range d.F {
		ns = append(ns, f.N)
	}
	return "{" + strings.Join(ns, ",") + "}"
}

// ---- model GoVal vs dump -----------------------------------------------------------------------------

func compareModelVal(x hx.Sexp, d *DV, path string) string {
	if !x.IsList {
		if x.Atom == "nil" {
			if d.K != "nil" {
				return path + ": model nil, real " + d.brief()
			}
			return ""
		}
		return path + ": unexpected model value " + x.String()
	}
	tag := x.List[0].Atom
	switch tag {
	case "bool":
		if d.K != "bool" || d.B != (x.List[1].Atom == "true") {
			return path + ": model " + x.String() + ", real " + d.brief()
		}
	case "int":
		a, err1 := strconv.ParseInt(x.List[1].Atom, 10, 64)
		b, err2 := strconv.ParseInt(d.I, 10, 64)
		if d.K != "int" || err1 != nil || err2 != nil || a != b {
			return path + ": model " + x.String() + ", real " + d.brief()
		}
	case "float":
		a, err1 := strconv.ParseFloat(x.List[1].Atom, 64)
		bits, err2 := strconv.ParseUint(d.X, 16, 64)
		if d.K != "float" || err1 != nil || err2 != nil || a != math.Float64frombits(bits) {
			return path + ": model " + x.String() + ", real " + d.brief()
		}
	case "str":
		if d.K != "str" || d.S == nil || *d.S != x.List[1].Atom {
			return path + ": model " + x.String() + ", real " + d.brief()
		}
	case "ptr":
		if d.K != "ptr" {
			return path + ": model ptr, real " + d.brief()
		}
		return compareModelVal(x.List[1], d.V, path+"*")
	case "slice":
		if d.K != "slice" || len(d.L) != len(x.List)-1 {
			return path + ": model slice of " + fmt.Sprint(len(x.List)-1) + ", real " + d.brief()
		}
		for i := range d.L {
			if e := compareModelVal(x.List[i+1], &d.L[i], fmt.Sprintf("%s[%d]", path, i)); e != "" {
				return e
			}
		}
	case "struct":
		if d.K != "struct" || len(d.F) != len(x.List)-1 {
			return path + ": model " + tag + " of " + fmt.Sprint(len(x.List)-1) + " fields, real " + d.brief()
		}
		// fields by name (the model keeps the generator's order, reflection keeps the source order: both are the
		// declared order, but only names are significant)
		for _, fx := range x.List[1:] {
			name := fx.List[1].Atom
			var df *DF
			for i := range d.F {
				if d.F[i].N == name {
					df = &d.F[i]
				}
			}
			if df == nil {
				return path + ": model field " + name + " missing in " + fieldNames(d)
			}
			mt := fx.List[2]
			wantTag := "none"
			if df.HasTag {
				wantTag = "key:" + df.Tag
				if df.Tag == "-" {
					wantTag = "dash"
				}
			}
			gotTag := mt.Atom
			if mt.IsList {
				gotTag = "key:" + mt.List[1].Atom
			}
			if gotTag != wantTag {
				return path + "." + name + ": model tag " + gotTag + ", real " + wantTag
			}
			if e := compareModelVal(fx.List[3], &df.V, path+"."+name); e != "" {
				return e
			}
		}
	case "iface":
		if d.K != "iface" && d.K != "nil" {
			return path + ": model iface, real " + d.brief()
		}
	default:
		return path + ": unexpected model value " + x.String()
	}
	return ""
}

// ---- the envelope --------------------------------------------------------------------------------------

func startsWithLetter(s string) bool {
	return s != "" && (s[0] >= 'a' && s[0] <= 'z' || s[0] >= 'A' && s[0] <= 'Z')
}

type envChecker struct {
	spec *SchemaSpec
	doc  *Doc
	why  string
	// observations used by classifiers and the non-triviality rule
	abstractFrags int
	goNameClash   string // description of the first Go field-name clash inside one selection set
	clashKind     string // "key-vs-holder" | "dup-cond" | "holder-vs-holder"
}

func (e *envChecker) out(format string, a ...any) {
	if e.why == "" {
		e.why = fmt.Sprintf(format, a...)
	}
}

// flatField: a field selection together with the concrete object types of the response objects it can
// land in (the type conditions of the fragments around it, intersected) and the type it is selected on.
type flatField struct {
	Sel
	poss   []string
	parent string
}

type scopeList struct {
	parent string
	sels   []Sel
}

func intersect(a, b []string) []string {
	var out []string
	for _, x := range a {
		if contains(b, x) {
			out = append(out, x)
		}
	}
	return out
}

// flatten lists the field selections that can land in the same response object, each with the
// concrete types for which it does. A fragment whose type condition excludes every remaining type
// contributes nothing.
func (e *envChecker) flatten(parent string, sels []Sel, poss []string, seen map[string]bool, out *[]flatField) {
	for _, s := range sels {
		switch s.Kind {
		case "f":
			*out = append(*out, flatField{Sel: s, poss: poss, parent: parent})
		case "i":
			p, par := poss, parent
			if s.Cond != "" {
				p, par = intersect(poss, e.spec.Possible(s.Cond)), s.Cond
			}
			if len(p) > 0 {
				e.flatten(par, s.Sels, p, seen, out)
			}
		case "s":
			def := e.doc.Frag(s.Name)
			if def == nil {
				continue
			}
			p := intersect(poss, e.spec.Possible(def.Cond))
			k := s.Name + "|" + strings.Join(p, ",")
			if len(p) > 0 && !seen[k] {
				seen[k] = true
				e.flatten(def.Cond, def.Sels, p, seen, out)
			}
		}
	}
}

// scope checks that the keys that can land in one response object are equal or distinct ignoring
// case — two keys that differ only in case are harmless when the fragments they sit in apply to
// disjoint sets of object types (they never meet in one object) —, recursively through the merged
// sub-selections.
func (e *envChecker) scope(lists []scopeList, depth int) {
	if depth > 12 {
		return
	}
	var fields []flatField
	for _, l := range lists {
		e.flatten(l.parent, l.sels, e.spec.Possible(l.parent), map[string]bool{}, &fields)
	}
	groups := map[string][]flatField{}
	for _, f := range fields {
		groups[strings.ToLower(f.Key())] = append(groups[strings.ToLower(f.Key())], f)
	}
	for _, lk := range sortedKeys(groups) {
		g := groups[lk]
		var subs []scopeList
		for i, f := range g {
			for _, h := range g[:i] {
				if f.Key() != h.Key() && overlaps(f.poss, h.poss) {
					e.out("response keys %q and %q can land in one object and differ only in letter case", h.Key(), f.Key())
				}
			}
			if len(f.Sels) > 0 {
				if pt := e.spec.Type(f.parent); pt != nil {
					if fs := pt.Field(f.Name); fs != nil {
						subs = append(subs, scopeList{parent: fs.Type.Base(), sels: f.Sels})
					}
				}
			}
		}
		if len(subs) > 0 {
			e.scope(subs, depth+1)
		}
	}
}

// set checks one syntactic selection set with static parent type `parent`.
func (e *envChecker) set(parent string, sels []Sel) {
	pt := e.spec.Type(parent)
	if pt == nil {
		e.out("harness: unknown parent type %q", parent)
		return
	}
	keys := map[string]string{}
	goNames := map[string]string{}
	hasFrag, hasTn := false, false
	note := func(goName, what string) {
		if prev, ok := goNames[goName]; ok && e.goNameClash == "" {
			e.goNameClash = fmt.Sprintf("%s and %s both map to the Go field %s", prev, what, goName)
			switch {
			case strings.HasPrefix(prev, "key ") != strings.HasPrefix(what, "key "):
				e.clashKind = "key-vs-holder"
			case prev == what && strings.HasPrefix(what, "fragment on "):
				e.clashKind = "dup-cond"
			default:
				e.clashKind = "holder-vs-holder"
			}
		}
		goNames[goName] = what
	}
	for _, s := range sels {
		switch s.Kind {
		case "f":
			k := s.Key()
			if !(startsWithLetter(k) || (k == "__typename" && s.Alias == "")) {
				e.out("response key %q does not begin with a letter", k)
			}
			if prev, ok := keys[strings.ToLower(k)]; ok {
				e.out("response keys %q and %q in one selection set are not distinct ignoring case", prev, k)
			} else {
				note(goFieldName(k), "key "+k)
			}
			keys[strings.ToLower(k)] = k
			if s.Name == "__typename" {
				hasTn = true
				continue
			}
			fs := pt.Field(s.Name)
			if fs == nil {
				e.out("harness: unknown field %s.%s", parent, s.Name)
				continue
			}
			if len(s.Sels) > 0 {
				e.set(fs.Type.Base(), s.Sels)
			}
		case "i":
			hasFrag = true
			cond := s.Cond
			if cond == "" {
				cond = parent
			}
			note(goFieldName(cond), "fragment on "+cond)
			e.set(cond, s.Sels)
		case "s":
			hasFrag = true
			if _, dup := goNames[goFieldName(s.Name)]; !dup || goNames[goFieldName(s.Name)] != "spread "+s.Name {
				note(goFieldName(s.Name), "spread "+s.Name)
			}
		}
	}
	if hasFrag && pt.Kind != "object" {
		e.abstractFrags++
		if !hasTn {
			e.out("fragments are applied to the %s %s without selecting __typename", pt.Kind, parent)
		}
	}
}

// inEnvelope decides whether a *valid* document is inside the property's envelope. It is written
// independently of the generator (which only tries to stay inside).
func inEnvelope(spec *SchemaSpec, doc *Doc) (ok bool, why string, ec *envChecker) {
	e := &envChecker{spec: spec, doc: doc}
	for _, def := range doc.Defs {
		root := def.Cond
		if def.Kind != "frag" {
			root = spec.RootFor(def.Kind)
			if def.Name != "" && !startsWithLetter(def.Name) {
				e.out("operation name %q", def.Name)
			}
		}
		if spec.Type(root) == nil {
			e.out("harness: no root type for %s", def.Kind)
			continue
		}
		e.set(root, def.Sels)
		e.scope([]scopeList{{parent: root, sels: def.Sels}}, 0)
	}
	return e.why == "", e.why, e
}

// enumConstClash reports an enum whose generated constant names collide (F-20f).
func enumConstClash(spec *SchemaSpec) string {
	for _, t := range spec.Types {
		if t.Kind != "enum" {
			continue
		}
		seen := map[string]string{"": "the type name itself"}
		for _, v := range t.Values {
			c := camel(v)
			if prev, ok := seen[c]; ok {
				return fmt.Sprintf("enum %s: %s and %s both give the constant %s%s", t.Name, prev, v, t.Name, c)
			}
			seen[c] = v
		}
	}
	return ""
}
