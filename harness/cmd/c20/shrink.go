package main

// reductions lists the one-step reductions of a case (delta debugging on the case structure).
func reductions(c *Case) []*Case {
	var out []*Case
	add := func(f func(n *Case) bool) {
		n := cloneCase(*c)
		if f(&n) {
			out = append(out, &n)
		}
	}
	// a single world
	if ws := c.worldList(); len(ws) > 1 {
		for _, w := range ws {
			w := w
			add(func(n *Case) bool { n.WorldIdx = []int{w}; return true })
		}
	}
	// drop a document
	if len(c.Docs) > 1 {
		for i := range c.Docs {
			i := i
			add(func(n *Case) bool { n.Docs = append(n.Docs[:i:i], n.Docs[i+1:]...); return true })
		}
	}
	for di := range c.Docs {
		di := di
		// drop a fragment definition together with its spreads
		for _, def := range c.Docs[di].Defs {
			if def.Kind != "frag" {
				continue
			}
			name := def.Name
			add(func(n *Case) bool {
				d := &n.Docs[di]
				var defs []Def
				for _, x := range d.Defs {
					if x.Kind == "frag" && x.Name == name {
						continue
					}
					x.Sels = dropSpreads(x.Sels, name)
					if len(x.Sels) == 0 {
						return false
					}
					defs = append(defs, x)
				}
				d.Defs = defs
				return true
			})
		}
		// drop one selection / simplify one selection
		for fi := range c.Docs[di].Defs {
			fi := fi
			count := countSels(c.Docs[di].Defs[fi].Sels)
			for k := 0; k < count; k++ {
				k := k
				add(func(n *Case) bool {
					idx := k
					var ok bool
					n.Docs[di].Defs[fi].Sels, ok = dropNth(n.Docs[di].Defs[fi].Sels, &idx)
					return ok && len(n.Docs[di].Defs[fi].Sels) > 0
				})
				add(func(n *Case) bool {
					idx := k
					return simplifyNth(n.Docs[di].Defs[fi].Sels, &idx)
				})
			}
		}
	}
	// schema: drop a type nothing mentions; drop a field nothing selects
	mentioned := map[string]bool{c.Schema.Query: true, c.Schema.Mutation: true, c.Schema.Subscription: true}
	selected := map[string]bool{}
	var walk func(ss []Sel)
	walk = func(ss []Sel) {
		for _, s := range ss {
			if s.Kind == "f" {
				selected[s.Name] = true
			}
			if s.Cond != "" {
				mentioned[s.Cond] = true
			}
			walk(s.Sels)
		}
	}
	for _, d := range c.Docs {
		for _, def := range d.Defs {
			if def.Cond != "" {
				mentioned[def.Cond] = true
			}
			walk(def.Sels)
		}
	}
	for _, t := range c.Schema.Types {
		for _, f := range t.Fields {
			if selected[f.Name] {
				mentioned[f.Type.Base()] = true
			}
		}
	}
	for ti, t := range c.Schema.Types {
		ti, t := ti, t
		if !mentioned[t.Name] {
			add(func(n *Case) bool {
				name := n.Schema.Types[ti].Name
				n.Schema.Types = append(n.Schema.Types[:ti:ti], n.Schema.Types[ti+1:]...)
				for i := range n.Schema.Types {
					x := &n.Schema.Types[i]
					x.Ifaces = without(x.Ifaces, name)
					x.Members = without(x.Members, name)
					var fs []FieldSpec
					for _, f := range x.Fields {
						if f.Type.Base() != name {
							fs = append(fs, f)
						}
					}
					x.Fields = fs
				}
				return true
			})
		}
		if t.Kind == "enum" && len(t.Values) > 1 {
			for vi := range t.Values {
				vi := vi
				add(func(n *Case) bool {
					x := &n.Schema.Types[ti]
					x.Values = append(x.Values[:vi:vi], x.Values[vi+1:]...)
					return true
				})
			}
		}
	}
	for _, fname := range unselectedFields(c, selected) {
		fname := fname
		add(func(n *Case) bool {
			for i := range n.Schema.Types {
				x := &n.Schema.Types[i]
				var fs []FieldSpec
				for _, f := range x.Fields {
					if f.Name != fname {
						fs = append(fs, f)
					}
				}
				x.Fields = fs
			}
			return true
		})
	}
	return out
}

func unselectedFields(c *Case, selected map[string]bool) []string {
	seen := map[string]bool{}
	var out []string
	for _, t := range c.Schema.Types {
		for _, f := range t.Fields {
			if !selected[f.Name] && !seen[f.Name] {
				seen[f.Name] = true
				out = append(out, f.Name)
			}
		}
	}
	return out
}

func without(xs []string, x string) []string {
	var out []string
	for _, y := range xs {
		if y != x {
			out = append(out, y)
		}
	}
	return out
}

func dropSpreads(ss []Sel, name string) []Sel {
	var out []Sel
	for _, s := range ss {
		if s.Kind == "s" && s.Name == name {
			continue
		}
		if len(s.Sels) > 0 {
			s.Sels = dropSpreads(s.Sels, name)
			if len(s.Sels) == 0 {
				continue
			}
		}
		out = append(out, s)
	}
	return out
}

func countSels(ss []Sel) int {
	n := 0
	for _, s := range ss {
		n += 1 + countSels(s.Sels)
	}
	return n
}

// dropNth removes the idx-th selection in pre-order; a parent whose selection set would become empty
// is not touched (ok=false).
func dropNth(ss []Sel, idx *int) ([]Sel, bool) {
	for i := range ss {
		if *idx == 0 {
			*idx = -1
			return append(ss[:i:i], ss[i+1:]...), true
		}
		*idx--
		if len(ss[i].Sels) > 0 {
			sub, ok := dropNth(ss[i].Sels, idx)
			if *idx < 0 {
				if !ok || len(sub) == 0 {
					return ss, false
				}
				ss[i].Sels = sub
				return ss, true
			}
		}
	}
	return ss, false
}

// simplifyNth removes the alias / argument of the idx-th selection, or replaces an inline fragment by
// its body's first selection set owner (no-op when nothing to simplify).
func simplifyNth(ss []Sel, idx *int) bool {
	for i := range ss {
		if *idx == 0 {
			*idx = -1
			s := &ss[i]
			if s.Kind == "f" && (s.Alias != "" || s.Arg != nil) {
				s.Alias, s.Arg = "", nil
				return true
			}
			return false
		}
		*idx--
		if len(ss[i].Sels) > 0 {
			if simplifyNth(ss[i].Sels, idx) {
				return true
			}
			if *idx < 0 {
				return false
			}
		}
	}
	return false
}
