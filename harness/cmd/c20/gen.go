package main

import (
	"fmt"
	"strings"

	"verifharness/hx"
)

// ---- schema generator ------------------------------------------------------------------------------

var objectNames = []string{"Alpha", "Beta", "Gamma", "Delta", "Epsilon"}
var ifaceNames = []string{"Node", "Named", "Shape"}
var unionNames = []string{"Thing", "Either"}
var enumNames = []string{"Color", "Mode", "unit_kind"}

// enum type names that are Go keywords / predeclared identifiers / the json import (F-20h, fix 08)
var reservedEnumNames = []string{"int", "string", "type", "json", "error", "range", "any", "nil", "float64"}
var enumValuePool = []string{"red", "_", "ON_", "RED", "DARK_BLUE", "light_green", "MiXed", "X1", "A_1", "a_b_c", "ON", "OFF", "VERY_LONG_VALUE_NAME", "x", "Z9_z", "TRAILING_", "DOUBLE__UNDER", "aB", "a_b", "AB", "A_B", "Ab", "_a", "a_", "a__b", "_9", "z_9_"}
var fieldNamePool = []string{"id", "name", "age", "score", "ok", "tags", "matrix", "kind", "color", "next", "items", "owner", "peer", "value", "ratio", "note", "x1", "fooBar", "snake_case", "URL", "Zed", "iD2", "q"}

// camel mirrors the generator's constant naming only to keep *generated schemas* free of colliding
// constants (the envelope question of F-20f); it is not an oracle.
func camel(v string) string {
	parts := strings.Split(v, "_")
	for i, p := range parts {
		p = strings.ToLower(p)
		if p != "" {
			p = strings.ToUpper(p[:1]) + p[1:]
		}
		parts[i] = p
	}
	return strings.Join(parts, "")
}

func wrapType(r *hx.Rand, base string, allowList bool) TypeRef {
	t := named(base)
	if r.Chance(1, 3) {
		t = nonNull(t)
	}
	depth := 0
	if allowList {
		switch r.Intn(10) {
		case 0, 1, 2:
			depth = 1
		case 3:
			depth = 2
		case 4:
			if r.Chance(1, 3) {
				depth = 3 // with every level non-null this is the deepest type introspection.Query can describe
			}
		}
	}
	for i := 0; i < depth; i++ {
		t = listOf(t)
		if r.Chance(1, 3) || depth == 3 && r.Chance(2, 3) {
			t = nonNull(t)
		}
	}
	return t
}

func genSchema(r *hx.Rand) SchemaSpec {
	var s SchemaSpec
	nEnum, nIface, nObj, nUnion := r.Range(1, 2), r.Range(0, 2), r.Range(2, 4), r.Range(0, 2)
	if r.Chance(1, 8) {
		nIface, nUnion = 2, 2
	}
	enums := pickN(r, enumNames, nEnum)
	if r.Chance(1, 10) {
		enums[0] = hx.Pick(r, reservedEnumNames)
	}
	ifs := pickN(r, ifaceNames, nIface)
	objs := pickN(r, objectNames, nObj)
	uns := pickN(r, unionNames, nUnion)
	for _, e := range enums {
		vals := pickN(r, enumValuePool, r.Range(1, 5))
		s.Types = append(s.Types, TypeSpec{Kind: "enum", Name: e, Values: vals})
	}
	composite := append(append(append([]string{}, objs...), ifs...), uns...)
	leafTypes := append(append([]string{}, builtinScalars...), enums...)
	fieldType := func(allowComposite bool) TypeRef {
		if allowComposite && r.Chance(2, 5) {
			return wrapType(r, hx.Pick(r, composite), true)
		}
		return wrapType(r, hx.Pick(r, leafTypes), true)
	}
	// one pool of (field name → type) per schema so that equal names have equal types everywhere
	// (keeps fragments on sibling types mergeable)
	fieldTypes := map[string]FieldSpec{}
	field := func(name string) FieldSpec {
		if f, ok := fieldTypes[name]; ok {
			return f
		}
		f := FieldSpec{Name: name, Type: fieldType(true), HasArg: r.Chance(1, 6)}
		fieldTypes[name] = f
		return f
	}
	diffTypes := r.Chance(1, 3)
	ifaceFields := map[string][]FieldSpec{}
	for _, in := range ifs {
		var fs []FieldSpec
		for _, n := range pickN(r, fieldNamePool, r.Range(1, 3)) {
			fs = append(fs, field(n))
		}
		ifaceFields[in] = fs
		s.Types = append(s.Types, TypeSpec{Kind: "iface", Name: in, Fields: fs})
	}
	for _, on := range objs {
		t := TypeSpec{Kind: "object", Name: on}
		for _, in := range ifs {
			if r.Chance(1, 2) {
				t.Ifaces = append(t.Ifaces, in)
				for _, f := range ifaceFields[in] {
					if t.Field(f.Name) == nil {
						t.Fields = append(t.Fields, f)
					}
				}
			}
		}
		for _, n := range pickN(r, fieldNamePool, r.Range(1, 5)) {
			if t.Field(n) == nil {
				f := field(n)
				if diffTypes && r.Chance(1, 3) {
					// the same field name with a different type on a different object type (members of one union,
					// implementers of one interface): fragments on both must use different response keys
					f = FieldSpec{Name: n, Type: fieldType(true), HasArg: f.HasArg}
				}
				t.Fields = append(t.Fields, f)
			}
		}
		s.Types = append(s.Types, t)
	}
	// every interface has at least one implementer (a non-null interface position needs a value)
	for _, in := range ifs {
		if len(s.Possible(in)) == 0 {
			for ti := range s.Types {
				if s.Types[ti].Kind == "object" {
					t := &s.Types[ti]
					t.Ifaces = append(t.Ifaces, in)
					for _, f := range ifaceFields[in] {
						if own := t.Field(f.Name); own == nil {
							t.Fields = append(t.Fields, f)
						} else {
							*own = f // an implementer's field has the interface's type
						}
					}
					break
				}
			}
		}
	}
	// Objects reachable through their interfaces only: no root field, no field of a visible type and no
	// union names them, but they refer to themselves / to each other (Folder.parent: Folder). The tool
	// learns about them from the introspected `types` list alone (AdditionalTypes of the rebuilt schema).
	hidden := map[string]bool{}
	if len(ifs) > 0 && r.Chance(1, 3) {
		var cands []string
		for _, t := range s.Types {
			if t.Kind == "object" && len(t.Ifaces) > 0 {
				cands = append(cands, t.Name)
			}
		}
		if len(cands) > 0 && len(objs) > 1 {
			hx.Shuffle(r, cands)
			n := 1
			if len(cands) > 1 && len(objs) > 2 && r.Bool() {
				n = 2
			}
			for _, h := range cands[:n] {
				hidden[h] = true
			}
		}
	}
	if len(hidden) > 0 {
		// a field of any type that names a hidden object is retargeted to one of the object's interfaces
		// (the same way everywhere, so that equal field names keep equal types)
		var retarget func(t TypeRef) TypeRef
		retarget = func(t TypeRef) TypeRef {
			if t.Kind != "n" {
				in := retarget(*t.Of)
				return TypeRef{Kind: t.Kind, Of: &in}
			}
			if hidden[t.Name] {
				return named(s.Type(t.Name).Ifaces[0])
			}
			return t
		}
		for ti := range s.Types {
			for fi := range s.Types[ti].Fields {
				s.Types[ti].Fields[fi].Type = retarget(s.Types[ti].Fields[fi].Type)
			}
		}
		hs := sortedKeys(hidden)
		for i, h := range hs {
			t := s.Type(h)
			t.Fields = append(t.Fields, FieldSpec{Name: "parent" + h, Type: wrapType(r, h, true)})
			if len(hs) > 1 {
				o := hs[(i+1)%len(hs)]
				t.Fields = append(t.Fields, FieldSpec{Name: "buddy" + o, Type: wrapType(r, o, false)})
			}
		}
		var visible []string
		for _, c := range composite {
			if !hidden[c] {
				visible = append(visible, c)
			}
		}
		composite = visible
	}
	var visibleObjs []string
	for _, o := range objs {
		if !hidden[o] {
			visibleObjs = append(visibleObjs, o)
		}
	}
	for _, un := range uns {
		s.Types = append(s.Types, TypeSpec{Kind: "union", Name: un, Members: pickN(r, visibleObjs, r.Range(1, len(visibleObjs)))})
	}
	// roots: every visible composite type is reachable from Query, plus a few leaves
	q := TypeSpec{Kind: "object", Name: "Query"}
	for i, c := range composite {
		q.Fields = append(q.Fields, FieldSpec{Name: fmt.Sprintf("get%s", c), Type: wrapType(r, c, true), HasArg: i%3 == 0})
	}
	for _, n := range pickN(r, fieldNamePool, r.Range(1, 3)) {
		q.Fields = append(q.Fields, FieldSpec{Name: n, Type: wrapType(r, hx.Pick(r, leafTypes), true)})
	}
	s.Types = append(s.Types, q)
	s.Query = "Query"
	if r.Chance(1, 4) {
		m := TypeSpec{Kind: "object", Name: "Mutation"}
		m.Fields = append(m.Fields, FieldSpec{Name: "touch", Type: wrapType(r, hx.Pick(r, composite), true), HasArg: true})
		m.Fields = append(m.Fields, FieldSpec{Name: "count", Type: named("Int")})
		s.Types = append(s.Types, m)
		s.Mutation = "Mutation"
	}
	// the subscription root is independent of the mutation root (all four combinations occur)
	if r.Chance(1, 3) {
		sub := TypeSpec{Kind: "object", Name: "Subscription"}
		sub.Fields = append(sub.Fields, FieldSpec{Name: "changed", Type: wrapType(r, hx.Pick(r, composite), true), HasArg: r.Bool()})
		sub.Fields = append(sub.Fields, FieldSpec{Name: "tick", Type: wrapType(r, hx.Pick(r, leafTypes), true)})
		s.Types = append(s.Types, sub)
		s.Subscription = "Subscription"
	}
	return s
}

func pickN(r *hx.Rand, pool []string, n int) []string {
	if n > len(pool) {
		n = len(pool)
	}
	xs := append([]string{}, pool...)
	hx.Shuffle(r, xs)
	return xs[:n]
}

// ---- operation generator (type-directed, valid and inside the envelope by construction) ---------

// scope tracks the response keys that can end up in one response object (the parent selection set
// plus every fragment applied at that level, transitively). Two selections may share a key only when
// they are the same field with the same argument and type; then they share the child scope as well.
type scope struct {
	entries map[string]*scopeEntry // lower-case key → entry
}

type scopeEntry struct {
	key, field, sig, typ string
	child               *scope
}

func newScope() *scope { return &scope{entries: map[string]*scopeEntry{}} }

func sigOf(s Sel) string {
	if s.Arg == nil {
		return ""
	}
	return fmt.Sprint(*s.Arg)
}

// admit reports whether a field selection can be added, and returns the child scope to use.
func (sc *scope) admit(key, field, sig, typ string) (*scope, bool) {
	e := sc.entries[strings.ToLower(key)]
	if e == nil {
		return nil, true
	}
	if e.key == key && e.field == field && e.sig == sig && e.typ == typ {
		return e.child, true
	}
	return nil, false
}

func (sc *scope) add(key, field, sig, typ string, child *scope) {
	sc.entries[strings.ToLower(key)] = &scopeEntry{key: key, field: field, sig: sig, typ: typ, child: child}
}

type opGen struct {
	r        *hx.Rand
	spec     *SchemaSpec
	frags    []Def // fragment definitions of the current document
	fragSeq  *int
	prefix   string
	maxDepth int
	// knobs
	allowAliasTypename bool
	collide            string // "" | "holder-vs-key" | "dup-cond"  (F-20d shapes, generated on purpose)
	usedCollide        bool
}

var aliasPool = []string{"a1", "first", "other", "Zed2", "fooBar2", "snake_case2", "URL2", "x", "y", "it", "res", "val", "n0", "Key", "aB", "a_b", "AB", "a_B", "z_9_", "x_", "URL_2"}

func (g *opGen) freshKey(sc *scope) string {
	for i := 0; i < 20; i++ {
		k := hx.Pick(g.r, aliasPool)
		if i > 5 {
			k = fmt.Sprintf("%s%d", k, g.r.Intn(50))
		}
		if sc.entries[strings.ToLower(k)] == nil {
			return k
		}
	}
	return fmt.Sprintf("k%d", g.r.Intn(1000000))
}

// holderName is the Go field name the generator derives for a key / fragment / type condition; it is
// used only to keep in-envelope cases free of F-20d collisions (and to make them on purpose).
func goFieldName(k string) string {
	if strings.HasPrefix(k, "__") {
		k = k[2:] + "__"
	}
	if k == "" {
		return k
	}
	return strings.ToUpper(k[:1]) + k[1:]
}

// selSet generates a selection set for an object of static type `parent`.
// used: Go field names already taken in this *syntactic* selection set.
func (g *opGen) selSet(parent string, depth int, sc *scope) []Sel {
	pt := g.spec.Type(parent)
	var sels []Sel
	used := map[string]bool{}
	// --- fields
	var fields []FieldSpec
	if pt.Kind != "union" {
		fields = pt.Fields
	}
	nf := 0
	if len(fields) > 0 {
		nf = g.r.Range(1, 4)
		if pt.Kind != "object" && g.r.Chance(1, 3) {
			nf = 0
		}
	}
	for i := 0; i < nf; i++ {
		f := hx.Pick(g.r, fields)
		composite := g.spec.IsComposite(f.Type.Base())
		if composite && depth >= g.maxDepth {
			continue
		}
		s := Sel{Kind: "f", Name: f.Name}
		if f.HasArg && g.r.Chance(1, 2) {
			n := g.r.Range(0, 3)
			s.Arg = &n
		}
		if g.r.Chance(1, 4) {
			s.Alias = g.freshKey(sc)
		}
		child, ok := sc.admit(s.Key(), f.Name, sigOf(s), f.Type.String())
		if !ok {
			s.Alias = g.freshKey(sc)
			child, ok = sc.admit(s.Key(), f.Name, sigOf(s), f.Type.String())
			if !ok {
				continue
			}
		}
		if used[goFieldName(s.Key())] {
			continue // never the same key twice in one syntactic selection set
		}
		if composite {
			if child == nil {
				child = newScope()
			}
			s.Sels = g.selSet(f.Type.Base(), depth+1, child)
			if len(s.Sels) == 0 {
				continue
			}
		}
		sc.add(s.Key(), f.Name, sigOf(s), f.Type.String(), child)
		used[goFieldName(s.Key())] = true
		sels = append(sels, s)
	}
	// --- fragments
	nfrag := 0
	if depth < g.maxDepth+1 {
		switch {
		case pt.Kind != "object":
			nfrag = g.r.Range(1, 3)
		case g.r.Chance(1, 4):
			nfrag = g.r.Range(1, 2)
		}
	}
	poss := g.spec.Possible(parent)
	var conds []string
	for _, t := range g.spec.Types {
		if (t.Kind == "object" || t.Kind == "iface" || t.Kind == "union") && overlaps(poss, g.spec.Possible(t.Name)) {
			conds = append(conds, t.Name)
		}
	}
	hasFrag := false
	for i := 0; i < nfrag && len(conds) > 0; i++ {
		cond := hx.Pick(g.r, conds)
		switch k := g.r.Intn(10); {
		case k < 6: // inline fragment with a type condition
			name := goFieldName(cond)
			if used[name] {
				continue
			}
			body := g.selSet(cond, depth+1, sc)
			if len(body) == 0 {
				continue
			}
			used[name] = true
			sels = append(sels, Sel{Kind: "i", Cond: cond, Sels: body})
			hasFrag = true
		case k < 7: // inline fragment without a type condition (F-20a, fixed)
			name := goFieldName(parent)
			if used[name] {
				continue
			}
			body := g.selSet(parent, depth+1, sc)
			if len(body) == 0 {
				continue
			}
			used[name] = true
			sels = append(sels, Sel{Kind: "i", Sels: body})
			hasFrag = true
		default: // named fragment: reuse a compatible one or define a new one
			var name string
			if g.r.Chance(1, 3) {
				for _, f := range g.frags {
					if contains(conds, f.Cond) && !used[goFieldName(f.Name)] && g.mergeFragment(sc, f, true) {
						name = f.Name
						break
					}
				}
			}
			if name == "" {
				*g.fragSeq++
				name = fmt.Sprintf("%sF%d", g.prefix, *g.fragSeq)
				if g.r.Chance(1, 4) {
					name = fmt.Sprintf("%sfrag_%d", strings.ToLower(g.prefix), *g.fragSeq) // lower-case fragment names exist too
				}
				if used[goFieldName(name)] {
					continue
				}
				// the body is generated in a private scope (a fragment is a selection set of its own) and then
				// must be mergeable with the scope it is spread into
				body := g.selSet(cond, depth+1, newScope())
				if len(body) == 0 {
					continue
				}
				def := Def{Kind: "frag", Name: name, Cond: cond, Sels: body}
				if !g.mergeFragment(sc, def, true) {
					// spread it anyway only where it cannot clash: drop it
					continue
				}
				g.frags = append(g.frags, def)
			}
			used[goFieldName(name)] = true
			sels = append(sels, Sel{Kind: "s", Name: name})
			hasFrag = true
		}
	}
	// --- F-20d shapes on purpose
	if g.collide != "" && !g.usedCollide && hasFrag && depth >= 1 {
		for _, s := range sels {
			if s.Kind != "i" || s.Cond == "" {
				continue
			}
			switch g.collide {
			case "dup-cond":
				// repeated type conditions in every order (A A B C B; B A B A; three repeats), some of the repeats
				// nested in an inline fragment without a type condition
				var typed []string
				for _, t := range sels {
					if t.Kind == "i" && t.Cond != "" {
						typed = append(typed, t.Cond)
					}
				}
				for rep, n := 0, g.r.Range(1, 4); rep < n; rep++ {
					cond := hx.Pick(g.r, typed)
					body := g.selSet(cond, g.maxDepth, sc)
					if len(body) == 0 {
						continue
					}
					dup := Sel{Kind: "i", Cond: cond, Sels: body}
					if g.r.Chance(1, 3) {
						inner := []Sel{dup}
						if pt.Kind != "object" {
							inner = []Sel{{Kind: "f", Name: "__typename"}, dup}
						}
						dup = Sel{Kind: "i", Sels: inner}
					}
					pos := g.r.Intn(len(sels) + 1)
					sels = append(sels[:pos], append([]Sel{dup}, sels[pos:]...)...)
					g.usedCollide = true
				}
			case "holder-vs-key":
				// a leaf field aliased so that its Go name equals the holder's
				for _, f := range fields {
					if !g.spec.IsComposite(f.Type.Base()) {
						alias := strings.ToLower(s.Cond[:1]) + s.Cond[1:]
						if _, ok := sc.admit(alias, f.Name, "", f.Type.String()); ok && sc.entries[strings.ToLower(alias)] == nil {
							sc.add(alias, f.Name, "", f.Type.String(), nil)
							sels = append(sels, Sel{Kind: "f", Alias: alias, Name: f.Name})
							g.usedCollide = true
						}
						break
					}
				}
			}
			break
		}
	}
	// --- __typename
	needTn := hasFrag && pt.Kind != "object"
	if needTn || g.r.Chance(1, 6) {
		tn := Sel{Kind: "f", Name: "__typename"}
		if g.allowAliasTypename && g.r.Chance(1, 3) {
			tn.Alias = hx.Pick(g.r, []string{"t", "kind0", "Typ", "tn"})
		}
		child, ok := sc.admit(tn.Key(), "__typename", "", "String!")
		if !ok || used[goFieldName(tn.Key())] {
			tn.Alias = ""
			child, ok = sc.admit(tn.Key(), "__typename", "", "String!")
		}
		if ok && !used[goFieldName(tn.Key())] {
			sc.add(tn.Key(), "__typename", "", "String!", child)
			used[goFieldName(tn.Key())] = true
			// random position: front, back or middle
			pos := g.r.Intn(len(sels) + 1)
			sels = append(sels[:pos], append([]Sel{tn}, sels[pos:]...)...)
		} else if needTn {
			return nil
		}
	}
	return sels
}

func (sc *scope) clone() *scope {
	if sc == nil {
		return nil
	}
	out := newScope()
	for k, e := range sc.entries {
		c := *e
		c.child = e.child.clone()
		out.entries[k] = &c
	}
	return out
}

// mergeFragment checks that the fields a fragment contributes are compatible with the scope it is
// spread into and, if so, adds them to that scope.
func (g *opGen) mergeFragment(sc *scope, f Def, commit bool) bool {
	if !g.mergeSels(sc.clone(), f.Cond, f.Sels) {
		return false
	}
	if commit {
		g.mergeSels(sc, f.Cond, f.Sels)
	}
	return true
}

func (g *opGen) mergeSels(sc *scope, parent string, sels []Sel) bool {
	pt := g.spec.Type(parent)
	if pt == nil {
		return false
	}
	for _, s := range sels {
		switch s.Kind {
		case "f":
			field, typ, base := s.Name, "String!", ""
			if s.Name != "__typename" {
				fs := pt.Field(s.Name)
				if fs == nil {
					return false
				}
				typ, base = fs.Type.String(), fs.Type.Base()
			}
			child, ok := sc.admit(s.Key(), field, sigOf(s), typ)
			if !ok {
				return false
			}
			if len(s.Sels) > 0 {
				if child == nil {
					child = newScope()
				}
				if !g.mergeSels(child, base, s.Sels) {
					return false
				}
			}
			if e := sc.entries[strings.ToLower(s.Key())]; e == nil {
				sc.add(s.Key(), field, sigOf(s), typ, child)
			} else if e.child == nil {
				e.child = child
			}
		case "i":
			cond := s.Cond
			if cond == "" {
				cond = parent
			}
			if !g.mergeSels(sc, cond, s.Sels) {
				return false
			}
		case "s":
			for _, f := range g.frags {
				if f.Name == s.Name {
					if !g.mergeSels(sc, f.Cond, f.Sels) {
						return false
					}
				}
			}
		}
	}
	return true
}

// pruneFrags drops fragment definitions no operation reaches (a discarded subtree may have defined some).
func pruneFrags(op Def, frags []Def) []Def {
	reach := map[string]bool{}
	var walk func(ss []Sel)
	walk = func(ss []Sel) {
		for _, s := range ss {
			if s.Kind == "s" && !reach[s.Name] {
				reach[s.Name] = true
				for _, f := range frags {
					if f.Name == s.Name {
						walk(f.Sels)
					}
				}
			}
			walk(s.Sels)
		}
	}
	walk(op.Sels)
	var out []Def
	for _, f := range frags {
		if reach[f.Name] {
			out = append(out, f)
		}
	}
	return out
}

// genDoc generates one document: one named operation plus the fragments it uses.
func genDoc(r *hx.Rand, spec *SchemaSpec, opName, prefix string, fragSeq *int, collide string) Doc {
	for attempt := 0; ; attempt++ {
		g := &opGen{r: r, spec: spec, fragSeq: fragSeq, prefix: prefix, maxDepth: r.Range(2, 4), allowAliasTypename: r.Chance(1, 3), collide: collide}
		kind, root := "query", spec.Query
		if spec.Mutation != "" && r.Chance(1, 4) {
			kind, root = "mutation", spec.Mutation
		}
		if spec.Subscription != "" && collide == "" && r.Chance(1, 3) {
			kind, root = "subscription", spec.Subscription
		}
		sels := g.selSet(root, 0, newScope())
		if kind == "subscription" {
			// a subscription operation has exactly one root field (sometimes inside `... on Subscription`)
			var one []Sel
			for _, s := range sels {
				if s.Kind == "f" && s.Name != "__typename" {
					one = []Sel{s}
					break
				}
			}
			if one != nil && r.Chance(1, 4) {
				one = []Sel{{Kind: "i", Cond: root, Sels: one}}
			}
			sels = one
		}
		if len(sels) == 0 || (collide != "" && !g.usedCollide && attempt < 30) {
			continue
		}
		d := Doc{}
		op := Def{Kind: kind, Name: opName, Sels: sels}
		g.frags = pruneFrags(op, g.frags)
		// fragments before or after the operation
		if r.Bool() {
			d.Defs = append(d.Defs, op)
			d.Defs = append(d.Defs, g.frags...)
		} else {
			d.Defs = append(d.Defs, g.frags...)
			d.Defs = append(d.Defs, op)
		}
		return d
	}
}

// ---- mutations: invalid documents and documents outside the envelope ---------------------------

// mutateInvalid returns a copy of d changed so that validation (or parsing) should fail. Whether it
// really fails is decided by the real validator, never by this function.
func mutateInvalid(r *hx.Rand, spec *SchemaSpec, d Doc) (Doc, string) {
	d = cloneDoc(d)
	kinds := []string{"unknown-field", "leaf-with-selection", "composite-without-selection", "undefined-fragment", "unused-fragment", "syntax", "bad-condition", "duplicate-operation", "unknown-argument"}
	kind := hx.Pick(r, kinds)
	// pick a random selection set
	var sets []*[]Sel
	var walk func(ss *[]Sel)
	walk = func(ss *[]Sel) {
		sets = append(sets, ss)
		for i := range *ss {
			if len((*ss)[i].Sels) > 0 {
				walk(&(*ss)[i].Sels)
			}
		}
	}
	for i := range d.Defs {
		walk(&d.Defs[i].Sels)
	}
	set := hx.Pick(r, sets)
	switch kind {
	case "unknown-field":
		*set = append(*set, Sel{Kind: "f", Name: "noSuchField"})
	case "leaf-with-selection":
		*set = append(*set, Sel{Kind: "f", Name: "__typename", Alias: "tt", Sels: []Sel{{Kind: "f", Name: "x"}}})
	case "composite-without-selection":
		done := false
		for _, ss := range sets {
			for i := range *ss {
				if (*ss)[i].Kind == "f" && len((*ss)[i].Sels) > 0 && !done {
					(*ss)[i].Sels = nil
					done = true
				}
			}
		}
		if !done {
			*set = append(*set, Sel{Kind: "f", Name: "noSuchField"})
		}
	case "undefined-fragment":
		*set = append(*set, Sel{Kind: "s", Name: "NoSuchFragment"})
	case "unused-fragment":
		d.Defs = append(d.Defs, Def{Kind: "frag", Name: "UnusedFrag", Cond: spec.Query, Sels: []Sel{{Kind: "f", Name: "__typename"}}})
	case "syntax":
		(*set)[len(*set)-1].RawTail = hx.Pick(r, []string{" {", " }", " ...", " :", " (", " $"})
	case "bad-condition":
		*set = append(*set, Sel{Kind: "i", Cond: hx.Pick(r, []string{"NoSuchType", "Int", "Color"}), Sels: []Sel{{Kind: "f", Name: "__typename"}}})
	case "duplicate-operation":
		for _, def := range d.Defs {
			if def.Kind != "frag" {
				d.Defs = append(d.Defs, Def{Kind: def.Kind, Name: def.Name, Sels: []Sel{{Kind: "f", Name: "__typename"}}})
				break
			}
		}
	case "unknown-argument":
		n := 1
		*set = append(*set, Sel{Kind: "f", Name: "__typename", Alias: "ta", Arg: &n})
	}
	return d, kind
}

// dropTypename removes the __typename selections from the abstract selection sets that have
// fragments: still valid GraphQL, but outside the envelope (the tool must refuse it).
func dropTypename(spec *SchemaSpec, d Doc) (Doc, bool) {
	d = cloneDoc(d)
	changed := false
	var walk func(ss []Sel) []Sel
	walk = func(ss []Sel) []Sel {
		hasFrag := false
		for _, s := range ss {
			if s.Kind != "f" {
				hasFrag = true
			}
		}
		var out []Sel
		for _, s := range ss {
			if s.Kind == "f" && s.Name == "__typename" && hasFrag && len(ss) > 1 {
				changed = true
				continue
			}
			if len(s.Sels) > 0 {
				s.Sels = walk(s.Sels)
			}
			out = append(out, s)
		}
		return out
	}
	for i := range d.Defs {
		d.Defs[i].Sels = walk(d.Defs[i].Sels)
	}
	return d, changed
}

func cloneSels(ss []Sel) []Sel {
	if ss == nil {
		return nil
	}
	out := make([]Sel, len(ss))
	for i, s := range ss {
		out[i] = s
		if s.Arg != nil {
			n := *s.Arg
			out[i].Arg = &n
		}
		out[i].Sels = cloneSels(s.Sels)
	}
	return out
}

func cloneDoc(d Doc) Doc {
	out := Doc{Raw: d.Raw}
	for _, def := range d.Defs {
		def.Sels = cloneSels(def.Sels)
		out.Defs = append(out.Defs, def)
	}
	return out
}

func cloneCase(c Case) Case {
	out := c
	out.Schema.Types = nil
	for _, t := range c.Schema.Types {
		t.Values = append([]string{}, t.Values...)
		t.Fields = append([]FieldSpec{}, t.Fields...)
		t.Ifaces = append([]string{}, t.Ifaces...)
		t.Members = append([]string{}, t.Members...)
		out.Schema.Types = append(out.Schema.Types, t)
	}
	out.Docs = nil
	for _, d := range c.Docs {
		out.Docs = append(out.Docs, cloneDoc(d))
	}
	return out
}

// genCase draws one case. kind selects the stream.
func genCase(r *hx.Rand, idx int) Case {
	spec := genSchema(r)
	switch k := r.Intn(100); {
	case k < 8:
		spec.Dirs = "none"
	case k < 15:
		spec.Dirs = "skip"
	case k < 22:
		spec.Dirs = "include"
	case k < 30:
		spec.Dirs = "custom"
	}
	switch k := r.Intn(10); {
	case k < 2:
		spec.DescMode = 1
	case k < 5:
		spec.DescMode = 2
	}
	c := Case{Schema: spec, Seed: r.Uint64(), Worlds: 4}
	nDocs := 1
	if r.Chance(1, 3) {
		nDocs = r.Range(2, 3)
	}
	fragSeq := 0
	stream := r.Intn(100)
	collide := ""
	switch {
	case stream < 4:
		collide = "dup-cond"
	case stream < 8:
		collide = "holder-vs-key"
	}
	for i := 0; i < nDocs; i++ {
		c.Docs = append(c.Docs, genDoc(r, &c.Schema, fmt.Sprintf("Q%d", i+1), fmt.Sprintf("D%d", i+1), &fragSeq, collide))
		collide = ""
	}
	// directives on selections (no-op values, so the response is complete); an undeclared one makes the
	// document invalid for the server — and must make it invalid for the tool
	undeclared := false
	if r.Chance(2, 5) || stream < 4 {
		allowUndeclared := stream >= 8 && r.Chance(1, 4)
		for i := range c.Docs {
			for j := range c.Docs[i].Defs {
				if attachDirectives(r, &c.Schema, c.Docs[i].Defs[j].Sels, stream < 4, allowUndeclared) {
					undeclared = true
				}
			}
		}
	}
	c.Label = "valid"
	if undeclared {
		c.Label = "invalid:undeclared-directive"
	}
	switch {
	case undeclared:
	case stream < 4:
		c.Label = "collide-dup-cond"
	case stream < 8:
		c.Label = "collide-holder-vs-key"
	case stream < 22:
		i := r.Intn(len(c.Docs))
		var k string
		c.Docs[i], k = mutateInvalid(r, &c.Schema, c.Docs[i])
		c.Label = "invalid:" + k
	case stream < 30:
		i := r.Intn(len(c.Docs))
		if d, ok := dropTypename(&c.Schema, c.Docs[i]); ok {
			c.Docs[i] = d
			c.Label = "no-typename"
		}
	case stream < 33:
		c.Docs[0].Defs = append(c.Docs[0].Defs[:0:0], c.Docs[0].Defs...)
		for j := range c.Docs[0].Defs {
			if c.Docs[0].Defs[j].Kind != "frag" {
				c.Docs[0].Defs[j].Name = ""
			}
		}
		c.Label = "anonymous-operation"
	case stream >= 48 && stream < 54:
		if longIdentifiers(r, &c) {
			c.Label = "long-identifiers"
		}
	case stream >= 44 && stream < 48:
		// identifiers at the edge of the Go scopes (findings F-20i/j/k and their near misses, which must pass)
		if k := scopeEdge(r, &c); k != "" {
			c.Label = "scope-edge:" + k
		}
	case stream >= 37 && stream < 44:
		// response keys that differ only in letter case in fragments on *different object types*: they never
		// meet in one response object (inside the envelope and inside decode_preserves_leaves)
		if caseVariantAcrossFragments(r, &c.Schema, &c) {
			c.Label = "case-variant-across-disjoint-fragments"
		}
	case stream < 37:
		// enum constants that collide after camel-casing (F-20f shape), only if an operation selects the enum
		for ti := range c.Schema.Types {
			if c.Schema.Types[ti].Kind == "enum" {
				v := c.Schema.Types[ti].Values[0]
				alt := strings.ToLower(v)
				if alt == v {
					alt = strings.ToUpper(v)
				}
				if alt != v && !contains(c.Schema.Types[ti].Values, alt) {
					c.Schema.Types[ti].Values = append(c.Schema.Types[ti].Values, alt)
					c.Label = "enum-const-collision"
				}
				break
			}
		}
	}
	return c
}

func declaredDirectiveUses(spec *SchemaSpec) (declared, undeclared []string) {
	has := map[string]bool{"skip": true, "include": true}
	switch spec.Dirs {
	case "none":
		has = map[string]bool{}
	case "skip":
		has = map[string]bool{"skip": true}
	case "include":
		has = map[string]bool{"include": true}
	case "custom":
		has["tag"] = true
	}
	for _, d := range []struct{ name, use string }{{"include", "@include(if: true)"}, {"skip", "@skip(if: false)"}, {"tag", "@tag"}} {
		if has[d.name] {
			declared = append(declared, d.use)
		} else {
			undeclared = append(undeclared, d.use)
		}
	}
	return
}

// effectiveDirectiveUses: declared directives with a value that removes the selection from the
// response (the keys are absent from the executor's data; the decoded fields keep their zero values).
func effectiveDirectiveUses(spec *SchemaSpec) []string {
	var out []string
	switch spec.Dirs {
	case "", "custom":
		out = []string{"@skip(if: true)", "@include(if: false)"}
	case "skip":
		out = []string{"@skip(if: true)"}
	case "include":
		out = []string{"@include(if: false)"}
	}
	return out
}

// removesSelection: the directive (as written by the harness) takes the selection out of the response.
func removesSelection(dir string) bool {
	return dir == "@skip(if: true)" || dir == "@include(if: false)"
}

// attachDirectives puts directives on some selections (fields, inline fragments, spreads). Declared
// ones mostly; when forceInline is set (the repeated-type-condition stream) inline fragments get one
// with probability 1/2. Reports whether an undeclared directive was used.
func attachDirectives(r *hx.Rand, spec *SchemaSpec, sels []Sel, forceInline, allowUndeclared bool) bool {
	declared, undecl := declaredDirectiveUses(spec)
	effective := effectiveDirectiveUses(spec)
	used := false
	var walk func(ss []Sel)
	walk = func(ss []Sel) {
		for i := range ss {
			p := 8
			if forceInline && ss[i].Kind == "i" {
				p = 2
			}
			if r.Chance(1, p) {
				pool := declared
				if allowUndeclared && len(undecl) > 0 && (len(declared) == 0 || r.Chance(1, 4)) {
					pool = undecl
					used = true
				} else if len(effective) > 0 && !forceInline && !(ss[i].Kind == "f" && ss[i].Name == "__typename") && r.Chance(1, 3) {
					// a directive that really removes the selection (never __typename: the property asks for it to
					// be selected wherever fragments are applied)
					pool = effective
				}
				if len(pool) > 0 {
					ss[i].Dir = hx.Pick(r, pool)
				}
			}
			walk(ss[i].Sels)
		}
	}
	walk(sels)
	return used
}

// swapFirstCase: the key with the case of its first letter swapped (`x` ↦ `X`, `URL` ↦ `uRL`).
func swapFirstCase(k string) string {
	if k == "" {
		return k
	}
	c := k[0]
	switch {
	case c >= 'a' && c <= 'z':
		return string(c-32) + k[1:]
	case c >= 'A' && c <= 'Z':
		return string(c+32) + k[1:]
	}
	return k
}

// caseVariantAcrossFragments looks for a selection set with two inline fragments on different object
// types and aliases a field of the second to a case variant of a key of the first. Reports whether it
// changed anything. (Whether the result is valid / inside the envelope is decided by the real validator
// and by inEnvelope.)
func caseVariantAcrossFragments(r *hx.Rand, spec *SchemaSpec, c *Case) bool {
	isObj := func(n string) bool { t := spec.Type(n); return t != nil && t.Kind == "object" }
	var try func(ss []Sel) bool
	try = func(ss []Sel) bool {
		var frags []int
		direct := map[string]bool{}
		for i := range ss {
			if ss[i].Kind == "i" && isObj(ss[i].Cond) {
				frags = append(frags, i)
			}
			if ss[i].Kind == "f" {
				direct[strings.ToLower(ss[i].Key())] = true
			}
		}
		for _, ia := range frags {
			for _, ib := range frags {
				a, b := &ss[ia], &ss[ib]
				if ia == ib || a.Cond == b.Cond {
					continue
				}
				for _, sa := range a.Sels {
					if sa.Kind != "f" || sa.Name == "__typename" || direct[strings.ToLower(sa.Key())] {
						continue
					}
					v := swapFirstCase(sa.Key())
					if v == sa.Key() {
						continue
					}
					taken := false
					for _, sb := range b.Sels {
						if sb.Kind == "f" && strings.EqualFold(sb.Key(), v) {
							taken = true
						}
					}
					if taken {
						continue
					}
					for j := range b.Sels {
						sb := &b.Sels[j]
						if sb.Kind == "f" && sb.Name != "__typename" && r.Chance(2, 3) {
							sb.Alias = v
							return true
						}
					}
				}
			}
		}
		for i := range ss {
			if try(ss[i].Sels) {
				return true
			}
		}
		return false
	}
	for di := range c.Docs {
		for fi := range c.Docs[di].Defs {
			if try(c.Docs[di].Defs[fi].Sels) {
				return true
			}
		}
	}
	return false
}

// renameEnum renames an enum type and every reference to it.
func renameEnum(spec *SchemaSpec, from, to string) {
	for ti := range spec.Types {
		if spec.Types[ti].Kind == "enum" && spec.Types[ti].Name == from {
			spec.Types[ti].Name = to
		}
		for fi := range spec.Types[ti].Fields {
			t := &spec.Types[ti].Fields[fi].Type
			for t.Of != nil {
				t = t.Of
			}
			if t.Name == from {
				t.Name = to
			}
		}
	}
}

// scopeEdge edits a valid case so that a generated identifier sits at the edge of a Go scope: an enum
// type named like a parameter of the generated method (F-20k) or almost, an enum whose name is another
// enum's constant (F-20i) or almost, a response key whose Go name is Typename__ next to __typename
// (F-20j) or almost. Returns what it did ("" = nothing). The outcome is decided by the oracles and, for
// the three open findings, by their classifiers.
func scopeEdge(r *hx.Rand, c *Case) string {
	c.Docs = cloneCase(*c).Docs
	var enums []int
	for ti, t := range c.Schema.Types {
		if t.Kind == "enum" {
			enums = append(enums, ti)
		}
	}
	switch r.Intn(4) {
	case 3:
		// a fragment named `_` (F-20l) or merely beginning with `_` (must pass)
		to := hx.Pick(r, []string{"_", "_", "_x", "_9", "_F_", "x_"})
		for di := range c.Docs {
			for fi := range c.Docs[di].Defs {
				d := &c.Docs[di].Defs[fi]
				if d.Kind != "frag" || c.Docs[di].Frag(to) != nil {
					continue
				}
				from := d.Name
				d.Name = to
				var walk func(ss []Sel)
				walk = func(ss []Sel) {
					for i := range ss {
						if ss[i].Kind == "s" && ss[i].Name == from {
							ss[i].Name = to
						}
						walk(ss[i].Sels)
					}
				}
				for fj := range c.Docs[di].Defs {
					walk(c.Docs[di].Defs[fj].Sels)
				}
				return "fragment-named-" + to
			}
		}
		return ""
	case 0:
		if len(enums) == 0 {
			return ""
		}
		to := hx.Pick(r, []string{"s", "b", "base", "err", "S", "B", "bb", "sel", "selfie", "t", "v"})
		if c.Schema.Type(to) != nil {
			return ""
		}
		renameEnum(&c.Schema, c.Schema.Types[enums[0]].Name, to)
		return "enum-named-" + to
	case 1:
		if len(enums) == 0 {
			return ""
		}
		e := c.Schema.Types[enums[0]]
		cs := enumConstantsRef(&e)
		if len(cs) == 0 {
			return ""
		}
		name := cs[r.Intn(len(cs))]
		kind := "enum-named-like-constant"
		if r.Chance(1, 2) {
			name += "_" // a near miss: no clash
			kind = "enum-named-almost-like-constant"
		}
		if c.Schema.Type(name) != nil {
			return ""
		}
		c.Schema.Types = append(c.Schema.Types, TypeSpec{Kind: "enum", Name: name, Values: []string{"X", "y_z"}})
		q := c.Schema.Type(c.Schema.Query)
		if q == nil || q.Field("zz9") != nil {
			return ""
		}
		q.Fields = append(q.Fields, FieldSpec{Name: "zz9", Type: named(name)})
		for di := range c.Docs {
			for fi := range c.Docs[di].Defs {
				if c.Docs[di].Defs[fi].Kind == "query" {
					c.Docs[di].Defs[fi].Sels = append(c.Docs[di].Defs[fi].Sels, Sel{Kind: "f", Name: "zz9"})
					return kind
				}
			}
		}
		return ""
	default:
		alias := hx.Pick(r, []string{"typename__", "Typename__", "TYPENAME__", "tYPENAME__", "typename_", "typename"})
		var try func(ss []Sel) bool
		try = func(ss []Sel) bool {
			hasTn := false
			for _, s := range ss {
				if s.Kind == "f" && s.Key() == "__typename" {
					hasTn = true
				}
				if s.Kind == "f" && strings.EqualFold(s.Key(), alias) {
					return false
				}
			}
			if hasTn {
				for i := range ss {
					if ss[i].Kind == "f" && ss[i].Name != "__typename" {
						ss[i].Alias = alias
						return true
					}
				}
			}
			for i := range ss {
				if try(ss[i].Sels) {
					return true
				}
			}
			return false
		}
		for di := range c.Docs {
			for fi := range c.Docs[di].Defs {
				if try(c.Docs[di].Defs[fi].Sels) {
					return "key-" + alias + "-next-to-typename"
				}
			}
		}
		return ""
	}
}

// longName: `base` padded to exactly n bytes with a repeating tail (n = 33..48, 64, 255, 300).
func longName(base string, n int) string {
	pad := "_longIdentifier9"
	for len(base) < n {
		base += pad
	}
	return base[:n]
}

func pickLen(r *hx.Rand) int {
	return hx.Pick(r, []int{33, 40, 48, 64, 255, 300})
}

// renameType renames a type everywhere in the schema and the documents.
func renameType(c *Case, from, to string) {
	sp := &c.Schema
	for ti := range sp.Types {
		t := &sp.Types[ti]
		if t.Name == from {
			t.Name = to
		}
		for i := range t.Ifaces {
			if t.Ifaces[i] == from {
				t.Ifaces[i] = to
			}
		}
		for i := range t.Members {
			if t.Members[i] == from {
				t.Members[i] = to
			}
		}
		for fi := range t.Fields {
			ft := &t.Fields[fi].Type
			// the type reference is a tree of pointers shared between equal field specs: copy before writing
			*ft = renameRef(*ft, from, to)
		}
	}
	if sp.Query == from {
		sp.Query = to
	}
	if sp.Mutation == from {
		sp.Mutation = to
	}
	if sp.Subscription == from {
		sp.Subscription = to
	}
	var walk func(ss []Sel)
	walk = func(ss []Sel) {
		for i := range ss {
			if ss[i].Kind == "i" && ss[i].Cond == from {
				ss[i].Cond = to
			}
			walk(ss[i].Sels)
		}
	}
	for di := range c.Docs {
		for fi := range c.Docs[di].Defs {
			if c.Docs[di].Defs[fi].Cond == from {
				c.Docs[di].Defs[fi].Cond = to
			}
			walk(c.Docs[di].Defs[fi].Sels)
		}
	}
}

func renameRef(t TypeRef, from, to string) TypeRef {
	if t.Of != nil {
		in := renameRef(*t.Of, from, to)
		return TypeRef{Kind: t.Kind, Of: &in}
	}
	if t.Name == from {
		t.Name = to
	}
	return t
}

// longIdentifiers gives long names (33–48, 64, 255, 300 bytes) to the operations, the fragments, one or
// two composite types, an enum, and some aliases of a valid case.
func longIdentifiers(r *hx.Rand, c *Case) bool {
	c.Docs = cloneCase(*c).Docs
	// operations and fragments
	for di := range c.Docs {
		frag := map[string]string{}
		for fi := range c.Docs[di].Defs {
			d := &c.Docs[di].Defs[fi]
			if d.Name == "" {
				continue
			}
			n := longName(d.Name, pickLen(r))
			if d.Kind == "frag" {
				frag[d.Name] = n
			}
			d.Name = n
		}
		var walk func(ss []Sel)
		walk = func(ss []Sel) {
			for i := range ss {
				if ss[i].Kind == "s" {
					if n, ok := frag[ss[i].Name]; ok {
						ss[i].Name = n
					}
				}
				if ss[i].Kind == "f" && ss[i].Alias != "" && ss[i].Name != "__typename" && r.Chance(1, 2) {
					ss[i].Alias = longName(ss[i].Alias, pickLen(r))
				}
				walk(ss[i].Sels)
			}
		}
		for fi := range c.Docs[di].Defs {
			walk(c.Docs[di].Defs[fi].Sels)
		}
	}
	// types
	var names []string
	for _, t := range c.Schema.Types {
		if t.Name != c.Schema.Query && t.Name != c.Schema.Mutation && t.Name != c.Schema.Subscription && !contains(reservedEnumNames, t.Name) {
			names = append(names, t.Name)
		}
	}
	hx.Shuffle(r, names)
	for i := 0; i < len(names) && i < 3; i++ {
		renameType(c, names[i], longName(names[i], pickLen(r)))
	}
	return true
}
