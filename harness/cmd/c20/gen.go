package main

import (
	"fmt"
	"strings"

	"verifharness/hx"
)

// ---- schema generator ------------------------------------------------------------------------------

var objectNames = []string{"Alpha", "Beta", "Gamma", "Delta", "Epsilon"}
var ifaceNames = []string{"Node", "Named", "Shape"}
var unionNames = []string{"Thing", "Either"}
var enumNames = []string{"Color", "Mode", "unit_kind"}

// enum type names that are Go keywords / predeclared identifiers / the json import (F-20h, fix 08)
var reservedEnumNames = []string{"int", "string", "type", "json", "error", "range", "any", "nil", "float64"}
var enumValuePool = []string{"red", "_", "ON_", "RED", "DARK_BLUE", "light_green", "MiXed", "X1", "A_1", "a_b_c", "ON", "OFF", "VERY_LONG_VALUE_NAME", "x", "Z9_z", "TRAILING_", "DOUBLE__UNDER"}
var fieldNamePool = []string{"id", "name", "age", "score", "ok", "tags", "matrix", "kind", "color", "next", "items", "owner", "peer", "value", "ratio", "note", "x1", "fooBar", "snake_case", "URL", "Zed", "iD2", "q"}

// camel mirrors the generator's constant naming only to keep *generated schemas* free of colliding
// constants (the envelope question of F-20f); it is not an oracle.
func camel(v string) string {
	parts := strings.Split(v, "_")
	for i, p := range parts {
		p = strings.ToLower(p)
		if p != "" {
			p = strings.ToUpper(p[:1]) + p[1:]
		}
		parts[i] = p
	}
	return strings.Join(parts, "")
}

func wrapType(r *hx.Rand, base string, allowList bool) TypeRef {
	t := named(base)
	if r.Chance(1, 3) {
		t = nonNull(t)
	}
	depth := 0
	if allowList {
		switch r.Intn(10) {
		case 0, 1, 2:
			depth = 1
		case 3:
			depth = 2
		case 4:
			if r.Chance(1, 3) {
				depth = 3 // with every level non-null this is the deepest type introspection.Query can describe
			}
		}
	}
	for i := 0; i < depth; i++ {
		t = listOf(t)
		if r.Chance(1, 3) || depth == 3 && r.Chance(2, 3) {
			t = nonNull(t)
		}
	}
	return t
}

func genSchema(r *hx.Rand) SchemaSpec {
	var s SchemaSpec
	nEnum, nIface, nObj, nUnion := r.Range(1, 2), r.Range(0, 2), r.Range(2, 4), r.Range(0, 2)
	if r.Chance(1, 8) {
		nIface, nUnion = 2, 2
	}
	enums := pickN(r, enumNames, nEnum)
	if r.Chance(1, 10) {
		enums[0] = hx.Pick(r, reservedEnumNames)
	}
	ifs := pickN(r, ifaceNames, nIface)
	objs := pickN(r, objectNames, nObj)
	uns := pickN(r, unionNames, nUnion)
	for _, e := range enums {
		vals := pickN(r, enumValuePool, r.Range(1, 5))
		s.Types = append(s.Types, TypeSpec{Kind: "enum", Name: e, Values: vals})
	}
	composite := append(append(append([]string{}, objs...), ifs...), uns...)
	leafTypes := append(append([]string{}, builtinScalars...), enums...)
	fieldType := func(allowComposite bool) TypeRef {
		if allowComposite && r.Chance(2, 5) {
			return wrapType(r, hx.Pick(r, composite), true)
		}
		return wrapType(r, hx.Pick(r, leafTypes), true)
	}
	// one pool of (field name → type) per schema so that equal names have equal types everywhere
	// (keeps fragments on sibling types mergeable)
	fieldTypes := map[string]FieldSpec{}
	field := func(name string) FieldSpec {
		if f, ok := fieldTypes[name]; ok {
			return f
		}
		f := FieldSpec{Name: name, Type: fieldType(true), HasArg: r.Chance(1, 6)}
		fieldTypes[name] = f
		return f
	}
	ifaceFields := map[string][]FieldSpec{}
	for _, in := range ifs {
		var fs []FieldSpec
		for _, n := range pickN(r, fieldNamePool, r.Range(1, 3)) {
			fs = append(fs, field(n))
		}
		ifaceFields[in] = fs
		s.Types = append(s.Types, TypeSpec{Kind: "iface", Name: in, Fields: fs})
	}
	for _, on := range objs {
		t := TypeSpec{Kind: "object", Name: on}
		for _, in := range ifs {
			if r.Chance(1, 2) {
				t.Ifaces = append(t.Ifaces, in)
				for _, f := range ifaceFields[in] {
					if t.Field(f.Name) == nil {
						t.Fields = append(t.Fields, f)
					}
				}
			}
		}
		for _, n := range pickN(r, fieldNamePool, r.Range(1, 5)) {
			if t.Field(n) == nil {
				t.Fields = append(t.Fields, field(n))
			}
		}
		s.Types = append(s.Types, t)
	}
	// every interface has at least one implementer (a non-null interface position needs a value)
	for _, in := range ifs {
		if len(s.Possible(in)) == 0 {
			for ti := range s.Types {
				if s.Types[ti].Kind == "object" {
					t := &s.Types[ti]
					t.Ifaces = append(t.Ifaces, in)
					for _, f := range ifaceFields[in] {
						if t.Field(f.Name) == nil {
							t.Fields = append(t.Fields, f)
						}
					}
					break
				}
			}
		}
	}
	// Objects reachable through their interfaces only: no root field, no field of a visible type and no
	// union names them, but they refer to themselves / to each other (Folder.parent: Folder). The tool
	// learns about them from the introspected `types` list alone (AdditionalTypes of the rebuilt schema).
	hidden := map[string]bool{}
	if len(ifs) > 0 && r.Chance(1, 3) {
		var cands []string
		for _, t := range s.Types {
			if t.Kind == "object" && len(t.Ifaces) > 0 {
				cands = append(cands, t.Name)
			}
		}
		if len(cands) > 0 && len(objs) > 1 {
			hx.Shuffle(r, cands)
			n := 1
			if len(cands) > 1 && len(objs) > 2 && r.Bool() {
				n = 2
			}
			for _, h := range cands[:n] {
				hidden[h] = true
			}
		}
	}
	if len(hidden) > 0 {
		// a field of any type that names a hidden object is retargeted to one of the object's interfaces
		// (the same way everywhere, so that equal field names keep equal types)
		var retarget func(t TypeRef) TypeRef
		retarget = func(t TypeRef) TypeRef {
			if t.Kind != "n" {
				in := retarget(*t.Of)
				return TypeRef{Kind: t.Kind, Of: &in}
			}
			if hidden[t.Name] {
				return named(s.Type(t.Name).Ifaces[0])
			}
			return t
		}
		for ti := range s.Types {
			for fi := range s.Types[ti].Fields {
				s.Types[ti].Fields[fi].Type = retarget(s.Types[ti].Fields[fi].Type)
			}
		}
		hs := sortedKeys(hidden)
		for i, h := range hs {
			t := s.Type(h)
			t.Fields = append(t.Fields, FieldSpec{Name: "parent" + h, Type: wrapType(r, h, true)})
			if len(hs) > 1 {
				o := hs[(i+1)%len(hs)]
				t.Fields = append(t.Fields, FieldSpec{Name: "buddy" + o, Type: wrapType(r, o, false)})
			}
		}
		var visible []string
		for _, c := range composite {
			if !hidden[c] {
				visible = append(visible, c)
			}
		}
		composite = visible
	}
	var visibleObjs []string
	for _, o := range objs {
		if !hidden[o] {
			visibleObjs = append(visibleObjs, o)
		}
	}
	for _, un := range uns {
		s.Types = append(s.Types, TypeSpec{Kind: "union", Name: un, Members: pickN(r, visibleObjs, r.Range(1, len(visibleObjs)))})
	}
	// roots: every visible composite type is reachable from Query, plus a few leaves
	q := TypeSpec{Kind: "object", Name: "Query"}
	for i, c := range composite {
		q.Fields = append(q.Fields, FieldSpec{Name: fmt.Sprintf("get%s", c), Type: wrapType(r, c, true), HasArg: i%3 == 0})
	}
	for _, n := range pickN(r, fieldNamePool, r.Range(1, 3)) {
		q.Fields = append(q.Fields, FieldSpec{Name: n, Type: wrapType(r, hx.Pick(r, leafTypes), true)})
	}
	s.Types = append(s.Types, q)
	s.Query = "Query"
	if r.Chance(1, 4) {
		m := TypeSpec{Kind: "object", Name: "Mutation"}
		m.Fields = append(m.Fields, FieldSpec{Name: "touch", Type: wrapType(r, hx.Pick(r, composite), true), HasArg: true})
		m.Fields = append(m.Fields, FieldSpec{Name: "count", Type: named("Int")})
		s.Types = append(s.Types, m)
		s.Mutation = "Mutation"
	}
	// the subscription root is independent of the mutation root (all four combinations occur)
	if r.Chance(1, 3) {
		sub := TypeSpec{Kind: "object", Name: "Subscription"}
		sub.Fields = append(sub.Fields, FieldSpec{Name: "changed", Type: wrapType(r, hx.Pick(r, composite), true), HasArg: r.Bool()})
		sub.Fields = append(sub.Fields, FieldSpec{Name: "tick", Type: wrapType(r, hx.Pick(r, leafTypes), true)})
		s.Types = append(s.Types, sub)
		s.Subscription = "Subscription"
	}
	return s
}

func pickN(r *hx.Rand, pool []string, n int) []string {
	if n > len(pool) {
		n = len(pool)
	}
	xs := append([]string{}, pool...)
	hx.Shuffle(r, xs)
	return xs[:n]
}

// ---- operation generator (type-directed, valid and inside the envelope by construction) ---------

// scope tracks the response keys that can end up in one response object (the parent selection set
// plus every fragment applied at that level, transitively). Two selections may share a key only when
// they are the same field with the same argument and type; then they share the child scope as well.
type scope struct {
	entries map[string]*scopeEntry // lower-case key → entry
}

type scopeEntry struct {
	key, field, sig, typ string
	child               *scope
}

func newScope() *scope { return &scope{entries: map[string]*scopeEntry{}} }

func sigOf(s Sel) string {
	if s.Arg == nil {
		return ""
	}
	return fmt.Sprint(*s.Arg)
}

// admit reports whether a field selection can be added, and returns the child scope to use.
func (sc *scope) admit(key, field, sig, typ string) (*scope, bool) {
	e := sc.entries[strings.ToLower(key)]
	if e == nil {
		return nil, true
	}
	if e.key == key && e.field == field && e.sig == sig && e.typ == typ {
		return e.child, true
	}
	return nil, false
}

func (sc *scope) add(key, field, sig, typ string, child *scope) {
	sc.entries[strings.ToLower(key)] = &scopeEntry{key: key, field: field, sig: sig, typ: typ, child: child}
}

type opGen struct {
	r        *hx.Rand
	spec     *SchemaSpec
	frags    []Def // fragment definitions of the current document
	fragSeq  *int
	prefix   string
	maxDepth int
	// knobs
	allowAliasTypename bool
	collide            string // "" | "holder-vs-key" | "dup-cond"  (F-20d shapes, generated on purpose)
	usedCollide        bool
}

var aliasPool = []string{"a1", "first", "other", "Zed2", "fooBar2", "snake_case2", "URL2", "x", "y", "it", "res", "val", "n0", "Key", "aB"}

func (g *opGen) freshKey(sc *scope) string {
	for i := 0; i < 20; i++ {
		k := hx.Pick(g.r, aliasPool)
		if i > 5 {
			k = fmt.Sprintf("%s%d", k, g.r.Intn(50))
		}
		if sc.entries[strings.ToLower(k)] == nil {
			return k
		}
	}
	return fmt.Sprintf("k%d", g.r.Intn(1000000))
}

// holderName is the Go field name the generator derives for a key / fragment / type condition; it is
// used only to keep in-envelope cases free of F-20d collisions (and to make them on purpose).
func goFieldName(k string) string {
	if strings.HasPrefix(k, "__") {
		k = k[2:] + "__"
	}
	if k == "" {
		return k
	}
	return strings.ToUpper(k[:1]) + k[1:]
}

// selSet generates a selection set for an object of static type `parent`.
// used: Go field names already taken in this *syntactic* selection set.
func (g *opGen) selSet(parent string, depth int, sc *scope) []Sel {
	pt := g.spec.Type(parent)
	var sels []Sel
	used := map[string]bool{}
	// --- fields
	var fields []FieldSpec
	if pt.Kind != "union" {
		fields = pt.Fields
	}
	nf := 0
	if len(fields) > 0 {
		nf = g.r.Range(1, 4)
		if pt.Kind != "object" && g.r.Chance(1, 3) {
			nf = 0
		}
	}
	for i := 0; i < nf; i++ {
		f := hx.Pick(g.r, fields)
		composite := g.spec.IsComposite(f.Type.Base())
		if composite && depth >= g.maxDepth {
			continue
		}
		s := Sel{Kind: "f", Name: f.Name}
		if f.HasArg && g.r.Chance(1, 2) {
			n := g.r.Range(0, 3)
			s.Arg = &n
		}
		if g.r.Chance(1, 4) {
			s.Alias = g.freshKey(sc)
		}
		child, ok := sc.admit(s.Key(), f.Name, sigOf(s), f.Type.String())
		if !ok {
			s.Alias = g.freshKey(sc)
			child, ok = sc.admit(s.Key(), f.Name, sigOf(s), f.Type.String())
			if !ok {
				continue
			}
		}
		if used[goFieldName(s.Key())] {
			continue // never the same key twice in one syntactic selection set
		}
		if composite {
			if child == nil {
				child = newScope()
			}
			s.Sels = g.selSet(f.Type.Base(), depth+1, child)
			if len(s.Sels) == 0 {
				continue
			}
		}
		sc.add(s.Key(), f.Name, sigOf(s), f.Type.String(), child)
		used[goFieldName(s.Key())] = true
		sels = append(sels, s)
	}
	// --- fragments
	nfrag := 0
	if depth < g.maxDepth+1 {
		switch {
		case pt.Kind != "object":
			nfrag = g.r.Range(1, 3)
		case g.r.Chance(1, 4):
			nfrag = g.r.Range(1, 2)
		}
	}
	poss := g.spec.Possible(parent)
	var conds []string
	for _, t := range g.spec.Types {
		if (t.Kind == "object" || t.Kind == "iface" || t.Kind == "union") && overlaps(poss, g.spec.Possible(t.Name)) {
			conds = append(conds, t.Name)
		}
	}
	hasFrag := false
	for i := 0; i < nfrag && len(conds) > 0; i++ {
		cond := hx.Pick(g.r, conds)
		switch k := g.r.Intn(10); {
		case k < 6: // inline fragment with a type condition
			name := goFieldName(cond)
			if used[name] {
				continue
			}
			body := g.selSet(cond, depth+1, sc)
			if len(body) == 0 {
				continue
			}
			used[name] = true
			sels = append(sels, Sel{Kind: "i", Cond: cond, Sels: body})
			hasFrag = true
		case k < 7: // inline fragment without a type condition (F-20a, fixed)
			name := goFieldName(parent)
			if used[name] {
				continue
			}
			body := g.selSet(parent, depth+1, sc)
			if len(body) == 0 {
				continue
			}
			used[name] = true
			sels = append(sels, Sel{Kind: "i", Sels: body})
			hasFrag = true
		default: // named fragment: reuse a compatible one or define a new one
			var name string
			if g.r.Chance(1, 3) {
				for _, f := range g.frags {
					if contains(conds, f.Cond) && !used[goFieldName(f.Name)] && g.mergeFragment(sc, f, true) {
						name = f.Name
						break
					}
				}
			}
			if name == "" {
				*g.fragSeq++
				name = fmt.Sprintf("%sF%d", g.prefix, *g.fragSeq)
				if g.r.Chance(1, 4) {
					name = fmt.Sprintf("%sfrag_%d", strings.ToLower(g.prefix), *g.fragSeq) // lower-case fragment names exist too
				}
				if used[goFieldName(name)] {
					continue
				}
				// the body is generated in a private scope (a fragment is a selection set of its own) and then
				// must be mergeable with the scope it is spread into
				body := g.selSet(cond, depth+1, newScope())
				if len(body) == 0 {
					continue
				}
				def := Def{Kind: "frag", Name: name, Cond: cond, Sels: body}
				if !g.mergeFragment(sc, def, true) {
					// spread it anyway only where it cannot clash: drop it
					continue
				}
				g.frags = append(g.frags, def)
			}
			used[goFieldName(name)] = true
			sels = append(sels, Sel{Kind: "s", Name: name})
			hasFrag = true
		}
	}
	// --- F-20d shapes on purpose
	if g.collide != "" && !g.usedCollide && hasFrag && depth >= 1 {
		for _, s := range sels {
			if s.Kind != "i" || s.Cond == "" {
				continue
			}
			switch g.collide {
			case "dup-cond":
				body := g.selSet(s.Cond, g.maxDepth, sc)
				if len(body) > 0 {
					sels = append(sels, Sel{Kind: "i", Cond: s.Cond, Sels: body})
					g.usedCollide = true
				}
			case "holder-vs-key":
				// a leaf field aliased so that its Go name equals the holder's
				for _, f := range fields {
					if !g.spec.IsComposite(f.Type.Base()) {
						alias := strings.ToLower(s.Cond[:1]) + s.Cond[1:]
						if _, ok := sc.admit(alias, f.Name, "", f.Type.String()); ok && sc.entries[strings.ToLower(alias)] == nil {
							sc.add(alias, f.Name, "", f.Type.String(), nil)
							sels = append(sels, Sel{Kind: "f", Alias: alias, Name: f.Name})
							g.usedCollide = true
						}
						break
					}
				}
			}
			break
		}
	}
	// --- __typename
	needTn := hasFrag && pt.Kind != "object"
	if needTn || g.r.Chance(1, 6) {
		tn := Sel{Kind: "f", Name: "__typename"}
		if g.allowAliasTypename && g.r.Chance(1, 3) {
			tn.Alias = hx.Pick(g.r, []string{"t", "kind0", "Typ", "tn"})
		}
		child, ok := sc.admit(tn.Key(), "__typename", "", "String!")
		if !ok || used[goFieldName(tn.Key())] {
			tn.Alias = ""
			child, ok = sc.admit(tn.Key(), "__typename", "", "String!")
		}
		if ok && !used[goFieldName(tn.Key())] {
			sc.add(tn.Key(), "__typename", "", "String!", child)
			used[goFieldName(tn.Key())] = true
			// random position: front, back or middle
			pos := g.r.Intn(len(sels) + 1)
			sels = append(sels[:pos], append([]Sel{tn}, sels[pos:]...)...)
		} else if needTn {
			return nil
		}
	}
	return sels
}

func (sc *scope) clone() *scope {
	if sc == nil {
		return nil
	}
	out := newScope()
	for k, e := range sc.entries {
		c := *e
		c.child = e.child.clone()
		out.entries[k] = &c
	}
	return out
}

// mergeFragment checks that the fields a fragment contributes are compatible with the scope it is
// spread into and, if so, adds them to that scope.
func (g *opGen) mergeFragment(sc *scope, f Def, commit bool) bool {
	if !g.mergeSels(sc.clone(), f.Cond, f.Sels) {
		return false
	}
	if commit {
		g.mergeSels(sc, f.Cond, f.Sels)
	}
	return true
}

func (g *opGen) mergeSels(sc *scope, parent string, sels []Sel) bool {
	pt := g.spec.Type(parent)
	if pt == nil {
		return false
	}
	for _, s := range sels {
		switch s.Kind {
		case "f":
			field, typ, base := s.Name, "String!", ""
			if s.Name != "__typename" {
				fs := pt.Field(s.Name)
				if fs == nil {
					return false
				}
				typ, base = fs.Type.String(), fs.Type.Base()
			}
			child, ok := sc.admit(s.Key(), field, sigOf(s), typ)
			if !ok {
				return false
			}
			if len(s.Sels) > 0 {
				if child == nil {
					child = newScope()
				}
				if !g.mergeSels(child, base, s.Sels) {
					return false
				}
			}
			if e := sc.entries[strings.ToLower(s.Key())]; e == nil {
				sc.add(s.Key(), field, sigOf(s), typ, child)
			} else if e.child == nil {
				e.child = child
			}
		case "i":
			cond := s.Cond
			if cond == "" {
				cond = parent
			}
			if !g.mergeSels(sc, cond, s.Sels) {
				return false
			}
		case "s":
			for _, f := range g.frags {
				if f.Name == s.Name {
					if !g.mergeSels(sc, f.Cond, f.Sels) {
						return false
					}
				}
			}
		}
	}
	return true
}

// pruneFrags drops fragment definitions no operation reaches (a discarded subtree may have defined some).
func pruneFrags(op Def, frags []Def) []Def {
	reach := map[string]bool{}
	var walk func(ss []Sel)
	walk = func(ss []Sel) {
		for _, s := range ss {
			if s.Kind == "s" && !reach[s.Name] {
				reach[s.Name] = true
				for _, f := range frags {
					if f.Name == s.Name {
						walk(f.Sels)
					}
				}
			}
			walk(s.Sels)
		}
	}
	walk(op.Sels)
	var out []Def
	for _, f := range frags {
		if reach[f.Name] {
			out = append(out, f)
		}
	}
	return out
}

// genDoc generates one document: one named operation plus the fragments it uses.
func genDoc(r *hx.Rand, spec *SchemaSpec, opName, prefix string, fragSeq *int, collide string) Doc {
	for attempt := 0; ; attempt++ {
		g := &opGen{r: r, spec: spec, fragSeq: fragSeq, prefix: prefix, maxDepth: r.Range(2, 4), allowAliasTypename: r.Chance(1, 3), collide: collide}
		kind, root := "query", spec.Query
		if spec.Mutation != "" && r.Chance(1, 4) {
			kind, root = "mutation", spec.Mutation
		}
		if spec.Subscription != "" && collide == "" && r.Chance(1, 3) {
			kind, root = "subscription", spec.Subscription
		}
		sels := g.selSet(root, 0, newScope())
		if kind == "subscription" {
			// a subscription operation has exactly one root field (sometimes inside `... on Subscription`)
			var one []Sel
			for _, s := range sels {
				if s.Kind == "f" && s.Name != "__typename" {
					one = []Sel{s}
					break
				}
			}
			if one != nil && r.Chance(1, 4) {
				one = []Sel{{Kind: "i", Cond: root, Sels: one}}
			}
			sels = one
		}
		if len(sels) == 0 || (collide != "" && !g.usedCollide && attempt < 30) {
			continue
		}
		d := Doc{}
		op := Def{Kind: kind, Name: opName, Sels: sels}
		g.frags = pruneFrags(op, g.frags)
		// fragments before or after the operation
		if r.Bool() {
			d.Defs = append(d.Defs, op)
			d.Defs = append(d.Defs, g.frags...)
		} else {
			d.Defs = append(d.Defs, g.frags...)
			d.Defs = append(d.Defs, op)
		}
		return d
	}
}

// ---- mutations: invalid documents and documents outside the envelope ---------------------------

// mutateInvalid returns a copy of d changed so that validation (or parsing) should fail. Whether it
// really fails is decided by the real validator, never by this function.
func mutateInvalid(r *hx.Rand, spec *SchemaSpec, d Doc) (Doc, string) {
	d = cloneDoc(d)
	kinds := []string{"unknown-field", "leaf-with-selection", "composite-without-selection", "undefined-fragment", "unused-fragment", "syntax", "bad-condition", "duplicate-operation", "unknown-argument"}
	kind := hx.Pick(r, kinds)
	// pick a random selection set
	var sets []*[]Sel
	var walk func(ss *[]Sel)
	walk = func(ss *[]Sel) {
		sets = append(sets, ss)
		for i := range *ss {
			if len((*ss)[i].Sels) > 0 {
				walk(&(*ss)[i].Sels)
			}
		}
	}
	for i := range d.Defs {
		walk(&d.Defs[i].Sels)
	}
	set := hx.Pick(r, sets)
	switch kind {
	case "unknown-field":
		*set = append(*set, Sel{Kind: "f", Name: "noSuchField"})
	case "leaf-with-selection":
		*set = append(*set, Sel{Kind: "f", Name: "__typename", Alias: "tt", Sels: []Sel{{Kind: "f", Name: "x"}}})
	case "composite-without-selection":
		done := false
		for _, ss := range sets {
			for i := range *ss {
				if (*ss)[i].Kind == "f" && len((*ss)[i].Sels) > 0 && !done {
					(*ss)[i].Sels = nil
					done = true
				}
			}
		}
		if !done {
			*set = append(*set, Sel{Kind: "f", Name: "noSuchField"})
		}
	case "undefined-fragment":
		*set = append(*set, Sel{Kind: "s", Name: "NoSuchFragment"})
	case "unused-fragment":
		d.Defs = append(d.Defs, Def{Kind: "frag", Name: "UnusedFrag", Cond: spec.Query, Sels: []Sel{{Kind: "f", Name: "__typename"}}})
	case "syntax":
		(*set)[len(*set)-1].RawTail = hx.Pick(r, []string{" {", " }", " ...", " :", " (", " $"})
	case "bad-condition":
		*set = append(*set, Sel{Kind: "i", Cond: hx.Pick(r, []string{"NoSuchType", "Int", "Color"}), Sels: []Sel{{Kind: "f", Name: "__typename"}}})
	case "duplicate-operation":
		for _, def := range d.Defs {
			if def.Kind != "frag" {
				d.Defs = append(d.Defs, Def{Kind: def.Kind, Name: def.Name, Sels: []Sel{{Kind: "f", Name: "__typename"}}})
				break
			}
		}
	case "unknown-argument":
		n := 1
		*set = append(*set, Sel{Kind: "f", Name: "__typename", Alias: "ta", Arg: &n})
	}
	return d, kind
}

// dropTypename removes the __typename selections from the abstract selection sets that have
// fragments: still valid GraphQL, but outside the envelope (the tool must refuse it).
func dropTypename(spec *SchemaSpec, d Doc) (Doc, bool) {
	d = cloneDoc(d)
	changed := false
	var walk func(ss []Sel) []Sel
	walk = func(ss []Sel) []Sel {
		hasFrag := false
		for _, s := range ss {
			if s.Kind != "f" {
				hasFrag = true
			}
		}
		var out []Sel
		for _, s := range ss {
			if s.Kind == "f" && s.Name == "__typename" && hasFrag && len(ss) > 1 {
				changed = true
				continue
			}
			if len(s.Sels) > 0 {
				s.Sels = walk(s.Sels)
			}
			out = append(out, s)
		}
		return out
	}
	for i := range d.Defs {
		d.Defs[i].Sels = walk(d.Defs[i].Sels)
	}
	return d, changed
}

func cloneSels(ss []Sel) []Sel {
	if ss == nil {
		return nil
	}
	out := make([]Sel, len(ss))
	for i, s := range ss {
		out[i] = s
		if s.Arg != nil {
			n := *s.Arg
			out[i].Arg = &n
		}
		out[i].Sels = cloneSels(s.Sels)
	}
	return out
}

func cloneDoc(d Doc) Doc {
	out := Doc{Raw: d.Raw}
	for _, def := range d.Defs {
		def.Sels = cloneSels(def.Sels)
		out.Defs = append(out.Defs, def)
	}
	return out
}

func cloneCase(c Case) Case {
	out := c
	out.Schema.Types = nil
	for _, t := range c.Schema.Types {
		t.Values = append([]string{}, t.Values...)
		t.Fields = append([]FieldSpec{}, t.Fields...)
		t.Ifaces = append([]string{}, t.Ifaces...)
		t.Members = append([]string{}, t.Members...)
		out.Schema.Types = append(out.Schema.Types, t)
	}
	out.Docs = nil
	for _, d := range c.Docs {
		out.Docs = append(out.Docs, cloneDoc(d))
	}
	return out
}

// genCase draws one case. kind selects the stream.
func genCase(r *hx.Rand, idx int) Case {
	spec := genSchema(r)
	switch k := r.Intn(100); {
	case k < 8:
		spec.Dirs = "none"
	case k < 15:
		spec.Dirs = "skip"
	case k < 22:
		spec.Dirs = "include"
	case k < 30:
		spec.Dirs = "custom"
	}
	switch k := r.Intn(10); {
	case k < 2:
		spec.DescMode = 1
	case k < 5:
		spec.DescMode = 2
	}
	c := Case{Schema: spec, Seed: r.Uint64(), Worlds: 4}
	nDocs := 1
	if r.Chance(1, 3) {
		nDocs = r.Range(2, 3)
	}
	fragSeq := 0
	stream := r.Intn(100)
	collide := ""
	switch {
	case stream < 4:
		collide = "dup-cond"
	case stream < 8:
		collide = "holder-vs-key"
	}
	for i := 0; i < nDocs; i++ {
		c.Docs = append(c.Docs, genDoc(r, &c.Schema, fmt.Sprintf("Q%d", i+1), fmt.Sprintf("D%d", i+1), &fragSeq, collide))
		collide = ""
	}
	// directives on selections (no-op values, so the response is complete); an undeclared one makes the
	// document invalid for the server — and must make it invalid for the tool
	undeclared := false
	if r.Chance(2, 5) || stream < 4 {
		allowUndeclared := stream >= 8 && r.Chance(1, 4)
		for i := range c.Docs {
			for j := range c.Docs[i].Defs {
				if attachDirectives(r, &c.Schema, c.Docs[i].Defs[j].Sels, stream < 4, allowUndeclared) {
					undeclared = true
				}
			}
		}
	}
	c.Label = "valid"
	if undeclared {
		c.Label = "invalid:undeclared-directive"
	}
	switch {
	case undeclared:
	case stream < 4:
		c.Label = "collide-dup-cond"
	case stream < 8:
		c.Label = "collide-holder-vs-key"
	case stream < 22:
		i := r.Intn(len(c.Docs))
		var k string
		c.Docs[i], k = mutateInvalid(r, &c.Schema, c.Docs[i])
		c.Label = "invalid:" + k
	case stream < 30:
		i := r.Intn(len(c.Docs))
		if d, ok := dropTypename(&c.Schema, c.Docs[i]); ok {
			c.Docs[i] = d
			c.Label = "no-typename"
		}
	case stream < 33:
		c.Docs[0].Defs = append(c.Docs[0].Defs[:0:0], c.Docs[0].Defs...)
		for j := range c.Docs[0].Defs {
			if c.Docs[0].Defs[j].Kind != "frag" {
				c.Docs[0].Defs[j].Name = ""
			}
		}
		c.Label = "anonymous-operation"
	case stream < 37:
		// enum constants that collide after camel-casing (F-20f shape), only if an operation selects the enum
		for ti := range c.Schema.Types {
			if c.Schema.Types[ti].Kind == "enum" {
				v := c.Schema.Types[ti].Values[0]
				alt := strings.ToLower(v)
				if alt == v {
					alt = strings.ToUpper(v)
				}
				if alt != v && !contains(c.Schema.Types[ti].Values, alt) {
					c.Schema.Types[ti].Values = append(c.Schema.Types[ti].Values, alt)
					c.Label = "enum-const-collision"
				}
				break
			}
		}
	}
	return c
}

func declaredDirectiveUses(spec *SchemaSpec) (declared, undeclared []string) {
	has := map[string]bool{"skip": true, "include": true}
	switch spec.Dirs {
	case "none":
		has = map[string]bool{}
	case "skip":
		has = map[string]bool{"skip": true}
	case "include":
		has = map[string]bool{"include": true}
	case "custom":
		has["tag"] = true
	}
	for _, d := range []struct{ name, use string }{{"include", "@include(if: true)"}, {"skip", "@skip(if: false)"}, {"tag", "@tag"}} {
		if has[d.name] {
			declared = append(declared, d.use)
		} else {
			undeclared = append(undeclared, d.use)
		}
	}
	return
}

// attachDirectives puts directives on some selections (fields, inline fragments, spreads). Declared
// ones mostly; when forceInline is set (the repeated-type-condition stream) inline fragments get one
// with probability 1/2. Reports whether an undeclared directive was used.
func attachDirectives(r *hx.Rand, spec *SchemaSpec, sels []Sel, forceInline, allowUndeclared bool) bool {
	declared, undecl := declaredDirectiveUses(spec)
	used := false
	var walk func(ss []Sel)
	walk = func(ss []Sel) {
		for i := range ss {
			p := 8
			if forceInline && ss[i].Kind == "i" {
				p = 2
			}
			if r.Chance(1, p) {
				pool := declared
				if allowUndeclared && len(undecl) > 0 && (len(declared) == 0 || r.Chance(1, 4)) {
					pool = undecl
					used = true
				}
				if len(pool) > 0 {
					ss[i].Dir = hx.Pick(r, pool)
				}
			}
			walk(ss[i].Sels)
		}
	}
	walk(sels)
	return used
}
