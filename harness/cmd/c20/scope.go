package main

// The Go scopes of the generated identifiers, computed by the harness from the schema and the
// documents alone (the rules are the tool's documented naming: fix 05 constants, fix 08 type names,
// fieldName). Used (1) to classify failing cases that match the open findings F-20i / F-20j / F-20k
// — narrow predicates: structural precondition on the case AND the compiler naming the identifier —
// and (2) to make such cases on purpose (stream "scope-clash").

import (
	"go/token"
	"go/types"
	"sort"
	"strings"
)

// enumConstantsRef: the constants of one enum after fix 05 — values in sorted order, camel-cased, and
// `Name_<value>` when the camel-cased identifier is already used by the type or an earlier constant.
func enumConstantsRef(t *TypeSpec) []string {
	typeName := goTypeNameRef(t.Name)
	values := append([]string{}, t.Values...)
	sort.Strings(values)
	used := map[string]bool{typeName: true}
	var out []string
	for _, v := range values {
		name := typeName + camel(v)
		if used[name] {
			name = typeName + "_" + v
		}
		used[name] = true
		out = append(out, name)
	}
	return out
}

func isGoReserved(n string) bool {
	return token.IsKeyword(n) || types.Universe.Lookup(n) != nil || n == "json"
}

// constantClashes lists the identifiers of the schema's enums (Go type names and constants) that are
// equal to another package-level identifier of a run over c.Docs — another enum's constant or type
// name, an <Op>Data / <F>Fragment name, a possible `sel<CompositeType>_<n>` name — or, for constants,
// to a Go keyword / predeclared identifier.
func constantClashes(c *Case) []string {
	owner := map[string]int{}
	typeNames := map[string]bool{}
	tds := map[string]bool{}
	for _, d := range c.Docs {
		for _, def := range d.Defs {
			if def.Name == "" {
				continue
			}
			if def.Kind == "frag" {
				tds[def.Name+"Fragment"] = true
			} else {
				tds[def.Name+"Data"] = true
			}
		}
	}
	selLike := func(n string) bool {
		if !strings.HasPrefix(n, "sel") {
			return false
		}
		i := strings.LastIndex(n, "_")
		if i < 4 || i == len(n)-1 {
			return false
		}
		for _, ch := range n[i+1:] {
			if ch < '0' || ch > '9' {
				return false
			}
		}
		return c.Schema.IsComposite(n[3:i])
	}
	seen := map[string]bool{}
	var out []string
	add := func(n string) {
		if !seen[n] {
			seen[n] = true
			out = append(out, n)
		}
	}
	for _, t := range c.Schema.Types {
		if t.Kind == "enum" {
			n := goTypeNameRef(t.Name)
			typeNames[n] = true
			if tds[n] || selLike(n) {
				add(n)
			}
		}
	}
	for ti := range c.Schema.Types {
		t := &c.Schema.Types[ti]
		if t.Kind != "enum" {
			continue
		}
		for _, k := range enumConstantsRef(t) {
			if prev, ok := owner[k]; ok && prev != ti {
				add(k)
			}
			owner[k] = ti
			if typeNames[k] || tds[k] || isGoReserved(k) || selLike(k) {
				add(k)
			}
		}
	}
	return out
}

// typenameFieldClash reports whether some selection set selects the unaliased __typename next to a
// different response key whose Go field name is Typename__ as well.
func typenameFieldClash(c *Case) bool {
	var set func(ss []Sel) bool
	set = func(ss []Sel) bool {
		hasTn, other := false, false
		for _, s := range ss {
			if s.Kind == "f" {
				k := s.Key()
				if k == "__typename" {
					hasTn = true
				} else if goFieldName(k) == "Typename__" {
					other = true
				}
			}
			if set(s.Sels) {
				return true
			}
		}
		return hasTn && other
	}
	for _, d := range c.Docs {
		for _, def := range d.Defs {
			if set(def.Sels) {
				return true
			}
		}
	}
	return false
}

func hasEnumNamed(c *Case, name string) bool {
	for _, t := range c.Schema.Types {
		if t.Kind == "enum" && t.Name == name {
			return true
		}
	}
	return false
}

// mentionsIdent: the compiler message names the identifier as a word of its own.
func mentionsIdent(msg, ident string) bool {
	for i := 0; i+len(ident) <= len(msg); i++ {
		if msg[i:i+len(ident)] != ident {
			continue
		}
		before := i == 0 || !isIdentChar(msg[i-1])
		after := i+len(ident) == len(msg) || !isIdentChar(msg[i+len(ident)])
		if before && after {
			return true
		}
	}
	return false
}

func isIdentChar(b byte) bool {
	return b == '_' || b >= '0' && b <= '9' || b >= 'a' && b <= 'z' || b >= 'A' && b <= 'Z'
}

// scopeFindingKey attaches one of the open scope findings to a compile failure.
func scopeFindingKey(r *caseResult, f *failure) string {
	if f.Kind != "property" || f.Mode != "compile" || !r.allValid || !r.inEnv {
		return ""
	}
	msg := f.What
	if typenameFieldClash(r.c) && strings.Contains(msg, "Typename__ redeclared") {
		return "F-20j-typename-field-name-collision"
	}
	if blankHolder(r.c) && strings.Contains(msg, "s._ undefined") {
		return "F-20l-holder-is-blank-identifier"
	}
	for _, n := range []string{"s", "b"} {
		if hasEnumNamed(r.c, n) && strings.Contains(msg, ": "+n+" is not a type") {
			return "F-20k-enum-type-shadowed-in-generated-method"
		}
	}
	for _, k := range constantClashes(r.c) {
		if mentionsIdent(msg, k) && (strings.Contains(msg, k+" redeclared") || strings.Contains(msg, k+" is not a type")) {
			return "F-20i-enum-identifier-collides-in-package-scope"
		}
	}
	return ""
}

// blankHolder reports whether some fragment holder of the case would be named `_`: a fragment named `_`
// is spread, or a fragment is applied to a type named `_` (with a type condition, or without one inside
// a selection on that type).
func blankHolder(c *Case) bool {
	var set func(parent string, ss []Sel) bool
	set = func(parent string, ss []Sel) bool {
		pt := c.Schema.Type(parent)
		for _, s := range ss {
			switch s.Kind {
			case "s":
				if s.Name == "_" {
					return true
				}
			case "i":
				cond := s.Cond
				if cond == "" {
					cond = parent
				}
				if cond == "_" || set(cond, s.Sels) {
					return true
				}
			case "f":
				if pt != nil && len(s.Sels) > 0 {
					if fs := pt.Field(s.Name); fs != nil && set(fs.Type.Base(), s.Sels) {
						return true
					}
				}
			}
		}
		return false
	}
	for _, d := range c.Docs {
		for _, def := range d.Defs {
			root := def.Cond
			if def.Kind != "frag" {
				root = c.Schema.RootFor(def.Kind)
			}
			if set(root, def.Sels) {
				return true
			}
		}
	}
	return false
}
