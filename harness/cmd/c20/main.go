// Harness for C20 — gql-client-gen output compiles and decodes the server's real responses.
//
// Real side: the gql-client-gen binary built from $VERIF_REPO, fed with real introspection JSON
// (introspection.Query executed against a real schema with resolvers) and Go input files with gql()
// calls; graphql.Execute for the responses; the Go compiler and encoding/json for the generated code.
// Model side: lean/ApiFu/C20 (driver c20model).
//
//	(a) tie: the binary's output parsed with go/ast into abstract declarations == the model's; error
//	    classes == the model's; json.Unmarshal into the compiled types == the model's decode
//	(b) property, model-free: every in-envelope case's output type-checks (go/types) and the whole
//	    batch compiles (one `go build` of a scratch module); the executor's real `data` for every
//	    operation × resolver world unmarshals into <Op>Data and every selected leaf is held
//	(c) property: a document the real validator rejects ⇒ error exit and no output
package main

import (
	"bytes"
	"context"
	"encoding/json"
	"fmt"
	"go/token"
	"go/types"
	"os"
	"os/exec"
	"path/filepath"
	"regexp"
	"sort"
	"strconv"
	"strings"
	"time"

	"github.com/ccbrown/api-fu/graphql"

	"verifharness/hx"
)

type failure struct {
	Kind string `json:"kind"` // property | correspondence | crash | harness
	Mode string `json:"mode"`
	What string `json:"what"`
}

type caseResult struct {
	c        *Case
	invalidWhy string
	skipped  string // harness could not evaluate (e.g. schema rejected by schema.New)
	valid    []bool
	allValid bool
	inEnv    bool
	envWhy   string
	clash    string // Go field-name clash inside one selection set (F-20d / F-20e shape)
	clashKind string
	enumClash string
	absFrags int

	toolExit   int
	toolOut    string
	toolErr    string
	toolCrash  bool
	parsed     *Output
	parseErr   string
	modelReply string
	typeErr    string
	compiled   bool
	decoded    int
	leaves     int
	nulls      int
	lists      int
	frags      int
	skippedSels int
	// the model's evaluation of the decidable hypotheses of gen_compiles_in_wording and of its conclusion
	envReply   string
	hypOK      bool // schemaOK ∧ enumValuesOK ∧ identsOK ∧ every definition inside defOKW
	modelGen   bool
	modelWF    bool // declsWF ∧ pkgScopeWF of the model's output
	modelPkgWF bool
	failures   []failure
}

func (r *caseResult) add(kind, mode, format string, a ...any) {
	r.failures = append(r.failures, failure{kind, mode, fmt.Sprintf(format, a...)})
}

// first returns the failure that decides how the case is reported: a property/crash failure wins
// over a correspondence failure (conventions §4).
func (r *caseResult) first() *failure {
	for _, k := range []string{"crash", "property", "correspondence", "harness"} {
		for i := range r.failures {
			if r.failures[i].Kind == k {
				return &r.failures[i]
			}
		}
	}
	return nil
}

type harness struct {
	run     *hx.Run
	model   *hx.Model
	tool    string
	workdir string
	verbose bool
	batchNo int
	builds  int
}

var rePos = regexp.MustCompile(`^\S+: (\d+):(\d+): (.*)$`)

func classifyToolErrors(stderr string) []string {
	groups := map[string][]string{}
	var order []string
	for _, line := range strings.Split(strings.TrimSpace(stderr), "\n") {
		if line == "" {
			continue
		}
		pos, msg := "?", line
		if m := rePos.FindStringSubmatch(line); m != nil {
			pos, msg = m[1]+":"+m[2], m[3]
		}
		cls := "other:" + msg
		switch {
		case strings.HasPrefix(msg, "Validation error:"), strings.HasPrefix(msg, "Syntax error:"):
			cls = "validation"
		case msg == "__typename is required by fragment spread":
			cls = "typename-spread"
		case msg == "__typename is required by inline fragment":
			cls = "typename-inline"
		}
		if _, ok := groups[pos]; !ok {
			order = append(order, pos)
		}
		groups[pos] = append(groups[pos], cls)
	}
	var out []string
	for _, pos := range order {
		seenV := false
		for _, c := range groups[pos] {
			if c == "validation" {
				if seenV {
					continue
				}
				seenV = true
			}
			out = append(out, c)
		}
	}
	sort.Strings(out)
	return out
}

func inputFile(c *Case) string {
	var b strings.Builder
	b.WriteString("package main\n\nfunc main() {\n")
	for _, d := range c.Docs {
		t := d.Text()
		if strings.Contains(t, "`") {
			fmt.Fprintf(&b, "\tprintln(gql(%s))\n", strconv.Quote(t))
		} else {
			fmt.Fprintf(&b, "\tprintln(gql(`%s`))\n", t)
		}
	}
	b.WriteString("}\n")
	return b.String()
}

// evalCases evaluates a batch: tool, model, type check per case, then one compile for all, then
// execution, decoding and the leaf oracle.
func (h *harness) evalCases(cases []*Case) []*caseResult {
	h.batchNo++
	res := make([]*caseResult, len(cases))
	bdir, err := os.MkdirTemp(h.workdir, fmt.Sprintf("c20-batch%d-", h.batchNo))
	if err != nil {
		panic(err)
	}
	defer os.RemoveAll(bdir)
	schemas := make([]*graphql.Schema, len(cases))
	var modelLines []string
	var modelIdx []int
	var envLines []string
	var envIdx []int
	for i, c := range cases {
		r := &caseResult{c: c}
		res[i] = r
		pkg := fmt.Sprintf("c%03d", i)
		s, err := buildSchema(&c.Schema)
		if err != nil {
			r.skipped = "schema rejected: " + err.Error()
			continue
		}
		schemas[i] = s
		ij, err := introspectionJSON(s)
		if err != nil {
			r.skipped = err.Error()
			continue
		}
		cdir := filepath.Join(bdir, pkg)
		os.MkdirAll(cdir, 0o755)
		os.WriteFile(filepath.Join(cdir, "schema.json"), ij, 0o644)
		os.WriteFile(filepath.Join(cdir, "in.go"), []byte(inputFile(c)), 0o644)
		// validity by the real validator on the real (server) schema; envelope by the harness's checker
		r.allValid, r.inEnv = true, true
		names := map[string]bool{}
		for di := range c.Docs {
			ok, msgs := validate(s, c.Docs[di].Text())
			r.valid = append(r.valid, ok)
			if !ok {
				r.allValid = false
				if r.invalidWhy == "" && len(msgs) > 0 {
					r.invalidWhy = msgs[0]
				}
			}
		}
		if r.allValid {
			for di := range c.Docs {
				ok, why, ec := inEnvelope(&c.Schema, &c.Docs[di])
				if !ok && r.inEnv {
					r.inEnv, r.envWhy = false, why
				}
				if ec.goNameClash != "" && r.clash == "" {
					r.clash, r.clashKind = ec.goNameClash, ec.clashKind
				}
				r.absFrags += ec.abstractFrags
				for _, def := range c.Docs[di].Defs {
					n := def.Kind[:1] + ":" + def.Name
					if def.Kind != "frag" {
						n = "o:" + def.Name
					}
					if def.Name == "" {
						if r.inEnv {
							r.inEnv, r.envWhy = false, "anonymous operation (the property is about named operations)"
						}
					} else if names[n] {
						r.inEnv, r.envWhy = false, "two definitions named "+def.Name+" in one run"
					}
					names[n] = true
				}
			}
			r.enumClash = enumConstClash(&c.Schema)
		} else {
			r.inEnv = false
		}
		// the tool
		ctx, cancel := context.WithTimeout(context.Background(), 30*time.Second)
		cmd := exec.CommandContext(ctx, h.tool, "--pkg", pkg, "--schema", filepath.Join(cdir, "schema.json"), "-i", filepath.Join(cdir, "in.go"))
		var so, se bytes.Buffer
		cmd.Stdout, cmd.Stderr = &so, &se
		err = cmd.Run()
		cancel()
		r.toolOut, r.toolErr = so.String(), se.String()
		if err != nil {
			if ee, ok := err.(*exec.ExitError); ok {
				r.toolExit = ee.ExitCode()
			} else {
				r.toolExit = -2
				r.toolErr += "\n" + err.Error()
			}
		}
		r.toolCrash = r.toolExit != 0 && r.toolExit != 1 || strings.Contains(r.toolErr, "panic:") || strings.Contains(r.toolErr, "goroutine ")
		if h.model != nil {
			docs := make([]hx.Sexp, len(c.Docs))
			for di, d := range c.Docs {
				docs[di] = d.Sexp(r.valid[di])
			}
			modelLines = append(modelLines, hx.N("gen", c.Schema.Sexp(), hx.N("docs", docs...)).String())
			modelIdx = append(modelIdx, i)
			if r.allValid {
				envLines = append(envLines, hx.N("env", c.Schema.Sexp(), hx.N("docs", docs...)).String())
				envIdx = append(envIdx, i)
			}
		}
	}
	if h.model != nil && len(modelLines) > 0 {
		replies, err := h.model.AskAll(modelLines)
		if err != nil {
			fmt.Fprintln(os.Stderr, "model driver failed:", err)
			os.Exit(2)
		}
		for k, i := range modelIdx {
			res[i].modelReply = replies[k]
		}
		if len(envLines) > 0 {
			replies, err := h.model.AskAll(envLines)
			if err != nil {
				fmt.Fprintln(os.Stderr, "model driver failed:", err)
				os.Exit(2)
			}
			for k, i := range envIdx {
				r := res[i]
				r.envReply = replies[k]
				if x, err := hx.ParseSexp(replies[k]); err == nil && x.IsList && len(x.List) == 8 {
					b := func(j int) bool { return x.List[j].Atom == "true" }
					r.hypOK = b(1) && b(2) && b(3) && b(4)
					r.modelGen, r.modelPkgWF = b(5), b(7)
					r.modelWF = b(6) && b(7)
				}
			}
		}
	}
	// ---- per case: oracles on status/output, tie on the declarations
	var pkgs []scratchPkg
	for i, r := range res {
		if r.skipped != "" {
			continue
		}
		c := r.c
		pkg := fmt.Sprintf("c%03d", i)
		switch {
		case r.toolCrash:
			r.add("crash", "tool-crash", "gql-client-gen crashed (exit %d): %s", r.toolExit, firstLines(r.toolErr, 3))
		case !r.allValid:
			// (c) invalid ⇒ errors and no output
			if r.toolExit == 0 || r.toolOut != "" || strings.TrimSpace(r.toolErr) == "" {
				r.add("property", "invalid-accepted", "a document fails validation but the tool exited %d with %d bytes of output and stderr %q", r.toolExit, len(r.toolOut), firstLines(r.toolErr, 2))
			}
		case r.inEnv:
			if r.toolExit != 0 || strings.TrimSpace(r.toolOut) == "" {
				r.add("property", "no-output", "valid in-envelope operations, but the tool exited %d: %s", r.toolExit, firstLines(r.toolErr, 3))
			}
		}
		if r.toolExit == 0 && !r.toolCrash {
			r.typeErr = typeCheck(r.toolOut)
			if r.typeErr != "" && r.allValid && r.inEnv {
				r.add("property", "compile", "the generated source does not type-check: %s", r.typeErr)
			}
			if out, err := parseOutput(r.toolOut, pkg); err != nil {
				r.parseErr = err.Error()
			} else {
				r.parsed = out
			}
			if r.typeErr == "" && r.allValid {
				var ops []string
				for _, d := range c.Docs {
					for _, def := range d.Ops() {
						if def.Name != "" {
							ops = append(ops, def.Name)
						}
					}
				}
				pkgs = append(pkgs, scratchPkg{Name: pkg, Src: r.toolOut, Ops: ops})
			}
		}
		// the scope theorems on the real binary: the decidable hypotheses of gen_compiles_in_wording hold for
		// this input (evaluated by the model driver) ⇒ the real output must exist and type-check
		if h.model != nil && r.allValid && r.hypOK && r.modelGen && !r.toolCrash {
			if r.toolExit != 0 || r.typeErr != "" {
				kind := "correspondence"
				if r.inEnv {
					kind = "property"
				}
				r.add(kind, "theorem-instance", "the hypotheses of gen_compiles_in_wording hold (schemaOK, enumValuesOK, identsOK, defOKW) but the tool exited %d / type-check: %s", r.toolExit, r.typeErr)
			}
		}
		// the model-level "compiles" (declsWF ∧ pkgScopeWF of the model's output) must imply that go/types accepts
		// the real output (otherwise the model's notion of well-formedness misses a Go rule)
		if h.model != nil && r.allValid && r.modelGen && r.modelWF && r.toolExit == 0 && !r.toolCrash && r.typeErr != "" && !(r.hypOK && r.modelGen) {
			r.add("correspondence", "model-wf", "the model's output is well-formed (declsWF, pkgScopeWF) but the real output does not type-check: %s", r.typeErr)
		}
		// tie (a)
		if h.model != nil {
			mout, merrs, err := parseModelOutput(r.modelReply)
			switch {
			case err != nil:
				r.add("correspondence", "gen-diff", "%v", err)
			case mout == nil:
				sort.Strings(merrs)
				want := strings.Join(merrs, ",")
				got := strings.Join(classifyToolErrors(r.toolErr), ",")
				if contains(merrs, "panic") {
					if !r.toolCrash {
						r.add("correspondence", "gen-diff", "model: the Go code dereferences nil; tool exited %d: %s", r.toolExit, firstLines(r.toolErr, 2))
					}
				} else if r.toolExit != 1 || got != want {
					r.add("correspondence", "gen-diff", "model reports errors [%s]; tool exited %d with [%s] %s", want, r.toolExit, got, firstLines(r.toolOut, 2))
				}
			case r.toolExit != 0:
				r.add("correspondence", "gen-diff", "model generates output; tool exited %d: %s", r.toolExit, firstLines(r.toolErr, 3))
			case r.parsed == nil:
				r.add("correspondence", "gen-diff", "the tool's output is not of the modelled shape: %s", r.parseErr)
			default:
				a, b := canonString(r.parsed), canonString(mout)
				if a != b {
					r.add("correspondence", "gen-diff", "declarations differ\n tool : %s\n model: %s", a, b)
				}
			}
		}
	}
	// ---- (b) one compile for the whole batch
	if len(pkgs) > 0 {
		t0 := time.Now()
		sc, err := newScratch(h.workdir, pkgs)
		h.builds++
		defer sc.remove()
		if h.verbose {
			fmt.Printf("scratch build of %d packages: %.1fs\n", len(pkgs), time.Since(t0).Seconds())
		}
		if err != nil {
			for _, p := range pkgs {
				var i int
				fmt.Sscanf(p.Name, "c%d", &i)
				res[i].add("harness", "scratch-build", "%v", err)
			}
			return res
		}
		var reqs []decodeReq
		type reqInfo struct {
			i, di, w int
			op       string
			root     string
			data     []byte
		}
		var infos []reqInfo
		for _, p := range pkgs {
			var i int
			fmt.Sscanf(p.Name, "c%d", &i)
			r := res[i]
			if msg, bad := sc.failed[p.Name]; bad {
				if r.inEnv {
					r.add("property", "compile", "the generated source type-checks against a stub but does not compile: %s", msg)
				}
				continue
			}
			r.compiled = true
			for di, d := range r.c.Docs {
				for _, def := range d.Ops() {
					if def.Name == "" {
						continue
					}
					for _, w := range r.c.worldList() {
						data, errs, pan := execute(schemas[i], &r.c.Schema, d.Text(), def.Name, r.c.Schema.RootFor(def.Kind), r.c.Seed, w)
						if pan != "" || len(errs) > 0 || len(data) == 0 {
							r.add("harness", "execute", "executing %s in world %d: panic=%q errors=%v", def.Name, w, pan, errs)
							continue
						}
						reqs = append(reqs, decodeReq{C: p.Name, Op: def.Name, Data: data})
						infos = append(infos, reqInfo{i: i, di: di, w: w, op: def.Name, root: r.c.Schema.RootFor(def.Kind), data: data})
					}
				}
			}
		}
		reps, err := sc.decodeAll(reqs)
		if err != nil {
			for _, in := range infos {
				res[in.i].add("harness", "decode-run", "%v", err)
			}
			return res
		}
		var dLines []string
		var dIdx []int
		for k, in := range infos {
			r, rep := res[in.i], reps[k]
			doc := &r.c.Docs[in.di]
			var def Def
			for _, d := range doc.Ops() {
				if d.Name == in.op {
					def = d
				}
			}
			jv, err := parseJSON(in.data)
			if err != nil {
				r.add("harness", "json", "response data does not parse: %v", err)
				continue
			}
			r.decoded++
			switch {
			case rep.Panic != "":
				if r.inEnv {
					r.add("property", "decode", "json.Unmarshal of %s's data into %sData panicked: %s (data %s)", in.op, in.op, rep.Panic, clip(string(in.data), 300))
				}
			case rep.Err != "":
				if r.inEnv {
					r.add("property", "decode", "json.Unmarshal of %s's data into %sData failed: %s (world %d, data %s)", in.op, in.op, rep.Err, in.w, clip(string(in.data), 300))
				}
			case r.inEnv:
				lc := &leafChecker{spec: &r.c.Schema, doc: doc}
				lc.object(in.root, def.Sels, &jv, rep.Dump, in.op)
				r.leaves += lc.leaves
				r.nulls += lc.nulls
				r.lists += lc.lists
				r.frags += lc.frags
				r.skippedSels += lc.skipped
				if len(lc.errs) > 0 {
					r.add("property", "leaf", "operation %s, world %d: %s (data %s)", in.op, in.w, strings.Join(lc.errs, " | "), clip(string(in.data), 400))
				}
			}
			if h.model != nil && r.parsed != nil {
				dLines = append(dLines, hx.L(hx.A("decode"), declsSexp(r.parsed.Decls), hx.A(in.op+"Data"), jv.Sexp()).String())
				dIdx = append(dIdx, k)
			}
		}
		if h.model != nil && len(dLines) > 0 {
			replies, err := h.model.AskAll(dLines)
			if err != nil {
				fmt.Fprintln(os.Stderr, "model driver failed:", err)
				os.Exit(2)
			}
			for n, k := range dIdx {
				in, rep := infos[k], reps[k]
				r := res[in.i]
				switch {
				case replies[n] == "none":
					if rep.Err == "" && rep.Panic == "" {
						r.add("correspondence", "decode-diff", "operation %s world %d: the model's decode fails, json.Unmarshal succeeds (data %s)", in.op, in.w, clip(string(in.data), 300))
					}
				case rep.Err != "" || rep.Panic != "":
					r.add("correspondence", "decode-diff", "operation %s world %d: the model's decode succeeds, json.Unmarshal fails: %s%s", in.op, in.w, rep.Err, rep.Panic)
				default:
					x, err := hx.ParseSexp(replies[n])
					if err != nil || !x.IsList || len(x.List) != 2 {
						r.add("correspondence", "decode-diff", "unexpected model reply %q", clip(replies[n], 200))
						continue
					}
					if diff := compareModelVal(x.List[1], rep.Dump, in.op); diff != "" {
						r.add("correspondence", "decode-diff", "operation %s world %d: decoded values differ: %s (data %s)", in.op, in.w, diff, clip(string(in.data), 300))
					}
				}
			}
		}
	}
	return res
}

// goTypeNameRef is the rule of fix 08, stated with the standard library the tool uses.
func goTypeNameRef(name string) string {
	if token.IsKeyword(name) || types.Universe.Lookup(name) != nil || name == "json" {
		return name + "_"
	}
	return name
}

// reservedTable compares the model's table of reserved identifiers with go/token and go/types,
// exhaustively over all keywords and predeclared identifiers plus a few names that must not be escaped.
func (h *harness) reservedTable() {
	if h.model == nil {
		return
	}
	var words []string
	for t := token.Token(0); t < 200; t++ {
		if t.IsKeyword() {
			words = append(words, t.String())
		}
	}
	words = append(words, types.Universe.Names()...)
	words = append(words, "json", "Color", "int_", "Int", "String", "select_", "sel", "typ", "Type", "JSON", "jsons", "in", "t", "unit_kind")
	lines := make([]string, len(words))
	for i, w := range words {
		lines[i] = hx.N("goTypeName", hx.A(w)).String()
	}
	replies, err := h.model.AskAll(lines)
	if err != nil {
		fmt.Fprintln(os.Stderr, "model driver failed:", err)
		os.Exit(2)
	}
	bad := ""
	for i, w := range words {
		got := replies[i]
		if x, err := hx.ParseSexp(replies[i]); err == nil && !x.IsList {
			got = x.Atom
		}
		if want := goTypeNameRef(w); got != want && bad == "" {
			bad = fmt.Sprintf("goTypeName(%q): go/token+go/types give %q, the model %q", w, want, got)
		}
	}
	h.run.Oblige("reserved-identifier table (model vs go/token keywords + go/types universe, exhaustive)", "exhaustive", len(words), bad == "", bad)
	if bad != "" {
		h.run.Violate("correspondence", bad, "", true, map[string]string{"table": bad})
	}
}

func clip(s string, n int) string {
	if len(s) > n {
		return s[:n] + "…"
	}
	return s
}

func firstLines(s string, n int) string {
	lines := strings.Split(strings.TrimSpace(s), "\n")
	if len(lines) > n {
		lines = lines[:n]
	}
	return clip(strings.Join(lines, " / "), 500)
}

// ---- reporting, classification, shrinking ----------------------------------------------------------

// findingKey attaches an open finding to a failing case (narrow predicates on case + failure mode).
// Open: F-20i / F-20j / F-20k (identifier scopes, see scope.go).
func findingKey(r *caseResult, f *failure) string {
	return scopeFindingKey(r, f)
}

func signature(r *caseResult) string {
	f := r.first()
	if f == nil {
		return ""
	}
	return f.Kind + "/" + f.Mode + "/" + findingKey(r, f)
}

func (h *harness) shrink(c *Case, sig string) (*Case, *caseResult) {
	cur := c
	var curRes *caseResult
	for round := 0; round < 40; round++ {
		cands := reductions(cur)
		if len(cands) == 0 {
			break
		}
		if len(cands) > 80 {
			cands = cands[:80]
		}
		results := h.evalCases(cands)
		found := false
		for i, r := range results {
			if r.skipped == "" && signature(r) == sig {
				cur, curRes, found = cands[i], r, true
				break
			}
		}
		if !found {
			break
		}
	}
	return cur, curRes
}

func (h *harness) report(r *caseResult, doShrink bool) {
	f := r.first()
	if f == nil {
		return
	}
	c := r.c
	if f.Kind == "harness" {
		h.run.Note("harness problem (case not evaluated completely): %s: %s", f.Mode, clip(f.What, 300))
		h.run.Count("harness-problem:" + f.Mode)
		return
	}
	if doShrink && findingKey(r, f) == "" {
		if sc, sr := h.shrink(c, signature(r)); sr != nil {
			c, r, f = sc, sr, sr.first()
		}
	}
	key := findingKey(r, f)
	what := fmt.Sprintf("[%s] %s | docs: %s", f.Mode, f.What, clip(docsText(c), 600))
	kind := f.Kind
	h.run.Violate(kind, what, key, kind == "correspondence", c)
}

func docsText(c *Case) string {
	var parts []string
	for _, d := range c.Docs {
		parts = append(parts, d.Text())
	}
	return strings.Join(parts, " ;; ")
}

func (c *Case) worldList() []int {
	if len(c.WorldIdx) > 0 {
		return c.WorldIdx
	}
	n := c.Worlds
	if n <= 0 {
		n = 4
	}
	out := make([]int, n)
	for i := range out {
		out[i] = i
	}
	return out
}

func main() {
	run := hx.Init("C20")
	h := &harness{run: run, verbose: run.Replay != "" || os.Getenv("VERIF_VERBOSE") != ""}
	repo := os.Getenv("VERIF_REPO")
	if repo == "" {
		repo = "/repo"
	}
	h.workdir = os.Getenv("VERIF_BUILD")
	if h.workdir == "" {
		h.workdir = os.TempDir()
	}
	os.MkdirAll(h.workdir, 0o755)
	// stale scratch directories / binaries of a killed run (older than two hours: a concurrent run of this
	// check may share the directory)
	for _, pat := range []string{"c20-*", "gql-client-gen-under-test.*"} {
		old, _ := filepath.Glob(filepath.Join(h.workdir, pat))
		for _, o := range old {
			if fi, err := os.Stat(o); err == nil && time.Since(fi.ModTime()) > 2*time.Hour {
				os.RemoveAll(o)
			}
		}
	}
	if err := initStub(); err != nil {
		fmt.Fprintln(os.Stderr, "cannot type-check the json stub:", err)
		os.Exit(2)
	}
	// the real binary, built from the working tree
	h.tool = filepath.Join(h.workdir, fmt.Sprintf("gql-client-gen-under-test.%d", os.Getpid()))
	os.Remove(h.tool)
	build := exec.Command("go", "build", "-o", h.tool, "./cmd/gql-client-gen")
	build.Dir = repo
	build.Env = append(os.Environ(), "GOFLAGS=-mod=mod", "GOWORK=off")
	if out, err := build.CombinedOutput(); err != nil {
		run.Oblige("build of cmd/gql-client-gen from the working tree", "oracle", 1, false, clip(string(out), 800))
		run.Violate("property", "cmd/gql-client-gen does not build: "+clip(string(out), 800), "", true, map[string]string{"build": string(out)})
		run.Finish(nil)
		return
	}
	defer os.Remove(h.tool)
	if run.ModelPath != "" {
		m, err := hx.StartModel(run.ModelPath)
		if err != nil {
			fmt.Fprintln(os.Stderr, "cannot start model:", err)
			os.Exit(2)
		}
		h.model = m
		defer m.Close()
	}
	h.reservedTable()
	run.SetRule("cases = generated schema (enums, objects, interfaces, unions, built-in scalars, list/non-null nesting; served as real introspection JSON) × 1–3 gql() documents (one named operation + named fragments each; aliases, arguments, inline/named/untyped fragments on objects, interfaces and unions, __typename plain or aliased) × 4 resolver worlds (null rates 25/0/60/10 %, abstract positions rotated through every concrete type); streams: 63 % valid in-envelope, 14 % invalidated by one of 9 mutations, 8 % valid without __typename, 8 % deliberate Go-name collisions and repeated type conditions (the former findings F-20d/e), 4 % enum constants sharing a camel-cased name (former F-20f), 3 % anonymous; distinct = distinct (schema, documents); non-trivial = valid in-envelope case with a fragment applied to an interface/union, whose decoded responses contained a null, a list and a type-conditioned fragment that applied")

	if dir := os.Getenv("C20_DUMP_HANDPICKED"); dir != "" {
		os.MkdirAll(filepath.Join(dir, "corpus", "C20"), 0o755)
		os.MkdirAll(filepath.Join(dir, "findings"), 0o755)
		for k, c := range handPickedNamed() {
			b, _ := json.MarshalIndent(map[string]any{"property": "C20", "what": k, "case": c}, "", " ")
			os.WriteFile(filepath.Join(dir, "corpus", "C20", k+".json"), b, 0o644)
		}
		for k, c := range findingCases() {
			b, _ := json.MarshalIndent(map[string]any{"property": "C20", "finding_key": k, "case": c}, "", " ")
			os.WriteFile(filepath.Join(dir, "findings", "C20-"+strings.SplitN(k, "-", 3)[0]+"-"+strings.SplitN(k, "-", 3)[1]+".json"), b, 0o644)
		}
		return
	}
	if run.Replay != "" {
		var c Case
		if err := hx.LoadReplayCase(run.Replay, &c); err != nil {
			fmt.Fprintln(os.Stderr, err)
			os.Exit(2)
		}
		r := h.evalCases([]*Case{&c})[0]
		fmt.Printf("replay: label=%q valid=%v in-envelope=%v (%s) clash=%q\n", c.Label, r.valid, r.inEnv, r.envWhy, r.clash)
		for i, d := range c.Docs {
			fmt.Printf("document %d: %s\n", i+1, d.Text())
		}
		fmt.Printf("tool: exit=%d stderr=%q\n--- tool stdout ---\n%s--- model ---\n%s\n", r.toolExit, firstLines(r.toolErr, 5), r.toolOut, r.modelReply)
		fmt.Printf("type-check: %q compiled=%v decoded=%d leaves=%d\n", r.typeErr, r.compiled, r.decoded, r.leaves)
		for _, f := range r.failures {
			fmt.Printf("failure: kind=%s mode=%s %s\n", f.Kind, f.Mode, f.What)
		}
		if r.skipped != "" {
			fmt.Println("skipped:", r.skipped)
		}
		if f := r.first(); f != nil && f.Kind != "harness" {
			h.report(r, false)
		}
		run.Finish(h.model)
		return
	}

	var cases []*Case
	nCorpus := 0
	for _, f := range run.CorpusFiles() {
		var c Case
		if err := hx.LoadReplayCase(f, &c); err == nil && len(c.Docs) > 0 {
			c.Label = "corpus:" + filepath.Base(f)
			cases = append(cases, &c)
			nCorpus++
			run.Count("corpus")
		}
	}
	if nCorpus == 0 {
		// the committed corpus is missing (fresh checkout without corpus/): run the in-code copies
		for _, c := range handPicked() {
			cc := c
			cases = append(cases, &cc)
		}
		for _, c := range findingCases() {
			cc := c
			cc.Label = "hand:finding"
			cases = append(cases, &cc)
		}
	}
	n := run.Scale(600, 12000)
	for i := 0; i < n; i++ {
		c := genCase(run.Rand.Fork(), i)
		cases = append(cases, &c)
	}
	batch := run.Scale(400, 250)
	sampled := 0
	for start := 0; start < len(cases); start += batch {
		end := start + batch
		if end > len(cases) {
			end = len(cases)
		}
		results := h.evalCases(cases[start:end])
		for _, r := range results {
			h.account(r)
			if r.first() == nil && r.c.Label == "valid" && r.frags > 0 && sampled < 3 {
				sampled++
				run.Sample(map[string]any{"documents": docsText(r.c), "tool_output_bytes": len(r.toolOut), "decoded": r.decoded, "leaves": r.leaves})
			}
		}
		reported := 0
		for _, r := range results {
			if r.first() != nil {
				// shrink the first few failures of a batch only (each shrink costs compiles)
				h.report(r, reported < 4)
				reported++
			}
		}
	}
	run.Note("scratch builds: %d (1 per batch + shrinking); corpus/finding replays: %d", h.builds, nCorpus)
	run.Finish(h.model)
}

// account records the evidence of one evaluated case.
func (h *harness) account(r *caseResult) {
	run := h.run
	c := r.c
	label := c.Label
	if strings.HasPrefix(label, "corpus:") {
		label = "corpus"
	}
	run.Count("label:" + label)
	if r.skipped != "" {
		run.Count("skipped:" + strings.SplitN(r.skipped, ":", 2)[0])
		return
	}
	cls := "invalid"
	if r.allValid {
		cls = "valid-outside-envelope"
		if r.inEnv {
			cls = "valid-in-envelope"
		}
	}
	run.Count("class:" + cls)
	roots := "roots:query"
	if c.Schema.Mutation != "" {
		roots += "+mutation"
	}
	if c.Schema.Subscription != "" {
		roots += "+subscription"
	}
	run.Count(roots)
	for _, d := range c.Docs {
		for _, def := range d.Ops() {
			run.Count("operation:" + def.Kind)
		}
	}
	if !r.allValid && !strings.HasPrefix(c.Label, "invalid:") {
		run.Count("generator-miss:" + c.Label + ":" + clip(r.invalidWhy, 70))
		if os.Getenv("C20_DEBUG") != "" {
			fmt.Println("GENERATOR-MISS", r.invalidWhy, "::", docsText(c))
		}
	}
	run.Count(fmt.Sprintf("tool-exit:%d", r.toolExit))
	if !r.inEnv && r.allValid {
		run.Count("outside:" + outsideCategory(r.envWhy))
	}
	if r.clash != "" {
		run.Count("shape:go-name-clash")
	}
	if r.enumClash != "" {
		run.Count("shape:enum-constants-share-camel-name")
	}
	b, _ := json.Marshal(struct {
		S SchemaSpec
		D []Doc
	}{c.Schema, c.Docs})
	run.Case(string(b), r.allValid && r.inEnv && r.absFrags > 0 && r.nulls > 0 && r.lists > 0 && r.frags > 0)
	run.CountN("decoded-responses", r.decoded)
	run.CountN("leaves-compared", r.leaves)
	run.CountN("nulls-compared", r.nulls)
	run.CountN("fragments-applied", r.frags)
	run.CountN("selections-removed-by-directive", r.skippedSels)
	if r.envReply != "" {
		run.Count(fmt.Sprintf("lean-hypotheses:%v/harness-envelope:%v", r.hypOK, r.inEnv))
		if r.modelGen && r.toolExit == 0 {
			run.Count(fmt.Sprintf("model-wf:%v/pkg:%v/go-types-ok:%v", r.modelWF, r.modelPkgWF, r.typeErr == ""))
		}
	}
	hasMode := func(kind, mode string) (bool, string) {
		for i := range r.failures {
			f := &r.failures[i]
			if f.Kind == kind && (mode == "" || f.Mode == mode) {
				if key := findingKey(r, f); key != "" {
					// failures that match an open finding are reported as KNOWN-FINDING, not as a broken obligation
					run.Count("known-finding-case:" + key)
					continue
				}
				return true, f.What
			}
		}
		return false, ""
	}
	if f := r.first(); f != nil && findingKey(r, f) != "" && h.model != nil {
		// the case is reported as a known finding of the property; its (consequential) correspondence
		// differences — e.g. output that does not even parse into the modelled shape — are not counted
		run.Oblige("gen-correspondence (declarations / error classes: model vs go/ast of the binary's output)", "correspondence", 1, true, "")
	} else if h.model != nil {
		bad, what := hasMode("correspondence", "gen-diff")
		run.Oblige("gen-correspondence (declarations / error classes: model vs go/ast of the binary's output)", "correspondence", 1, !bad, what)
		if r.decoded > 0 {
			bad, what = hasMode("correspondence", "decode-diff")
			run.Oblige("decode-correspondence (model decode vs json.Unmarshal into the compiled types)", "correspondence", r.decoded, !bad, what)
		}
	}
	if r.allValid && r.inEnv {
		bad, what := hasMode("property", "no-output")
		bad2, what2 := hasMode("property", "compile")
		bad3, what3 := hasMode("crash", "")
		run.Oblige("oracle: in-envelope operations ⇒ exit 0 and source that compiles (go/types per case, go build of the batch; cases matching an open finding excepted)", "oracle", 1, !(bad || bad2 || bad3), what+what2+what3)
		if r.decoded > 0 {
			bad, what = hasMode("property", "decode")
			bad2, what2 = hasMode("property", "leaf")
			run.Oblige("oracle: json.Unmarshal of the executor's data succeeds and every selected leaf is held (cases matching an open finding excepted)", "oracle", r.decoded, !(bad || bad2), what+what2)
		}
	}
	if r.envReply != "" && r.modelGen && r.modelWF && r.toolExit == 0 {
		bad, what := hasMode("correspondence", "model-wf")
		bad2, what2 := hasMode("property", "theorem-instance")
		bad3, what3 := hasMode("correspondence", "theorem-instance")
		run.Oblige("model-level compiles (declsWF ∧ pkgScopeWF of the model's output) ⇒ go/types accepts the binary's output", "correspondence", 1, !(bad || bad2 || bad3), what+what2+what3)
	}
	if r.envReply != "" && r.hypOK && r.modelGen {
		bad, what := hasMode("property", "theorem-instance")
		bad2, what2 := hasMode("correspondence", "theorem-instance")
		run.Oblige("theorem instance on the real binary: identsOK ∧ defOKW ∧ schemaOK ∧ enumValuesOK (decided by the model driver for this input) ⇒ the tool's output exists and type-checks (gen_compiles_in_wording)", "oracle", 1, !(bad || bad2), what+what2)
	}
	if !r.allValid {
		bad, what := hasMode("property", "invalid-accepted")
		bad2, what2 := hasMode("crash", "")
		run.Oblige("oracle: a document that fails validation ⇒ error exit, no output", "oracle", 1, !(bad || bad2), what+what2)
	}
}

func outsideCategory(why string) string {
	switch {
	case strings.Contains(why, "without selecting __typename"):
		return "no-typename"
	case strings.Contains(why, "anonymous"):
		return "anonymous"
	case strings.Contains(why, "letter case"), strings.Contains(why, "ignoring case"):
		return "keys-not-distinct-ignoring-case"
	case strings.Contains(why, "begin with a letter"):
		return "key-not-starting-with-letter"
	case strings.Contains(why, "harness:"):
		return "harness"
	}
	return "other"
}
