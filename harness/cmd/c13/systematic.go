package main

// The systematic block: fixed cases that run first at every seed, independent of the random source.
//
//   - gated roots: each root kind that can be gated (Mutation, Subscription, both) × each operation kind
//     (query, mutation, subscription) × F ∈ {∅, {a}} × the entry points graphql.Execute (query text),
//     graphql.Subscribe (query text) and the pre-validated Request.Document. (apifu.Config builds its
//     own root objects, so a gated root cannot be mounted: no HTTP / socket route exists for it.)
//   - histories: the same text on ONE long-lived schema / API object under feature sets in both orders
//     (all features first, none first, both, and no history) × every F, through graphql.Execute,
//     graphql.Subscribe, Request.Document, apifu HTTP (plain + persisted query) and a socket.

import (
	"fmt"
	"strings"
)

func gatedRootSpecs() []*Spec {
	a := []string{"a"}
	mk := func(mreq, sreq []string) *Spec {
		return &Spec{Query: "Query", Mutation: "Mutation", Subscription: "Subscription", Types: withBuiltins(
			TypeSpec{Kind: "object", Name: "Query", Fields: []FieldSpec{{Name: "ok", Type: "Boolean"}, {Name: "n", Type: "Int", Req: a}}},
			TypeSpec{Kind: "object", Name: "Mutation", Req: mreq, Fields: []FieldSpec{{Name: "touch", Type: "Boolean"}, {Name: "set", Type: "Int", Args: []ArgSpec{{"to", "Int"}}}}},
			TypeSpec{Kind: "object", Name: "Subscription", Req: sreq, Fields: []FieldSpec{{Name: "tick", Type: "Int"}, {Name: "tock", Type: "String", Req: a}}})}
	}
	return []*Spec{mk(a, nil), mk(nil, a), mk(a, a), mk(nil, nil)}
}

var gatedRootOps = []string{
	"{ ok }",
	"{ ok n }",
	"mutation { touch }",
	"mutation M { set(to: 3) touch }",
	"subscription { tick }",
	"subscription S { tock }",
	"query Q { ok } mutation M { touch }",
	schemaProbe,
}

func historySpecs() []*Spec {
	hs := handSpecs()
	return []*Spec{hs[3], hs[0], gatedRootSpecs()[2]}
}

var historyDocs = [][]string{
	{"{ pet { nickname age } }", "{ ...F1 } fragment F1 on Query { pet { r3: age } }", "{ experimentalObject { foo } }", "{ pet { ... on Dog { age barkVolume } } }", `{ __type(name: "ExperimentalObject") { name } }`},
	{"{ secret { id s } }", "{ nodes { ... on Secret { s } id } }", `{ __type(name: "Secret") { name kind } }`},
	{"mutation { touch }", "subscription { tick }", "{ ok n }", schemaProbe},
}

func (h *harness) systematic() {
	run := h.run
	one := func(spec *Spec, F []string, text string, before [][]string) {
		env, err := newPairEnv(spec, F)
		if err != nil {
			run.Oblige(obErase, "correspondence", 1, false, err.Error())
			return
		}
		kind := "fixed"
		if text == schemaProbe || strings.HasPrefix(text, "{ __type") {
			kind = "probe"
		}
		q := query{Kind: kind, Label: "systematic", Text: text}
		const seed = 12345
		env.before = before
		what, _, _ := env.differential(&q, true, seed)
		if what == "" && !rootHidden(spec, F) {
			// the pre-validated document on the same (possibly warmed) schema object
			if log, ok := runPrevalidated(env.full, env.fullW, env.all, F, &q); ok {
				if g := gatedCalls(env.origX, fset(F), log); len(g) > 0 {
					what = fmt.Sprintf("gated resolver invoked under F=%v by a document validated with all features: %v", F, g)
				}
			}
		}
		run.Count("systematic:core")
		run.Case(fmt.Sprintf("sys|%s|%v|%v|%s", canonSpec(env.origX), F, before, text), true)
		if what != "" {
			if h.reportOracle(&Case{Spec: spec.clone(), F: F, Query: q, Respect: true, Seed: seed, Before: before}, what) != "" {
				what = ""
			}
		}
		run.Oblige(obOracle, "oracle", 1, what == "", what)
	}
	// 1. gated roots
	for _, spec := range gatedRootSpecs() {
		for _, F := range subsets(spec.features()) {
			for _, text := range gatedRootOps {
				one(spec, F, text, nil)
			}
		}
	}
	// 2. histories, core
	for si, spec := range historySpecs() {
		feats := spec.features()
		for _, F := range subsets(feats) {
			for _, text := range historyDocs[si] {
				for _, before := range [][][]string{{feats}, {{}}, {feats, {}}, {{}, feats}} {
					one(spec, F, text, before)
				}
			}
		}
	}
	// 3. histories through the API: HTTP (plain, persisted query) and a socket on ONE API object
	cases := singleGateAPICases()
	for _, ac := range []apiCase{cases[1], cases[0], cases[5]} {
		origX := expand(ac.spec)
		feats := ac.spec.features()
		for _, F := range subsets(feats) {
			Fm := fset(F)
			for _, before := range [][][]string{{feats}, {{}}, {feats, {}}} {
				fw := &world{orig: origX, F: Fm, respect: true, seed: 12345}
				ew := &world{orig: origX, F: Fm, respect: true, seed: 12345}
				full, err := buildAPI(ac.spec, fw)
				if err != nil {
					continue
				}
				erased, err := buildAPI(stripReq(eraseSpec(ac.spec, Fm)), ew)
				if err != nil {
					continue
				}
				var wsA, wsW, wsB *wsSession
				if wsA, err = dialWS(full, WSVariant{Proto: "graphql-transport-ws", Upgrade: F}); err == nil {
					if wsW, err = dialWS(full, WSVariant{Proto: "graphql-transport-ws", Upgrade: before[0]}); err == nil {
						wsB, err = dialWS(erased, WSVariant{Proto: "graphql-transport-ws"})
					}
				}
				for _, q0 := range ac.queries {
					q := q0
					warmUpAPI(full, fw, before, Fm, &q)
					a := serveHTTP(full, fw, F, &q)
					b := serveHTTP(erased, ew, nil, &q)
					what := compareOutcomes(origX, F, a, b)
					for i := 0; i < 4 && what != ""; i++ {
						if a2 := serveHTTP(full, fw, F, &q); a2.Resp == b.Resp {
							what = ""
						}
					}
					run.Count("systematic:api-http")
					run.Oblige(obAPI, "oracle", 1, what == "", what)
					if what != "" {
						h.reportAPI(&Case{Spec: ac.spec.clone(), F: F, Query: q, Respect: true, Seed: 12345, Before: before}, "API/HTTP: "+what)
					}
					if err == nil && wsB != nil && a.Panic == "" && b.Panic == "" {
						fw.F = fset(before[0])
						wsW.run(fw, &q) // the same request on a socket of the same API with the other feature set first
						fw.F = Fm
						wa, wb := wsA.run(fw, &q), wsB.run(ew, &q)
						if strings.HasPrefix(wa.Resp, "ws ") || strings.HasPrefix(wb.Resp, "ws ") {
							run.Count("api:ws-io-error")
							continue
						}
						what := compareOutcomes(origX, F, wa, wb)
						if what != "" {
							if a2 := wsA.run(fw, &q); a2.Resp == wb.Resp {
								what = ""
							}
						}
						run.Count("systematic:api-ws")
						run.Oblige(obAPI, "oracle", 1, what == "", what)
						if what != "" {
							v := WSVariant{Proto: "graphql-transport-ws", Upgrade: F}
							h.reportAPI(&Case{Spec: ac.spec.clone(), F: F, Query: q, Respect: true, Seed: 12345, WS: &v, Before: before}, "API/WS: "+what)
						}
					}
				}
				for _, s := range []*wsSession{wsA, wsW} {
					if s != nil {
						s.closeClient()
					}
				}
				for _, s := range []*wsSession{wsA, wsW, wsB} {
					if s != nil {
						s.close()
					}
				}
			}
		}
	}
}
