package main

// Fixed schemas for the API-layer stream (apifu.Config with Features, HTTP + sockets + persisted
// queries + the cost rule apifu always attaches) in which exactly ONE kind of element is gated, one
// kind at a time, with fixed requests that use the gated element — in particular with the feature
// ENABLED, and through VARIABLES declared with gated types — next to the usual probes and generated
// documents. And fixed "leaky" definitions that schema.New must refuse.

type apiCase struct {
	name    string
	spec    *Spec
	queries []query
	withWS  bool
}

func fixedQ(text string, vars map[string]interface{}) query {
	return query{Kind: "doc", Label: "fixed", Text: text, Vars: vars}
}

func singleGateAPICases() []apiCase {
	a := []string{"a"}
	return []apiCase{
		{name: "interface-field", withWS: true, spec: &Spec{Query: "Query", Types: withBuiltins(
			TypeSpec{Kind: "interface", Name: "Thing", Fields: []FieldSpec{{Name: "id", Type: "ID"}, {Name: "createdAt", Type: "String", Req: a}}},
			TypeSpec{Kind: "object", Name: "Widget", Ifaces: []string{"Thing"}, Fields: []FieldSpec{{Name: "id", Type: "ID"}, {Name: "createdAt", Type: "String"}}},
			TypeSpec{Kind: "object", Name: "Query", Fields: []FieldSpec{{Name: "ok", Type: "Boolean"}, {Name: "thing", Type: "Thing"}}})},
			queries: []query{fixedQ("{ thing { id createdAt } }", nil), fixedQ("{ thing { ... on Widget { createdAt } id } }", nil),
				{Kind: "probe", Label: "type:Thing", Text: typeProbe("Thing")}}},
		{name: "object-field", withWS: true, spec: &Spec{Query: "Query", Types: withBuiltins(
			TypeSpec{Kind: "object", Name: "Query", Fields: []FieldSpec{{Name: "ok", Type: "Boolean"}, {Name: "secret", Type: "Int", Req: a}}})},
			queries: []query{fixedQ("{ ok secret }", nil), {Kind: "probe", Label: "type:Query", Text: typeProbe("Query")}}},
		{name: "object-type", spec: &Spec{Query: "Query", Types: withBuiltins(
			TypeSpec{Kind: "interface", Name: "Thing", Fields: []FieldSpec{{Name: "id", Type: "ID"}}},
			TypeSpec{Kind: "object", Name: "Widget", Ifaces: []string{"Thing"}, Fields: []FieldSpec{{Name: "id", Type: "ID"}}},
			TypeSpec{Kind: "object", Name: "Extra", Req: a, Ifaces: []string{"Thing"}, Fields: []FieldSpec{{Name: "id", Type: "ID"}, {Name: "x", Type: "Int"}}},
			TypeSpec{Kind: "object", Name: "Query", Fields: []FieldSpec{{Name: "ok", Type: "Boolean"}, {Name: "things", Type: "[Thing]"}}})},
			queries: []query{fixedQ("{ things { __typename id ... on Extra { x } } }", nil), fixedQ("{ things { __typename id } }", nil),
				{Kind: "probe", Label: "type:Extra", Text: typeProbe("Extra")}, {Kind: "probe", Label: "nav:Thing", Text: navProbe("Thing")}}},
		{name: "interface-type", spec: &Spec{Query: "Query", Types: withBuiltins(
			TypeSpec{Kind: "interface", Name: "Hidden", Req: a, Fields: []FieldSpec{{Name: "id", Type: "ID"}}},
			TypeSpec{Kind: "object", Name: "Widget", Ifaces: []string{"Hidden"}, Fields: []FieldSpec{{Name: "id", Type: "ID"}}},
			TypeSpec{Kind: "object", Name: "Query", Fields: []FieldSpec{{Name: "w", Type: "Widget"}}})},
			queries: []query{fixedQ("{ w { ... on Hidden { id } } }", nil), {Kind: "probe", Label: "nav:Widget", Text: navProbe("Widget")}}},
		{name: "union-type", spec: &Spec{Query: "Query", Types: withBuiltins(
			TypeSpec{Kind: "object", Name: "Widget", Fields: []FieldSpec{{Name: "id", Type: "ID"}}},
			TypeSpec{Kind: "union", Name: "Any", Req: a, Members: []string{"Widget"}},
			TypeSpec{Kind: "object", Name: "Query", Fields: []FieldSpec{{Name: "w", Type: "Widget"}}})},
			queries: []query{fixedQ("{ w { ... on Any { __typename } } }", nil), {Kind: "probe", Label: "type:Any", Text: typeProbe("Any")}}},
		{name: "input-type", withWS: true, spec: &Spec{Query: "Query", Types: withBuiltins(
			TypeSpec{Kind: "input", Name: "Filter", Req: a, Inputs: []ArgSpec{{"n", "Int"}, {"s", "String"}}, InputDefaults: []string{"s"}},
			TypeSpec{Kind: "object", Name: "Query", Fields: []FieldSpec{{Name: "ok", Type: "Boolean"}, {Name: "search", Type: "Int", Req: a, Args: []ArgSpec{{"filter", "Filter"}}}}})},
			queries: []query{
				fixedQ("query Q($f: Filter) { search(filter: $f) }", map[string]interface{}{"f": map[string]interface{}{"n": float64(1)}}),
				fixedQ("query Q($f: Filter = {n: 2}) { search(filter: $f) }", nil),
				fixedQ("{ search(filter: {n: 3}) }", nil),
				{Kind: "probe", Label: "type:Filter", Text: typeProbe("Filter")}}},
		{name: "enum-type", spec: &Spec{Query: "Query", Types: withBuiltins(
			TypeSpec{Kind: "enum", Name: "Color", Req: a, Values: []string{"RED", "GREEN"}},
			TypeSpec{Kind: "object", Name: "Query", Fields: []FieldSpec{{Name: "ok", Type: "Boolean"}, {Name: "paint", Type: "Color", Req: a, Args: []ArgSpec{{"c", "Color"}}, ArgDefaults: []string{"c"}}}})},
			queries: []query{
				fixedQ("query Q($c: Color!) { paint(c: $c) }", map[string]interface{}{"c": "RED"}),
				fixedQ("query Q($c: Color = GREEN) { paint(c: $c) }", nil),
				fixedQ("query Q($c: [Color!]) { paint }", map[string]interface{}{"c": []interface{}{"RED"}}),
				fixedQ("{ paint }", nil),
				{Kind: "probe", Label: "type:Color", Text: typeProbe("Color")}}},
		{name: "scalar-type", spec: &Spec{Query: "Query", Types: withBuiltins(
			TypeSpec{Kind: "scalar", Name: "Token", Req: a},
			TypeSpec{Kind: "object", Name: "Query", Fields: []FieldSpec{{Name: "ok", Type: "Boolean"}, {Name: "echo", Type: "Token", Req: a, Args: []ArgSpec{{"t", "Token"}}}}})},
			queries: []query{fixedQ("query Q($t: Token) { echo(t: $t) }", map[string]interface{}{"t": "x"}), fixedQ(`{ echo(t: "y") }`, nil)}},
		{name: "connection-edge-field", spec: &Spec{Query: "Query", Types: append(withBuiltins(
			TypeSpec{Kind: "object", Name: "Item", Fields: []FieldSpec{{Name: "n", Type: "Int"}}},
			TypeSpec{Kind: "object", Name: "Query", Fields: []FieldSpec{{Name: "ok", Type: "Boolean"},
				{Name: "items", Conn: &ConnSpec{Prefix: "Item", Node: "Item", EdgeFields: []FieldSpec{{Name: "score", Type: "Int", Req: a}}}}}}), pageInfoSpec())},
			queries: []query{fixedQ("{ items(first: 3) { edges { score node { n } } } }", nil), {Kind: "probe", Label: "type:ItemEdge", Text: typeProbe("ItemEdge")}}},
	}
}

// leakySpecs: definitions in which an element exposes a type that needs a feature its owner does not
// need — with and without default values. schema.New must refuse every one of them (and the model's
// Accepted does): the construction rule is part of the property's mechanism.
func leakySpecs() []*Spec {
	a := []string{"a"}
	tier := TypeSpec{Kind: "enum", Name: "Tier", Req: a, Values: []string{"FREE", "PRO"}}
	q := func(fields ...FieldSpec) TypeSpec {
		return TypeSpec{Kind: "object", Name: "Query", Fields: append([]FieldSpec{{Name: "ok", Type: "Boolean"}}, fields...)}
	}
	search := FieldSpec{Name: "search", Type: "Int", Args: []ArgSpec{{"filter", "Filter"}}}
	return []*Spec{
		// input field of a gated enum type, ungated input object: with default, without, non-null with default
		{Query: "Query", Types: withBuiltins(tier, TypeSpec{Kind: "input", Name: "Filter", Inputs: []ArgSpec{{"tier", "Tier"}, {"n", "Int"}}, InputDefaults: []string{"tier"}}, q(search))},
		{Query: "Query", Types: withBuiltins(tier, TypeSpec{Kind: "input", Name: "Filter", Inputs: []ArgSpec{{"tier", "Tier"}, {"n", "Int"}}}, q(search))},
		{Query: "Query", Types: withBuiltins(tier, TypeSpec{Kind: "input", Name: "Filter", Inputs: []ArgSpec{{"n", "Int"}, {"tier", "Tier!"}}, InputDefaults: []string{"tier", "n"}}, q(search))},
		// input field of a gated scalar / gated input type
		{Query: "Query", Types: withBuiltins(TypeSpec{Kind: "scalar", Name: "Token", Req: a}, TypeSpec{Kind: "input", Name: "Filter", Inputs: []ArgSpec{{"t", "Token"}}, InputDefaults: []string{"t"}}, q(search))},
		{Query: "Query", Types: withBuiltins(TypeSpec{Kind: "input", Name: "Inner", Req: a, Inputs: []ArgSpec{{"n", "Int"}}}, TypeSpec{Kind: "input", Name: "Filter", Inputs: []ArgSpec{{"inner", "Inner"}}}, q(search))},
		// a less gated input object (b) with a field needing a as well
		{Query: "Query", Types: withBuiltins(tier, TypeSpec{Kind: "input", Name: "Filter", Req: []string{"b"}, Inputs: []ArgSpec{{"tier", "Tier"}}, InputDefaults: []string{"tier"}},
			q(FieldSpec{Name: "search", Type: "Int", Req: []string{"b"}, Args: []ArgSpec{{"filter", "Filter"}}}))},
		// field argument of a gated type on an ungated field: with and without default
		{Query: "Query", Types: withBuiltins(tier, q(FieldSpec{Name: "plan", Type: "Int", Args: []ArgSpec{{"tier", "Tier"}}, ArgDefaults: []string{"tier"}}))},
		{Query: "Query", Types: withBuiltins(tier, q(FieldSpec{Name: "plan", Type: "Int", Args: []ArgSpec{{"tier", "Tier"}}}))},
		// field / interface field of a gated type on an ungated field
		{Query: "Query", Types: withBuiltins(tier, q(FieldSpec{Name: "tier", Type: "Tier"}))},
		{Query: "Query", Types: withBuiltins(tier, TypeSpec{Kind: "interface", Name: "Plan", Fields: []FieldSpec{{Name: "id", Type: "ID"}, {Name: "tier", Type: "[Tier!]"}}}, q())},
		// ungated union with a gated member
		{Query: "Query", Types: withBuiltins(TypeSpec{Kind: "object", Name: "Pro", Req: a, Fields: []FieldSpec{{Name: "id", Type: "ID"}}},
			TypeSpec{Kind: "object", Name: "Free", Fields: []FieldSpec{{Name: "id", Type: "ID"}}}, TypeSpec{Kind: "union", Name: "Plan", Members: []string{"Free", "Pro"}}, q())},
		// ungated connection whose (ungated) node field has a gated type
		{Query: "Query", Types: append(withBuiltins(TypeSpec{Kind: "object", Name: "Pro", Req: a, Fields: []FieldSpec{{Name: "id", Type: "ID"}}},
			q(FieldSpec{Name: "pros", Conn: &ConnSpec{Prefix: "Pro", Node: "Pro"}})), pageInfoSpec())},
	}
}
