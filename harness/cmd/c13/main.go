// Harness for C13 — a disabled feature is indistinguishable from its elements not existing.
//
// For generated schemas S whose types and fields carry required-feature sets (always passed through
// the real schema.New first) and every request feature set F ⊆ features(S):
//
//	oracle (model-free, the property itself): for generated documents and introspection probes q,
//	  response(S, F, q) == response(erase(S,F), all features, q)   (validation verdict, error
//	  messages and locations, execution data and errors), the resolver call logs are equal and no
//	  gated resolver was invoked;            erase(S,F) is built physically by eraseSpec (spec.go);
//	correspondence with the Lean model (lean/ApiFu/C13, driver c13model):
//	  Accepted(S) == (schema.New accepts S);  erase(S,F) of the model == eraseSpec(S,F);
//	  view(S,F) of the model == what the real schema objects answer (GetField, feature-aware type
//	  lookup, introspection listings, spread possibility) — both for (S,F) and for (erase(S,F), ⊤).
package main

import (
	"encoding/json"
	"fmt"
	"os"
	"sort"
	"strings"

	"verifharness/hx"
)

// Case is one replayable (S, F, q) triple.
type Case struct {
	Spec    *Spec    `json:"spec"`
	F       []string `json:"features"`
	Query   query    `json:"query"`
	Respect bool     `json:"respect"` // abstract fields only resolve to objects of types visible under F
	// Overlap: values returned through an interface field are also claimed by the hidden implementations
	Overlap bool   `json:"overlap,omitempty"`
	Seed    uint64 `json:"world_seed"`
	Doc     *Doc   `json:"doc,omitempty"`
	// Via "api": the case only fails through apifu.API (ServeGraphQL / graphql-ws), i.e. in the
	// plumbing of the request's feature set, not in graphql.Execute.
	Via string `json:"via,omitempty"`
	// PQ, for Via "api": the case fails through the persisted-query extension (register, then hash only).
	PQ bool `json:"persisted_query,omitempty"`
	// WS, for Via "api": the socket variant on which the case fails (nil: HTTP, or try the default).
	WS *WSVariant `json:"ws,omitempty"`
	// Before: a history. The same request was first sent, in this order, under each of these feature
	// sets to the SAME long-lived schema (or API) object — through every entry point that takes the
	// query text — before the request under F that is compared with the erased schema.
	Before [][]string `json:"before,omitempty"`
	// Pad: further feature names the request on S enables — names the schema never mentions, or
	// repetitions of names in F. The expected answer is still that of erase(S,F).
	Pad []string `json:"pad,omitempty"`
}

type harness struct {
	run      *hx.Run
	model    *hx.Model
	perClass map[string]int
	wsCount  int
	// extra: fixed requests checkSpec sends next to the probes and the generated documents
	extra []query
}

const obPrevalidated = "oracle: a document validated with all features and executed under F (Request.Document) never reaches a gated resolver"

const (
	obOracle    = "oracle: response(S,F,q) == response(erase(S,F), all features, q); equal resolver logs; no gated resolver invoked"
	obAccepted  = "correspondence: model Accepted(S) == real schema.New verdict"
	obErase     = "correspondence: model erase(S,F) == harness eraseSpec(S,F); real schema.New accepts erase(S,F)"
	obView      = "correspondence: model view(S,F) == real accessors on (S,F)"
	obViewErase = "correspondence: model view(S,F) == real accessors on (erase(S,F), all features)"
)

// gatedCalls lists resolver invocations of fields that are not visible under F (the field's own
// requirement or its parent type's).
func gatedCalls(orig *Spec, F map[string]bool, log []string) []string {
	var out []string
	for _, e := range log {
		if strings.HasPrefix(e, "@") {
			continue // a directive's field-collection filter call (compared between the two runs, not gated by itself)
		}
		i := strings.IndexByte(e, '.')
		t := orig.find(e[:i])
		if t == nil {
			out = append(out, e)
			continue
		}
		if !subset(t.Req, F) {
			out = append(out, e)
			continue
		}
		for _, f := range t.Fields {
			if f.Name == e[i+1:] && !subset(f.Req, F) {
				out = append(out, e)
			}
		}
	}
	return out
}

type pairEnv struct {
	orig     *Spec // unexpanded
	origX    *Spec // expanded
	F        []string
	all      []string
	full     *built
	fullW    *world
	erased   *built
	erasedW  *world
	erasedSp *Spec
	// the erased schema with every requirement removed, queried with NO features: a reference that
	// does not go through any feature test at all
	plain  *built
	plainW *world
	// overlap is the worlds' overlap mode for the next differential
	overlap bool
	// before is the history of the next differential (Case.Before): S is then a fresh schema object
	// that has served the same request under these feature sets first
	before [][]string
	// pad (Case.Pad): feature names the schema never mentions (or repetitions of enabled ones) that the
	// request on S enables next to F — they must change nothing
	pad []string
}

// reqF is the feature list of the request sent to S: F and the padding.
func (e *pairEnv) reqF() []string {
	return append(append([]string(nil), e.F...), e.pad...)
}

// warmUp rebuilds S and sends q to it under each feature set of the history, through graphql.Execute
// and (for subscriptions) graphql.Subscribe with the query text.
func (e *pairEnv) warmUp(q *query, respect bool, seed uint64) {
	w := &world{orig: e.origX, F: fset(e.F)}
	full, err := buildSchema(e.orig, w)
	if err != nil {
		return
	}
	e.full, e.fullW = full, w
	w.respect, w.seed, w.overlap = respect, seed, e.overlap
	for _, G := range e.before {
		w.F = fset(G)
		runQuery(e.full, w, G, q)
		runSubscribe(e.full, w, G, q)
	}
	w.F = fset(e.F)
}

func newPairEnv(spec *Spec, F []string) (*pairEnv, error) {
	e := &pairEnv{orig: spec, origX: expand(spec), F: F, all: spec.features()}
	Fm := fset(F)
	e.fullW = &world{orig: e.origX, F: Fm}
	var err error
	if e.full, err = buildSchema(spec, e.fullW); err != nil {
		return nil, fmt.Errorf("S: %w", err)
	}
	e.erasedSp = eraseSpec(spec, Fm)
	e.erasedW = &world{orig: e.origX, F: Fm}
	if e.erased, err = buildSchema(e.erasedSp, e.erasedW); err != nil {
		return e, fmt.Errorf("erase(S,F): %w", err)
	}
	e.plainW = &world{orig: e.origX, F: Fm}
	if e.plain, err = buildSchema(stripReq(e.erasedSp), e.plainW); err != nil {
		return e, fmt.Errorf("erase(S,F) without requirements: %w", err)
	}
	return e, nil
}

// differential evaluates the property on one query. It returns "" when it holds.
func (e *pairEnv) differential(q *query, respect bool, seed uint64) (what string, a, b outcome) {
	if len(e.before) > 0 {
		e.warmUp(q, respect, seed)
	}
	for _, w := range []*world{e.fullW, e.erasedW, e.plainW} {
		w.respect, w.seed, w.overlap = respect, seed, e.overlap
	}
	a = runQuery(e.full, e.fullW, e.reqF(), q)
	b = runQuery(e.erased, e.erasedW, e.all, q)
	if what, a, b = e.compare(q, a, b, e.erased, e.erasedW, e.all, "erased schema"); what != "" {
		return what, a, b
	}
	// graphql.Subscribe with the query text (the subscribe step of a subscription operation)
	if sa, sb := runSubscribe(e.full, e.fullW, e.reqF(), q), runSubscribe(e.erased, e.erasedW, e.all, q); sa.Resp != sb.Resp || strings.Join(sa.Log, ",") != strings.Join(sb.Log, ",") {
		if len(e.before) > 0 {
			e.warmUp(q, respect, seed)
		}
		if sa2 := runSubscribe(e.full, e.fullW, e.reqF(), q); sa2.Resp != sb.Resp || strings.Join(sa2.Log, ",") != strings.Join(sb.Log, ",") {
			return fmt.Sprintf("graphql.Subscribe differs: under F=%v %s log=%v ; erased schema %s log=%v", e.F, clip(sa.Resp), sa.Log, clip(sb.Resp), sb.Log), a, b
		}
	}
	c := runQuery(e.plain, e.plainW, nil, q)
	what, a, _ = e.compare(q, a, c, e.plain, e.plainW, nil, "erased schema without requirements, no features")
	return what, a, b
}

func (e *pairEnv) compare(q *query, a, b outcome, ref *built, refW *world, refF []string, refName string) (what string, _, _ outcome) {
	if a.Panic != "" || b.Panic != "" {
		if a.Panic != b.Panic {
			return fmt.Sprintf("panic differs: under F %q, erased %q", a.Panic, b.Panic), a, b
		}
		return "", a, b
	}
	if g := gatedCalls(e.origX, fset(e.F), a.Log); len(g) > 0 {
		return fmt.Sprintf("gated resolver invoked under F=%v: %v", e.F, g), a, b
	}
	if a.Resp != b.Resp {
		// Go map iteration may pick a different one of several equally valid errors (merge check,
		// argument coercion): only call it a difference when it is stable.
		for i := 0; i < 6; i++ {
			a2 := runQuery(e.full, e.fullW, e.reqF(), q)
			b2 := runQuery(ref, refW, refF, q)
			if a2.Resp == b.Resp || b2.Resp == a.Resp || a2.Resp == b2.Resp {
				return "", a, b
			}
		}
		return fmt.Sprintf("response differs: under F=%v %s ; %s %s", e.F, clip(a.Resp), refName, clip(b.Resp)), a, b
	}
	if strings.Join(a.Log, ",") != strings.Join(b.Log, ",") {
		return fmt.Sprintf("resolver call log differs: under F %v ; %s %v", a.Log, refName, b.Log), a, b
	}
	return "", a, b
}

func clip(s string) string {
	if len(s) > 400 {
		return s[:400] + "…"
	}
	return s
}

// classify attaches a finding key to a failing case (narrow predicates; "" = unknown failure).
//
// F-13f: the schema's mutation (or subscription) root type itself carries required features that F
// does not enable, the request is an operation of that kind or asks for `mutationType` /
// `subscriptionType`, the responses differ (or the root's resolver ran) — and the counterfactual
// holds: the very same case with the requirement taken off the root type (nothing else changed)
// does not fail. A failure that survives the counterfactual is a different failure.
func classify(c *Case, what string) string {
	return "" // no open finding at present
}

func subsets(fs []string) [][]string {
	var out [][]string
	for m := 0; m < 1<<len(fs); m++ {
		var s []string
		for i, f := range fs {
			if m&(1<<i) != 0 {
				s = append(s, f)
			}
		}
		out = append(out, s)
	}
	return out
}

// failsSame re-evaluates a (possibly shrunk) case; returns the failure text or "".
func failsSame(c *Case) string {
	if !wellFormed(c.Spec) {
		return ""
	}
	env, err := newPairEnv(c.Spec, c.F)
	if err != nil {
		return ""
	}
	q := c.Query
	if c.Doc != nil {
		q.Text = c.Doc.text()
		q.Vars = c.Doc.Vals
	}
	env.overlap = c.Overlap
	env.before, env.pad = c.Before, c.Pad
	what, _, _ := env.differential(&q, c.Respect, c.Seed)
	return what
}

func failureClass(what string) string {
	if i := strings.IndexByte(what, ':'); i > 0 {
		return what[:i]
	}
	if len(what) > 20 {
		return what[:20]
	}
	return what
}

// shrink drops types, fields, memberships and selections while the case still fails the same way.
func shrink(c *Case, what string) (*Case, string) {
	class := failureClass(what)
	try := func(cand *Case) bool {
		w := failsSame(cand)
		if w != "" && failureClass(w) == class {
			*c, what = *cand, w
			return true
		}
		return false
	}
	for changed, rounds := true, 0; changed && rounds < 30; rounds++ {
		changed = false
		// drop types
		for i := len(c.Spec.Types) - 1; i >= 0; i-- {
			if i >= len(c.Spec.Types) {
				continue
			}
			cand := *c
			cand.Spec = c.Spec.clone()
			cand.Spec.Types = append(cand.Spec.Types[:i:i], cand.Spec.Types[i+1:]...)
			if try(&cand) {
				changed = true
			}
		}
		// drop roots, connection interfaces
		if c.Spec.Mutation != "" {
			cand := *c
			cand.Spec = c.Spec.clone()
			cand.Spec.Mutation = ""
			if try(&cand) {
				changed = true
			}
		}
		if c.Spec.Subscription != "" {
			cand := *c
			cand.Spec = c.Spec.clone()
			cand.Spec.Subscription = ""
			if try(&cand) {
				changed = true
			}
		}
		for i := len(c.Spec.ConnIfaces) - 1; i >= 0; i-- {
			cand := *c
			cand.Spec = c.Spec.clone()
			cand.Spec.ConnIfaces = append(cand.Spec.ConnIfaces[:i:i], cand.Spec.ConnIfaces[i+1:]...)
			for ti := range cand.Spec.Types {
				for fi := range cand.Spec.Types[ti].Fields {
					if cn := cand.Spec.Types[ti].Fields[fi].Conn; cn != nil {
						cn.Impl = nil
					}
				}
			}
			if try(&cand) {
				changed = true
			}
		}
		// drop fields / interface memberships / members / args
		for ti := range c.Spec.Types {
			for fi := len(c.Spec.Types[ti].Fields) - 1; fi >= 0; fi-- {
				cand := *c
				cand.Spec = c.Spec.clone()
				t := &cand.Spec.Types[ti]
				t.Fields = append(t.Fields[:fi:fi], t.Fields[fi+1:]...)
				if try(&cand) {
					changed = true
				}
			}
			for fi := range c.Spec.Types[ti].Fields {
				for ai := len(c.Spec.Types[ti].Fields[fi].Args) - 1; ai >= 0; ai-- {
					cand := *c
					cand.Spec = c.Spec.clone()
					f := &cand.Spec.Types[ti].Fields[fi]
					f.Args = append(f.Args[:ai:ai], f.Args[ai+1:]...)
					if try(&cand) {
						changed = true
					}
				}
			}
			for ii := len(c.Spec.Types[ti].Ifaces) - 1; ii >= 0; ii-- {
				cand := *c
				cand.Spec = c.Spec.clone()
				t := &cand.Spec.Types[ti]
				t.Ifaces = append(t.Ifaces[:ii:ii], t.Ifaces[ii+1:]...)
				if try(&cand) {
					changed = true
				}
			}
			for mi := len(c.Spec.Types[ti].Members) - 1; mi >= 0; mi-- {
				cand := *c
				cand.Spec = c.Spec.clone()
				t := &cand.Spec.Types[ti]
				t.Members = append(t.Members[:mi:mi], t.Members[mi+1:]...)
				if try(&cand) {
					changed = true
				}
			}
		}
		// drop selections
		if c.Doc != nil {
			for _, cand := range docShrinks(c.Doc) {
				cc := *c
				cc.Doc = cand
				if try(&cc) {
					changed = true
					break
				}
			}
		}
	}
	if c.Doc != nil {
		c.Query.Text = c.Doc.text()
		c.Query.Vars = c.Doc.Vals
	}
	return c, what
}

func cloneSels(s []*Sel) []*Sel {
	if s == nil {
		return nil
	}
	out := make([]*Sel, len(s))
	for i, x := range s {
		c := *x
		c.Args = append([]ArgVal(nil), x.Args...)
		c.Sub = cloneSels(x.Sub)
		out[i] = &c
	}
	return out
}

func cloneDoc(d *Doc) *Doc {
	c := &Doc{Op: d.Op, Vars: append([]VarDecl(nil), d.Vars...), Sels: cloneSels(d.Sels), Vals: d.Vals}
	for _, f := range d.Frags {
		c.Frags = append(c.Frags, FragDef{Name: f.Name, On: f.On, Sub: cloneSels(f.Sub)})
	}
	return c
}

// docShrinks: every document obtained by deleting one selection (from a set that keeps ≥ 1), one
// argument, one directive, or one unused fragment / variable.
func docShrinks(d *Doc) []*Doc {
	var out []*Doc
	var paths [][]int
	var walk func(sels []*Sel, prefix []int)
	walk = func(sels []*Sel, prefix []int) {
		for i, s := range sels {
			p := append(append([]int(nil), prefix...), i)
			paths = append(paths, p)
			walk(s.Sub, p)
		}
	}
	roots := func(doc *Doc) []*[]*Sel {
		rs := []*[]*Sel{&doc.Sels}
		for i := range doc.Frags {
			rs = append(rs, &doc.Frags[i].Sub)
		}
		return rs
	}
	for ri := range roots(d) {
		paths = nil
		walk(*roots(d)[ri], nil)
		for _, p := range paths {
			c := cloneDoc(d)
			set := roots(c)[ri]
			for _, i := range p[:len(p)-1] {
				set = &(*set)[i].Sub
			}
			last := p[len(p)-1]
			s := (*set)[last]
			if len(*set) > 1 {
				c2 := cloneDoc(c)
				set2 := roots(c2)[ri]
				for _, i := range p[:len(p)-1] {
					set2 = &(*set2)[i].Sub
				}
				*set2 = append((*set2)[:last:last], (*set2)[last+1:]...)
				out = append(out, c2)
			}
			if s.Dir != "" {
				c3 := cloneDoc(c)
				set3 := roots(c3)[ri]
				for _, i := range p[:len(p)-1] {
					set3 = &(*set3)[i].Sub
				}
				(*set3)[last].Dir = ""
				out = append(out, c3)
			}
			for ai := range s.Args {
				c4 := cloneDoc(c)
				set4 := roots(c4)[ri]
				for _, i := range p[:len(p)-1] {
					set4 = &(*set4)[i].Sub
				}
				x := (*set4)[last]
				x.Args = append(x.Args[:ai:ai], x.Args[ai+1:]...)
				out = append(out, c4)
			}
		}
	}
	for fi := range d.Frags {
		c := cloneDoc(d)
		c.Frags = append(c.Frags[:fi:fi], c.Frags[fi+1:]...)
		out = append(out, c)
	}
	for vi := range d.Vars {
		c := cloneDoc(d)
		c.Vars = append(c.Vars[:vi:vi], c.Vars[vi+1:]...)
		out = append(out, c)
	}
	return out
}

// ---- the model ------------------------------------------------------------------------------------

func (h *harness) ask(line string) string {
	rep, err := h.model.Ask(line)
	if err != nil {
		fmt.Fprintln(os.Stderr, "model driver failed:", err)
		os.Exit(2)
	}
	return rep
}

func featSexp(F []string) string { return strs(F).String() }

// ---- one schema -------------------------------------------------------------------------------------

type specStats struct {
	accepted bool
}

// reportOracle shrinks and records a failing case. Only the first few cases of a failure class are
// shrunk (shrinking re-runs the differential hundreds of times); the rest are counted.
func (h *harness) reportOracle(c *Case, what string) (key string) {
	if key = classify(c, what); key != "" {
		// an open known finding: reported (the check prints KNOWN-FINDING), counted, not shrunk further
		h.run.Count("known-finding:" + key)
		if h.perClass[key] < 1 {
			h.perClass[key]++
			c2, w2 := shrink(c, what)
			if classify(c2, w2) == key {
				c, what = c2, w2
			}
			h.run.Violate("property", what, key, false, c)
		}
		return key
	}
	class := failureClass(what) + "/" + c.Query.Kind
	if c.Query.Kind == "probe" {
		class += "/" + strings.SplitN(c.Query.Label, ":", 2)[0]
	}
	h.perClass[class]++
	h.run.Count("failure:" + class)
	if h.perClass[class] > 2 {
		return ""
	}
	c, what = shrink(c, what)
	h.run.Violate("property", what, classify(c, what), false, c)
	return ""
}

// checkSpec runs everything for one schema. nDocs generated documents per feature set.
func (h *harness) checkSpec(spec *Spec, r *hx.Rand, nDocs int, sample bool) {
	run := h.run
	origX := expand(spec)
	// 1. acceptance: real schema.New vs the model's Accepted
	probeW := &world{orig: origX, F: map[string]bool{}}
	_, realErr := buildSchema(spec, probeW)
	realOK := realErr == nil
	if realOK {
		run.Count("schema:accepted")
	} else if _, isBuild := realErr.(*buildError); isBuild {
		run.Count("schema:unbuildable")
	} else {
		run.Count("schema:rejected")
		run.Count("reject:" + rejectClass(realErr.Error()))
	}
	if h.model != nil {
		dirTies = h.ask(dirSexp(origX).String()) == "ok"
		rep := h.ask(hx.N("schema", specSexp(origX)).String())
		modelOK := strings.HasPrefix(rep, "(accepted true")
		ok := modelOK == realOK && (strings.HasPrefix(rep, "(accepted "))
		goRoots := len(spec.find(spec.Query).Req) == 0 // RootsUngated is about the query root only since fix 04
		if realOK && strings.Contains(rep, "rootsUngated") != goRoots {
			ok = false
		}
		run.Oblige(obAccepted, "correspondence", 1, ok, fmt.Sprintf("model %s, schema.New: %v", rep, realErr))
		if !ok {
			// the construction rule is part of the property's mechanism: a schema.New that accepts a
			// field exposing a more-gated type breaks non-interference; look for a failing input below
			run.Count("accepted-mismatch")
			if !realOK {
				run.Violate("correspondence", fmt.Sprintf("model accepts a schema the real schema.New rejects: %v", realErr), "", true, &Case{Spec: spec})
				return
			}
			defer func() {
				if run.Violations() == 0 {
					run.Violate("correspondence", fmt.Sprintf("real schema.New accepts a schema the model rejects (%s)", rep), "", true, &Case{Spec: spec})
				}
			}()
		}
	}
	if !realOK {
		return
	}
	feats := spec.features()
	fsets := subsets(feats)
	if len(feats) > 3 {
		fsets = fsets[:8]
	}
	probes := introspectionProbes(origX)
	nontrivial := false
	for _, F := range fsets {
		env, err := newPairEnv(spec, F)
		if err != nil {
			run.Oblige(obErase, "correspondence", 1, false, err.Error())
			run.Violate("property", fmt.Sprintf("erase(S,F) is not a constructible schema for F=%v: %v", F, err), "", false, &Case{Spec: spec, F: F})
			continue
		}
		gatedSomething := canonSpec(expand(env.erasedSp)) != canonSpec(origX)
		if gatedSomething {
			run.Count("F:erases-something")
			nontrivial = true
		} else {
			run.Count("F:erases-nothing")
		}
		// 2. model tie
		if h.model != nil {
			rep := h.ask("(erase " + featSexp(F) + ")")
			msp, err := parseSpecSexp(rep)
			ok := err == nil && canonSpec(msp) == canonSpec(expand(env.erasedSp))
			detail := ""
			if !ok {
				detail = fmt.Sprintf("F=%v model %.300s vs harness %.300s (%v)", F, rep, canonSpec(expand(env.erasedSp)), err)
				run.Violate("correspondence", "model erase differs from harness eraseSpec: "+detail, "", true, &Case{Spec: spec, F: F})
			}
			if ok && dirTies {
				rep := h.ask("(erasedirs " + featSexp(F) + ")")
				md, err := parseDirSexp(rep)
				if err != nil || canonDirList(md) != canonDirList(allDirectives(env.erasedSp)) {
					ok = false
					detail = fmt.Sprintf("F=%v erased directives: model %.200s vs harness %s (%v)", F, rep, canonDirList(allDirectives(env.erasedSp)), err)
					run.Violate("correspondence", "model erase differs from harness eraseSpec: "+detail, "", true, &Case{Spec: spec, F: F})
				}
			}
			run.Oblige(obErase, "correspondence", 1, ok, detail)

			var rc2 []string
			mv, err := modelViewLines(h.ask("(view " + featSexp(F) + ")"))
			if err != nil {
				run.Oblige(obView, "correspondence", 1, false, err.Error())
				run.Violate("correspondence", err.Error(), "", true, &Case{Spec: spec, F: F})
			} else {
				rv, err := realView(env.full, env.fullW, F, origX)
				d := ""
				if err != nil {
					d = err.Error()
				} else {
					rv = append(rv, realResolveCandidates(env.full, env.fullW, fset(F), F, origX, origX, spec)...)
					rc2 = h.modelRC2(F, rv)
					if rc2 == nil {
						rv = dropRC2(rv)
					}
					d = diffLines(append(observableRC(mv, rv), rc2...), rv)
				}
				run.Oblige(obView, "correspondence", len(mv), d == "", d)
				if d != "" {
					h.viewMismatch(spec, F, "view(S,F): model(-) vs real(+): "+d, env, probes)
				}
				// the erased schema under all features: the gf lines of erased-away types do not exist there
				if len(hiddenDirectiveArgs(spec, fset(F))) > 0 {
					// DirArgsVisible fails: the directive lines are outside the theorems' domain (F-13g)
					run.Count("F:hides-a-directive-argument-type")
					mv = dropDirLines(mv)
				}
				if rootHidden(spec, F) {
					// RootsUngated fails and F hides a root type: outside the theorems' domain (F-13f)
					run.Count("F:hides-a-root-type")
				} else {
					rv2, err := realView(env.erased, env.erasedW, env.all, origX)
					d = ""
					if err != nil {
						d = err.Error()
					} else {
						rv2 = append(rv2, realResolveCandidates(env.erased, env.erasedW, fset(F), env.all, origX, expand(env.erasedSp), spec)...)
						if rc2 == nil {
							rv2 = dropRC2(rv2)
						}
						mv = append(mv, rc2InView(rc2, rv2)...)
						if len(hiddenDirectiveArgs(spec, fset(F))) > 0 {
							rv2 = dropDirLines(rv2)
						}
						d = diffLines(observableRC(filterGF(mv, env.erasedSp), rv2), rv2)
					}
					run.Oblige(obViewErase, "correspondence", len(mv), d == "", d)
					if d != "" {
						h.viewMismatch(spec, F, "view(S,F) vs real (erase(S,F), all features): model(-) vs real(+): "+d, env, probes)
					}
				}
			}
		}
		if h.model != nil {
			h.tieIntrospect(env, spec, F)
		}
		// 3. the property itself
		var qs []query
		qs = append(qs, probes...)
		allF := fset(feats)
		for i := 0; i < nDocs; i++ {
			G := allF
			switch r.Intn(8) {
			case 0, 1, 2, 3:
				G = fset(F) // a document over erase(S,F)
			case 4, 5:
				G = fset(hx.Pick(r, fsets))
			}
			d := genDoc(r.Fork(), origX, G)
			qs = append(qs, query{Kind: "doc", Label: "doc", Text: d.text(), Vars: d.Vals, doc: d})
		}
		for _, q := range h.extra {
			if q.Kind == "doc" {
				q.Kind = "fixed" // a document without a generator tree (no walk tie, no document statistics)
			}
			qs = append(qs, q)
		}
		for qi := range qs {
			q := &qs[qi]
			respect := r.Chance(1, 2)
			seed := r.Uint64()
			env.overlap = q.Kind == "doc" && r.Chance(1, 2)
			overlap := env.overlap
			// histories: a third of the requests reach a schema object that has already served the same
			// request under other feature sets (all features first / none first / a few of the others)
			var before [][]string
			if len(fsets) > 1 && r.Chance(1, 3) {
				before = drawHistory(r, fsets, F)
				run.Count("history:requests-after-other-feature-sets")
			}
			env.before = before
			// a quarter of the requests on S enable, next to F, feature names the schema never mentions
			// (one of them extending a real name) or repeat an enabled name
			var pad []string
			if r.Chance(1, 4) {
				pad = drawPad(r, feats, F)
				run.Count("request:padded-feature-set")
			}
			env.pad = pad
			what, a, _ := env.differential(q, respect, seed)
			env.overlap, env.before, env.pad = false, nil, nil
			run.Count("query:" + q.Kind)
			if h.model != nil && q.Kind == "doc" {
				h.tieWalk(env, spec, F, q, a)
			}
			if (q.Kind == "doc" || q.Kind == "fixed") && what == "" && !rootHidden(spec, F) {
				if log, ok := runPrevalidated(env.full, env.fullW, env.all, F, q); ok {
					run.Count("doc:prevalidated-with-all-features")
					g := gatedCalls(origX, fset(F), log)
					w2 := ""
					if len(g) > 0 {
						w2 = fmt.Sprintf("gated resolver invoked under F=%v by a document validated with all features: %v", F, g)
						c := &Case{Spec: spec.clone(), F: F, Query: *q, Respect: respect, Seed: seed, Doc: q.doc, Via: "prevalidated"}
						h.perClass["prevalidated"]++
						if h.perClass["prevalidated"] <= 2 {
							run.Violate("property", w2, "", false, c)
						}
					}
					run.Oblige(obPrevalidated, "oracle", 1, w2 == "", w2)
				}
			}
			if q.Kind == "doc" {
				run.Count("doc:op:" + q.doc.Op)
				switch {
				case a.Panic != "":
					run.Count("doc:panic-both")
				case strings.Contains(a.Resp, `"data"`):
					run.Count("doc:executed")
					if strings.Contains(a.Resp, `"errors"`) {
						run.Count("doc:executed-with-errors")
					}
				case strings.Contains(a.Resp, "Validation error"):
					run.Count("doc:validation-error")
					for _, m := range errorMessages(a.Resp) {
						run.Count("verr:" + verrClass(m))
						if os.Getenv("C13_DEBUG") != "" && strings.Contains(m, os.Getenv("C13_DEBUG")) {
							fmt.Printf("DEBUG F=%v\n%s\n%s\n%s\n\n", F, canonSpec(origX), q.Text, a.Resp)
						}
					}
				default:
					run.Count("doc:other-error")
				}
				if len(a.Log) > 0 {
					run.Count("doc:resolvers-ran")
				}
			}
			key := hx.Hash(canonSpec(origX) + "|" + strings.Join(F, ",") + "|" + q.Text)
			run.Case(key, gatedSomething)
			if what != "" {
				if h.reportOracle(&Case{Spec: spec.clone(), F: F, Query: *q, Respect: respect, Overlap: overlap, Seed: seed, Doc: q.doc, Before: before, Pad: pad}, what) != "" {
					what = "" // an open known finding, reported as such
				}
			}
			run.Oblige(obOracle, "oracle", 1, what == "", what)
		}
		if sample && len(F) == 0 {
			for _, q := range qs {
				if q.Kind == "doc" {
					run.Sample(map[string]interface{}{"schema": strings.Split(canonSpec(origX), "\n"), "features": F, "query": q.Text, "vars": q.Vars})
					break
				}
			}
		}
	}
	_ = nontrivial
}

// drawHistory picks the feature sets under which a request is sent first: all features, none, or up to
// three of the other sets in random order.
func drawHistory(r interface{ Intn(int) int }, fsets [][]string, F []string) [][]string {
	var others [][]string
	for _, G := range fsets {
		if strings.Join(G, ",") != strings.Join(F, ",") {
			others = append(others, G)
		}
	}
	if len(others) == 0 {
		return nil
	}
	largest, smallest := others[0], others[0]
	for _, G := range others {
		if len(G) > len(largest) {
			largest = G
		}
		if len(G) < len(smallest) {
			smallest = G
		}
	}
	switch r.Intn(4) {
	case 0, 1:
		return [][]string{largest}
	case 2:
		return [][]string{smallest}
	}
	n := 1 + r.Intn(3)
	var out [][]string
	for i := 0; i < n; i++ {
		out = append(out, others[r.Intn(len(others))])
	}
	return out
}

// drawPad: feature names that are not features of the schema (a fresh one, one that extends a real
// feature name, the empty name) and possibly a repetition of a name in F.
func drawPad(r *hx.Rand, feats, F []string) []string {
	out := []string{hx.Pick(r, []string{"zz", "A", ""})}
	if len(feats) > 0 && r.Chance(1, 2) {
		out = append(out, hx.Pick(r, feats)+"x")
	}
	if len(F) > 0 && r.Chance(1, 2) {
		out = append(out, hx.Pick(r, F))
	}
	return out
}

func dropRC2(lines []string) []string {
	var out []string
	for _, l := range lines {
		if !strings.HasPrefix(l, "rc2 ") {
			out = append(out, l)
		}
	}
	return out
}

// rc2InView keeps the model's overlapping-claim lines that the other real side could observe too.
func rc2InView(model, real []string) []string {
	seen := map[string]bool{}
	for _, l := range real {
		if f := strings.Fields(l); len(f) >= 3 && f[0] == "rc2" {
			seen[f[1]+" "+f[2]] = true
		}
	}
	var out []string
	for _, l := range model {
		if f := strings.Fields(l); len(f) >= 3 && seen[f[1]+" "+f[2]] {
			out = append(out, l)
		}
	}
	return out
}

func dropDirLines(lines []string) []string {
	var out []string
	for _, l := range lines {
		if strings.HasPrefix(l, "dir ") || strings.HasPrefix(l, "da ") {
			continue
		}
		out = append(out, l)
	}
	return out
}

func canonDirList(ds []DirSpec) string {
	var out []string
	for _, d := range ds {
		var as []string
		for _, a := range d.Args {
			as = append(as, a.Name+":"+a.Type)
		}
		sort.Strings(as)
		out = append(out, "@"+d.Name+"("+strings.Join(as, ",")+")")
	}
	sort.Strings(out)
	return strings.Join(out, " ")
}

func parseDirSexp(s string) ([]DirSpec, error) {
	x, err := hx.ParseSexp(s)
	if err != nil || !x.IsList || len(x.List) == 0 || x.List[0].Atom != "directives" {
		return nil, fmt.Errorf("not a directives reply: %.100s (%v)", s, err)
	}
	var out []DirSpec
	for _, d := range x.List[1:] {
		if !d.IsList || len(d.List) != 2 {
			return nil, fmt.Errorf("bad directive %s", d.String())
		}
		ds := DirSpec{Name: d.List[0].Atom}
		for _, a := range d.List[1].List {
			if len(a.List) == 2 {
				ds.Args = append(ds.Args, ArgSpec{a.List[0].Atom, a.List[1].Atom})
			}
		}
		out = append(out, ds)
	}
	return out, nil
}

// observableRC keeps, of the model's type-resolution lines, those about abstract types the real
// side could observe (there is a callable Query field returning them).
func observableRC(model, real []string) []string {
	seen := map[string]bool{}
	for _, l := range real {
		if f := strings.Fields(l); len(f) >= 3 && f[0] == "rc" {
			seen[f[1]+" "+f[2]] = true
		}
	}
	var out []string
	for _, l := range model {
		if f := strings.Fields(l); len(f) >= 3 && f[0] == "rc" && !seen[f[1]+" "+f[2]] {
			continue
		}
		out = append(out, l)
	}
	return out
}

// gatedRoots lists the mutation / subscription root types that carry required features F does not enable.
func gatedRoots(spec *Spec, F []string) []string {
	var out []string
	for _, n := range []string{spec.Mutation, spec.Subscription} {
		if n == "" {
			continue
		}
		if t := spec.find(n); t != nil && !subset(t.Req, fset(F)) {
			out = append(out, n)
		}
	}
	return out
}

// Since fix 04 (3d2f635) a gated mutation / subscription root type is treated as absent by the library,
// which is what erase does: nothing is outside the theorems' domain on account of those roots.
const rootsFixed = true

func rootHidden(spec *Spec, F []string) bool { return false }

// filterGF drops the GetField lines of types that do not exist in the erased schema (there is no
// object to call GetField on).
func filterGF(lines []string, erased *Spec) []string {
	ex := expand(erased)
	var out []string
	for _, l := range lines {
		if strings.HasPrefix(l, "gf ") {
			tn := l[3:strings.IndexByte(l, '.')]
			if ex.find(tn) == nil {
				continue
			}
		}
		out = append(out, l)
	}
	return out
}

// viewMismatch: the model's view disagrees with the real accessors. Evaluate the property oracle on
// the implementation (all probes); if it fails there, that is the concrete failing input, otherwise
// the theorems no longer speak about this code.
func (h *harness) viewMismatch(spec *Spec, F []string, what string, env *pairEnv, probes []query) {
	// targeted inputs first: documents that exercise exactly the accessor lines that differ
	var targeted []query
	for _, part := range strings.Split(what, " | ") {
		f := strings.Fields(strings.TrimLeft(part, "-+ "))
		if len(f) < 2 {
			continue
		}
		name := strings.TrimSuffix(f[1], ":")
		switch f[0] {
		case "lk", "type":
			targeted = append(targeted,
				query{Kind: "doc", Label: "targeted", Text: fmt.Sprintf("query Q($v: %s) { __typename }", name)},
				query{Kind: "doc", Label: "targeted", Text: fmt.Sprintf("{ __typename ...X } fragment X on %s { __typename }", name)},
				query{Kind: "probe", Label: "type:" + name, Text: typeProbe(name)})
		case "sp":
			if len(f) >= 3 {
				targeted = append(targeted, query{Kind: "doc", Label: "targeted", Text: fmt.Sprintf("{ __typename } fragment X on %s { ... on %s { __typename } }", name, strings.TrimSuffix(f[2], ":"))})
			}
		case "gf":
			if i := strings.IndexByte(name, '.'); i > 0 {
				targeted = append(targeted, query{Kind: "doc", Label: "targeted", Text: fmt.Sprintf("{ __typename ...X } fragment X on %s { r1: %s }", name[:i], name[i+1:])},
					query{Kind: "doc", Label: "targeted", Text: fmt.Sprintf("{ __typename ...X } fragment X on %s { r1: %s { __typename } }", name[:i], name[i+1:])})
			}
		}
	}
	all := append(targeted, probes...)
	for qi := range all {
		if w, _, _ := env.differential(&all[qi], true, 1); w != "" {
			h.reportOracle(&Case{Spec: spec.clone(), F: F, Query: all[qi], Respect: true, Seed: 1}, w)
			return
		}
	}
	h.run.Violate("correspondence", what, "", true, &Case{Spec: spec, F: F})
}

func errorMessages(resp string) []string {
	var r struct {
		Errors []struct {
			Message string `json:"message"`
		} `json:"errors"`
	}
	json.Unmarshal([]byte(resp), &r)
	var out []string
	for _, e := range r.Errors {
		out = append(out, e.Message)
	}
	return out
}

func verrClass(m string) string {
	m = strings.TrimPrefix(m, "Validation error: ")
	for _, k := range []string{"does not exist on", "undefined type", "impossible fragment spread", "unknown type", "must have a subselection", "cannot have a subselection", "fragments may only be defined", "unused fragment", "unused variable", "cannot merge", "incompatible variable type", "cannot use nullable variable", "required", "cannot coerce", "invalid", "is not an input type", "non-composite fields"} {
		if strings.Contains(m, k) {
			return strings.ReplaceAll(k, " ", "-")
		}
	}
	return "other:" + m
}

func rejectClass(msg string) string {
	for _, k := range []string{"field type requires features", "field argument", "union member has additional", "field type has additional required features", "must have at least one", "does not satisfy", "multiple definitions", "cannot be used as"} {
		if strings.Contains(msg, k) {
			return strings.ReplaceAll(k, " ", "-")
		}
	}
	return "other"
}

// parseSpecSexp reads the model's (schema …) rendering back into a Spec (expanded form).
func parseSpecSexp(s string) (*Spec, error) {
	x, err := hx.ParseSexp(s)
	if err != nil {
		return nil, err
	}
	if !x.IsList || len(x.List) < 4 || x.List[0].Atom != "schema" {
		return nil, fmt.Errorf("not a schema: %.100s", s)
	}
	atoms := func(y hx.Sexp) []string {
		var out []string
		for _, e := range y.List {
			out = append(out, e.Atom)
		}
		return out
	}
	args := func(y hx.Sexp) []ArgSpec {
		var out []ArgSpec
		for _, e := range y.List {
			if len(e.List) == 2 {
				out = append(out, ArgSpec{e.List[0].Atom, e.List[1].Atom})
			}
		}
		return out
	}
	sp := &Spec{Query: x.List[1].Atom, Mutation: x.List[2].Atom, Subscription: x.List[3].Atom}
	for _, t := range x.List[4:] {
		if len(t.List) != 9 {
			return nil, fmt.Errorf("bad type %s", t.String())
		}
		ts := TypeSpec{Kind: t.List[0].Atom, Name: t.List[1].Atom, Req: atoms(t.List[2]), Ifaces: atoms(t.List[4]), Members: atoms(t.List[5]), Values: atoms(t.List[6]), Inputs: args(t.List[7]), DepValues: atoms(t.List[8])}
		for _, f := range t.List[3].List {
			if len(f.List) != 5 {
				return nil, fmt.Errorf("bad field %s", f.String())
			}
			ts.Fields = append(ts.Fields, FieldSpec{Name: f.List[0].Atom, Type: f.List[1].Atom, Req: atoms(f.List[2]), Args: args(f.List[3]), Deprecated: f.List[4].Atom == "dep"})
		}
		sp.Types = append(sp.Types, ts)
	}
	return sp, nil
}

// ---- replay -----------------------------------------------------------------------------------------

func (h *harness) replayCase(c *Case, verbose bool) (what string) {
	if c.Spec == nil {
		return ""
	}
	if c.Query.Text == "" {
		// a schema-level case (acceptance / view): run the whole schema check
		before := h.run.Violations()
		h.checkSpec(c.Spec, hx.NewRand(uint64(c.Seed)+1), 4, false)
		if h.run.Violations() > before {
			return "schema-level check failed"
		}
		return ""
	}
	if c.Via == "api" {
		return h.replayAPI(c, verbose)
	}
	if c.Via == "prevalidated" {
		env, err := newPairEnv(c.Spec, c.F)
		if err != nil {
			return "cannot build: " + err.Error()
		}
		env.fullW.respect, env.fullW.seed, env.fullW.overlap = c.Respect, c.Seed, c.Overlap
		q := c.Query
		log, ok := runPrevalidated(env.full, env.fullW, env.all, c.F, &q)
		g := gatedCalls(env.origX, fset(c.F), log)
		if verbose {
			fmt.Printf("schema:\n%s\nfeatures: %v\nquery: %s\nvalid with all features: %v\nresolver log under F: %v\ngated: %v\n", canonSpec(env.origX), c.F, q.Text, ok, log, g)
		}
		if len(g) > 0 {
			return fmt.Sprintf("gated resolver invoked under F=%v by a document validated with all features: %v", c.F, g)
		}
		return ""
	}
	env, err := newPairEnv(c.Spec, c.F)
	if err != nil {
		return "cannot build: " + err.Error()
	}
	q := c.Query
	env.overlap = c.Overlap
	env.before, env.pad = c.Before, c.Pad
	w, a, b := env.differential(&q, c.Respect, c.Seed)
	if verbose {
		fmt.Printf("schema:\n%s\nfeatures: %v\nhistory (same request on the same schema object first under): %v\nquery (%s): %s\nvars: %v\n", canonSpec(env.origX), c.F, c.Before, q.Label, q.Text, q.Vars)
		fmt.Printf("response(S, F, q)               = %s\n  log=%v panic=%q\n", a.Resp, a.Log, a.Panic)
		fmt.Printf("response(erase(S,F), all, q)    = %s\n  log=%v panic=%q\n", b.Resp, b.Log, b.Panic)
		fmt.Printf("oracle: %q\n", w)
	}
	return w
}

func (h *harness) replayAPI(c *Case, verbose bool) string {
	origX := expand(c.Spec)
	Fm := fset(c.F)
	fw := &world{orig: origX, F: Fm, respect: c.Respect, seed: c.Seed, overlap: c.Overlap}
	ew := &world{orig: origX, F: Fm, respect: c.Respect, seed: c.Seed, overlap: c.Overlap}
	full, err := buildAPI(c.Spec, fw)
	if err != nil {
		return "cannot mount S: " + err.Error()
	}
	erased, err := buildAPI(stripReq(eraseSpec(c.Spec, Fm)), ew)
	if err != nil {
		return "cannot mount erase(S,F): " + err.Error()
	}
	q := c.Query
	var all []string
	warmUpAPI(full, fw, c.Before, Fm, &q)
	a := serveHTTP(full, fw, c.F, &q)
	b := serveHTTP(erased, ew, all, &q)
	what := compareOutcomes(origX, c.F, a, b)
	if verbose {
		fmt.Printf("schema:\n%s\nfeatures: %v\nhistory (same request on the same API first under): %v\nquery: %s\n", canonSpec(origX), c.F, c.Before, q.Text)
		fmt.Printf("HTTP response(S, F, q)            = %s log=%v\n", a.Resp, a.Log)
		fmt.Printf("HTTP response(erase(S,F), all, q) = %s log=%v\n", b.Resp, b.Log)
	}
	if what != "" {
		return "API/HTTP: " + what
	}
	if c.PQ {
		for _, mode := range []int{pqRegister, pqHashOnly} {
			ap := serveHTTPPQ(full, fw, c.F, &q, mode)
			if verbose {
				fmt.Printf("HTTP persisted-query mode %d response(S, F, q) = %s log=%v\n", mode, ap.Resp, ap.Log)
			}
			if what := compareOutcomes(origX, c.F, ap, b); what != "" {
				return "API/HTTP persisted query: " + what
			}
		}
	}
	v := WSVariant{Proto: "graphql-ws", Upgrade: c.F}
	if c.WS != nil {
		v = *c.WS
	}
	wsA, err := dialWS(full, v)
	if err != nil {
		return ""
	}
	defer wsA.close()
	wsB, err := dialWS(erased, WSVariant{Proto: v.Proto})
	if err != nil {
		return ""
	}
	defer wsB.close()
	if verbose {
		fmt.Printf("socket: %s\n", v)
	}
	a = wsA.run(fw, &q)
	b = wsB.run(ew, &q)
	if verbose {
		fmt.Printf("WS   response(S, F, q)            = %s log=%v\n", a.Resp, a.Log)
		fmt.Printf("WS   response(erase(S,F), all, q) = %s log=%v\n", b.Resp, b.Log)
	}
	if what := compareOutcomes(origX, c.F, a, b); what != "" {
		return "API/WS: " + what
	}
	return ""
}

func main() {
	run := hx.Init("C13")
	h := &harness{run: run, perClass: map[string]int{}}
	if run.ModelPath != "" {
		m, err := hx.StartModel(run.ModelPath)
		if err != nil {
			fmt.Fprintln(os.Stderr, "cannot start model:", err)
			os.Exit(2)
		}
		h.model = m
		defer m.Close()
	}
	run.SetRule("cases are (schema S accepted by the real schema.New, request feature set F ⊆ features(S) [all subsets], query q) with q an introspection probe (full introspection query, __type(name:) for every type name incl. gated and non-existent ones, types listing, navigation probes through possibleTypes/interfaces) or a type-directed document over S (generated for all features, for F, or for another subset; fragments, type conditions incl. unrelated/gated/unknown types, arguments, variables, directives); distinct = distinct (schema, F, query text); non-trivial = erase(S,F) differs from S (F actually hides a type or a field)")

	if run.Replay != "" {
		var c Case
		if err := hx.LoadReplayCase(run.Replay, &c); err != nil {
			fmt.Fprintln(os.Stderr, err)
			os.Exit(2)
		}
		what := h.replayCase(&c, true)
		fmt.Printf("replay: what=%q\n", what)
		if what != "" && c.Query.Text != "" {
			run.Violate("property", what, classify(&c, what), false, &c)
		}
		run.Finish(h.model)
		return
	}
	if dir := os.Getenv("C13_MKCORPUS"); dir != "" {
		mkCorpus(dir)
		return
	}
	for _, f := range run.CorpusFiles() {
		var c Case
		if err := hx.LoadReplayCase(f, &c); err != nil || c.Spec == nil {
			continue
		}
		what := h.replayCase(&c, false)
		if strings.Contains(f, "/findings/") {
			// the committed replay of an open finding: expected to fail, with its own key
			run.Count("finding-replay")
			key := ""
			if what != "" {
				key = classify(&c, what)
			}
			run.Oblige("open findings reproduce with their own classifier", "oracle", 1, what == "" || key != "", f+": "+what)
			if what == "" {
				run.Note("finding replay %s no longer fails", f)
			} else {
				run.Violate("property", "finding replay "+f+": "+what, key, false, &c)
			}
			continue
		}
		run.Count("corpus")
		ok := what == ""
		run.Oblige("corpus: past failures stay fixed", "oracle", 1, ok, f+": "+what)
		if !ok && c.Query.Text != "" {
			run.Violate("property", "corpus case "+f+": "+what, classify(&c, what), false, &c)
		}
	}
	// fixed cases first, at every seed, independent of the random source
	h.systematic()
	const staged = true
	// modes 1, 2 (staged / cloned) and 3, 4 (rebuild of the same objects after an edit)
	const lastMode = 4
	for _, spec := range handSpecs() {
		h.checkSpec(spec, run.Rand.Fork(), run.Scale(6, 30), false)
		run.Count("hand-written-schema")
		// the same definition put together in stages (Spec.Staged): features assigned after the wrappers
		// exist / on a clone
		for mode := 1; staged && mode <= lastMode; mode++ {
			sp := spec.clone()
			sp.Staged = mode
			h.checkSpec(sp, run.Rand.Fork(), run.Scale(2, 10), false)
			run.Count(fmt.Sprintf("staged-definition:%d", mode))
		}
	}
	n := run.Scale(200, 3000)
	nDocs := run.Scale(10, 20)
	for i := 0; i < n; i++ {
		r := run.Rand.Fork()
		spec := genSpec(r)
		if staged {
			spec.Staged = i % (lastMode + 1)
			run.Count(fmt.Sprintf("staged-definition:%d", spec.Staged))
		}
		h.checkSpec(spec, r, nDocs, i < 40)
	}
	// the construction-rule oracle: every fixed leaky definition must be refused
	for _, spec0 := range leakySpecs() {
		for mode := 0; mode <= lastMode && (staged || mode == 0); mode++ {
			spec := spec0.clone()
			spec.Staged = mode // however the definition is put together
			w := &world{orig: expand(spec), F: map[string]bool{}}
			_, err := buildSchema(spec, w)
			_, unbuildable := err.(*buildError)
			ok := err != nil && !unbuildable
			run.Count("leaky-definition")
			run.Oblige("oracle: schema.New refuses every definition in which an element exposes a type needing more features than its owner (with and without defaults)", "oracle", 1, ok, fmt.Sprintf("accepted (or not expressible: %v) staged=%d: %s", err, mode, canonSpec(expand(spec))))
			h.checkSpec(spec, run.Rand.Fork(), 4, false) // ties Accepted; if the library accepts it, looks for the failing request
		}
	}
	// fixed API-layer schemas with exactly one kind of gated element, and fixed requests using it
	for _, ac := range singleGateAPICases() {
		ac := ac
		r := run.Rand.Fork()
		origX := expand(ac.spec)
		qs := func(F []string) []query {
			out := append([]query{{Kind: "probe", Label: "schema-types", Text: schemaProbe}, {Kind: "probe", Label: "full-introspection", Text: string(introspectionQueryText)}}, ac.queries...)
			for j := 0; j < 3; j++ {
				G := fset(ac.spec.features())
				if j == 0 {
					G = fset(F)
				}
				d := genDoc(r.Fork(), origX, G)
				out = append(out, query{Kind: "doc", Label: "doc", Text: d.text(), Vars: d.Vals, doc: d})
			}
			return out
		}
		// the same fixed schema and requests through graphql.Execute, with all the model ties
		h.extra = ac.queries
		h.checkSpec(ac.spec, run.Rand.Fork(), 3, false)
		h.extra = nil
		// both socket sub-protocols for every one of them
		if h.checkAPI(ac.spec, r, qs, true) {
			run.Count("api:single-gate-schema")
		} else {
			run.Oblige("fixed API schema mounts: "+ac.name, "oracle", 1, false, "cannot be mounted on apifu.Config")
		}
		// the same definition put together in stages: features assigned after the wrappers exist (1), or
		// by the API's PreprocessGraphQLSchemaDefinition hook on the clone it is handed (2)
		for mode := 1; staged && mode <= lastMode; mode++ {
			sp := ac.spec.clone()
			sp.Staged = mode
			h.extra = ac.queries
			h.checkSpec(sp, run.Rand.Fork(), 1, false)
			h.extra = nil
			fixedOnly := func(F []string) []query {
				return append([]query{{Kind: "probe", Label: "schema-types", Text: schemaProbe}, {Kind: "probe", Label: "full-introspection", Text: string(introspectionQueryText)}}, ac.queries...)
			}
			if h.checkAPI(sp, r, fixedOnly, false) {
				run.Count(fmt.Sprintf("api:staged-definition:%d", mode))
			}
		}
	}
	// the same property through the application layer (feature-set plumbing of api.go / graphqlws.go)
	nAPI, nWS := run.Scale(30, 200), run.Scale(6, 30)
	for i, tries := 0, 0; i < nAPI && tries < nAPI*200; tries++ {
		r := run.Rand.Fork()
		spec := genSpec(r)
		if !apiCompatible(spec) {
			continue
		}
		if i%2 == 0 && !hasConnection(spec) {
			continue // every other mounted schema has apifu connections (with their own edge fields)
		}
		if i%3 == 1 && spec.Subscription == "" {
			continue // every third one has a subscription root (events over the sockets)
		}
		if staged {
			spec.Staged = i % (lastMode + 1)
		}
		if _, err := buildSchema(spec, &world{orig: expand(spec), F: map[string]bool{}}); err != nil {
			continue
		}
		origX := expand(spec)
		allF := fset(spec.features())
		qs := func(F []string) []query {
			out := []query{{Kind: "probe", Label: "schema-types", Text: schemaProbe}, {Kind: "probe", Label: "full-introspection", Text: string(introspectionQueryText)}}
			for _, t := range origX.Types {
				if len(t.Req) > 0 {
					out = append(out, query{Kind: "probe", Label: "type:" + t.Name, Text: typeProbe(t.Name)})
					break
				}
			}
			for j := 0; j < 6; j++ {
				G := allF
				if j%2 == 0 {
					G = fset(F)
				}
				d := genDoc(r.Fork(), origX, G)
				out = append(out, query{Kind: "doc", Label: "doc", Text: d.text(), Vars: d.Vals, doc: d})
			}
			if origX.Subscription != "" {
				// subscriptions: over a socket every delivered event is executed separately
				for j := 0; j < 3; j++ {
					G := allF
					if j == 0 {
						G = fset(F)
					}
					for tries := 0; tries < 60; tries++ {
						if d := genDoc(r.Fork(), origX, G); d.Op == "subscription" {
							out = append(out, query{Kind: "doc", Label: "subscription", Text: d.text(), Vars: d.Vals, doc: d})
							break
						}
					}
				}
			}
			return out
		}
		if h.checkAPI(spec, r, qs, i < nWS) {
			i++
			run.Count("api:schemas")
		}
	}
	run.Finish(h.model)
}

func hasConnection(s *Spec) bool {
	for _, t := range s.Types {
		for _, f := range t.Fields {
			if f.Conn != nil {
				return true
			}
		}
	}
	return false
}

func sortedKeys(m map[string]int) []string {
	var out []string
	for k := range m {
		out = append(out, k)
	}
	sort.Strings(out)
	return out
}

// mkCorpus (maintenance mode, C13_MKCORPUS=<dir>): run against the UNPATCHED tree; writes the minimal
// pre-fix failing inputs of F-13a–e as corpus cases.
func mkCorpus(dir string) {
	hs := handSpecs()
	cands := []struct {
		name string
		c    Case
	}{
		{"F-13a-type-lookup-gated-type", Case{Spec: hs[0], Query: query{Kind: "probe", Label: "type:Secret", Text: `{ __type(name: "Secret") { name kind } }`}, Respect: true, Seed: 1}},
		{"F-13b-possibleTypes-gated-implementation", Case{Spec: hs[0], Query: query{Kind: "probe", Label: "nav:Node", Text: `{ __type(name: "Node") { possibleTypes { name } } }`}, Respect: true, Seed: 1}},
		{"F-13c-interfaces-gated-interface", Case{Spec: hs[1], Query: query{Kind: "probe", Label: "nav:Pub", Text: `{ __type(name: "Pub") { interfaces { name } } }`}, Respect: true, Seed: 1}},
		{"F-13d-spread-only-common-type-gated", Case{Spec: hs[2], Query: query{Kind: "doc", Label: "doc", Text: "{ i { ... on J { id } } }"}, Respect: true, Seed: 1}},
	}
	for seed := uint64(1); seed < 400; seed++ {
		cands = append(cands, struct {
			name string
			c    Case
		}{"F-13e-gated-implementation-resolved", Case{Spec: hs[0], Query: query{Kind: "doc", Label: "doc", Text: "{ nodes { __typename id } }"}, Respect: false, Seed: seed}})
	}
	done := map[string]bool{}
	for _, cd := range cands {
		if done[cd.name] {
			continue
		}
		c := cd.c
		c.F = []string{}
		what := failsSame(&c)
		if what == "" {
			continue
		}
		done[cd.name] = true
		b, _ := json.MarshalIndent(map[string]interface{}{"property": "C13", "what": what, "case": &c}, "", " ")
		os.MkdirAll(dir, 0o755)
		os.WriteFile(dir+"/"+cd.name+".json", b, 0o644)
		fmt.Printf("wrote %s: %s\n", cd.name, clip(what))
	}
}
