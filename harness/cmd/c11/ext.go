// Extended part of the C11 harness: the serial mutation loop under a general idle handler —
// calls that deliver nothing (what the executor sees of apifu.Go / Batch / hand-chained tasks whose
// work is not finished yet), arbitrarily many of them — and with a resolver that panics. The model
// is ApiFu.C11.executeX (lean/ApiFu/C11/Ext.lean; theorems in PropsExt.lean), asked with `runx`.
package main

import (
	"encoding/json"
	"fmt"
	"reflect"

	"verifharness/cmd/c02/engine"
	"verifharness/hx"
)

const obExtCorr = "extended mutation correspondence (idle calls that deliver nothing; panicking resolver): event log, data, ordered errors, idle calls, promises vs Lean executeX"
const obExtOracle = "oracle, strict, general idle handler / panicking resolver: every event under k_i precedes every event under k_{i+1}; no resolver of a later root field is called while a promise of an earlier one is outstanding; no resolver is called after a resolver panicked"

func extFuel(c *engine.Case) int { return len(c.Schedule) + len(c.Invocations()) + 3 }

func countStarts(o *engine.Observed) int {
	n := 0
	for _, e := range o.Events {
		if e.Kind == "start" {
			n++
		}
	}
	return n
}

// judgeExt: one case of the extended model (c.ExactMasks, optionally c.PanicAt).
func (h *harness) judgeExt(c *engine.Case, reply string) verdict {
	real, err := engine.RunReal(c)
	if err != nil {
		return verdict{Class: "harness", Cat: "compile", What: err.Error()}
	}
	v := verdict{Real: real}
	var mo *engine.Observed
	var moErr error
	if reply != "" {
		mo, moErr = engine.ParseModelReply(reply)
		v.Model = mo
	}
	panicked := real.Panic == engine.PanicText && c.PanicAt > 0
	switch {
	case real.Panic != "" && !panicked:
		v.Class, v.Cat, v.What = "crash", "crash", "panic: "+real.Panic
		return v
	case real.Stuck:
		v.Class, v.Cat, v.What = "property", "stuck", fmt.Sprintf("did not finish: idle handler called (call %d) with no outstanding promise", real.Rounds)
		return v
	case panicked && countStarts(real) != c.PanicAt:
		v.Class, v.Cat, v.What = "property", "after-panic", fmt.Sprintf("%d resolvers were called although the %d. one panicked", countStarts(real), c.PanicAt)
		return v
	}
	if m := engine.SerialOrder(c, real, false); m != "" {
		v.Class, v.Cat, v.What = "property", "order", m
		return v
	}
	if reply == "" {
		return v
	}
	if moErr != nil {
		v.Class, v.Cat, v.What = "correspondence", "reply", moErr.Error()
		return v
	}
	switch {
	case !sameEvents(real.Events, mo.Events):
		v.Class, v.Cat, v.What = "correspondence", "events", fmt.Sprintf("event log: implementation %v, model %v", real.Events, mo.Events)
	case (mo.Data == "PANIC") != panicked:
		v.Class, v.Cat, v.What = "correspondence", "panic", fmt.Sprintf("panic reached: implementation %v (%q), model %v", panicked, real.Panic, mo.Data == "PANIC")
	case panicked:
	case real.Data != mo.Data:
		v.Class, v.Cat, v.What = "correspondence", "data", fmt.Sprintf("data: implementation %s, model %s", real.Data, mo.Data)
	case len(real.Errors) != len(mo.Errors) || (len(real.Errors) > 0 && !reflect.DeepEqual(real.Errors, mo.Errors)):
		v.Class, v.Cat, v.What = "correspondence", "errors", fmt.Sprintf("error list: implementation %v, model %v", real.Errors, mo.Errors)
	case real.Rounds != mo.Rounds || real.Promises != mo.Promises:
		v.Class, v.Cat, v.What = "correspondence", "rounds", fmt.Sprintf("idle calls/promises: implementation %d/%d, model %d/%d", real.Rounds, real.Promises, mo.Rounds, mo.Promises)
	}
	return v
}

func (h *harness) judgeAskExt(c *engine.Case) verdict {
	reply := ""
	if h.model != nil {
		r, err := h.model.Ask(c.ModelLineX(extFuel(c)))
		if err != nil {
			return verdict{Class: "correspondence", Cat: "driver", What: err.Error()}
		}
		reply = r
	}
	return h.judgeExt(c, reply)
}

// extNontrivial: an idle call delivered nothing although something was outstanding, or the panic
// was reached.
func extNontrivial(c *engine.Case, o *engine.Observed) bool {
	if o == nil {
		return false
	}
	if o.Panic == engine.PanicText {
		return true
	}
	for k, w := range o.Widths {
		if k < len(c.Schedule) && w > 0 && len(engine.SelectExact(c.Schedule[k], w)) == 0 {
			return true
		}
	}
	return false
}

func (h *harness) recordExt(c *engine.Case, v verdict, source string) {
	b, _ := json.Marshal(c)
	h.run.Case(string(b), extNontrivial(c, v.Real))
	if v.Real != nil {
		lazy := 0
		for k, w := range v.Real.Widths {
			if k < len(c.Schedule) && w > 0 && len(engine.SelectExact(c.Schedule[k], w)) == 0 {
				lazy++
			}
		}
		h.run.Count(fmt.Sprintf("ext:%s:empty-calls=%d", source, min(lazy, 6)))
		switch {
		case v.Real.Panic == engine.PanicText:
			h.run.Count("ext:panic reached")
		case c.PanicAt > 0:
			h.run.Count("ext:panic not reached")
		}
	}
	h.run.Oblige(obExtCorr, "correspondence", 1, v.Class != "correspondence", v.What)
	h.run.Oblige(obExtOracle, "oracle", 1, v.Class != "property" && v.Class != "crash", v.What)
	if v.Class == "" {
		return
	}
	if v.Class == "harness" {
		h.run.Oblige("harness self-consistency (generated schema/document accepted)", "oracle", 1, false, v.What)
		return
	}
	want := "ext:" + v.key()
	h.failed[want]++
	if h.failed[want] > 3 {
		h.run.Violate(v.Class, v.What, "", v.Class == "correspondence", nil)
		return
	}
	small := engine.Shrink(c, v.key(), func(d *engine.Case) string {
		if len(d.Shape.Fields) < 1 {
			return ""
		}
		return h.judgeAskExt(d).key()
	})
	sv := h.judgeAskExt(small)
	if sv.key() != v.key() {
		small, sv = c, v
	}
	replay := map[string]any{"level": "executor", "case": small, "document": small.Document(), "what": sv.What}
	if sv.Real != nil {
		replay["implementation"] = sv.Real.Line(true)
	}
	if sv.Model != nil {
		replay["model"] = sv.Model.Line(true)
	}
	h.run.Violate(sv.Class, fmt.Sprintf("%s: %s  [document %s]", sv.Cat, sv.What, small.Document()), "", sv.Class == "correspondence", replay)
}

func (h *harness) batchExt(cs []*engine.Case, source string) {
	replies := make([]string, len(cs))
	if h.model != nil && len(cs) > 0 {
		lines := make([]string, len(cs))
		for i, c := range cs {
			lines[i] = c.ModelLineX(extFuel(c))
		}
		r, err := h.model.AskAll(lines)
		if err != nil {
			h.run.Oblige(obExtCorr, "correspondence", 1, false, "model driver: "+err.Error())
			h.model = nil
		} else {
			replies = r
		}
	}
	for i, c := range cs {
		h.recordExt(c, h.judgeExt(c, replies[i]), source)
	}
}

// lazySchedule: masks of which about a third select nothing (also in runs), the rest as in the
// ordinary schedules.
func lazySchedule(r *hx.Rand, n int) []uint64 {
	out := engine.GenSchedule(r, n)
	for i := range out {
		out[i] &= 1<<62 - 1
	}
	for i := 0; i < len(out); i++ {
		if r.Chance(1, 3) {
			out[i] = 0
			for r.Chance(1, 3) && i+1 < len(out) {
				i++
				out[i] = 0
			}
		}
	}
	return out
}

func (h *harness) extended() {
	run := h.run
	// (a) small fixed mutations × every sync|promise assignment × every schedule of ≤ 3 calls over
	// the masks {none, first, second, first two} (then everything) × every panic position
	masks := []uint64{0, 1, 2, 3}
	nfixed := 0
	for _, src := range []string{"{a:{x:i y!:i} b:i}", "{a:{x:i} b:{y:i} c:i}", "{a:[{x:i}] b:i}", "{a!:{x:i} b:i}", "{a:{p:{q:i}}~i b:i}"} {
		shape := engine.MustShape(src)
		engine.EnumWorlds(shape, []string{"val", "null"}, []string{"val"}, 2, false, func(w *engine.WVal) bool {
			base := &engine.Case{Mutation: true, Shape: shape.Clone(), World: w, ExactMasks: true}
			if len(base.Invocations()) > 4 {
				return true
			}
			var pending []*engine.Case
			modeSubsets(base, []string{"sync", "promise"}, func(c *engine.Case) {
				npromise := 0
				for _, f := range c.Invocations() {
					if f.Mode == "promise" {
						npromise++
					}
				}
				if npromise == 0 {
					return
				}
				for _, m0 := range masks {
					for _, m1 := range masks {
						for _, m2 := range masks {
							for p := 0; p <= len(c.Invocations()); p++ {
								d := c.Clone()
								d.Schedule = []uint64{m0, m1, m2}
								d.PanicAt = p
								pending = append(pending, d)
							}
						}
					}
				}
			})
			nfixed += len(pending)
			h.batchExt(pending, "fixed")
			return nfixed < run.Scale(12000, 200000)
		})
	}
	run.CountN("ext: fixed mutations × async subsets × schedules with empty calls × panic positions", nfixed)
	// (b) random mutations
	n := run.Scale(5000, 40000)
	var pending []*engine.Case
	for i := 0; i < n; i++ {
		r := run.Rand.Fork()
		o := engine.GenOpts{MaxDepth: r.Range(1, 3), MaxFields: r.Range(2, 3), MaxItems: 3, Mutation: true}
		wo := engine.WorldOpts{PAsync: r.Range(4, 8), PFail: r.Range(0, 3), PNull: r.Range(0, 2), PBad: r.Range(0, 1), MaxItems: 3}
		shape := engine.GenShape(r, o, 0, r.Range(2, 5))
		c := &engine.Case{Mutation: true, Shape: shape, World: engine.GenWorld(r, shape, wo), ExactMasks: true}
		for _, f := range c.Invocations() {
			f.Mode = hx.Pick(r, []string{"sync", "promise", "promise", "promise", "pre"})
		}
		c.Schedule = lazySchedule(r, r.Range(0, 16))
		if r.Bool() {
			c.Syntax = r.Uint64() | 1
		}
		if r.Chance(1, 3) {
			c.PanicAt = r.Range(1, len(c.Invocations()))
		}
		pending = append(pending, c)
		if len(pending) >= 2500 {
			h.batchExt(pending, "rand")
			pending = nil
		}
	}
	h.batchExt(pending, "rand")
}

// ---- promises that share a channel ---------------------------------------------------------------

const obShared = "shared promise channels: resolvers beneath one mutation root field that are handed the same buffered ResolvePromise (one result per consumer): no resolver of a later root field is called before every one of those results has been delivered (strict oracle, no model)"

// judgeShared: strict model-free oracle (the model names promises one by one; with a shared channel
// it is not determined which consumer takes which result).
func (h *harness) judgeShared(c *engine.Case) verdict {
	real, err := engine.RunReal(c)
	if err != nil {
		return verdict{Class: "harness", Cat: "compile", What: err.Error()}
	}
	v := verdict{Real: real}
	switch {
	case real.Panic != "":
		v.Class, v.Cat, v.What = "crash", "crash", "panic: "+real.Panic
	case real.Stuck:
		v.Class, v.Cat, v.What = "property", "stuck", fmt.Sprintf("did not finish: idle handler called in round %d with no outstanding promise", real.Rounds)
	default:
		if m := engine.SerialOrder(c, real, false); m != "" {
			v.Class, v.Cat, v.What = "property", "shared", "promises sharing one channel: "+m
		}
	}
	return v
}

func hasShared(c *engine.Case) bool {
	for _, f := range c.Invocations() {
		if f.Share > 0 {
			return true
		}
	}
	return false
}

// shared: small mutations × outcomes × async subsets; the promise-answered Int leaves beneath the
// first root field that resolve to a value form one group (same value, same channel); every
// fulfilment schedule.
func (h *harness) shared() {
	n := 0
	for _, src := range []string{"{a:{x:i y:i z!:i} b:i}", "{a:{x:i y:i} b:{w:i}}", "{a:[{x:i}] b:i}", "{a:{p:{x:i q!:i} y:i} b:i}", "{a:[{x:i y!:i}] b:i}"} {
		shape := engine.MustShape(src)
		engine.EnumWorlds(shape, []string{"val", "null"}, []string{"val"}, 2, false, func(w *engine.WVal) bool {
			base := &engine.Case{Mutation: true, Shape: shape.Clone(), World: w}
			if len(base.Invocations()) > 6 {
				return true
			}
			modeSubsets(base, []string{"sync", "promise"}, func(c *engine.Case) {
				// group: promise-mode Int values beneath root field #0
				members := 0
				var walk func(t *engine.TShape, w *engine.WVal)
				walk = func(t *engine.TShape, w *engine.WVal) {
					if t == nil || w == nil {
						return
					}
					switch w.Kind {
					case "list":
						for _, it := range w.Items {
							walk(t.Elem, it)
						}
					case "object":
						for i, f := range t.Fields {
							if f.Typename || i >= len(w.Fields) || w.Fields[i] == nil {
								continue
							}
							wf := w.Fields[i]
							if wf.Err == "" && wf.V != nil && wf.V.Kind == "int" && wf.Mode == "promise" {
								wf.Share, wf.V.N = 1, 5
								members++
							} else if wf.Err == "" {
								walk(f.T, wf.V)
							}
						}
					}
				}
				first := c.World.Fields[0]
				if first == nil || first.Err != "" {
					return
				}
				walk(c.Shape.Fields[0].T, first.V)
				if members < 2 {
					return
				}
				schedules(c, 300, func(d *engine.Case) {
					v := h.judgeShared(d)
					b, _ := json.Marshal(d)
					h.run.Case(string(b), v.Real != nil && len(v.Real.Abandoned) > 0)
					h.run.Oblige(obShared, "oracle", 1, v.Class == "" || v.Class == "harness", v.What)
					n++
					if v.Class == "harness" {
						h.run.Oblige("harness self-consistency (generated schema/document accepted)", "oracle", 1, false, v.What)
					} else if v.Class != "" {
						h.failed["shared"]++
						if h.failed["shared"] <= 3 {
							h.run.Violate(v.Class, fmt.Sprintf("%s: %s  [document %s]", v.Cat, v.What, d.Document()), "", false,
								map[string]any{"level": "executor", "case": d, "document": d.Document(), "implementation": v.Real.Line(true)})
						}
					}
				})
			})
			return n < h.run.Scale(8000, 100000)
		})
	}
	h.run.CountN("shared promise channels", n)
}
