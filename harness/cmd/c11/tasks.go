// C11 with api-fu's own asynchronous helpers: mutations whose resolvers, at any depth, start
// apifu.Go tasks (goroutines that finish after a short random delay) and apifu.Batch loads, run
// through (*apifu.API).ServeGraphQL with api-fu's own IdleHandler. No model (real goroutines, real
// time); strict model-free oracle: when a resolver beneath root field k_j is called, every task that
// was started beneath an earlier root field — and handed to the executor as a ResolvePromise — has
// finished; the response lists the root fields in document order.
package main

import (
	"context"
	"encoding/json"
	"fmt"
	"net/http/httptest"
	"strings"
	"sync"
	"time"

	apifu "github.com/ccbrown/api-fu"
	"github.com/ccbrown/api-fu/graphql"

	"verifharness/hx"
)

const obTasks = "apifu.Go / apifu.Batch inside mutation resolvers through ServeGraphQL with api-fu's own idle handler: no resolver beneath a later root field is called before every task started beneath the earlier root fields has finished; root fields listed in document order (strict oracle, real goroutines)"

type taskWorld struct {
	mu      sync.Mutex
	log     []string
	running map[string]int // root key → tasks started beneath it and not finished
	fail    string
	plan    map[string]string // response path → go0..go3 (delay ms) | batch | sync | null | err
}

type taskObj struct {
	w    *taskWorld
	path string
	root string
}

func (w *taskWorld) started(root, path string, rank map[string]int) {
	w.mu.Lock()
	defer w.mu.Unlock()
	w.log = append(w.log, "start:"+path)
	for k, n := range w.running {
		if n > 0 && rank[k] < rank[root] && w.fail == "" {
			w.fail = fmt.Sprintf("resolver %s (root field %s) is called while %d task(s) started beneath the earlier root field %s are still running", path, root, n, k)
		}
	}
}

func (w *taskWorld) begin(root string) {
	w.mu.Lock()
	w.running[root]++
	w.mu.Unlock()
}

func (w *taskWorld) end(root, path string) {
	w.mu.Lock()
	w.running[root]--
	w.log = append(w.log, "done:"+path)
	w.mu.Unlock()
}

var (
	tasksAPI  *apifu.API
	tasksRank map[string]int
)

func tasksBuild() (*apifu.API, error) {
	if tasksAPI != nil {
		return tasksAPI, nil
	}
	payload := &graphql.ObjectType{Name: "Payload", Fields: map[string]*graphql.FieldDefinition{}}
	leaf := func(name string, nn bool) *graphql.FieldDefinition {
		var t graphql.Type = graphql.IntType
		if nn {
			t = graphql.NewNonNullType(graphql.IntType)
		}
		batcher := apifu.Batch(func(items []graphql.FieldContext) []graphql.ResolveResult {
			out := make([]graphql.ResolveResult, len(items))
			for i, it := range items {
				o := it.Object.(*taskObj)
				out[i] = graphql.ResolveResult{Value: 7}
				o.w.end(o.root, o.path+"."+name)
			}
			return out
		})
		return &graphql.FieldDefinition{Type: t, Resolve: func(ctx graphql.FieldContext) (interface{}, error) {
			o := ctx.Object.(*taskObj)
			p := o.path + "." + name
			o.w.started(o.root, p, tasksRank)
			mode := o.w.plan[p]
			switch {
			case strings.HasPrefix(mode, "go"):
				d := time.Duration(mode[2]-'0') * time.Millisecond
				o.w.begin(o.root)
				return apifu.Go(ctx.Context, func() (interface{}, error) {
					time.Sleep(d)
					o.w.end(o.root, p)
					return 7, nil
				}), nil
			case mode == "batch":
				o.w.begin(o.root)
				return batcher(ctx)
			case mode == "null":
				return nil, nil
			case mode == "err":
				return nil, fmt.Errorf("boom %s", p)
			}
			return 7, nil
		}}
	}
	payload.Fields["x"] = leaf("x", false)
	payload.Fields["y"] = leaf("y", false)
	payload.Fields["z"] = leaf("z", true)
	payload.Fields["kid"] = &graphql.FieldDefinition{Type: payload, Resolve: func(ctx graphql.FieldContext) (interface{}, error) {
		o := ctx.Object.(*taskObj)
		p := o.path + ".kid"
		o.w.started(o.root, p, tasksRank)
		kid := &taskObj{w: o.w, path: p, root: o.root}
		if mode := o.w.plan[p]; strings.HasPrefix(mode, "go") {
			d := time.Duration(mode[2]-'0') * time.Millisecond
			o.w.begin(o.root)
			return apifu.Go(ctx.Context, func() (interface{}, error) {
				time.Sleep(d)
				o.w.end(o.root, p)
				return kid, nil
			}), nil
		}
		return kid, nil
	}}
	cfg := &apifu.Config{}
	cfg.AddQueryField("zz", &graphql.FieldDefinition{Type: graphql.IntType, Resolve: func(graphql.FieldContext) (interface{}, error) { return 0, nil }})
	tasksRank = map[string]int{}
	for i, name := range []string{"r0", "r1", "r2", "r3"} {
		name := name
		tasksRank[name] = i
		cfg.AddMutation(name, &graphql.FieldDefinition{Type: payload, Resolve: func(ctx graphql.FieldContext) (interface{}, error) {
			w := ctx.Context.Value(taskWorldKey{}).(*taskWorld)
			w.started(name, name, tasksRank)
			o := &taskObj{w: w, path: name, root: name}
			if mode := w.plan[name]; strings.HasPrefix(mode, "go") {
				d := time.Duration(mode[2]-'0') * time.Millisecond
				w.begin(name)
				return apifu.Go(ctx.Context, func() (interface{}, error) {
					time.Sleep(d)
					w.end(name, name)
					return o, nil
				}), nil
			}
			return o, nil
		}})
	}
	api, err := apifu.NewAPI(cfg)
	if err != nil {
		return nil, err
	}
	tasksAPI = api
	return api, nil
}

type taskWorldKey struct{}

type taskCase struct {
	Doc  string            `json:"doc"`
	Plan map[string]string `json:"plan"`
}

func genTaskCase(r *hx.Rand) *taskCase {
	c := &taskCase{Plan: map[string]string{}}
	modes := []string{"sync", "sync", "go0", "go1", "go2", "go3", "batch", "batch"}
	var b strings.Builder
	b.WriteString("mutation {")
	nroot := r.Range(2, 4)
	var sel func(path string, depth int)
	sel = func(path string, depth int) {
		b.WriteString("{")
		for _, f := range []string{"x", "y"} {
			if r.Chance(3, 4) {
				b.WriteString(f + " ")
				c.Plan[path+"."+f] = hx.Pick(r, modes)
				if r.Chance(1, 10) {
					c.Plan[path+"."+f] = "err"
				}
			}
		}
		if r.Chance(1, 2) {
			b.WriteString("z ")
			c.Plan[path+".z"] = hx.Pick(r, append(modes, "null", "null", "err"))
		}
		if depth > 0 && r.Chance(1, 2) {
			b.WriteString("kid")
			c.Plan[path+".kid"] = hx.Pick(r, []string{"sync", "go0", "go2"})
			sel(path+".kid", depth-1)
		}
		b.WriteString("t:__typename}")
	}
	for i := 0; i < nroot; i++ {
		name := fmt.Sprintf("r%d", i)
		b.WriteString(name)
		c.Plan[name] = hx.Pick(r, []string{"sync", "sync", "go0", "go1"})
		sel(name, 2)
		b.WriteString(" ")
	}
	b.WriteString("}")
	c.Doc = b.String()
	return c
}

func runTaskCase(c *taskCase) (fail string, log []string, body string) {
	api, err := tasksBuild()
	if err != nil {
		return "harness: " + err.Error(), nil, ""
	}
	w := &taskWorld{running: map[string]int{}, plan: c.Plan}
	payload, _ := json.Marshal(map[string]any{"query": c.Doc})
	req := httptest.NewRequest("POST", "/graphql", strings.NewReader(string(payload)))
	req.Header.Set("Content-Type", "application/json")
	req = req.WithContext(contextWith(req.Context(), w))
	rec := httptest.NewRecorder()
	done := make(chan struct{})
	go func() {
		defer close(done)
		defer func() {
			if p := recover(); p != nil {
				w.mu.Lock()
				w.fail = fmt.Sprint("panic: ", p)
				w.mu.Unlock()
			}
		}()
		api.ServeGraphQL(rec, req)
	}()
	select {
	case <-done:
	case <-time.After(20 * time.Second):
		return "did not finish within 20 s", nil, ""
	}
	w.mu.Lock()
	defer w.mu.Unlock()
	body = rec.Body.String()
	if w.fail == "" && rec.Code != 200 {
		w.fail = fmt.Sprintf("harness: HTTP %d %s", rec.Code, body)
	}
	if w.fail == "" {
		// root keys in document order in the response text (data may be null only if a root is non-null: never here)
		last := -1
		for i := 0; i < 4; i++ {
			k := fmt.Sprintf("\"r%d\":", i)
			if _, planned := c.Plan[fmt.Sprintf("r%d", i)]; !planned {
				continue
			}
			pos := strings.Index(body, k)
			if pos < 0 || pos < last {
				w.fail = fmt.Sprintf("response does not list root field r%d in document order: %s", i, body)
				break
			}
			last = pos
		}
	}
	return w.fail, append([]string{}, w.log...), body
}

func (h *harness) apifuTasks() {
	n := h.run.Scale(400, 4000)
	bad := 0
	for i := 0; i < n; i++ {
		c := genTaskCase(h.run.Rand.Fork())
		fail, log, body := runTaskCase(c)
		b, _ := json.Marshal(c)
		ntasks := 0
		for _, m := range c.Plan {
			if strings.HasPrefix(m, "go") || m == "batch" {
				ntasks++
			}
		}
		h.run.Case("tasks:"+string(b), ntasks >= 2)
		h.run.Count(fmt.Sprintf("apifu tasks: tasks per mutation=%d", min(ntasks, 8)))
		if strings.HasPrefix(fail, "harness:") {
			h.run.Oblige("harness self-consistency (generated schema/document accepted)", "oracle", 1, false, fail)
			continue
		}
		h.run.Oblige(obTasks, "oracle", 1, fail == "", fail)
		if fail != "" {
			bad++
			if bad <= 3 {
				h.run.Violate("property", "apifu tasks: "+fail+"  [document "+c.Doc+"]", "", false,
					map[string]any{"level": "tasks", "case": c, "what": fail, "log": log, "response": body})
			}
			if strings.HasPrefix(fail, "did not finish") {
				return
			}
		}
	}
}

func contextWith(ctx context.Context, w *taskWorld) context.Context {
	return context.WithValue(ctx, taskWorldKey{}, w)
}
