// Harness for C11 — mutation root fields execute strictly serially in document order.
//
// Generated mutations (≥ 2 root fields, nested promise-resolving sub-selections: objects and lists
// of objects whose fields answer through promises) run through the real graphql.Execute under
// random and bounded-exhaustive fulfilment schedules; the harness's IdleHandler is the only thing
// that fulfils promises. Observable = the global event log (resolver start / promise fulfilled,
// keyed by response path) + the response.
//
//	oracle (model-free, the property itself): every event under root key k_i precedes every
//	    event under k_{i+1}; the data lists the root keys in document order;
//	correspondence: event log, data, ordered errors, idle rounds, promises created are equal to
//	    those of the Lean model (ApiFu.C02.execSerial, the theorem mutation_log_serial speaks about it).
//
// The request engine is shared with C02 (harness/cmd/c02/engine).
package main

import (
	"encoding/json"
	"fmt"
	"os"
	"reflect"
	"strings"

	"verifharness/cmd/c02/engine"
	"verifharness/hx"
)

type harness struct {
	run    *hx.Run
	model  *hx.Model
	failed map[string]int
}

const findingAbandoned = "F-11a-abandoned-promise-outlives-its-root-field"

type verdict struct {
	Class, Cat, What string
	Finding          string
	Real, Model      *engine.Observed
}

func (v verdict) key() string { return v.Class + ":" + v.Cat }

func (h *harness) judge(c *engine.Case, reply string) verdict {
	real, err := engine.RunReal(c)
	if err != nil {
		return verdict{Class: "harness", Cat: "compile", What: err.Error()}
	}
	v := verdict{Real: real}
	var mo *engine.Observed
	var moErr error
	if reply != "" {
		mo, moErr = engine.ParseModelReply(reply)
		v.Model = mo
	}
	if real.Panic != "" {
		v.Class, v.Cat, v.What = "crash", "crash", "panic: "+real.Panic
		return v
	}
	if real.Stuck {
		v.Class, v.Cat, v.What = "property", "stuck", fmt.Sprintf("did not finish: idle handler called in round %d with no outstanding promise", real.Rounds)
		return v
	}
	if m := engine.SerialOrder(c, real, true); m != "" {
		v.Class, v.Cat, v.What = "property", "order", m
		return v
	}
	if m := engine.SerialOrder(c, real, false); m != "" {
		// the only late events are fulfilments of promises the executor had abandoned: F-11a
		v.Class, v.Cat, v.What, v.Finding = "property", "abandoned", m+fmt.Sprintf(" — the executor never received that promise: a failing sibling had already settled its root field; never received: %v", real.Abandoned), findingAbandoned
		return v
	}
	if reply != "" {
		if moErr != nil {
			v.Class, v.Cat, v.What = "correspondence", "reply", moErr.Error()
			return v
		}
		switch {
		case !sameEvents(real.Events, mo.Events):
			v.Class, v.Cat, v.What = "correspondence", "events", fmt.Sprintf("event log: implementation %v, model %v", real.Events, mo.Events)
		case real.Data != mo.Data:
			v.Class, v.Cat, v.What = "correspondence", "data", fmt.Sprintf("data: implementation %s, model %s", real.Data, mo.Data)
		case len(real.Errors) != len(mo.Errors) || (len(real.Errors) > 0 && !reflect.DeepEqual(real.Errors, mo.Errors)):
			v.Class, v.Cat, v.What = "correspondence", "errors", fmt.Sprintf("error list: implementation %v, model %v", real.Errors, mo.Errors)
		case real.Rounds != mo.Rounds || real.Promises != mo.Promises:
			v.Class, v.Cat, v.What = "correspondence", "rounds", fmt.Sprintf("idle rounds/promises: implementation %d/%d, model %d/%d", real.Rounds, real.Promises, mo.Rounds, mo.Promises)
		}
	}
	return v
}

func sameEvents(a, b []engine.Event) bool {
	if len(a) != len(b) {
		return false
	}
	for i := range a {
		if a[i].Kind != b[i].Kind || a[i].Path != b[i].Path {
			return false
		}
	}
	return true
}

const obNoIdle = "no idle handler: a mutation whose earlier root field returns a promise that is not fulfilled yet never starts a later root field (strict oracle, no model)"

// judgeNoIdle: the request has no IdleHandler. Nothing can fulfil a `promise` invocation then, so
// the only way to respect the property is not to go on: no resolver of a later root field may be
// called while a promise of an earlier one is outstanding (the unchanged executor aborts the
// request in wait). Strict oracle, no excuse, no model (the model has an idle handler).
func (h *harness) judgeNoIdle(c *engine.Case) verdict {
	real, err := engine.RunReal(c)
	if err != nil {
		return verdict{Class: "harness", Cat: "compile", What: err.Error()}
	}
	v := verdict{Real: real}
	switch {
	case real.Panic != "":
		v.Class, v.Cat, v.What = "crash", "crash", "panic: "+real.Panic
	case real.Rounds != 0:
		v.Class, v.Cat, v.What = "harness", "noidle", "the idle handler was called although the request has none"
	default:
		if m := engine.SerialOrder(c, real, false); m != "" {
			v.Class, v.Cat, v.What = "property", "noidle", "request without an idle handler: "+m
		}
	}
	return v
}

// noIdle runs small mutations whose resolvers all succeed (so no selection set gives up and leaves
// a promise behind) under every sync | promise | pre assignment, without an idle handler.
func (h *harness) noIdle() {
	n := 0
	for _, src := range []string{"{a:i b:i}", "{a:i b:i c:i}", "{a:{x:i} b:i c:{y:i}}", "{a:[{x:i}] b:{y:i}}", "{a!:i b:i}", "{a:{x!:i y:i}~i b:i}"} {
		shape := engine.MustShape(src)
		var world *engine.WVal
		engine.EnumWorlds(shape, []string{"val"}, []string{"val"}, 2, false, func(w *engine.WVal) bool {
			world = w
			return false
		})
		base := &engine.Case{Mutation: true, Shape: shape, World: world, NoIdle: true}
		modeSubsets(base, []string{"sync", "promise", "pre"}, func(c *engine.Case) {
			for _, syn := range []uint64{0, 7} {
				d := c.Clone()
				d.Syntax = syn
				v := h.judgeNoIdle(d)
				b, _ := json.Marshal(d)
				h.run.Case(string(b), len(v.Real.Abandoned) > 0)
				h.run.Oblige(obNoIdle, "oracle", 1, v.Class == "", v.What)
				n++
				if v.Class != "" {
					h.failed["noidle"]++
					if h.failed["noidle"] <= 3 {
						h.run.Violate(v.Class, fmt.Sprintf("%s: %s  [document %s]", v.Cat, v.What, d.Document()), "", false,
							map[string]any{"level": "executor", "case": d, "document": d.Document(), "implementation": v.Real.Line(true)})
					}
				}
			}
		})
	}
	h.run.CountN("no idle handler", n)
}

func (h *harness) judgeAsk(c *engine.Case) verdict {
	if c.NoIdle {
		return h.judgeNoIdle(c)
	}
	if hasShared(c) {
		return h.judgeShared(c)
	}
	if c.ExactMasks || c.PanicAt > 0 {
		return h.judgeAskExt(c)
	}
	reply := ""
	if h.model != nil {
		r, err := h.model.Ask(c.ModelLine())
		if err != nil {
			return verdict{Class: "correspondence", Cat: "driver", What: err.Error()}
		}
		reply = r
	}
	return h.judge(c, reply)
}

// nontrivial: an earlier root field still has a promise outstanding beneath its root resolver
// while a later root field exists, i.e. some fulfil event of a nested path (length ≥ 2) under a
// root field that is not the last one.
func nontrivial(c *engine.Case, o *engine.Observed) bool {
	if o == nil || len(c.Shape.Fields) < 2 {
		return false
	}
	lastKey := fmt.Sprintf("%q", c.Shape.Fields[len(c.Shape.Fields)-1].Key())
	for _, e := range o.Events {
		if e.Kind == "fulfil" && strings.Count(e.Path, ",") >= 1 && engine.RootKeyOf(e.Path) != lastKey {
			return true
		}
	}
	return false
}

const obCorr = "mutation correspondence (event log, data, ordered errors, idle rounds) vs Lean execSerial"
const obOracle = "oracle: every event under root field k_i precedes every event under k_{i+1}; data lists root keys in document order; no crash, no hang"

func (h *harness) record(c *engine.Case, v verdict, source string) {
	b, _ := json.Marshal(c)
	h.run.Case(string(b), nontrivial(c, v.Real))
	if v.Real != nil {
		h.run.Count(fmt.Sprintf("%s:roots=%d", source, len(c.Shape.Fields)))
		h.run.Count(fmt.Sprintf("promises=%d", min(v.Real.Promises, 8)))
		h.run.Count(fmt.Sprintf("rounds=%d", min(v.Real.Rounds, 8)))
		h.run.Count(fmt.Sprintf("events=%d", min(len(v.Real.Events)/4*4, 24)))
		if v.Real.Data == "null" {
			h.run.Count("data:null")
		}
	}
	h.run.Oblige(obCorr, "correspondence", 1, v.Class != "correspondence", v.What)
	h.run.Oblige(obOracle, "oracle", 1, (v.Class != "property" && v.Class != "crash") || v.Finding != "", v.What)
	if v.Finding != "" {
		h.run.Count("finding:" + v.Finding)
	}
	if v.Class == "" {
		return
	}
	if v.Class == "harness" {
		h.run.Oblige("harness self-consistency (generated schema/document accepted)", "oracle", 1, false, v.What)
		return
	}
	want := v.key()
	h.failed[want]++
	if h.failed[want] > 3 {
		h.run.Violate(v.Class, v.What, v.Finding, v.Class == "correspondence", nil)
		return
	}
	small := engine.Shrink(c, want, func(d *engine.Case) string {
		if len(d.Shape.Fields) < 1 {
			return ""
		}
		return h.judgeAsk(d).key()
	})
	sv := h.judgeAsk(small)
	if sv.key() != want {
		small, sv = c, v
	}
	replay := map[string]any{"level": "executor", "case": small, "document": small.Document(), "what": sv.What}
	if sv.Real != nil {
		replay["implementation"] = sv.Real.Line(true)
	}
	if sv.Model != nil {
		replay["model"] = sv.Model.Line(true)
	}
	h.run.Violate(sv.Class, fmt.Sprintf("%s: %s  [document %s]", sv.Cat, sv.What, small.Document()), sv.Finding, sv.Class == "correspondence", replay)
}

func (h *harness) batch(cs []*engine.Case, source string) {
	replies := make([]string, len(cs))
	if h.model != nil && len(cs) > 0 {
		lines := make([]string, len(cs))
		for i, c := range cs {
			lines[i] = c.ModelLine()
		}
		r, err := h.model.AskAll(lines)
		if err != nil {
			h.run.Oblige(obCorr, "correspondence", 1, false, "model driver: "+err.Error())
			h.model = nil
		} else {
			replies = r
		}
	}
	for i, c := range cs {
		h.record(c, h.judge(c, replies[i]), source)
	}
}

// schedules enumerates every fulfilment schedule of the case (see harness/cmd/c02).
func schedules(c *engine.Case, limit int, visit func(*engine.Case)) (count int, complete bool) {
	complete = true
	var rec func(prefix []uint64)
	rec = func(prefix []uint64) {
		if count >= limit {
			complete = false
			return
		}
		d := c.Clone()
		d.Schedule = append([]uint64{}, prefix...)
		obs, err := engine.RunReal(d)
		if err != nil {
			return
		}
		count++
		visit(d)
		for k := len(prefix); k < len(obs.Widths); k++ {
			w := obs.Widths[k]
			if w > 10 {
				w = 10
			}
			for m := uint64(1); m < (uint64(1)<<uint(w))-1; m++ {
				p := append([]uint64{}, prefix...)
				for len(p) < k {
					p = append(p, engine.AllMask)
				}
				rec(append(p, m))
			}
		}
	}
	rec(nil)
	return
}

func modeSubsets(c *engine.Case, modes []string, visit func(*engine.Case)) {
	n := len(c.Invocations())
	var rec func(i int, d *engine.Case)
	rec = func(i int, d *engine.Case) {
		if i == n {
			visit(d.Clone())
			return
		}
		for _, m := range modes {
			d.Invocations()[i].Mode = m
			rec(i+1, d)
		}
	}
	rec(0, c.Clone())
}

type fixedReq struct {
	shape   string
	leaf    []string
	obj     []string
	listLen int
	maxInv  int
	syntax  uint64 // presentation of the selection sets in the document (engine/syntax.go); 0 = plain
}

func (h *harness) exhaustive() {
	run := h.run
	ve := []string{"val", "err"}
	v := []string{"val"}
	reqs := []fixedReq{
		{shape: "{a:i b:i}", leaf: []string{"val", "null", "err"}, obj: v, maxInv: 4},
		{shape: "{a:{x:i} b:{y:i}}", leaf: ve, obj: []string{"val", "null", "err"}, maxInv: 4},
		{shape: "{a:{x:i y:i} b:i}", leaf: ve, obj: v, maxInv: 4},
		{shape: "{a:[{x:i}] b:{y:i}}", leaf: v, obj: v, listLen: 2, maxInv: 5},
		{shape: "{a:{p:{q:i}} b:i c:i}", leaf: ve, obj: v, maxInv: 5},
		{shape: "{a!:{x!:i} b:{y:i}}", leaf: ve, obj: v, maxInv: 4},
		{shape: "{a:{x:i} b:{y:i} c:{z:i}}", leaf: v, obj: v, maxInv: 6},
		{shape: "{a:[{x:i y:i}!] b:i}", leaf: ve, obj: v, listLen: 1, maxInv: 4},
		{shape: "{a:{t# x:i} b:[{y:i}]}", leaf: v, obj: v, listLen: 2, maxInv: 5},
		{shape: "{a:i b!:i c:{z:i}}", leaf: ve, obj: v, maxInv: 4},
		// root fields contributed by fragments, repeated, skipped: AST selections ≠ response keys
		{shape: "{a:i b:i}", leaf: ve, obj: v, maxInv: 4, syntax: 3},
		{shape: "{a:i b:i c:i}", leaf: v, obj: v, maxInv: 4, syntax: 5},
		{shape: "{a:i b:i}", leaf: ve, obj: v, maxInv: 4, syntax: 15},
		{shape: "{a:{x:i y:i} b:{z:i}}", leaf: v, obj: v, maxInv: 5, syntax: 11},
		{shape: "{a:{x:i} b:{y:i} c:i}", leaf: v, obj: v, maxInv: 5, syntax: 12},
		// interface- and union-typed root fields (plain and in a list) over promise-backed sub-fields
		{shape: "{a:{x:i}~i b:i}", leaf: ve, obj: []string{"val", "null", "err"}, maxInv: 4},
		{shape: "{a:{x:i y:i}~u b:i}", leaf: ve, obj: v, maxInv: 4},
		{shape: "{a:[{x:i}~i] b:{y:i}~u}", leaf: v, obj: v, listLen: 2, maxInv: 5},
		{shape: "{a!:{x!:i}~u b:{y:i}~i}", leaf: ve, obj: v, maxInv: 4, syntax: 7},
	}
	modes := []string{"sync", "promise"}
	if run.Thorough() {
		modes = []string{"sync", "promise", "pre"}
		reqs = append(reqs,
			fixedReq{shape: "{a:[{x:i y:i}] b:[{z:i}]}", leaf: v, obj: v, listLen: 2, maxInv: 8},
			fixedReq{shape: "{a:{p:{q:i r:i}} b:{s:i} c:i}", leaf: ve, obj: v, maxInv: 7},
			fixedReq{shape: "{a:{x:i} b:{y:i} c:{z:i} d:{w:i}}", leaf: v, obj: v, maxInv: 8},
		)
	}
	perReqLimit := run.Scale(40000, 1500000)
	total := 0
	allComplete := true
	for _, rq := range reqs {
		shape := engine.MustShape(rq.shape)
		n := 0
		var pending []*engine.Case
		flush := func() {
			h.batch(pending, "exh")
			pending = nil
		}
		engine.EnumWorlds(shape, rq.leaf, rq.obj, max(rq.listLen, 1), false, func(w *engine.WVal) bool {
			base := &engine.Case{Mutation: true, Shape: shape.Clone(), World: w, Syntax: rq.syntax}
			if len(base.Invocations()) > rq.maxInv {
				return true
			}
			modeSubsets(base, modes, func(c *engine.Case) {
				cnt, complete := schedules(c, 3000, func(d *engine.Case) {
					pending = append(pending, d)
					if len(pending) >= 4000 {
						flush()
					}
				})
				n += cnt
				if !complete {
					allComplete = false
				}
			})
			if n > perReqLimit {
				allComplete = false
				return false
			}
			return true
		})
		flush()
		total += n
		run.CountN(fmt.Sprintf("exhaustive:%s/syntax=%d", rq.shape, rq.syntax), n)
	}
	run.Note("bounded-exhaustive part: %d fixed mutations × all worlds over the listed outcomes × all async subsets × all fulfilment schedules = %d runs (complete=%v)", len(reqs), total, allComplete)
	run.SetExhaustive(allComplete)
}

func (h *harness) random() {
	run := h.run
	n := run.Scale(50000, 200000)
	var pending []*engine.Case
	for i := 0; i < n; i++ {
		r := run.Rand.Fork()
		o := engine.GenOpts{MaxDepth: r.Range(1, 3), MaxFields: r.Range(2, 3), MaxItems: 3, Mutation: true}
		nroot := r.Range(2, 4)
		wo := engine.WorldOpts{PAsync: r.Range(3, 7), PFail: r.Range(0, 3), PNull: r.Range(0, 2), PBad: r.Range(0, 1), MaxItems: 3, ValueKindErrors: true}
		if r.Chance(1, 6) {
			// wide selection sets: 5–12 root fields and / or up to 5–9 keys in nested sets
			nroot = r.Range(5, 12)
			o.MaxDepth, o.MaxItems = r.Range(1, 2), 2
			if r.Bool() {
				o.MaxFields = r.Range(5, 9)
			}
			wo.PAsync, wo.MaxItems = r.Range(1, 4), 2
			run.Count("rand:wide")
		}
		shape := engine.GenShape(r, o, 0, nroot)
		world := engine.GenWorld(r, shape, wo)
		base := &engine.Case{Mutation: true, Shape: shape, World: world}
		for k := 0; k < 3; k++ {
			c := base.Clone()
			if k > 0 {
				for _, f := range c.Invocations() {
					f.Mode = hx.Pick(r, []string{"sync", "promise", "promise", "promise", "pre"})
				}
			}
			c.Schedule = engine.GenSchedule(r, r.Range(0, 12))
			if k > 0 {
				c.Syntax = r.Uint64() | 1
			}
			c.LazyIdle = k == 2 && r.Bool()
			pending = append(pending, c)
			if i < 2 && k == 0 {
				run.Sample(map[string]any{"document": c.Document(), "case": c})
			}
		}
		if len(pending) >= 3000 {
			h.batch(pending, "rand")
			pending = nil
		}
	}
	h.batch(pending, "rand")
}

func main() {
	run := hx.Init("C11")
	h := &harness{run: run, failed: map[string]int{}}
	if run.ModelPath != "" {
		m, err := hx.StartModel(run.ModelPath)
		if err != nil {
			fmt.Fprintln(os.Stderr, "cannot start model:", err)
			os.Exit(2)
		}
		h.model = m
		defer m.Close()
	}
	run.SetRule("mutations (≥ 2 root fields; nested objects and lists of objects; per-invocation sync|promise|pre flags; resolver outcomes value/null/error) × fulfilment schedules through graphql.Execute; distinct = distinct case; non-trivial = a promise strictly beneath a root field that is not the last one is fulfilled by the idle handler (the situation in which a later root field could start early)")

	if run.Replay != "" {
		var rp struct {
			Level string          `json:"level"`
			Case  json.RawMessage `json:"case"`
		}
		if err := hx.LoadReplayCase(run.Replay, &rp); err != nil {
			fmt.Fprintln(os.Stderr, err)
			os.Exit(2)
		}
		if rp.Level == "tasks" {
			var tc taskCase
			if err := json.Unmarshal(rp.Case, &tc); err != nil {
				fmt.Fprintln(os.Stderr, err)
				os.Exit(2)
			}
			fail, log, body := runTaskCase(&tc)
			fmt.Printf("document:       %s\nplan:           %v\nlog:            %v\nresponse:       %s\nverdict:        %s\n", tc.Doc, tc.Plan, log, body, fail)
			if fail != "" {
				run.Violate("property", "apifu tasks: "+fail, "", false, map[string]any{"level": "tasks", "case": &tc})
			}
			run.Finish(h.model)
			return
		}
		var c engine.Case
		if err := json.Unmarshal(rp.Case, &c); err != nil {
			fmt.Fprintln(os.Stderr, err)
			os.Exit(2)
		}
		v := h.judgeAsk(&c)
		fmt.Printf("document:       %s\n", c.Document())
		if v.Real != nil {
			fmt.Printf("implementation: %s\n", v.Real.Line(true))
		}
		if v.Model != nil {
			fmt.Printf("model:          %s\n", v.Model.Line(true))
		}
		fmt.Printf("verdict:        class=%q %s %s\n", v.Class, v.Cat, v.What)
		if v.Class != "" {
			run.Violate(v.Class, v.What, v.Finding, v.Class == "correspondence", map[string]any{"level": "executor", "case": &c})
		}
		run.Finish(h.model)
		return
	}

	for _, f := range run.CorpusFiles() {
		var rp struct {
			Case json.RawMessage `json:"case"`
		}
		if hx.LoadReplayCase(f, &rp) != nil {
			continue
		}
		var c engine.Case
		if json.Unmarshal(rp.Case, &c) == nil && c.Shape != nil {
			var pending []*engine.Case
			schedules(&c, 2000, func(d *engine.Case) { pending = append(pending, d) })
			// … and each of them again with an idle handler whose every other call delivers nothing
			for _, d := range append([]*engine.Case{}, pending...) {
				l := d.Clone()
				l.LazyIdle = true
				pending = append(pending, l)
			}
			h.batch(pending, "corpus")
			run.Count("corpus")
		}
	}
	h.exhaustive()
	h.noIdle()
	h.extended()
	h.shared()
	h.apifuTasks()
	cs := engine.WideCases(true, run.Scale(100, 600))
	run.CountN("wide selection sets (5–12 keys) × presentations", len(cs))
	h.batch(cs, "wide")
	h.random()
	run.Finish(h.model)
}

func min(a, b int) int {
	if a < b {
		return a
	}
	return b
}

func max(a, b int) int {
	if a > b {
		return a
	}
	return b
}
