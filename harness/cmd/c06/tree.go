package main

// Abstract syntax trees of the executable-document grammar (no positions), their generator
// (one generator drives both the bounded-exhaustive enumeration and the random stream, through a
// Chooser), the printer to lexemes, the layout renderer, the reference position computation and
// the expected canonical S-expression.

import (
	"fmt"
	"strings"
	"unicode/utf8"

	"verifharness/hx"
)

// T is one node. Kids follow the layout of the canonical S-expression of that tag; optional slots
// hold nil; list slots hold a node with Tag "()".
//
//	n Str | var [n] | int/float/enum/str/bool Str | null | list vs… | obj of… | of [n v]
//	named [n] | listT [t] | nonnull [t] | arg [n v] | dir [n ()args] | vardef [var t v?]
//	ss sels… | field [n? n ()args ()dirs ss?] | spread [n ()dirs] | inline [named? ()dirs ss]
//	optype Str | op [optype? n? ()vardefs ()dirs ss] | frag [n named ()dirs ss] | doc defs…
type T struct {
	Tag   string
	Str   string
	Kids  []*T
	first int // index of the node's first lexeme
	close int // index of the closing bracket (list, obj, listT, ss)
}

func leaf(tag, s string) *T       { return &T{Tag: tag, Str: s} }
func node(tag string, k ...*T) *T { return &T{Tag: tag, Kids: k} }

func (t *T) clone() *T {
	if t == nil {
		return nil
	}
	c := &T{Tag: t.Tag, Str: t.Str}
	for _, k := range t.Kids {
		c.Kids = append(c.Kids, k.clone())
	}
	return c
}

// Lex is one lexeme: kind, decoded value, and (after spelling) the literal text.
type Lex struct {
	K     byte   `json:"k"`
	Value string `json:"v"`
	Text  string `json:"t"`
}

func punct(s string) Lex   { return Lex{'p', s, s} }
func nameLex(s string) Lex { return Lex{'n', s, s} }

// ---- printer ----------------------------------------------------------------------------------

type emitter struct {
	lex   []Lex
	spell *hx.Rand // spelling of string literals
}

func (e *emitter) put(l Lex) int {
	e.lex = append(e.lex, l)
	return len(e.lex) - 1
}

func (e *emitter) list(t *T) {
	for _, k := range t.Kids {
		e.emit(k)
	}
}

func (e *emitter) parenList(t *T) {
	if len(t.Kids) == 0 {
		return
	}
	e.put(punct("("))
	e.list(t)
	e.put(punct(")"))
}

func (e *emitter) emit(t *T) {
	if t == nil {
		return
	}
	t.first = len(e.lex)
	switch t.Tag {
	case "n":
		e.put(nameLex(t.Str))
	case "var":
		e.put(punct("$"))
		e.emit(t.Kids[0])
	case "int":
		e.put(Lex{'i', t.Str, t.Str})
	case "float":
		e.put(Lex{'f', t.Str, t.Str})
	case "str":
		e.put(Lex{'s', t.Str, spellString(t.Str, e.spell)})
	case "bool", "enum":
		e.put(nameLex(t.Str))
	case "null":
		e.put(nameLex("null"))
	case "list":
		e.put(punct("["))
		e.list(t)
		t.close = e.put(punct("]"))
	case "obj":
		e.put(punct("{"))
		e.list(t)
		t.close = e.put(punct("}"))
	case "of", "arg":
		e.emit(t.Kids[0])
		e.put(punct(":"))
		e.emit(t.Kids[1])
	case "named":
		e.emit(t.Kids[0])
	case "listT":
		e.put(punct("["))
		e.emit(t.Kids[0])
		t.close = e.put(punct("]"))
	case "nonnull":
		e.emit(t.Kids[0])
		e.put(punct("!"))
	case "dir":
		e.put(punct("@"))
		e.emit(t.Kids[0])
		e.parenList(t.Kids[1])
	case "vardef":
		e.emit(t.Kids[0])
		e.put(punct(":"))
		e.emit(t.Kids[1])
		if t.Kids[2] != nil {
			e.put(punct("="))
			e.emit(t.Kids[2])
		}
	case "ss":
		e.put(punct("{"))
		e.list(t)
		t.close = e.put(punct("}"))
	case "field":
		if t.Kids[0] != nil {
			e.emit(t.Kids[0])
			e.put(punct(":"))
		}
		e.emit(t.Kids[1])
		e.parenList(t.Kids[2])
		e.list(t.Kids[3])
		e.emit(t.Kids[4])
	case "spread":
		e.put(punct("..."))
		e.emit(t.Kids[0])
		e.list(t.Kids[1])
	case "inline":
		e.put(punct("..."))
		if t.Kids[0] != nil {
			e.put(nameLex("on"))
			e.emit(t.Kids[0])
		}
		e.list(t.Kids[1])
		e.emit(t.Kids[2])
	case "optype":
		e.put(nameLex(t.Str))
	case "op":
		e.emit(t.Kids[0])
		e.emit(t.Kids[1])
		e.parenList(t.Kids[2])
		e.list(t.Kids[3])
		e.emit(t.Kids[4])
	case "frag":
		e.put(nameLex("fragment"))
		e.emit(t.Kids[0])
		e.put(nameLex("on"))
		e.emit(t.Kids[1])
		e.list(t.Kids[2])
		e.emit(t.Kids[3])
	case "doc":
		e.list(t)
	default:
		panic("emit: unknown tag " + t.Tag)
	}
}

// spellString picks a literal for a string value: a quoted string with a random choice among the
// escape spellings, or a block string when the value allows an unambiguous one. Only BMP characters
// other than U+FFFD / U+FEFF are ever generated (the scanner's handling of the rest is C07's).
func spellString(v string, r *hx.Rand) string {
	// a value with three quotes in a row is worth a block string most of the time: its block spelling
	// has the only escape sequence of block strings, \""" (four source characters for three)
	if blockable(v) && (r.Chance(1, 4) || (strings.Contains(v, `"""`) && r.Chance(2, 3))) {
		nl := hx.Pick(r, []string{"\n", "\r\n", "\r"})
		v = strings.ReplaceAll(v, `"""`, `\"""`)
		if !strings.Contains(v, "\n") && r.Bool() {
			return `"""` + v + `"""`
		}
		indent := strings.Repeat(" ", r.Intn(4))
		if r.Chance(1, 4) {
			indent = "\t"
		}
		var b strings.Builder
		b.WriteString(`"""`)
		for _, line := range strings.Split(v, "\n") {
			b.WriteString(nl)
			b.WriteString(indent)
			b.WriteString(line)
		}
		b.WriteString(nl)
		if r.Bool() {
			b.WriteString(indent)
		}
		b.WriteString(`"""`)
		return b.String()
	}
	var b strings.Builder
	b.WriteByte('"')
	for _, c := range v {
		switch {
		case c == '"':
			b.WriteString(`\"`)
		case c == '\\':
			b.WriteString(`\\`)
		case c == '\n' && r.Bool():
			b.WriteString(`\n`)
		case c == '\t' && r.Bool():
			if r.Bool() {
				b.WriteString(`\t`)
			} else {
				b.WriteRune(c)
			}
		case c == '\r' && r.Bool():
			b.WriteString(`\r`)
		case c == '\b' && r.Bool():
			b.WriteString(`\b`)
		case c == '\f' && r.Bool():
			b.WriteString(`\f`)
		case c == '/' && r.Bool():
			b.WriteString(`\/`)
		case c < 0x20 || r.Chance(1, 8):
			if r.Bool() {
				fmt.Fprintf(&b, `\u%04x`, c)
			} else {
				fmt.Fprintf(&b, `\u%04X`, c)
			}
		default:
			b.WriteRune(c)
		}
	}
	b.WriteByte('"')
	return b.String()
}

// blockable: every line non-empty, without leading/trailing blanks, only printable characters; quotes
// and backslashes are allowed where the block spelling stays unambiguous: `"""` inside the value is
// spelled \""" (spellString), the value does not end in a quote or a backslash (it would fuse with the
// closing delimiter) and has no backslash directly before three quotes.
func blockable(v string) bool {
	if v == "" || strings.HasSuffix(v, `"`) || strings.HasSuffix(v, `\`) || strings.Contains(v, `\"""`) {
		return false
	}
	for _, line := range strings.Split(v, "\n") {
		if line == "" || line[0] == ' ' || line[0] == '\t' || line[len(line)-1] == ' ' || line[len(line)-1] == '\t' {
			return false
		}
		for _, c := range line {
			if c < 0x20 {
				return false
			}
		}
	}
	return true
}

// ---- layout -----------------------------------------------------------------------------------

const (
	layTight = iota
	laySpaces
	layLines
	layWild
	layClasses
)

var layNames = []string{"tight", "spaces", "lines", "wild"}

func wordlike(l Lex) bool { return l.K == 'n' || l.K == 'i' || l.K == 'f' }

// needsSep: would the two lexemes fuse (or could they) when written without anything between?
// Conservative: any two of name/number, and any two strings, are kept apart.
func needsSep(a, b Lex) bool {
	return (wordlike(a) && wordlike(b)) || (a.K == 's' && b.K == 's')
}

var commentAlphabet = []rune(" \t#\"{}[]()$!:=@.,abcXYZ019_-\\é☃漢")

func comment(r *hx.Rand) string {
	var b strings.Builder
	b.WriteByte('#')
	for n := r.Intn(7); n > 0; n-- {
		b.WriteRune(hx.Pick(r, commentAlphabet))
	}
	return b.String()
}

var lineTerms = []string{"\n", "\r\n", "\r"}

// gap draws the ignored text between two lexemes. last = nothing follows (end of text).
func gap(r *hx.Rand, class int, sep bool, last bool) string {
	var b strings.Builder
	switch class {
	case layTight:
		if sep {
			b.WriteString(hx.Pick(r, []string{" ", ",", "\n", "\t"}))
		}
	case laySpaces:
		for n := r.Intn(3); n > 0; n-- {
			b.WriteString(hx.Pick(r, []string{" ", " ", ",", "\t"}))
		}
	case layLines:
		for n := r.Intn(4); n > 0; n-- {
			b.WriteString(hx.Pick(r, []string{" ", "  ", "\n", "\n", "\r\n", "\r", "\t", ","}))
		}
	default:
		for n := r.Intn(6); n > 0; n-- {
			switch r.Intn(8) {
			case 0, 1:
				b.WriteString(" ")
			case 2:
				b.WriteString("\t")
			case 3:
				b.WriteString(",")
			case 4:
				b.WriteString(hx.Pick(r, lineTerms))
			case 5:
				b.WriteString("\n")
			default:
				b.WriteString(comment(r))
				if !(last && n == 1 && r.Bool()) {
					b.WriteString(hx.Pick(r, lineTerms))
				}
			}
		}
	}
	if sep && b.Len() == 0 {
		b.WriteString(hx.Pick(r, []string{" ", ",", "\n", "\r\n", "\r", "\t"}))
	}
	return b.String()
}

// render lays the lexemes out; offs[i] is the byte offset of lexeme i.
func render(lex []Lex, r *hx.Rand, class int) (src string, offs []int) {
	var b strings.Builder
	if class == layWild && r.Chance(1, 3) {
		b.WriteString("\ufeff")
	}
	if len(lex) == 0 {
		b.WriteString(gap(r, class, false, true))
		return b.String(), nil
	}
	b.WriteString(gap(r, class, false, false))
	for i, l := range lex {
		if i > 0 {
			b.WriteString(gap(r, class, needsSep(lex[i-1], l), false))
		}
		offs = append(offs, b.Len())
		b.WriteString(l.Text)
	}
	b.WriteString(gap(r, class, false, true))
	return b.String(), offs
}

// Pos is a reference position.
type Pos struct{ Line, Col int }

// refPositions computes, independently of the scanner, the (line, column) of the given byte
// offsets: line = 1 + number of line terminators (LF, CR, CRLF) before the offset, column = 1 +
// number of code points since the last line terminator (a leading byte-order mark is a code point).
// It also returns the number of lines of the text.
func refPositions(src string, offs []int) (pos []Pos, lines int) {
	line, col, k := 1, 1, 0
	for i := 0; i < len(src); {
		for k < len(offs) && offs[k] == i {
			pos = append(pos, Pos{line, col})
			k++
		}
		c, size := utf8.DecodeRuneInString(src[i:])
		switch {
		case c == '\n':
			line, col = line+1, 1
		case c == '\r':
			if i+1 < len(src) && src[i+1] == '\n' {
				col++
			} else {
				line, col = line+1, 1
			}
		default:
			col++
		}
		i += size
	}
	for k < len(offs) {
		pos = append(pos, Pos{line, col})
		k++
	}
	return pos, line
}

// ---- expected canonical S-expression ----------------------------------------------------------

func pS(p Pos) hx.Sexp { return hx.A(fmt.Sprintf("%d:%d", p.Line, p.Col)) }

func (t *T) kidsSexp(pos []Pos) []hx.Sexp {
	xs := []hx.Sexp{}
	for _, k := range t.Kids {
		xs = append(xs, k.sexp(pos))
	}
	return xs
}

// sexp: every node is (tag <position of its first token> …); nil = none.
func (t *T) sexp(pos []Pos) hx.Sexp {
	if t == nil {
		return hx.A("none")
	}
	p := Pos{1, 1}
	if t.Tag != "doc" && t.Tag != "()" {
		p = pos[t.first]
	}
	switch t.Tag {
	case "()":
		return hx.L(t.kidsSexp(pos)...)
	case "n", "int", "float", "str", "enum", "optype":
		return hx.N(t.Tag, pS(p), hx.A(t.Str))
	case "bool":
		return hx.N("bool", pS(p), hx.A(t.Str))
	case "null":
		return hx.N("null", pS(p))
	case "list", "obj", "ss":
		return hx.N(t.Tag, append([]hx.Sexp{pS(p), pS(pos[t.close])}, t.kidsSexp(pos)...)...)
	case "listT":
		return hx.N("listT", pS(p), pS(pos[t.close]), t.Kids[0].sexp(pos))
	default:
		return hx.N(t.Tag, append([]hx.Sexp{pS(p)}, t.kidsSexp(pos)...)...)
	}
}

// ---- generator --------------------------------------------------------------------------------

// Chooser abstracts the source of decisions: random, or the exhaustive enumeration of all
// decision sequences.
type Chooser interface {
	// Choose returns an index in [0, len(weights)) among the options with non-zero weight.
	Choose(weights ...int) int
}

type randChooser struct{ r *hx.Rand }

func (c randChooser) Choose(w ...int) int {
	tot := 0
	for _, x := range w {
		tot += x
	}
	if tot == 0 {
		return 0
	}
	n := c.r.Intn(tot)
	for i, x := range w {
		if n < x {
			return i
		}
		n -= x
	}
	return len(w) - 1
}

// exChooser enumerates decision sequences in lexicographic order.
type exChooser struct {
	prefix []int // index among the enabled options
	arity  []int
	pos    int
}

func (c *exChooser) Choose(w ...int) int {
	var en []int
	for i, x := range w {
		if x > 0 {
			en = append(en, i)
		}
	}
	if len(en) <= 1 {
		if len(en) == 1 {
			return en[0]
		}
		return 0
	}
	if c.pos >= len(c.prefix) {
		c.prefix = append(c.prefix, 0)
		c.arity = append(c.arity, len(en))
	} else {
		c.arity[c.pos] = len(en)
	}
	v := c.prefix[c.pos]
	c.pos++
	return en[v]
}

// next moves to the following decision sequence; false when the space is exhausted.
func (c *exChooser) next() bool {
	c.prefix, c.arity = c.prefix[:c.pos], c.arity[:c.pos]
	for i := len(c.prefix) - 1; i >= 0; i-- {
		if c.prefix[i]+1 < c.arity[i] {
			c.prefix[i]++
			c.prefix, c.arity = c.prefix[:i+1], c.arity[:i+1]
			c.pos = 0
			return true
		}
	}
	return false
}

// profile: the alphabets.
type profile struct {
	fieldNames, aliases, argNames, dirNames, varNames, typeNames, fragNames, opNames, enums []string
	ints, floats, strs                                                                      []string
}

// tiny: one ordinary spelling and one keyword-like spelling per context (every name that is legal
// in that context although it is a keyword elsewhere).
var tiny = profile{
	fieldNames: []string{"a", "on"}, aliases: []string{"b", "fragment"}, argNames: []string{"x", "null"},
	dirNames: []string{"d", "on"}, varNames: []string{"v", "on"}, typeNames: []string{"T", "on"},
	fragNames: []string{"F", "fragment"}, opNames: []string{"Q", "on"}, enums: []string{"E", "on"},
	ints: []string{"0", "-12"}, floats: []string{"1.5e3"}, strs: []string{"", "s\n\"é"},
}

var keywords = []string{"on", "fragment", "query", "mutation", "subscription", "true", "false", "null", "type", "schema", "extend", "input"}

var rich = profile{
	fieldNames: append([]string{"a", "b", "user", "id", "_", "__typename", "x1", "A_b9", "name"}, keywords...),
	aliases:    append([]string{"a", "al", "z_9"}, keywords...),
	argNames:   append([]string{"x", "first", "id", "_y"}, keywords...),
	dirNames:   append([]string{"skip", "include", "d", "deprecated"}, keywords...),
	varNames:   append([]string{"v", "id", "n", "_0"}, keywords...),
	typeNames:  append([]string{"T", "Int", "String", "ID", "Obj", "_T"}, keywords...),
	fragNames:  []string{"F", "G", "frag1", "fragment", "query", "true", "null", "mutation", "subscription", "type", "_"},
	opNames:    append([]string{"Q", "MyOp", "_q", "q1"}, keywords...),
	enums:      []string{"E", "RED", "on", "fragment", "query", "mutation", "subscription", "_e", "True", "NULL", "nul", "truee"},
	ints:       []string{"0", "-0", "7", "-1", "42", "1234567890123456789012", "-90"},
	floats:     []string{"1.5", "-0.0", "1e10", "1E+5", "1.25e-3", "0.000", "-7E-0", "6.02e23"},
	strs: []string{"", "s", "hello world", "a\"b", "back\\slash", "line1\nline2", "tab\there", "é☃漢", "/slash/", "\u0000\b\f\r", "#not a comment", "a\nb\nc", "{}[]()$!:=@|...", "  lead", "trail  ", "x\n\ny",
		// block-string material: three quotes in a row (spelled \""" in a block string), lone quotes, backslashes
		"a\"\"\"b", "\"\"\"", "say \"\"\"hi\"\"\" twice", "\"\"\"\"x", "q\"uo\"\"te", "l1 \"\"\"\nl2", "c:\\dir\\n \\u0041",
		// every hexadecimal letter in a \u spelling (U+00AB U+00CD U+00EF), and punctuator-valued strings
		"«Íï", "]", "}", ")"},
}

// richPunctStrings: the rich alphabet with string values that are punctuators or keywords — a list element
// "]", an object field value "}", an argument ")" … must stay strings.
var richPunctStrings = func() profile {
	p := rich
	p.strs = []string{"]", "}", ")", ":", "{", "[", "(", "!", "=", "@", "$", "...", "|", "&", "on", "fragment", "query", "true", "null", "]]", "} }"}
	return p
}()

type gen struct {
	c      Chooser
	budget int
	p      *profile
}

func (g *gen) str(xs []string) string {
	w := make([]int, len(xs))
	for i := range w {
		w[i] = 1
	}
	return xs[g.c.Choose(w...)]
}

func (g *gen) name(xs []string) *T { return leaf("n", g.str(xs)) }

// more: extend a list / add an optional part? Only while the budget lasts.
func (g *gen) more(num, den int) bool {
	if g.budget <= 0 {
		return false
	}
	return g.c.Choose(den-num, num) == 1
}

func b2i(b bool, w int) int {
	if b {
		return w
	}
	return 0
}

func (g *gen) value(constant bool) *T {
	g.budget--
	deep := g.budget > 0
	switch g.c.Choose(b2i(!constant, 3), 2, 1, 2, 1, 1, 2, b2i(deep, 3), b2i(deep, 3)) {
	case 0:
		return node("var", g.name(g.p.varNames))
	case 1:
		return leaf("int", g.str(g.p.ints))
	case 2:
		return leaf("float", g.str(g.p.floats))
	case 3:
		return leaf("str", g.str(g.p.strs))
	case 4:
		return leaf("bool", g.str([]string{"true", "false"}))
	case 5:
		return leaf("null", "")
	case 6:
		return leaf("enum", g.str(g.p.enums))
	case 7:
		t := node("list")
		for g.more(3, 5) {
			t.Kids = append(t.Kids, g.value(constant))
		}
		return t
	default:
		t := node("obj")
		for g.more(3, 5) {
			g.budget--
			t.Kids = append(t.Kids, node("of", g.name(g.p.argNames), g.value(constant)))
		}
		return t
	}
}

func (g *gen) typ() *T {
	g.budget--
	var t *T
	if g.budget > 0 && g.c.Choose(3, 2) == 1 {
		t = node("listT", g.typ())
	} else {
		t = node("named", g.name(g.p.typeNames))
	}
	if g.c.Choose(2, 1) == 1 {
		t = node("nonnull", t)
	}
	return t
}

func (g *gen) args() *T {
	t := node("()")
	for g.more(1, 3) {
		g.budget--
		t.Kids = append(t.Kids, node("arg", g.name(g.p.argNames), g.value(false)))
	}
	return t
}

func (g *gen) dirs() *T {
	t := node("()")
	for g.more(1, 4) {
		g.budget--
		t.Kids = append(t.Kids, node("dir", g.name(g.p.dirNames), g.args()))
	}
	return t
}

func (g *gen) selSet() *T {
	g.budget--
	t := node("ss", g.selection())
	for g.more(3, 5) {
		t.Kids = append(t.Kids, g.selection())
	}
	return t
}

func (g *gen) selection() *T {
	g.budget--
	deep := g.budget > 0
	switch g.c.Choose(6, 2, b2i(deep, 2)) {
	case 0:
		var alias, ss *T
		if g.c.Choose(3, 1) == 1 {
			alias = g.name(g.p.aliases)
		}
		nm := g.name(g.p.fieldNames)
		as, ds := g.args(), g.dirs()
		if g.more(2, 5) {
			ss = g.selSet()
		}
		return node("field", alias, nm, as, ds, ss)
	case 1:
		return node("spread", g.name(g.p.fragNames), g.dirs())
	default:
		var tc *T
		if g.c.Choose(1, 1) == 1 {
			tc = node("named", g.name(g.p.typeNames))
		}
		return node("inline", tc, g.dirs(), g.selSet())
	}
}

func (g *gen) varDefs() *T {
	t := node("()")
	for g.more(1, 3) {
		g.budget--
		var dv *T
		v := node("var", g.name(g.p.varNames))
		ty := g.typ()
		if g.more(1, 2) {
			dv = g.value(true)
		}
		t.Kids = append(t.Kids, node("vardef", v, ty, dv))
	}
	return t
}

func (g *gen) definition() *T {
	g.budget--
	switch g.c.Choose(2, 3, 2) {
	case 0:
		return node("op", nil, nil, node("()"), node("()"), g.selSet())
	case 1:
		ot := leaf("optype", g.str([]string{"query", "mutation", "subscription"}))
		var nm *T
		if g.c.Choose(1, 1) == 1 {
			nm = g.name(g.p.opNames)
		}
		return node("op", ot, nm, g.varDefs(), g.dirs(), g.selSet())
	default:
		return node("frag", g.name(g.p.fragNames), node("named", g.name(g.p.typeNames)), g.dirs(), g.selSet())
	}
}

func (g *gen) document() *T {
	t := node("doc", g.definition())
	for g.more(1, 2) {
		t.Kids = append(t.Kids, g.definition())
	}
	return t
}

// ---- shrinking --------------------------------------------------------------------------------

// shrinkCandidates returns copies of t with one element of one list removed (selection sets,
// documents keep at least one element), or one optional part dropped.
func shrinkCandidates(t *T) []*T {
	var out []*T
	var paths [][]int
	var walk func(n *T, path []int)
	walk = func(n *T, path []int) {
		if n == nil {
			return
		}
		paths = append(paths, append([]int{}, path...))
		for i, k := range n.Kids {
			walk(k, append(path, i))
		}
	}
	walk(t, nil)
	at := func(root *T, path []int) *T {
		n := root
		for _, i := range path {
			n = n.Kids[i]
		}
		return n
	}
	for _, p := range paths {
		n := at(t, p)
		if len(out) > 400 {
			break
		}
		switch n.Tag {
		case "()", "list", "obj", "ss", "doc":
			min := 0
			if n.Tag == "ss" || n.Tag == "doc" {
				min = 1
			}
			if len(n.Kids) > 16 {
				// long lists shrink by halves
				h := len(n.Kids) / 2
				for _, keep := range [][2]int{{h, len(n.Kids)}, {0, h}} {
					c := t.clone()
					m := at(c, p)
					m.Kids = append([]*T{}, m.Kids[keep[0]:keep[1]]...)
					out = append(out, c)
				}
				continue
			}
			for i := range n.Kids {
				if len(n.Kids)-1 < min {
					break
				}
				c := t.clone()
				m := at(c, p)
				m.Kids = append(m.Kids[:i:i], m.Kids[i+1:]...)
				out = append(out, c)
			}
		case "field":
			for _, slot := range []int{0, 4} {
				if n.Kids[slot] != nil {
					c := t.clone()
					at(c, p).Kids[slot] = nil
					out = append(out, c)
				}
			}
		case "vardef":
			if n.Kids[2] != nil {
				c := t.clone()
				at(c, p).Kids[2] = nil
				out = append(out, c)
			}
		}
	}
	return out
}

// ---- large trees ------------------------------------------------------------------------------------

var largeKinds = []string{"wide-set", "many-sets", "many-operations", "many-fragments-and-spreads", "inline-fragments",
	"arguments", "list-items", "object-fields", "variable-definitions", "directives", "aliased-batch", "directive-arguments"}

func fieldT(alias, name string, args, dirs, ss *T) *T {
	var a *T
	if alias != "" {
		a = leaf("n", alias)
	}
	if args == nil {
		args = node("()")
	}
	if dirs == nil {
		dirs = node("()")
	}
	return node("field", a, leaf("n", name), args, dirs, ss)
}

func opT(sels ...*T) *T { return node("op", nil, nil, node("()"), node("()"), node("ss", sels...)) }

// nestTail: a selection nested d levels deep (alternating plain fields and inline fragments).
func nestTail(d int, r *hx.Rand) *T {
	inner := fieldT("", "leaf", nil, nil, nil)
	for i := 0; i < d; i++ {
		if r.Chance(1, 4) {
			inner = node("inline", nil, node("()"), node("ss", inner))
		} else {
			inner = fieldT("", "t", nil, nil, node("ss", inner))
		}
	}
	return inner
}

// largeTree: about n siblings of one kind (over the whole document), optionally followed by a
// selection nested tail levels deep. All trees are in the grammar; bracket nesting is tail + O(1).
func largeTree(kind string, n, tail int, r *hx.Rand) *T {
	var tailSel []*T
	if tail > 0 {
		tailSel = []*T{nestTail(tail, r)}
	}
	names := []string{"a", "b", "user", "on", "fragment", "query", "true", "null", "_x9"}
	nm := func(i int) string { return names[i%len(names)] }
	intv := func(i int) *T { return leaf("int", fmt.Sprint(i%97)) }
	switch kind {
	case "wide-set":
		var sels []*T
		for i := 0; i < n; i++ {
			switch i % 5 {
			case 0:
				sels = append(sels, fieldT(fmt.Sprintf("a%d", i), nm(i), nil, nil, nil))
			case 1:
				sels = append(sels, fieldT("", nm(i), node("()", node("arg", leaf("n", "x"), intv(i))), nil, nil))
			default:
				sels = append(sels, fieldT("", nm(i), nil, nil, nil))
			}
		}
		return node("doc", opT(append(sels, tailSel...)...))
	case "many-sets":
		var sels []*T
		for i := 0; i < n/3; i++ {
			sels = append(sels, fieldT("", nm(i), nil, nil, node("ss", fieldT("", "x", nil, nil, nil), fieldT("", "y", nil, nil, nil))))
		}
		return node("doc", opT(append(sels, tailSel...)...))
	case "aliased-batch":
		var sels []*T
		for i := 0; i < n/6; i++ {
			var sub []*T
			for j := 0; j < 5; j++ {
				sub = append(sub, fieldT("", nm(i+j), nil, nil, nil))
			}
			sels = append(sels, fieldT(fmt.Sprintf("u%d", i), "user", node("()", node("arg", leaf("n", "id"), intv(i))), nil, node("ss", sub...)))
		}
		return node("doc", opT(append(sels, tailSel...)...))
	case "many-operations":
		d := node("doc")
		for i := 0; i < n/3; i++ {
			d.Kids = append(d.Kids, node("op", leaf("optype", []string{"query", "mutation", "subscription"}[i%3]), leaf("n", fmt.Sprintf("Q%d", i)), node("()"), node("()"),
				node("ss", fieldT("", "a", nil, nil, nil), fieldT("", "b", nil, nil, nil), fieldT("", "c", nil, nil, nil))))
		}
		d.Kids = append(d.Kids, opT(append([]*T{fieldT("", "last", nil, nil, nil)}, tailSel...)...))
		return d
	case "many-fragments-and-spreads":
		d := node("doc")
		var spreads []*T
		for i := 0; i < n/3; i++ {
			spreads = append(spreads, node("spread", leaf("n", fmt.Sprintf("F%d", i)), node("()")))
			d.Kids = append(d.Kids, node("frag", leaf("n", fmt.Sprintf("F%d", i)), node("named", leaf("n", "T")), node("()"), node("ss", fieldT("", "a", nil, nil, nil), fieldT("", "b", nil, nil, nil))))
		}
		d.Kids = append(d.Kids, opT(append(spreads, tailSel...)...))
		return d
	case "inline-fragments":
		var sels []*T
		for i := 0; i < n/2; i++ {
			var tc *T
			if i%2 == 0 {
				tc = node("named", leaf("n", "T"))
			}
			sels = append(sels, node("inline", tc, node("()"), node("ss", fieldT("", nm(i), nil, nil, nil))))
		}
		return node("doc", opT(append(sels, tailSel...)...))
	case "arguments":
		args := node("()")
		for i := 0; i < n; i++ {
			args.Kids = append(args.Kids, node("arg", leaf("n", fmt.Sprintf("a%d", i)), intv(i)))
		}
		return node("doc", opT(append([]*T{fieldT("", "f", args, nil, nil)}, tailSel...)...))
	case "list-items":
		l := node("list")
		for i := 0; i < n; i++ {
			switch i % 6 {
			case 0:
				l.Kids = append(l.Kids, leaf("str", "s"))
			case 1:
				l.Kids = append(l.Kids, node("var", leaf("n", "v")))
			case 2:
				l.Kids = append(l.Kids, node("list", intv(i)))
			case 3:
				l.Kids = append(l.Kids, node("obj", node("of", leaf("n", "k"), leaf("enum", "E"))))
			default:
				l.Kids = append(l.Kids, intv(i))
			}
		}
		return node("doc", opT(append([]*T{fieldT("", "f", node("()", node("arg", leaf("n", "l"), l)), nil, nil)}, tailSel...)...))
	case "object-fields":
		o := node("obj")
		for i := 0; i < n; i++ {
			o.Kids = append(o.Kids, node("of", leaf("n", fmt.Sprintf("k%d", i)), intv(i)))
		}
		return node("doc", opT(append([]*T{fieldT("", "f", node("()", node("arg", leaf("n", "o"), o)), nil, nil)}, tailSel...)...))
	case "variable-definitions":
		vds := node("()")
		for i := 0; i < n/2; i++ {
			var dv *T
			ty := node("named", leaf("n", "Int"))
			if i%3 == 0 {
				dv = node("list", intv(i))
				ty = node("nonnull", node("listT", node("nonnull", node("named", leaf("n", "Int")))))
			}
			vds.Kids = append(vds.Kids, node("vardef", node("var", leaf("n", fmt.Sprintf("v%d", i))), ty, dv))
		}
		return node("doc", node("op", leaf("optype", "query"), nil, vds, node("()"), node("ss", append([]*T{fieldT("", "f", nil, nil, nil)}, tailSel...)...)))
	case "directives":
		ds := node("()")
		for i := 0; i < n/2; i++ {
			ds.Kids = append(ds.Kids, node("dir", leaf("n", "d"), node("()", node("arg", leaf("n", "a"), intv(i)))))
		}
		return node("doc", opT(append([]*T{fieldT("", "f", nil, ds, nil)}, tailSel...)...))
	default: // directive-arguments
		args := node("()")
		for i := 0; i < n; i++ {
			args.Kids = append(args.Kids, node("arg", leaf("n", fmt.Sprintf("a%d", i)), node("list", intv(i))))
		}
		return node("doc", opT(append([]*T{fieldT("", "f", nil, node("()", node("dir", leaf("n", "d"), args)), nil)}, tailSel...)...))
	}
}
