// Harness for C06 — the parser accepts exactly the executable-document grammar, with exact positions.
//
// Real side: parser.ParseDocument / parser.ParseValue of the tree under test. Model side:
// lean/ApiFu/C06 (driver c06model) fed with the token stream of the *real* scanner (the scanner is
// property C07). Per case:
//
//	(1) correspondence: canonical S-expression of the AST with Position() of every node (or the
//	    error list with locations) identical on both sides;
//	(2) oracle parse∘print: a text printed from an abstract tree under a random layout parses to
//	    exactly that tree, every node positioned at its first token (reference positions are
//	    computed by the printer, independently of the scanner), for every layout of the same tree;
//	(3) oracle on any text: an accepted text is in the grammar (independent recogniser), the
//	    accepted document yields exactly the scanned tokens (nothing dropped or truncated) and every
//	    recorded position / Position() is the position of that token; a rejected text is outside the
//	    grammar (or beyond the depth limit) and carries ≥ 1 error with 1 ≤ line ≤ lines+1, col ≥ 1.
package main

import (
	"encoding/base64"
	"fmt"
	"os"
	"regexp"
	"strings"
	"sync"
	"time"

	"verifharness/cmd/c06/pk"
	"verifharness/hx"
)

// Case is the replayable form of one evaluated case.
type Case struct {
	Mode     string `json:"mode"` // doc | value
	SrcB64   string `json:"src_b64"`
	Src      string `json:"src"` // informational (src_b64 is authoritative)
	Expected string `json:"expected,omitempty"`
	Stream   string `json:"stream,omitempty"`
	// Reject: the text is outside the grammar by construction (a reason independent of the scanner's
	// own error reporting): it must not be accepted
	Reject string `json:"reject,omitempty"`
}

func (c Case) src() []byte {
	b, err := base64.StdEncoding.DecodeString(c.SrcB64)
	if err != nil || (c.SrcB64 == "" && c.Src != "") {
		return []byte(c.Src)
	}
	return b
}

func mkCase(mode string, src []byte, expected, stream string) Case {
	return Case{Mode: mode, SrcB64: base64.StdEncoding.EncodeToString(src), Src: string(src), Expected: expected, Stream: stream}
}

// failure of one case.
type failure struct {
	kind  string // property | correspondence | crash
	class string // stable label used while shrinking
	what  string
}

type harness struct {
	run    *hx.Run
	model  *hx.Model
	maxRec int

	seen map[string]int // violations per kind:class (shrinking budget)

	// watchdog: the case the real scanner/parser is working on right now
	mu      sync.Mutex
	current *Case
	started time.Time
}

// watch reports a parse that does not return (a hang cannot be recovered from inside the process):
// the case is recorded as a violation and the harness ends.
func (h *harness) watch(limit time.Duration) {
	for {
		time.Sleep(500 * time.Millisecond)
		h.mu.Lock()
		c, t0 := h.current, h.started
		h.mu.Unlock()
		if c != nil && time.Since(t0) > limit {
			h.run.Oblige("oracle: the parser returns (no hang)", "oracle", 1, false, "hang")
			h.run.Violate("crash", fmt.Sprintf("hang: the scanner/parser did not return within %v on a %d-byte text", limit, len(c.src())), "", false, *c)
			h.run.Finish(nil)
			os.Exit(0)
		}
	}
}

func (h *harness) begin(c *Case) {
	h.mu.Lock()
	h.current, h.started = c, time.Now()
	h.mu.Unlock()
}

func (h *harness) end() {
	h.mu.Lock()
	h.current = nil
	h.mu.Unlock()
}

const depthMsg = "maximum recursion depth exceeded"

// prepared is a case whose real side and oracles are evaluated, waiting for the model's answer.
type prepared struct {
	c     Case
	real  pk.Real
	req   string
	fail  *failure // oracle failure (model-free)
	ntoks int
}

// prepare runs the real parser and the model-free oracles.
func (h *harness) prepare(c Case) *prepared {
	src := c.src()
	p := &prepared{c: c}
	h.begin(&c)
	sc := pk.Scan(src)
	p.ntoks = len(sc.Toks)
	if c.Mode == "value" {
		p.real = pk.RealValue(src)
	} else {
		p.real = pk.RealDoc(src)
	}
	h.end()
	if c.Mode == "value" {
		p.req = sc.Request("val", h.maxRec, false)
	} else {
		p.req = sc.Request("doc", h.maxRec, false)
	}
	r := p.real
	if r.Panic != "" {
		p.fail = &failure{"crash", "panic", "the parser panicked: " + r.Panic}
		return p
	}
	for _, e := range r.Errs {
		h.run.Count("real-error:" + errClass(e.Message))
	}
	if r.Accept {
		h.run.Count("real:" + c.Mode + ":accepted")
	} else {
		h.run.Count("real:" + c.Mode + ":rejected")
	}
	_, lines := refPositions(string(src), nil)
	excused := false // rejected for depth, and deep enough for that to be legitimate
	if c.Mode == "doc" {
		inGrammar := recognise(sc.Toks) && sc.ScannerErrsTotal == 0
		if r.Accept {
			if !inGrammar {
				p.fail = &failure{"property", "accept-outside", "a text outside the executable-document grammar is accepted without error"}
			} else if m := yieldMatches(yieldDoc(r.Doc), sc.Toks); m != "" {
				p.fail = &failure{"property", "yield", m}
			}
		} else {
			if len(r.Errs) == 0 {
				p.fail = &failure{"property", "no-error", "no document and no error returned"}
			}
			depth := false
			for _, e := range r.Errs {
				if e.Message == depthMsg {
					depth = true
				}
				if e.Location.Line < 1 || e.Location.Line > lines+1 || e.Location.Column < 1 {
					p.fail = &failure{"property", "error-location", fmt.Sprintf("error %q located at %d:%d, the text has %d lines", e.Message, e.Location.Line, e.Location.Column, lines)}
				}
			}
			// the documented depth limit excuses the rejection of a grammatical text only if the text
			// is really deeply nested: production depth ≤ 4·(bracket nesting) + 24 (Lean: pd… are
			// maxima over siblings, a selection level costs 4 productions, the constant covers the
			// chain document → field → directive → argument → value)
			nest := tokNest(sc.Toks)
			excused = depth && 4*nest+24 > h.maxRec
			if inGrammar && depth && !excused && p.fail == nil {
				p.fail = &failure{"property", "depth-on-shallow", fmt.Sprintf("a text of the grammar with %d tokens and bracket nesting %d is refused with %q: %s", len(sc.Toks), nest, depthMsg, clip(r.Obs))}
			}
			if inGrammar && !depth && p.fail == nil {
				p.fail = &failure{"property", "reject-inside", fmt.Sprintf("a text of the grammar is rejected: %s", clip(r.Obs))}
			}
		}
	} else if r.Accept {
		if ok, _ := recogniseValue(sc.Toks); !ok || sc.ScannerErrsTotal != 0 {
			p.fail = &failure{"property", "accept-outside", "ParseValue accepts a text that does not start with a Value"}
		}
	}
	if c.Reject != "" && r.Accept && p.fail == nil {
		p.fail = &failure{"property", "accept-outside", "a text outside the grammar (" + c.Reject + ") is accepted without error: " + clip(r.Obs)}
	}
	if c.Expected != "" && p.fail == nil && !excused {
		want := "(ret " + c.Expected + " ())"
		if r.Obs != want {
			p.fail = &failure{"property", "print-parse", fmt.Sprintf("printed tree does not parse back to itself with reference positions:\n got  %s\n want %s", clip(r.Obs), clip(want))}
		}
	}
	return p
}

// tokNest: the maximal nesting of brackets in a token stream.
func tokNest(ts []pk.Tok) int {
	d, max := 0, 0
	for _, t := range ts {
		if t.Kind != 'p' {
			continue
		}
		switch t.Value {
		case "{", "[", "(":
			d++
			if d > max {
				max = d
			}
		case "}", "]", ")":
			d--
		}
	}
	return max
}

func clip(s string) string {
	if len(s) > 1500 {
		return s[:1500] + "…"
	}
	return s
}

var numRe = regexp.MustCompile(`U\+[0-9A-F]+ '.*'|U\+[0-9A-F]+`)

func errClass(m string) string { return numRe.ReplaceAllString(m, "U+…") }

// finish compares with the model's reply; returns the case's failure (nil = all good).
func (h *harness) finish(p *prepared, reply string) *failure {
	if p.fail != nil && p.fail.kind != "correspondence" {
		return p.fail
	}
	if h.model == nil {
		return nil
	}
	obs, wf, renders, err := pk.ModelObs(reply)
	if err != nil {
		return &failure{"correspondence", "model-reply", err.Error()}
	}
	if obs != p.real.Obs {
		return &failure{"correspondence", "model-diff", fmt.Sprintf("model and parser disagree:\n parser %s\n model  %s", clip(p.real.Obs), clip(obs))}
	}
	if p.real.Accept && p.c.Mode == "doc" && !(wf && renders) {
		return &failure{"correspondence", "spec-diff", fmt.Sprintf("the model's accepted document violates the executable specification (wf=%v renders=%v)", wf, renders)}
	}
	return nil
}

// eval evaluates one case completely (used for replay and shrinking).
func (h *harness) eval(c Case) (*prepared, *failure) {
	p := h.prepare(c)
	reply := ""
	if h.model != nil && (p.fail == nil) {
		var err error
		reply, err = h.model.Ask(p.req)
		if err != nil {
			return p, &failure{"correspondence", "model-dead", err.Error()}
		}
	}
	return p, h.finish(p, reply)
}

// genCase is a case in generator form (kept for shrinking).
type genCase struct {
	mode   string
	raw    []byte // a fixed text …
	tree   *T     // … or a printed tree (expected known) …
	lex    []Lex  // … or a raw lexeme sequence (mutations)
	seed   uint64
	class  int
	stream string
	reject string // raw texts that are outside the grammar by construction (not shrunk: a shorter text need not be)
}

func (g *genCase) build() Case {
	if g.raw != nil || (g.tree == nil && g.lex == nil) {
		c := mkCase(g.mode, g.raw, "", g.stream)
		c.Reject = g.reject
		return c
	}
	lex := g.lex
	if g.tree != nil {
		e := &emitter{spell: hx.NewRand(g.seed ^ 0x5bd1e995)}
		e.emit(g.tree)
		lex = e.lex
	}
	src, offs := render(lex, hx.NewRand(g.seed), g.class)
	expected := ""
	if g.tree != nil {
		pos, _ := refPositions(src, offs)
		expected = g.tree.sexp(pos).String()
	}
	c := mkCase(g.mode, []byte(src), expected, g.stream)
	c.Reject = g.reject
	return c
}

func (g *genCase) shrinks() []*genCase {
	var out []*genCase
	if g.reject != "" {
		return nil
	}
	if g.raw != nil {
		rs := []rune(string(g.raw))
		for i := range rs {
			c := *g
			c.raw = []byte(string(rs[:i]) + string(rs[i+1:]))
			out = append(out, &c)
		}
		return out
	}
	if g.tree != nil {
		for _, t := range shrinkCandidates(g.tree) {
			c := *g
			c.tree = t
			out = append(out, &c)
		}
		return out
	}
	for i := range g.lex {
		c := *g
		c.lex = append(append([]Lex{}, g.lex[:i]...), g.lex[i+1:]...)
		out = append(out, &c)
	}
	return out
}

type pending struct {
	g *genCase
	p *prepared
}

type batcher struct {
	h     *harness
	queue []pending
}

func (b *batcher) add(g *genCase) {
	c := g.build()
	b.queue = append(b.queue, pending{g, b.h.prepare(c)})
	if len(b.queue) >= 400 {
		b.flush()
	}
}

func (b *batcher) flush() {
	h := b.h
	if len(b.queue) == 0 {
		return
	}
	replies := make([]string, len(b.queue))
	if h.model != nil {
		reqs := make([]string, len(b.queue))
		for i, q := range b.queue {
			reqs[i] = q.p.req
		}
		var err error
		replies, err = h.model.AskAll(reqs)
		if err != nil {
			fmt.Fprintln(os.Stderr, "model driver failed:", err)
			h.run.Violate("correspondence", "model driver failed: "+err.Error(), "", true, nil)
			h.run.Finish(h.model)
			os.Exit(0)
		}
	}
	for i, q := range b.queue {
		f := h.finish(q.p, replies[i])
		h.record(q.g, q.p, f)
	}
	b.queue = b.queue[:0]
}

var posRe = regexp.MustCompile(`\b\d+:\d+\b`)

func (h *harness) record(g *genCase, p *prepared, f *failure) {
	run := h.run
	run.Case(p.c.Mode+"\x00"+string(p.c.src()), p.ntoks >= 4)
	run.Count("stream:" + g.stream)
	if g.stream != "fixed" {
		run.Count("layout:" + layNames[g.class])
	}
	corrOK := f == nil || f.kind != "correspondence"
	propOK := f == nil || f.kind == "correspondence"
	detail := ""
	if f != nil {
		detail = f.what
	}
	run.Oblige("parser-correspondence(AST with positions | error list)", "correspondence", 1, corrOK, detail)
	if p.c.Expected != "" {
		run.Oblige("oracle: parse(print t, layout) = t with reference positions, for every layout", "oracle", 1, propOK, detail)
	} else {
		run.Oblige("oracle: accepted ⇒ in grammar ∧ yield = tokens ∧ positions exact; rejected ⇒ outside grammar ∧ located error", "oracle", 1, propOK, detail)
	}
	if f == nil {
		return
	}
	// shrink while it fails the same way (bounded: 15 s per violation, and only the first three
	// violations of a class are shrunk and kept at all — the rest is counted)
	if h.seen == nil {
		h.seen = map[string]int{}
	}
	h.seen[f.kind+":"+f.class]++
	if h.seen[f.kind+":"+f.class] > 3 {
		run.Count("violation-not-shrunk:" + f.kind + ":" + f.class)
		return
	}
	cur, curCase, curF := g, p.c, f
	deadline := time.Now().Add(15 * time.Second)
	for changed, rounds := true, 0; changed && rounds < 200 && time.Now().Before(deadline); rounds++ {
		changed = false
		for _, cand := range cur.shrinks() {
			if time.Now().After(deadline) {
				break
			}
			c := cand.build()
			if _, f2 := h.eval(c); f2 != nil && f2.kind == curF.kind && f2.class == curF.class {
				cur, curCase, curF, changed = cand, c, f2, true
				break
			}
		}
	}
	run.Violate(curF.kind, curF.class+": "+curF.what, "", curF.kind == "correspondence", curCase)
}

// ---- mutation stream --------------------------------------------------------------------------

var insertPool = []Lex{
	punct("{"), punct("}"), punct("("), punct(")"), punct("["), punct("]"), punct(":"), punct("!"),
	punct("$"), punct("="), punct("@"), punct("..."), punct("|"),
	nameLex("on"), nameLex("fragment"), nameLex("query"), nameLex("mutation"), nameLex("subscription"),
	nameLex("true"), nameLex("null"), nameLex("a"), nameLex("T"),
	{'i', "0", "0"}, {'f', "1.5", "1.5"}, {'s', "s", `"s"`},
	// strings whose value is a punctuator or a keyword: a parser that looks at the value of a token
	// without its kind takes them for the real thing
	{'s', "]", `"]"`}, {'s', "}", `"}"`}, {'s', ")", `")"`}, {'s', "]", `"""]"""`}, {'s', "}", `"""}"""`},
	{'s', ":", `":"`}, {'s', "{", `"{"`}, {'s', "[", `"["`}, {'s', "(", `"("`}, {'s', "@", `"@"`}, {'s', "$", `"$"`},
	{'s', "=", `"="`}, {'s', "!", `"!"`}, {'s', "...", `"..."`}, {'s', "on", `"on"`}, {'s', "fragment", `"fragment"`},
	{'s', "query", `"query"`}, {'s', "true", `"true"`}, {'s', "null", `"null"`},
}

func mutate(lex []Lex, r *hx.Rand) ([]Lex, string) {
	out := append([]Lex{}, lex...)
	n := len(out)
	switch op := r.Intn(5); {
	case op == 0 && n > 0: // delete
		i := r.Intn(n)
		return append(out[:i], out[i+1:]...), "delete"
	case op == 1: // insert
		i := r.Intn(n + 1)
		l := hx.Pick(r, insertPool)
		out = append(out, Lex{})
		copy(out[i+1:], out[i:])
		out[i] = l
		return out, "insert"
	case op == 2 && n > 1: // swap adjacent
		i := r.Intn(n - 1)
		out[i], out[i+1] = out[i+1], out[i]
		return out, "swap"
	case op == 3 && n > 0: // replace
		out[r.Intn(n)] = hx.Pick(r, insertPool)
		return out, "replace"
	case n > 0: // duplicate
		i := r.Intn(n)
		out = append(out, Lex{})
		copy(out[i+1:], out[i:])
		return out, "duplicate"
	}
	return append(out, hx.Pick(r, insertPool)), "insert"
}

// junk inserts lexically invalid or surprising text at a token boundary of a rendered document.
var junkPool = []string{"&", "%", "?", ".", "..", "\"abc", "\"\\q\"", "\\", "1e", "\u00a0", "\ufeff", "\x00", "\xff", "~", "^", "<", ";", "'", "*", "-", "+", "\"\"\"open", "0x1F", "\u2028"}

func (h *harness) fixedCases(b *batcher) {
	for _, s := range []string{"", " ", "\n", "\ufeff", "#c", "#c\n", ",,,", "{", "}", "{}", "{a", "{a}", "{a}}", "{a}{", "query", "query{}", "query Q", "fragment", "fragment on", "fragment on on T{a}", "fragment F on T{a}", "{...}", "{...on}", "{... on T}", "{...{a}}", "{a:}", "{a:b:c}", "{a()}", "{a(x:)}", "{a(x:1)}", "{a(x:$)}", "{a @}", "{a @d()}", "query($v:T=$w){a}", "query($v:[T!]!=[1,{a:$b}]){a}", "query(){a}", "query($v:T!!){a}", "query($v:[T){a}", "query($v:[]){a}", "{a(x:[)}", "{a(x:{y})}", "{a(x:{y:})}", "{a(x:[1 2,3])}", "{a}query", "{a} {b}", "\ufeff{a}", "{a}\ufeff", "{\n  a\r\n  b\r  c\n}", "{a(x:\"\"\"\n  multi\n  line\n\"\"\") b}", "subscription S @d(x:null) {a}", "mutation{a{b{c}}}"} {
		b.add(&genCase{mode: "doc", raw: []byte(s), stream: "fixed"})
	}
	for _, s := range []string{"", "1", "-1.5e3", "\"s\"", "true", "null", "E", "$v", "$", "[", "[]", "[1", "{}", "{a}", "{a:1}", "{a:1", "[[[]]]", "1 2", "!", "]", "[$v {a:$w}]"} {
		b.add(&genCase{mode: "value", raw: []byte(s), stream: "fixed"})
	}
	b.flush()
}

// pickProfile: the rich alphabet, one time in five with punctuator- and keyword-valued strings only.
func pickProfile(r *hx.Rand) *profile {
	if r.Chance(1, 5) {
		return &richPunctStrings
	}
	return &rich
}

// badEscapes: quoted strings with a \u escape in which one of the four digit positions holds a character
// that is no hexadecimal digit — every ASCII character that is none (control characters included: some
// differ from a digit or a letter in one bit only) and look-alikes from other scripts. Outside the
// grammar whatever the scanner says about it.
func (h *harness) badEscapes(b *batcher) {
	var cands []rune
	for c := rune(0); c < 0x80; c++ {
		if !strings.ContainsRune("0123456789abcdefABCDEF", c) {
			cands = append(cands, c)
		}
	}
	cands = append(cands, 0xb2, 0x130, 0x131, 0x17f, 0x430, 0x435, 0x660, 0x6f0, 0x966, 0x2070, 0x2080, 0x212a, 0x2460, 0xff10, 0xff21, 0xff41, 0xff46)
	for _, base := range []string{"00e9", "ABCD", "0041"} {
		for i := 0; i < 4; i++ {
			for _, c := range cands {
				esc := base[:i] + string(c) + base[i+1:]
				why := fmt.Sprintf("\\u escape with %U in digit position %d", c, i+1)
				b.add(&genCase{mode: "doc", raw: []byte(`{f(s:"a\u` + esc + `b")}`), stream: "bad-escape", reject: why})
				if base == "00e9" {
					b.add(&genCase{mode: "value", raw: []byte(`["\u` + esc + `"]`), stream: "bad-escape", reject: why})
				}
			}
		}
	}
	b.flush()
}

func countTags(t *T, run *hx.Run) {
	if t == nil {
		return
	}
	if t.Tag != "()" {
		run.Count("node:" + t.Tag)
	}
	for _, k := range t.Kids {
		countTags(k, run)
	}
}

func main() {
	run := hx.Init("C06")
	h := &harness{run: run}
	mr, err := pk.MaxRecursion()
	if err != nil {
		run.Note("maxRecursion could not be read from parser.go (%v); the model runs with 1000", err)
		mr = 1000
	}
	h.maxRec = mr
	go h.watch(30 * time.Second)
	if run.ModelPath != "" {
		m, err := hx.StartModel(run.ModelPath)
		if err != nil {
			fmt.Fprintln(os.Stderr, "cannot start model:", err)
			os.Exit(2)
		}
		h.model = m
		defer m.Close()
	}
	run.SetRule("texts printed from abstract trees of the executable-document grammar (bounded-exhaustive over a 2-spelling alphabet per name context, then random over a rich alphabet with keywords in every legal position) under 4 layout classes (tight, spaces, lines incl. CR/CRLF, wild incl. comments and a leading BOM), plus single-token delete/insert/swap/replace/duplicate mutants, junk insertions and ParseValue texts; distinct = distinct (mode, source text); non-trivial = at least 4 tokens")

	if run.Replay != "" {
		var c Case
		if err := hx.LoadReplayCase(run.Replay, &c); err != nil {
			fmt.Fprintln(os.Stderr, err)
			os.Exit(2)
		}
		p, f := h.eval(c)
		fmt.Printf("replay: mode=%s src=%q\n parser: %s\n", c.Mode, c.src(), p.real.Obs)
		if h.model != nil {
			reply, _ := h.model.Ask(p.req)
			fmt.Printf(" model:  %s\n", reply)
		}
		if c.Expected != "" {
			fmt.Printf(" expected tree: %s\n", c.Expected)
		}
		if f == nil && strings.HasPrefix(c.Stream, "text") {
			f = h.evalText(c)
			if h.model != nil {
				q, _ := textRequest(c.Mode, h.maxRec, c.src())
				reply, _ := h.model.Ask(q)
				fmt.Printf(" composed model (text): %s\n", reply)
			}
		}
		if f != nil {
			fmt.Printf(" verdict: %s (%s) %s\n", f.kind, f.class, f.what)
			run.Violate(f.kind, f.class+": "+f.what, "", f.kind == "correspondence", c)
		} else {
			fmt.Println(" verdict: ok")
		}
		run.Finish(h.model)
		return
	}

	b := &batcher{h: h}
	for _, f := range run.CorpusFiles() {
		var c Case
		if hx.LoadReplayCase(f, &c) == nil && (c.SrcB64 != "" || c.Src != "") {
			p, fl := h.eval(c)
			g := &genCase{mode: c.Mode, raw: c.src(), stream: "corpus"}
			p.c.Expected = c.Expected
			h.record(g, p, fl)
		}
	}
	h.fixedCases(b)
	h.badEscapes(b)

	// (B) bounded-exhaustive documents and (C) values over the tiny alphabet
	exhaust := func(mode string, budget int, make func(g *gen) *T, limit int) int {
		ex := &exChooser{}
		n := 0
		for {
			ex.pos = 0
			g := &gen{c: ex, budget: budget, p: &tiny}
			t := make(g)
			n++
			if n <= 3 {
				countTags(t, run)
			}
			seed := run.Rand.Uint64()
			b.add(&genCase{mode: mode, tree: t, seed: seed, class: layTight, stream: "exhaustive-" + mode})
			b.add(&genCase{mode: mode, tree: t, seed: seed + 1, class: 1 + int(seed%3), stream: "exhaustive-" + mode})
			if !ex.next() {
				return n
			}
			if n >= limit {
				run.Note("exhaustive %s enumeration cut at %d trees (budget %d)", mode, n, budget)
				return -n
			}
		}
	}
	nd := exhaust("doc", run.Scale(4, 5), func(g *gen) *T { return g.document() }, run.Scale(400000, 4000000))
	nv := exhaust("value", run.Scale(3, 4), func(g *gen) *T { return g.value(false) }, run.Scale(400000, 4000000))
	b.flush()
	run.Note("bounded-exhaustive: %d document trees (node budget %d), %d value trees (node budget %d), each under the tight layout and one other", nd, run.Scale(4, 5), nv, run.Scale(3, 4))
	if nd > 0 && nv > 0 {
		run.SetExhaustive(true)
	}

	// (D) random documents, all layout classes
	nRand := run.Scale(1500, 40000)
	for i := 0; i < nRand; i++ {
		r := run.Rand.Fork()
		g := &gen{c: randChooser{r}, budget: r.Range(3, run.Scale(90, 250)), p: pickProfile(r)}
		t := g.document()
		countTags(t, run)
		seed := r.Uint64()
		for class := 0; class < layClasses; class++ {
			gc := &genCase{mode: "doc", tree: t, seed: seed + uint64(class), class: class, stream: "random-doc"}
			b.add(gc)
			if i < 2 && class == layWild {
				run.Sample(gc.build())
			}
		}
	}
	// (D2) large but shallow trees (and large trees followed by nesting): the round trip and the
	// correspondence with the model (which carries the recursion counter) must not depend on size
	b.flush()
	nLarge := run.Scale(14, 60)
	for i := 0; i < nLarge; i++ {
		r := run.Rand.Fork()
		kind := i % len(largeKinds)
		n := hx.Pick(r, []int{1100, 2500, 6000, 20000})
		if i >= len(largeKinds) && !run.Thorough() {
			n = hx.Pick(r, []int{1100, 2500})
		}
		tail := hx.Pick(r, []int{0, 0, 60, 150, 240})
		t := largeTree(largeKinds[kind], n, tail, r)
		run.Count("large:" + largeKinds[kind])
		b.add(&genCase{mode: "doc", tree: t, seed: r.Uint64(), class: r.Intn(layClasses), stream: "large-doc"})
		b.flush()
	}
	// (E) token-level mutants of printed documents
	nMut := run.Scale(6000, 150000)
	for i := 0; i < nMut; i++ {
		r := run.Rand.Fork()
		g := &gen{c: randChooser{r}, budget: r.Range(1, 30), p: pickProfile(r)}
		e := &emitter{spell: r.Fork()}
		e.emit(g.document())
		lex, op := mutate(e.lex, r)
		if r.Chance(1, 6) {
			var op2 string
			lex, op2 = mutate(lex, r)
			op += "+" + op2
		}
		run.Count("mutation:" + op)
		gc := &genCase{mode: "doc", lex: lex, seed: r.Uint64(), class: r.Intn(layClasses), stream: "mutant-doc"}
		b.add(gc)
		if i < 2 {
			run.Sample(gc.build())
		}
	}
	// (G) junk insertions
	nJunk := run.Scale(1500, 30000)
	for i := 0; i < nJunk; i++ {
		r := run.Rand.Fork()
		g := &gen{c: randChooser{r}, budget: r.Range(1, 20), p: &rich}
		e := &emitter{spell: r.Fork()}
		e.emit(g.document())
		j := hx.Pick(r, junkPool)
		at := r.Intn(len(e.lex) + 1)
		lex := append(append(append([]Lex{}, e.lex[:at]...), Lex{'?', j, j}), e.lex[at:]...)
		b.add(&genCase{mode: "doc", lex: lex, seed: r.Uint64(), class: r.Intn(layClasses), stream: "junk-doc"})
	}
	// (G2) character-level glue: a character that cannot start or continue a token there, written
	// directly before a name or a number of a printed document / value (no token-level mutation
	// produces `-x`, `+1`, `.a`, `--1`): outside the grammar by construction, whatever the scanner
	// makes of it
	nGlue := run.Scale(2500, 40000)
	for i := 0; i < nGlue; i++ {
		r := run.Rand.Fork()
		g := &gen{c: randChooser{r}, budget: r.Range(1, 20), p: pickProfile(r)}
		e := &emitter{spell: r.Fork()}
		mode := "doc"
		if i%4 == 3 {
			mode = "value"
			e.emit(g.value(false))
		} else {
			e.emit(g.document())
		}
		var at []int
		for k, l := range e.lex {
			if l.K == 'n' || l.K == 'i' || l.K == 'f' {
				at = append(at, k)
			}
		}
		if len(at) == 0 {
			continue
		}
		k := hx.Pick(r, at)
		l := e.lex[k]
		glue := hx.Pick(r, []string{"-", "+", ".", "..", "-.", "+.", "-_", "-+", "+-"})
		if l.K != 'n' {
			// before a number: `-1` and `1.5` (after an Int) would be numbers
			glue = "+"
			if l.Text[0] == '-' && r.Bool() {
				glue = "-"
			}
		}
		lex := append([]Lex{}, e.lex...)
		lex[k] = Lex{'?', glue + l.Text, glue + l.Text}
		run.Count("glue:" + glue + ":" + string(rune(l.K)))
		b.add(&genCase{mode: mode, lex: lex, seed: r.Uint64(), class: r.Intn(layClasses), stream: "glue-" + mode,
			reject: fmt.Sprintf("%q written directly before the token %s", glue, l.Text)})
	}
	// (F) ParseValue: random printed values and mutants
	nVal := run.Scale(2500, 50000)
	for i := 0; i < nVal; i++ {
		r := run.Rand.Fork()
		g := &gen{c: randChooser{r}, budget: r.Range(1, 40), p: pickProfile(r)}
		t := g.value(false)
		seed := r.Uint64()
		if i%3 != 2 {
			b.add(&genCase{mode: "value", tree: t, seed: seed, class: r.Intn(layClasses), stream: "random-value"})
			continue
		}
		e := &emitter{spell: r.Fork()}
		e.emit(t)
		lex, _ := mutate(e.lex, r)
		b.add(&genCase{mode: "value", lex: lex, seed: seed, class: r.Intn(layClasses), stream: "mutant-value"})
	}
	b.flush()
	// (T) raw texts through the real parser and the composed model scanner ∘ parser (text.go)
	h.textStream(b)
	run.Finish(h.model)
}
