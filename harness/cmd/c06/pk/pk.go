// Package pk ("parser kit") is shared by the C06 and C12 harnesses: the real scanner as a token
// source for the Lean parser model, the canonical S-expression of the real AST (with Position() of
// every node), the model request encoding and maxRecursion read from the tree under test.
package pk

import (
	"fmt"
	"os"
	"path/filepath"
	"regexp"
	"strconv"
	"strings"

	"github.com/ccbrown/api-fu/graphql/ast"
	"github.com/ccbrown/api-fu/graphql/parser"
	"github.com/ccbrown/api-fu/graphql/scanner"
	"github.com/ccbrown/api-fu/graphql/token"

	"verifharness/hx"
)

// Err is one error (scanner or parser) with its location.
type Err struct {
	Msg       string
	Line, Col int
}

// Tok is what parser.consumeToken reads from the scanner for one successful Scan(): Token(),
// StringValue(), Position(), and the scanner errors appended during that Scan() call.
type Tok struct {
	Kind      byte // p n i f s  (x = a token kind Scan() should never deliver in mode 0)
	Value     string
	Line, Col int
	Errs      []Err
}

// Scanned is the whole token stream of a source text plus the state after the failing Scan().
type Scanned struct {
	Toks             []Tok
	EOFLine, EOFCol  int
	EOFErrs          []Err
	ScannerErrsTotal int
}

func kindOf(t token.Token) byte {
	switch t {
	case token.PUNCTUATOR:
		return 'p'
	case token.NAME:
		return 'n'
	case token.INT_VALUE:
		return 'i'
	case token.FLOAT_VALUE:
		return 'f'
	case token.STRING_VALUE:
		return 's'
	}
	return 'x'
}

// Scan runs the real scanner exactly as parser.newParser/consumeToken do (mode 0).
func Scan(src []byte) Scanned {
	s := scanner.New(src, 0)
	var out Scanned
	seen := 0
	delta := func() []Err {
		var es []Err
		for _, e := range s.Errors()[seen:] {
			es = append(es, Err{e.Message, e.Line, e.Column})
			seen++
		}
		return es
	}
	for s.Scan() {
		p := s.Position()
		out.Toks = append(out.Toks, Tok{Kind: kindOf(s.Token()), Value: s.StringValue(), Line: p.Line, Col: p.Column, Errs: delta()})
	}
	p := s.Position()
	out.EOFLine, out.EOFCol, out.EOFErrs = p.Line, p.Column, delta()
	out.ScannerErrsTotal = seen
	return out
}

func errsTo(b *strings.Builder, es []Err) {
	for _, e := range es {
		b.WriteString(" (e ")
		b.WriteString(hx.A(e.Msg).String())
		fmt.Fprintf(b, " %d %d)", e.Line, e.Col)
	}
}

// Request encodes a model request: op = "doc" (with leak flag) or "val".
func (s Scanned) Request(op string, maxRec int, leak bool) string {
	var b strings.Builder
	b.Grow(32 + 24*len(s.Toks))
	b.WriteString("(")
	b.WriteString(op)
	fmt.Fprintf(&b, " %d", maxRec)
	if op == "doc" {
		if leak {
			b.WriteString(" 1")
		} else {
			b.WriteString(" 0")
		}
	}
	fmt.Fprintf(&b, " (eof %d %d", s.EOFLine, s.EOFCol)
	errsTo(&b, s.EOFErrs)
	b.WriteString(")")
	for _, t := range s.Toks {
		b.WriteString(" (")
		b.WriteByte(t.Kind)
		b.WriteByte(' ')
		switch {
		case t.Kind == 'p' && t.Value == "(":
			b.WriteString("LP") // parentheses would need quoting; the shared S-expression reader is slow on quoted atoms
		case t.Kind == 'p' && t.Value == ")":
			b.WriteString("RP")
		default:
			b.WriteString(hx.A(t.Value).String())
		}
		b.WriteByte(' ')
		b.WriteString(strconv.Itoa(t.Line))
		b.WriteByte(' ')
		b.WriteString(strconv.Itoa(t.Col))
		errsTo(&b, t.Errs)
		b.WriteString(")")
	}
	b.WriteString(")")
	return b.String()
}

// ---- canonical S-expression of the real AST ---------------------------------------------------

func P(p token.Position) hx.Sexp { return hx.A(fmt.Sprintf("%d:%d", p.Line, p.Column)) }

var none = hx.A("none")

func nameS(n *ast.Name) hx.Sexp { return hx.N("n", P(n.Position()), hx.A(n.Name)) }

func optName(n *ast.Name) hx.Sexp {
	if n == nil {
		return none
	}
	return nameS(n)
}

func namedS(n *ast.NamedType) hx.Sexp { return hx.N("named", P(n.Position()), nameS(n.Name)) }

// ValueSexp is the canonical form of a value node.
func ValueSexp(v ast.Value) hx.Sexp {
	switch v := v.(type) {
	case *ast.Variable:
		return hx.N("var", P(v.Position()), nameS(v.Name))
	case *ast.IntValue:
		return hx.N("int", P(v.Position()), hx.A(v.Value))
	case *ast.FloatValue:
		return hx.N("float", P(v.Position()), hx.A(v.Value))
	case *ast.StringValue:
		return hx.N("str", P(v.Position()), hx.A(v.Value))
	case *ast.BooleanValue:
		return hx.N("bool", P(v.Position()), hx.B(v.Value))
	case *ast.NullValue:
		return hx.N("null", P(v.Position()))
	case *ast.EnumValue:
		return hx.N("enum", P(v.Position()), hx.A(v.Value))
	case *ast.ListValue:
		xs := []hx.Sexp{P(v.Position()), P(v.Closing)}
		for _, e := range v.Values {
			xs = append(xs, ValueSexp(e))
		}
		return hx.N("list", xs...)
	case *ast.ObjectValue:
		xs := []hx.Sexp{P(v.Position()), P(v.Closing)}
		for _, f := range v.Fields {
			xs = append(xs, hx.N("of", P(f.Position()), nameS(f.Name), ValueSexp(f.Value)))
		}
		return hx.N("obj", xs...)
	}
	return hx.A(fmt.Sprintf("unknown-value-%T", v))
}

func typeS(t ast.Type) hx.Sexp {
	switch t := t.(type) {
	case *ast.NamedType:
		return namedS(t)
	case *ast.ListType:
		return hx.N("listT", P(t.Position()), P(t.Closing), typeS(t.Type))
	case *ast.NonNullType:
		return hx.N("nonnull", P(t.Position()), typeS(t.Type))
	}
	return hx.A(fmt.Sprintf("unknown-type-%T", t))
}

func argsS(as []*ast.Argument) hx.Sexp {
	xs := []hx.Sexp{}
	for _, a := range as {
		xs = append(xs, hx.N("arg", P(a.Position()), nameS(a.Name), ValueSexp(a.Value)))
	}
	return hx.L(xs...)
}

func dirsS(ds []*ast.Directive) hx.Sexp {
	xs := []hx.Sexp{}
	for _, d := range ds {
		xs = append(xs, hx.N("dir", P(d.Position()), nameS(d.Name), argsS(d.Arguments)))
	}
	return hx.L(xs...)
}

func selSetS(s *ast.SelectionSet) hx.Sexp {
	xs := []hx.Sexp{P(s.Position()), P(s.Closing)}
	for _, sel := range s.Selections {
		switch sel := sel.(type) {
		case *ast.Field:
			ss := none
			if sel.SelectionSet != nil {
				ss = selSetS(sel.SelectionSet)
			}
			xs = append(xs, hx.N("field", P(sel.Position()), optName(sel.Alias), nameS(sel.Name), argsS(sel.Arguments), dirsS(sel.Directives), ss))
		case *ast.FragmentSpread:
			xs = append(xs, hx.N("spread", P(sel.Position()), nameS(sel.FragmentName), dirsS(sel.Directives)))
		case *ast.InlineFragment:
			tc := none
			if sel.TypeCondition != nil {
				tc = namedS(sel.TypeCondition)
			}
			xs = append(xs, hx.N("inline", P(sel.Position()), tc, dirsS(sel.Directives), selSetS(sel.SelectionSet)))
		default:
			xs = append(xs, hx.A(fmt.Sprintf("unknown-selection-%T", sel)))
		}
	}
	return hx.N("ss", xs...)
}

// DocSexp is the canonical form of a document.
func DocSexp(doc *ast.Document) hx.Sexp {
	xs := []hx.Sexp{P(doc.Position())}
	for _, d := range doc.Definitions {
		switch d := d.(type) {
		case *ast.OperationDefinition:
			ot := none
			if d.OperationType != nil {
				ot = hx.N("optype", P(d.OperationType.Position()), hx.A(d.OperationType.Value))
			}
			vds := []hx.Sexp{}
			for _, v := range d.VariableDefinitions {
				dv := none
				if v.DefaultValue != nil {
					dv = ValueSexp(v.DefaultValue)
				}
				vds = append(vds, hx.N("vardef", P(v.Position()), hx.N("var", P(v.Variable.Position()), nameS(v.Variable.Name)), typeS(v.Type), dv))
			}
			xs = append(xs, hx.N("op", P(d.Position()), ot, optName(d.Name), hx.L(vds...), dirsS(d.Directives), selSetS(d.SelectionSet)))
		case *ast.FragmentDefinition:
			xs = append(xs, hx.N("frag", P(d.Position()), nameS(d.Name), namedS(d.TypeCondition), dirsS(d.Directives), selSetS(d.SelectionSet)))
		default:
			xs = append(xs, hx.A(fmt.Sprintf("unknown-definition-%T", d)))
		}
	}
	return hx.N("doc", xs...)
}

// ErrsSexp is the canonical form of the parser's error list.
func ErrsSexp(errs []*parser.Error) hx.Sexp {
	xs := []hx.Sexp{}
	for _, e := range errs {
		xs = append(xs, hx.N("e", hx.A(e.Message), hx.I(int64(e.Location.Line)), hx.I(int64(e.Location.Column))))
	}
	return hx.L(xs...)
}

// Real is the observable of parser.ParseDocument / ParseValue on src.
type Real struct {
	Obs    string // (ret <node> (errs)) | (rec (errs)) | (panic "…")
	Doc    *ast.Document
	Value  ast.Value
	Errs   []*parser.Error
	Panic  string
	Accept bool // node returned and no errors
}

// RealDoc runs parser.ParseDocument, recovering a panic of the library.
func RealDoc(src []byte) (r Real) {
	defer func() {
		if p := recover(); p != nil {
			r.Panic = fmt.Sprint(p)
			r.Obs = hx.N("panic", hx.A(r.Panic)).String()
		}
	}()
	doc, errs := parser.ParseDocument(src)
	r.Doc, r.Errs = doc, errs
	if doc != nil {
		r.Obs = hx.N("ret", DocSexp(doc), ErrsSexp(errs)).String()
	} else {
		r.Obs = hx.N("rec", ErrsSexp(errs)).String()
	}
	r.Accept = doc != nil && len(errs) == 0
	return r
}

// RealValue runs parser.ParseValue.
func RealValue(src []byte) (r Real) {
	defer func() {
		if p := recover(); p != nil {
			r.Panic = fmt.Sprint(p)
			r.Obs = hx.N("panic", hx.A(r.Panic)).String()
		}
	}()
	v, errs := parser.ParseValue(src)
	r.Value, r.Errs = v, errs
	if v != nil {
		r.Obs = hx.N("ret", ValueSexp(v), ErrsSexp(errs)).String()
	} else {
		r.Obs = hx.N("rec", ErrsSexp(errs)).String()
	}
	r.Accept = v != nil && len(errs) == 0
	return r
}

// ModelObs normalises a model reply to the shape of Real.Obs and returns the executable-spec
// verdicts the driver appends for documents (wf, renders); both are true when absent.
func ModelObs(reply string) (obs string, wf, renders bool, err error) {
	if reply == "oof" || reply == "bad-op" {
		return reply, true, true, nil
	}
	x, e := hx.ParseSexp(reply)
	if e != nil || !x.IsList || len(x.List) < 2 {
		return reply, true, true, fmt.Errorf("unexpected model reply %.200q", reply)
	}
	if x.List[0].Atom == "ret" && len(x.List) == 5 {
		return hx.L(x.List[0], x.List[1], x.List[2]).String(), x.List[3].Atom == "true", x.List[4].Atom == "true", nil
	}
	return x.String(), true, true, nil
}

var maxRecRe = regexp.MustCompile(`(?m)^const\s+maxRecursion\s*=\s*(\d+)\s*$`)

// MaxRecursion reads the constant from graphql/parser/parser.go of the tree under test
// ($VERIF_REPO, default /repo): the model is parametric in it.
func MaxRecursion() (int, error) {
	repo := os.Getenv("VERIF_REPO")
	if repo == "" {
		repo = "/repo"
	}
	b, err := os.ReadFile(filepath.Join(repo, "graphql", "parser", "parser.go"))
	if err != nil {
		return 0, err
	}
	m := maxRecRe.FindSubmatch(b)
	if m == nil {
		return 0, fmt.Errorf("const maxRecursion not found in parser.go")
	}
	return strconv.Atoi(string(m[1]))
}
