package main

// Model-free specification oracles, written from the June-2018 grammar (spec appendix B.3,
// "Document" restricted to executable definitions) — not from parser.go and not from the Lean model:
//
//   - recognise: is a token sequence (kind, value) a sentence of the executable-document grammar?
//   - yield:     the token sequence of a real *ast.Document (with the positions ast.go records);
//                an accepted document must yield exactly the scanned tokens (nothing dropped,
//                nothing truncated) and every recorded position must be the position of that token.

import (
	"fmt"

	"github.com/ccbrown/api-fu/graphql/ast"
	"github.com/ccbrown/api-fu/graphql/token"

	"verifharness/cmd/c06/pk"
)

// ---- recogniser -------------------------------------------------------------------------------

type rtok struct {
	k byte
	v string
}

type recog struct {
	ts []rtok
	i  int
}

func (r *recog) at(k byte, v string) bool {
	return r.i < len(r.ts) && r.ts[r.i].k == k && r.ts[r.i].v == v
}
func (r *recog) atKind(k byte) bool { return r.i < len(r.ts) && r.ts[r.i].k == k }
func (r *recog) eat(k byte, v string) bool {
	if r.at(k, v) {
		r.i++
		return true
	}
	return false
}
func (r *recog) name() bool {
	if r.atKind('n') {
		r.i++
		return true
	}
	return false
}

// recognise reports whether the whole token list is a Document (ExecutableDefinition+).
func recognise(ts []pk.Tok) bool {
	r := &recog{}
	for _, t := range ts {
		r.ts = append(r.ts, rtok{t.Kind, t.Value})
	}
	if len(r.ts) == 0 {
		return false
	}
	for r.i < len(r.ts) {
		if !r.definition() {
			return false
		}
	}
	return true
}

func (r *recog) definition() bool {
	if r.at('p', "{") {
		return r.selectionSet()
	}
	if r.at('n', "fragment") {
		r.i++
		// FragmentName : Name but not `on`
		if !r.atKind('n') || r.at('n', "on") {
			return false
		}
		r.i++
		return r.typeCondition() && r.directives() && r.selectionSet()
	}
	if r.at('n', "query") || r.at('n', "mutation") || r.at('n', "subscription") {
		r.i++
		if r.atKind('n') {
			r.i++
		}
		if r.at('p', "(") {
			r.i++
			n := 0
			for !r.at('p', ")") {
				if !r.variableDefinition() {
					return false
				}
				n++
			}
			r.i++
			if n == 0 {
				return false
			}
		}
		return r.directives() && r.selectionSet()
	}
	return false
}

func (r *recog) typeCondition() bool { return r.eat('n', "on") && r.name() }

func (r *recog) variableDefinition() bool {
	if !(r.eat('p', "$") && r.name() && r.eat('p', ":") && r.typ()) {
		return false
	}
	if r.eat('p', "=") {
		return r.value(true)
	}
	return true
}

func (r *recog) typ() bool {
	if r.eat('p', "[") {
		if !(r.typ() && r.eat('p', "]")) {
			return false
		}
	} else if !r.name() {
		return false
	}
	r.eat('p', "!")
	return true
}

func (r *recog) directives() bool {
	for r.eat('p', "@") {
		if !(r.name() && r.arguments()) {
			return false
		}
	}
	return true
}

func (r *recog) arguments() bool {
	if !r.eat('p', "(") {
		return true
	}
	n := 0
	for !r.at('p', ")") {
		if !(r.name() && r.eat('p', ":") && r.value(false)) {
			return false
		}
		n++
	}
	r.i++
	return n > 0
}

func (r *recog) selectionSet() bool {
	if !r.eat('p', "{") {
		return false
	}
	n := 0
	for !r.at('p', "}") {
		if !r.selection() {
			return false
		}
		n++
	}
	r.i++
	return n > 0
}

func (r *recog) selection() bool {
	if r.eat('p', "...") {
		if r.atKind('n') && !r.at('n', "on") {
			r.i++
			return r.directives()
		}
		if r.at('n', "on") {
			if !r.typeCondition() {
				return false
			}
		}
		return r.directives() && r.selectionSet()
	}
	// Field : Alias? Name Arguments? Directives? SelectionSet?
	if !r.name() {
		return false
	}
	if r.eat('p', ":") {
		if !r.name() {
			return false
		}
	}
	if !(r.arguments() && r.directives()) {
		return false
	}
	if r.at('p', "{") {
		return r.selectionSet()
	}
	return true
}

func (r *recog) value(constant bool) bool {
	if r.i >= len(r.ts) {
		return false
	}
	t := r.ts[r.i]
	switch t.k {
	case 'i', 'f', 's', 'n':
		r.i++
		return true
	case 'p':
		switch t.v {
		case "$":
			if constant {
				return false
			}
			r.i++
			return r.name()
		case "[":
			r.i++
			for !r.at('p', "]") {
				if !r.value(constant) {
					return false
				}
			}
			r.i++
			return true
		case "{":
			r.i++
			for !r.at('p', "}") {
				if !(r.name() && r.eat('p', ":") && r.value(constant)) {
					return false
				}
			}
			r.i++
			return true
		}
	}
	return false
}

// recogniseValue: is a prefix of ts one Value (non-constant context)? Returns the prefix length.
func recogniseValue(ts []pk.Tok) (bool, int) {
	r := &recog{}
	for _, t := range ts {
		r.ts = append(r.ts, rtok{t.Kind, t.Value})
	}
	ok := r.value(false)
	return ok, r.i
}

// ---- yield of a real AST ----------------------------------------------------------------------

type ytok struct {
	k      byte
	v      string
	anchor bool
	pos    token.Position
}

// mark: a node whose first token is yield token idx; pos is what the node's Position() method says.
type mark struct {
	idx  int
	pos  token.Position
	kind string
}

type yielder struct {
	out   []ytok
	marks []mark
}

func (y *yielder) mark(n ast.Node) {
	y.marks = append(y.marks, mark{len(y.out), n.Position(), fmt.Sprintf("%T", n)})
}

func (y *yielder) at(k byte, v string, p token.Position) { y.out = append(y.out, ytok{k, v, true, p}) }
func (y *yielder) free(k byte, v string)                 { y.out = append(y.out, ytok{k: k, v: v}) }
func (y *yielder) name(n *ast.Name) {
	y.mark(n)
	y.at('n', n.Name, n.NamePosition)
}

func (y *yielder) value(v ast.Value) {
	y.mark(v)
	switch v := v.(type) {
	case *ast.Variable:
		y.at('p', "$", v.Dollar)
		y.name(v.Name)
	case *ast.IntValue:
		y.at('i', v.Value, v.Literal)
	case *ast.FloatValue:
		y.at('f', v.Value, v.Literal)
	case *ast.StringValue:
		y.at('s', v.Value, v.Literal)
	case *ast.BooleanValue:
		if v.Value {
			y.at('n', "true", v.Literal)
		} else {
			y.at('n', "false", v.Literal)
		}
	case *ast.NullValue:
		y.at('n', "null", v.Literal)
	case *ast.EnumValue:
		y.at('n', v.Value, v.Literal)
	case *ast.ListValue:
		y.at('p', "[", v.Opening)
		for _, e := range v.Values {
			y.value(e)
		}
		y.at('p', "]", v.Closing)
	case *ast.ObjectValue:
		y.at('p', "{", v.Opening)
		for _, f := range v.Fields {
			y.mark(f)
			y.name(f.Name)
			y.free('p', ":")
			y.value(f.Value)
		}
		y.at('p', "}", v.Closing)
	default:
		y.free('?', fmt.Sprintf("%T", v))
	}
}

func (y *yielder) typ(t ast.Type) {
	y.mark(t)
	switch t := t.(type) {
	case *ast.NamedType:
		y.name(t.Name)
	case *ast.ListType:
		y.at('p', "[", t.Opening)
		y.typ(t.Type)
		y.at('p', "]", t.Closing)
	case *ast.NonNullType:
		y.typ(t.Type)
		y.free('p', "!")
	default:
		y.free('?', fmt.Sprintf("%T", t))
	}
}

func (y *yielder) args(as []*ast.Argument) {
	if len(as) == 0 {
		return
	}
	y.free('p', "(")
	for _, a := range as {
		y.mark(a)
		y.name(a.Name)
		y.free('p', ":")
		y.value(a.Value)
	}
	y.free('p', ")")
}

func (y *yielder) dirs(ds []*ast.Directive) {
	for _, d := range ds {
		y.mark(d)
		y.at('p', "@", d.At)
		y.name(d.Name)
		y.args(d.Arguments)
	}
}

func (y *yielder) selSet(s *ast.SelectionSet) {
	y.mark(s)
	y.at('p', "{", s.Opening)
	for _, sel := range s.Selections {
		y.mark(sel)
		switch sel := sel.(type) {
		case *ast.Field:
			if sel.Alias != nil {
				y.name(sel.Alias)
				y.free('p', ":")
			}
			y.name(sel.Name)
			y.args(sel.Arguments)
			y.dirs(sel.Directives)
			if sel.SelectionSet != nil {
				y.selSet(sel.SelectionSet)
			}
		case *ast.FragmentSpread:
			y.at('p', "...", sel.Ellipsis)
			y.name(sel.FragmentName)
			y.dirs(sel.Directives)
		case *ast.InlineFragment:
			y.at('p', "...", sel.Ellipsis)
			if sel.TypeCondition != nil {
				y.free('n', "on")
				y.mark(sel.TypeCondition)
				y.name(sel.TypeCondition.Name)
			}
			y.dirs(sel.Directives)
			y.selSet(sel.SelectionSet)
		default:
			y.free('?', fmt.Sprintf("%T", sel))
		}
	}
	y.at('p', "}", s.Closing)
}

func yieldDoc(doc *ast.Document) *yielder {
	y := &yielder{}
	for _, d := range doc.Definitions {
		y.mark(d)
		switch d := d.(type) {
		case *ast.OperationDefinition:
			if d.OperationType != nil {
				y.mark(d.OperationType)
				y.at('n', d.OperationType.Value, d.OperationType.ValuePosition)
				if d.Name != nil {
					y.name(d.Name)
				}
				if len(d.VariableDefinitions) > 0 {
					y.free('p', "(")
					for _, v := range d.VariableDefinitions {
						y.mark(v)
						y.mark(v.Variable)
						y.at('p', "$", v.Variable.Dollar)
						y.name(v.Variable.Name)
						y.free('p', ":")
						y.typ(v.Type)
						if v.DefaultValue != nil {
							y.free('p', "=")
							y.value(v.DefaultValue)
						}
					}
					y.free('p', ")")
				}
				y.dirs(d.Directives)
			} else if d.Name != nil || len(d.VariableDefinitions) > 0 || len(d.Directives) > 0 {
				y.free('?', "shorthand operation with name/variables/directives")
			}
			y.selSet(d.SelectionSet)
		case *ast.FragmentDefinition:
			y.at('n', "fragment", d.Fragment)
			y.name(d.Name)
			y.free('n', "on")
			y.mark(d.TypeCondition)
			y.name(d.TypeCondition.Name)
			y.dirs(d.Directives)
			y.selSet(d.SelectionSet)
		default:
			y.free('?', fmt.Sprintf("%T", d))
		}
	}
	return y
}

// yieldMatches compares the yield of an accepted document with the scanned tokens: same tokens
// (nothing dropped, nothing truncated), every recorded position field is the position of its token,
// and every node's Position() method (ast.go) returns the position of the node's first token
// (*ast.Document is exempt: it is 1:1, the start of the text, by definition). "" = agree.
func yieldMatches(y *yielder, ts []pk.Tok) string {
	if len(y.out) != len(ts) {
		return fmt.Sprintf("the accepted document yields %d tokens, the text has %d (truncated or partial document)", len(y.out), len(ts))
	}
	for i, t := range y.out {
		if t.k != ts[i].Kind || t.v != ts[i].Value {
			return fmt.Sprintf("token %d: the accepted document yields %c %q, the text has %c %q", i, t.k, t.v, ts[i].Kind, ts[i].Value)
		}
		if t.anchor && (t.pos.Line != ts[i].Line || t.pos.Column != ts[i].Col) {
			return fmt.Sprintf("token %d (%q): recorded position %d:%d, the token stands at %d:%d", i, t.v, t.pos.Line, t.pos.Column, ts[i].Line, ts[i].Col)
		}
	}
	for _, m := range y.marks {
		if m.idx >= len(ts) {
			return fmt.Sprintf("%s has no first token", m.kind)
		}
		if m.pos.Line != ts[m.idx].Line || m.pos.Column != ts[m.idx].Col {
			return fmt.Sprintf("%s.Position() = %d:%d, its first token %q stands at %d:%d", m.kind, m.pos.Line, m.pos.Column, ts[m.idx].Value, ts[m.idx].Line, ts[m.idx].Col)
		}
	}
	return ""
}
