// Text-level stream: raw source texts (not token lists) through the real parser.ParseDocument /
// parser.ParseValue and through the COMPOSED model — scanner model (C07) ∘ parser model, driver ops
// `text` / `vtext` (lean/ApiFu/C06/Text.lean, DriverText.lean). Lean proves about that composition
// (PropsText.lean: parseText_accepts_exactly, error_inside_text) that on every valid UTF-8 text it
// returns d without error exactly when the reference lexer lexes the whole text and its token stream
// renders the well-formed document d, positions included. So a difference of *verdict* on a valid UTF-8
// text is a failure of the property itself (accept-outside / reject-inside); any other difference
// (tree, positions, error list) is a correspondence failure.
//
// The texts: every base document with one character injected in every lexical context — all C0
// controls, DEL, all C1 controls, BOM, U+FFFD, non-characters, line/paragraph separators, astral
// code points, digits and letters of other scripts, and invalid UTF-8 byte sequences — inside quoted
// strings, block strings and comments, between tokens, glued to numbers and names, at the very start
// and end; plus random printed documents with a random such character injected at a random place.
// Each text also runs through the token-level tie and the model-free oracles (batcher).
package main

import (
	"fmt"
	"strings"
	"unicode/utf8"

	"verifharness/cmd/c06/pk"
	"verifharness/hx"
)

const textBadBase = 0x110000

// textElems splits src the way the scanner walks it (one element per utf8.DecodeRune step; an invalid
// byte b is the element badBase+b — C07's convention).
func textElems(src []byte) (elems []int, valid bool) {
	valid = true
	for i := 0; i < len(src); {
		r, size := utf8.DecodeRune(src[i:])
		if r == utf8.RuneError && size == 1 {
			elems = append(elems, textBadBase+int(src[i]))
			valid = false
		} else {
			elems = append(elems, int(r))
		}
		i += size
	}
	return elems, valid
}

func textRequest(mode string, maxRec int, src []byte) (string, bool) {
	el, valid := textElems(src)
	var b strings.Builder
	if mode == "value" {
		b.WriteString("(vtext ")
	} else {
		b.WriteString("(text ")
	}
	fmt.Fprintf(&b, "%d", maxRec)
	for _, e := range el {
		fmt.Fprintf(&b, " %d", e)
	}
	b.WriteByte(')')
	return b.String(), valid
}

// textCompare compares the real observable with the composed model's reply. Scanner errors carry the
// empty message in the model (the scanner model records positions only): their message is not compared.
func textCompare(real pk.Real, reply string, validUTF8 bool) *failure {
	if real.Panic != "" {
		return nil // reported by prepare
	}
	if reply == "oof" || reply == "bad-op" {
		return &failure{"correspondence", "text-model-reply", "composed model answered " + reply}
	}
	m, err1 := hx.ParseSexp(reply)
	r, err2 := hx.ParseSexp(real.Obs)
	if err1 != nil || err2 != nil || !m.IsList || !r.IsList || len(m.List) < 2 || len(r.List) < 2 {
		return &failure{"correspondence", "text-model-reply", fmt.Sprintf("unexpected reply %.200q", reply)}
	}
	mErrs, rErrs := m.List[len(m.List)-1], r.List[len(r.List)-1]
	mAccept := m.List[0].Atom == "ret" && len(mErrs.List) == 0
	if mAccept != real.Accept && validUTF8 {
		if real.Accept {
			return &failure{"property", "accept-outside", "the text is accepted without error, but the grammar's verdict on its reference token stream (composed model, parseText_accepts_exactly) is: not a document: " + clip(reply)}
		}
		return &failure{"property", "reject-inside", "the text is a document of the grammar (composed model, parseText_accepts_exactly) and is not accepted: " + clip(real.Obs)}
	}
	diff := func(what string) *failure {
		return &failure{"correspondence", "text-model-diff", fmt.Sprintf("composed model (scanner ∘ parser) and parser disagree on the text (%s):\n parser %s\n model  %s", what, clip(real.Obs), clip(reply))}
	}
	if m.List[0].Atom != r.List[0].Atom || len(m.List) != len(r.List) {
		return diff("outcome")
	}
	if len(m.List) == 3 && m.List[1].String() != r.List[1].String() {
		return diff("tree or positions")
	}
	if len(mErrs.List) != len(rErrs.List) {
		return diff("number of errors")
	}
	for i := range mErrs.List {
		me, re := mErrs.List[i], rErrs.List[i]
		if len(me.List) != 4 || len(re.List) != 4 {
			return diff("error shape")
		}
		if me.List[2].Atom != re.List[2].Atom || me.List[3].Atom != re.List[3].Atom {
			return diff(fmt.Sprintf("position of error %d", i+1))
		}
		if me.List[1].Atom != "" && me.List[1].Atom != re.List[1].Atom {
			return diff(fmt.Sprintf("message of error %d", i+1))
		}
	}
	return nil
}

// evalText: the text-level comparison of one case (also used by -replay for cases of this stream).
func (h *harness) evalText(c Case) *failure {
	if h.model == nil {
		return nil
	}
	src := c.src()
	req, valid := textRequest(c.Mode, h.maxRec, src)
	reply, err := h.model.Ask(req)
	if err != nil {
		return &failure{"correspondence", "model-dead", err.Error()}
	}
	h.begin(&c)
	var real pk.Real
	if c.Mode == "value" {
		real = pk.RealValue(src)
	} else {
		real = pk.RealDoc(src)
	}
	h.end()
	return textCompare(real, reply, valid)
}

// injected characters (as byte sequences), with a label for the distribution counters
type inj struct {
	b     []byte
	class string
}

func textInjections() []inj {
	var xs []inj
	add := func(class string, bs ...byte) { xs = append(xs, inj{bs, class}) }
	rn := func(class string, r rune) { xs = append(xs, inj{[]byte(string(r)), class}) }
	for c := rune(0); c < 0x20; c++ {
		rn("C0", c)
	}
	rn("space", ' ')
	rn("DEL", 0x7f)
	for c := rune(0x80); c <= 0x9f; c++ {
		rn("C1", c)
	}
	for _, c := range []rune{0xa0, 0x2028, 0x2029, 0x85} {
		rn("separator", c)
	}
	for _, c := range []rune{0xfeff, 0xfffd, 0xfffe, 0xffff, 0xd7ff, 0xe000} {
		rn("special-bmp", c)
	}
	for _, c := range []rune{0x10000, 0x1f600, 0x10ffff} {
		rn("astral", c)
	}
	for _, c := range []rune{0x660, 0x663, 0x6f1, 0x967, 0xff10, 0xff11, 0xb2, 0xbd, 0x2460, 0x2081, 0x1d7ce} {
		rn("foreign-digit", c)
	}
	for _, c := range []rune{0x430, 0x435, 0x212a, 0x17f, 0xe9, 0x131, 0xff41, 0x5f5f} {
		rn("foreign-letter", c)
	}
	for _, c := range []rune{'"', '\\', '#', ',', '.', '-', '+', 'e', 'E', '0', '_', 'x', '$', '!', '&', '|', '~', '`', '\'', '?', '%', '*', '/', ';', '<', '>', '^'} {
		rn("ascii", c)
	}
	add("invalid-utf8", 0x80)
	add("invalid-utf8", 0xff)
	add("invalid-utf8", 0xc3)
	add("invalid-utf8", 0xc0, 0x80)
	add("invalid-utf8", 0xed, 0xa0, 0x80)
	add("invalid-utf8", 0xf4, 0x90, 0x80, 0x80)
	add("invalid-utf8", 0xe2, 0x82)
	return xs
}

type textTemplate struct {
	mode, pre, post, ctx string
}

var textTemplates = []textTemplate{
	{"doc", `{f(s:"a`, `b")}`, "quoted-string"},
	{"doc", `{f(s:"`, `") g}`, "quoted-string-start"},
	{"doc", `{f(s:"""a`, `b""") g}`, "block-string"},
	{"doc", "{f(s:\"\"\"\n  a\n   ", "b\n  \"\"\") g}", "block-string-lines"},
	{"doc", "{f #c", "d\n g}", "comment"},
	{"doc", "{f #", "", "comment-at-end"},
	{"doc", "{f ", " g}", "between-tokens"},
	{"doc", "{f", "g}", "inside-name"},
	{"doc", "{f(x:1", ")}", "after-int"},
	{"doc", "{f(x:", "1)}", "before-int"},
	{"doc", "{f(x:1.5", ")}", "after-float"},
	{"doc", "{f(x:1e", "5)}", "inside-exponent"},
	{"doc", "{f(x:-", "0)}", "after-minus"},
	{"doc", "{f(x:$", "v)}", "after-dollar"},
	{"doc", "{..", ".F}", "inside-ellipsis"},
	{"doc", "", "{f}", "very-start"},
	{"doc", "{f}", "", "very-end"},
	{"doc", "\ufeff", "{f}", "after-bom"},
	{"doc", "query Q($v:[T!]=[1,{a:\"", "\"}]) @d {f}", "default-value-string"},
	{"value", `[1`, `]`, "value-after-int"},
	{"value", `"`, `"`, "value-string"},
	{"value", `{a:"""`, `"""}`, "value-block-string"},
	{"value", `[E `, `F]`, "value-between"},
}

// textStream generates the text-level cases. Every case goes through the batcher (token-level tie and
// model-free oracles, streams text-*) and through the text-level comparison.
func (h *harness) textStream(b *batcher) {
	run := h.run
	var cases []Case
	add := func(mode string, src []byte, stream string) {
		g := &genCase{mode: mode, raw: src, stream: stream}
		if len(src) == 0 {
			g.raw = []byte{}
		}
		b.add(g)
		cases = append(cases, g.build())
	}
	injs := textInjections()
	for _, t := range textTemplates {
		add(t.mode, []byte(t.pre+t.post), "text-inject")
		for _, x := range injs {
			src := append(append([]byte(t.pre), x.b...), []byte(t.post)...)
			add(t.mode, src, "text-inject")
			run.Count("text-inject:" + t.ctx)
			run.Count("text-char:" + x.class)
		}
	}
	// random printed documents: clean, and with one or two injected characters at random rune boundaries
	n := run.Scale(700, 20000)
	for i := 0; i < n; i++ {
		r := run.Rand.Fork()
		g := &gen{c: randChooser{r}, budget: r.Range(3, 40), p: pickProfile(r)}
		gc := &genCase{mode: "doc", tree: g.document(), seed: r.Uint64(), class: r.Intn(layClasses), stream: "text-random"}
		base := gc.build().src()
		if i%4 == 0 {
			add("doc", base, "text-random-clean")
		}
		src := base
		for k := r.Range(1, 2); k > 0; k-- {
			at := r.Intn(len(src) + 1)
			for at < len(src) && !utf8.RuneStart(src[at]) {
				at++
			}
			x := injs[r.Intn(len(injs))]
			src = append(append(append([]byte{}, src[:at]...), x.b...), src[at:]...)
		}
		add("doc", src, "text-random-inject")
	}
	b.flush()
	if h.model == nil {
		return
	}
	// the text-level comparison, batched
	const name = "text-correspondence: parser.ParseDocument/ParseValue(text) = parser model ∘ scanner model (text); same verdict as the grammar on the reference token stream"
	for lo := 0; lo < len(cases); lo += 400 {
		hi := lo + 400
		if hi > len(cases) {
			hi = len(cases)
		}
		reqs := make([]string, 0, hi-lo)
		valids := make([]bool, 0, hi-lo)
		for _, c := range cases[lo:hi] {
			q, v := textRequest(c.Mode, h.maxRec, c.src())
			reqs = append(reqs, q)
			valids = append(valids, v)
		}
		replies, err := h.model.AskAll(reqs)
		if err != nil {
			run.Violate("correspondence", "model driver failed on the text stream: "+err.Error(), "", true, nil)
			return
		}
		for i, c := range cases[lo:hi] {
			cc := c
			h.begin(&cc)
			var real pk.Real
			if c.Mode == "value" {
				real = pk.RealValue(c.src())
			} else {
				real = pk.RealDoc(c.src())
			}
			h.end()
			f := textCompare(real, replies[i], valids[i])
			if valids[i] {
				run.Count("text:valid-utf8")
			} else {
				run.Count("text:invalid-utf8")
			}
			if strings.HasPrefix(replies[i], "(ret") && strings.HasSuffix(replies[i], " ())") {
				run.Count("text-model:accepted")
			} else {
				run.Count("text-model:rejected")
			}
			detail := ""
			if f != nil {
				detail = f.what
			}
			run.Oblige(name, "correspondence", 1, f == nil, detail)
			if f == nil {
				continue
			}
			if h.seen == nil {
				h.seen = map[string]int{}
			}
			h.seen[f.kind+":"+f.class]++
			if h.seen[f.kind+":"+f.class] > 3 {
				run.Count("violation-not-shrunk:" + f.kind + ":" + f.class)
				continue
			}
			sc, sf := shrinkText(h, c, f)
			run.Violate(sf.kind, sf.class+": "+sf.what, "", sf.kind == "correspondence", sc)
		}
	}
}

// shrinkText drops bytes (whole runes) while the text-level comparison fails in the same way.
func shrinkText(h *harness, c Case, f *failure) (Case, *failure) {
	cur, curF := c, f
	for rounds := 0; rounds < 40; rounds++ {
		src := cur.src()
		changed := false
		for i := 0; i < len(src); {
			_, size := utf8.DecodeRune(src[i:])
			cand := append(append([]byte{}, src[:i]...), src[i+size:]...)
			cc := mkCase(cur.Mode, cand, "", cur.Stream)
			if f2 := h.evalText(cc); f2 != nil && f2.kind == f.kind && f2.class == f.class {
				cur, curF, src, changed = cc, f2, cand, true
				continue
			}
			i += size
		}
		if !changed {
			break
		}
	}
	return cur, curF
}
