module verifharness

go 1.18

require (
	github.com/ccbrown/api-fu v0.0.0
	github.com/gorilla/websocket v1.4.2
	github.com/json-iterator/go v1.1.12
	github.com/sirupsen/logrus v1.4.2
)

require (
	github.com/hashicorp/errwrap v1.0.0 // indirect
	github.com/hashicorp/go-multierror v1.1.1 // indirect
	github.com/modern-go/concurrent v0.0.0-20180306012644-bacd9c7ef1dd // indirect
	github.com/modern-go/reflect2 v1.0.2 // indirect
	github.com/pkg/errors v0.8.1 // indirect
	github.com/vmihailenco/msgpack v4.0.4+incompatible // indirect
	golang.org/x/sys v0.0.0-20220412211240-33da011f77ad // indirect
)

replace github.com/ccbrown/api-fu => /repo
