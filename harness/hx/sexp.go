package hx

import (
	"fmt"
	"strconv"
	"strings"
)

// Sexp mirrors ApiFu.Sexp in lean/ApiFu/Common/Sexp.lean: an atom or a list.
type Sexp struct {
	Atom   string
	List   []Sexp
	IsList bool
}

func A(s string) Sexp               { return Sexp{Atom: s} }
func I(n int64) Sexp                { return Sexp{Atom: strconv.FormatInt(n, 10)} }
func B(b bool) Sexp                 { return Sexp{Atom: strconv.FormatBool(b)} }
func L(xs ...Sexp) Sexp             { return Sexp{List: xs, IsList: true} }
func N(tag string, xs ...Sexp) Sexp { return Sexp{List: append([]Sexp{A(tag)}, xs...), IsList: true} }

func isBare(c rune) bool {
	return !(c == ' ' || c == '\t' || c == '\n' || c == '\r' || c == '(' || c == ')' || c == '"')
}

func needsQuote(s string) bool {
	if s == "" {
		return true
	}
	for _, c := range s {
		if !isBare(c) || c == '\\' || c < 32 || c > 126 {
			return true
		}
	}
	return false
}

// Quote writes a string in the quoted-atom syntax (\uXXXX as \u{hex}). The input is treated as a
// sequence of runes; invalid UTF-8 must be encoded by the caller before it gets here.
func Quote(s string) string {
	var b strings.Builder
	b.WriteByte('"')
	for _, c := range s {
		switch {
		case c == '"':
			b.WriteString(`\"`)
		case c == '\\':
			b.WriteString(`\\`)
		case c == '\n':
			b.WriteString(`\n`)
		case c == '\t':
			b.WriteString(`\t`)
		case c == '\r':
			b.WriteString(`\r`)
		case c < 32 || c > 126:
			fmt.Fprintf(&b, `\u{%x}`, c)
		default:
			b.WriteRune(c)
		}
	}
	b.WriteByte('"')
	return b.String()
}

func (x Sexp) String() string {
	var b strings.Builder
	x.write(&b)
	return b.String()
}

func (x Sexp) write(b *strings.Builder) {
	if !x.IsList {
		if needsQuote(x.Atom) {
			b.WriteString(Quote(x.Atom))
		} else {
			b.WriteString(x.Atom)
		}
		return
	}
	b.WriteByte('(')
	for i, e := range x.List {
		if i > 0 {
			b.WriteByte(' ')
		}
		e.write(b)
	}
	b.WriteByte(')')
}

// ParseSexp parses exactly one expression.
func ParseSexp(s string) (Sexp, error) {
	p := &sexpParser{rs: []rune(s)}
	p.skip()
	x, err := p.parse()
	if err != nil {
		return Sexp{}, err
	}
	p.skip()
	if p.i != len(p.rs) {
		return Sexp{}, fmt.Errorf("trailing input at %d", p.i)
	}
	return x, nil
}

type sexpParser struct {
	rs []rune
	i  int
}

func (p *sexpParser) skip() {
	for p.i < len(p.rs) && (p.rs[p.i] == ' ' || p.rs[p.i] == '\t' || p.rs[p.i] == '\n' || p.rs[p.i] == '\r') {
		p.i++
	}
}

func (p *sexpParser) parse() (Sexp, error) {
	if p.i >= len(p.rs) {
		return Sexp{}, fmt.Errorf("unexpected end")
	}
	switch c := p.rs[p.i]; {
	case c == '(':
		p.i++
		out := Sexp{IsList: true, List: []Sexp{}}
		for {
			p.skip()
			if p.i >= len(p.rs) {
				return Sexp{}, fmt.Errorf("unterminated list")
			}
			if p.rs[p.i] == ')' {
				p.i++
				return out, nil
			}
			e, err := p.parse()
			if err != nil {
				return Sexp{}, err
			}
			out.List = append(out.List, e)
		}
	case c == ')':
		return Sexp{}, fmt.Errorf("unexpected )")
	case c == '"':
		p.i++
		var b strings.Builder
		for {
			if p.i >= len(p.rs) {
				return Sexp{}, fmt.Errorf("unterminated string")
			}
			c := p.rs[p.i]
			p.i++
			if c == '"' {
				return A(b.String()), nil
			}
			if c != '\\' {
				b.WriteRune(c)
				continue
			}
			if p.i >= len(p.rs) {
				return Sexp{}, fmt.Errorf("bad escape")
			}
			e := p.rs[p.i]
			p.i++
			switch e {
			case 'n':
				b.WriteByte('\n')
			case 't':
				b.WriteByte('\t')
			case 'r':
				b.WriteByte('\r')
			case '\\':
				b.WriteByte('\\')
			case '"':
				b.WriteByte('"')
			case 'u':
				if p.i >= len(p.rs) || p.rs[p.i] != '{' {
					return Sexp{}, fmt.Errorf("bad \\u escape")
				}
				p.i++
				j := p.i
				for j < len(p.rs) && p.rs[j] != '}' {
					j++
				}
				if j >= len(p.rs) {
					return Sexp{}, fmt.Errorf("bad \\u escape")
				}
				n, err := strconv.ParseUint(string(p.rs[p.i:j]), 16, 32)
				if err != nil {
					return Sexp{}, err
				}
				b.WriteRune(rune(n))
				p.i = j + 1
			default:
				return Sexp{}, fmt.Errorf("bad escape \\%c", e)
			}
		}
	default:
		j := p.i
		for j < len(p.rs) && isBare(p.rs[j]) {
			j++
		}
		a := A(string(p.rs[p.i:j]))
		p.i = j
		return a, nil
	}
}
