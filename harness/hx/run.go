package hx

import (
	"crypto/sha256"
	"encoding/hex"
	"encoding/json"
	"flag"
	"fmt"
	"os"
	"path/filepath"
	"sort"
	"time"
)

// Violation is one failure found by a harness. The `check` orchestrator turns it into a
// `VIOLATION` line, or into a `KNOWN-FINDING` line when FindingKey names an open entry of
// /verif/known_findings.json.
type Violation struct {
	// Kind: "property" (the implementation's behaviour violates the property on a concrete
	// input), "correspondence" (model and implementation disagree but the property oracle
	// still holds on the implementation's output, or no oracle applies), "crash".
	Kind string `json:"kind"`
	What string `json:"what"`
	// Replay is the path of the replay file written for this violation.
	Replay string `json:"replay"`
	// FindingKey is the classifier key the failing case matched ("" when none matched).
	FindingKey string `json:"finding_key,omitempty"`
	// NoFailingInput: the obligation broke but no input on which the property fails was found.
	NoFailingInput bool `json:"no_failing_input,omitempty"`
}

// Obligation is one correspondence / oracle / source-fact obligation checked on this run.
type Obligation struct {
	Name   string `json:"name"`
	Kind   string `json:"kind"` // correspondence | oracle | srcfact | exhaustive
	Cases  int    `json:"cases"`
	OK     bool   `json:"ok"`
	Detail string `json:"detail,omitempty"`
}

// Result is what a harness writes for `check`.
type Result struct {
	Property           string         `json:"property"`
	Tier               string         `json:"tier"`
	Seed               int64          `json:"seed"`
	Evaluations        int            `json:"evaluations"`
	DistinctNontrivial int            `json:"distinct_nontrivial"`
	Rule               string         `json:"rule"`
	Samples            []any          `json:"samples"`
	Distribution       map[string]int `json:"distribution"`
	Obligations        []Obligation   `json:"obligations"`
	Violations         []Violation    `json:"violations"`
	ModelCalls         int            `json:"model_calls"`
	Exhaustive         bool           `json:"exhaustive,omitempty"`
	Notes              []string       `json:"notes,omitempty"`
	WallS              float64        `json:"wall_s"`
}

// Run is the per-invocation context of a harness.
type Run struct {
	Property  string
	Tier      string // quick | thorough
	Seed      int64
	ModelPath string // compiled Lean driver ("" = run without the model: oracle-only search)
	OutPath   string
	ReplayDir string
	Replay    string // when set: replay exactly this file and print both observables
	VerifDir  string // /verif (for corpus/ and findings/)
	MaxPerKey int    // violations kept per (kind, finding key); default 3
	Rand      *Rand

	res      Result
	seen     map[string]bool
	perKey   map[string]int
	start    time.Time
	maxSamp  int
	obIndex  map[string]int
	replayNo int
}

// Init parses the standard flags. Every harness binary calls it first.
func Init(property string) *Run {
	r := &Run{Property: property, seen: map[string]bool{}, perKey: map[string]int{}, obIndex: map[string]int{}, maxSamp: 6, MaxPerKey: 3}
	flag.StringVar(&r.Tier, "tier", "quick", "quick | thorough")
	flag.Int64Var(&r.Seed, "seed", 1, "PRNG seed (VERIF_SEED)")
	flag.StringVar(&r.ModelPath, "model", "", "path of the compiled Lean model driver")
	flag.StringVar(&r.OutPath, "out", "", "result file")
	flag.StringVar(&r.ReplayDir, "replaydir", "", "directory for replay files")
	flag.StringVar(&r.Replay, "replay", "", "replay this file only")
	flag.StringVar(&r.VerifDir, "verif", "/verif", "verification root (corpus/, findings/)")
	flag.Parse()
	r.Rand = NewRand(uint64(r.Seed))
	r.start = time.Now()
	r.res = Result{Property: property, Tier: r.Tier, Seed: r.Seed, Distribution: map[string]int{}, Samples: []any{}, Obligations: []Obligation{}, Violations: []Violation{}}
	if r.ReplayDir != "" {
		os.MkdirAll(r.ReplayDir, 0o755)
	}
	return r
}

// Thorough reports whether the thorough tier was requested.
func (r *Run) Thorough() bool { return r.Tier == "thorough" }

// Scale picks a tier-dependent size.
func (r *Run) Scale(quick, thorough int) int {
	if r.Thorough() {
		return thorough
	}
	return quick
}

// Elapsed is the time since Init.
func (r *Run) Elapsed() time.Duration { return time.Since(r.start) }

// SetRule records how cases are generated and what makes one non-trivial / distinct.
func (r *Run) SetRule(rule string) { r.res.Rule = rule }

// SetExhaustive marks the run as having enumerated a finite space completely.
func (r *Run) SetExhaustive(b bool) { r.res.Exhaustive = b }

// Note appends a free-text note to the result.
func (r *Run) Note(format string, a ...any) {
	r.res.Notes = append(r.res.Notes, fmt.Sprintf(format, a...))
}

// Count increments a distribution counter (input kinds, branches hit, error classes …).
func (r *Run) Count(key string) { r.res.Distribution[key]++ }

// Distribution reads a distribution counter.
func (r *Run) Distribution(key string) int { return r.res.Distribution[key] }

// CountN adds n to a distribution counter.
func (r *Run) CountN(key string, n int) { r.res.Distribution[key] += n }

// Case records one evaluated case. canonical identifies the case for distinctness; nontrivial
// says whether it is non-trivial by the harness's stated rule.
func (r *Run) Case(canonical string, nontrivial bool) {
	r.res.Evaluations++
	if !nontrivial {
		return
	}
	h := sha256.Sum256([]byte(canonical))
	k := string(h[:12])
	if !r.seen[k] {
		r.seen[k] = true
		r.res.DistinctNontrivial++
	}
}

// Sample keeps up to a handful of written-out cases for the evidence file.
func (r *Run) Sample(x any) {
	if len(r.res.Samples) < r.maxSamp {
		r.res.Samples = append(r.res.Samples, x)
	}
}

// Oblige records the outcome of one obligation (accumulating cases over repeated calls).
func (r *Run) Oblige(name, kind string, cases int, ok bool, detail string) {
	if i, found := r.obIndex[name]; found {
		o := &r.res.Obligations[i]
		o.Cases += cases
		if !ok {
			o.OK = false
			if o.Detail == "" {
				o.Detail = detail
			}
		}
		return
	}
	r.obIndex[name] = len(r.res.Obligations)
	if ok {
		detail = ""
	}
	r.res.Obligations = append(r.res.Obligations, Obligation{Name: name, Kind: kind, Cases: cases, OK: ok, Detail: detail})
}

// Violate records a violation and writes its replay file. replay is any JSON-serialisable value
// from which `-replay` can re-run the case. At most 3 violations are kept per (kind, findingKey)
// so that a finding hit thousands of times does not flood the result; the count is kept in the
// distribution.
func (r *Run) Violate(kind, what, findingKey string, noFailingInput bool, replay any) {
	ck := "violation:" + kind + ":" + findingKey
	r.res.Distribution[ck]++
	if r.perKey[ck] >= r.MaxPerKey {
		return
	}
	r.perKey[ck]++
	path := ""
	if r.ReplayDir != "" {
		r.replayNo++
		path = filepath.Join(r.ReplayDir, fmt.Sprintf("%s-%d-%d.json", r.Property, r.Seed, r.replayNo))
		doc := map[string]any{"property": r.Property, "kind": kind, "what": what, "finding_key": findingKey, "seed": r.Seed, "tier": r.Tier, "case": replay}
		if noFailingInput {
			doc["no_failing_input_found"] = true
		}
		b, err := json.MarshalIndent(doc, "", " ")
		if err != nil {
			b, _ = json.Marshal(map[string]any{"property": r.Property, "kind": kind, "what": what, "marshal_error": err.Error(), "case": fmt.Sprintf("%#v", replay)})
		}
		os.WriteFile(path, b, 0o644)
	}
	r.res.Violations = append(r.res.Violations, Violation{Kind: kind, What: what, Replay: path, FindingKey: findingKey, NoFailingInput: noFailingInput})
}

// Violations returns how many violations were recorded so far.
func (r *Run) Violations() int { return len(r.res.Violations) }

// LoadReplayCase reads the "case" member of a replay file into v.
func LoadReplayCase(path string, v any) error {
	b, err := os.ReadFile(path)
	if err != nil {
		return err
	}
	var doc struct {
		Case json.RawMessage `json:"case"`
	}
	if err := json.Unmarshal(b, &doc); err != nil {
		return err
	}
	if doc.Case == nil {
		return json.Unmarshal(b, v)
	}
	return json.Unmarshal(doc.Case, v)
}

// CorpusFiles lists /verif/findings/<property>*.json then /verif/corpus/<property>/*.json (sorted).
func (r *Run) CorpusFiles() []string {
	var out []string
	a, _ := filepath.Glob(filepath.Join(r.VerifDir, "findings", r.Property+"-*.json"))
	sort.Strings(a)
	out = append(out, a...)
	b, _ := filepath.Glob(filepath.Join(r.VerifDir, "corpus", r.Property, "*.json"))
	sort.Strings(b)
	return append(out, b...)
}

// Finish writes the result file. The harness exits 0 regardless of violations: `check` decides.
func (r *Run) Finish(m *Model) {
	if m != nil {
		r.res.ModelCalls = m.Calls
	}
	r.res.WallS = time.Since(r.start).Seconds()
	b, err := json.MarshalIndent(r.res, "", " ")
	if err != nil {
		fmt.Fprintln(os.Stderr, "cannot marshal result:", err)
		os.Exit(3)
	}
	if r.OutPath == "" {
		os.Stdout.Write(b)
		return
	}
	if err := os.WriteFile(r.OutPath, b, 0o644); err != nil {
		fmt.Fprintln(os.Stderr, "cannot write result:", err)
		os.Exit(3)
	}
}

// Hash is a short stable digest for canonical case keys.
func Hash(s string) string {
	h := sha256.Sum256([]byte(s))
	return hex.EncodeToString(h[:8])
}
