package hx

import (
	"bufio"
	"fmt"
	"io"
	"os"
	"os/exec"
	"strings"
)

// Model is a running Lean model driver (a compiled `lean_exe`, or `lake env lean --run` for
// drivers that cannot be linked). One request line in, one reply line out.
type Model struct {
	cmd   *exec.Cmd
	in    io.WriteCloser
	out   *bufio.Reader
	Calls int
}

// StartModel launches the driver. path is the executable; args are passed through.
func StartModel(path string, args ...string) (*Model, error) {
	cmd := exec.Command(path, args...)
	cmd.Stderr = os.Stderr
	in, err := cmd.StdinPipe()
	if err != nil {
		return nil, err
	}
	out, err := cmd.StdoutPipe()
	if err != nil {
		return nil, err
	}
	if err := cmd.Start(); err != nil {
		return nil, err
	}
	return &Model{cmd: cmd, in: in, out: bufio.NewReaderSize(out, 1<<20)}, nil
}

// Ask sends one line (which must not contain a newline) and returns the reply line.
func (m *Model) Ask(line string) (string, error) {
	if strings.ContainsAny(line, "\n\r") {
		return "", fmt.Errorf("request contains a line break: %q", line)
	}
	if _, err := io.WriteString(m.in, line+"\n"); err != nil {
		return "", err
	}
	m.Calls++
	reply, err := m.out.ReadString('\n')
	if err != nil {
		return "", fmt.Errorf("model driver ended: %v", err)
	}
	return strings.TrimRight(reply, "\r\n"), nil
}

// AskAll pipelines many requests (writer goroutine + reader) and returns the replies in order.
func (m *Model) AskAll(lines []string) ([]string, error) {
	errc := make(chan error, 1)
	go func() {
		w := bufio.NewWriterSize(m.in, 1<<20)
		for _, l := range lines {
			if strings.ContainsAny(l, "\n\r") {
				errc <- fmt.Errorf("request contains a line break: %q", l)
				return
			}
			w.WriteString(l)
			w.WriteByte('\n')
		}
		errc <- w.Flush()
	}()
	out := make([]string, 0, len(lines))
	for range lines {
		reply, err := m.out.ReadString('\n')
		if err != nil {
			return out, fmt.Errorf("model driver ended after %d replies: %v", len(out), err)
		}
		out = append(out, strings.TrimRight(reply, "\r\n"))
	}
	m.Calls += len(lines)
	return out, <-errc
}

func (m *Model) Close() {
	m.in.Close()
	m.cmd.Wait()
}
