// Package hx holds what every per-property harness shares: the seeded PRNG, the S-expression
// wire format, the client for the compiled Lean model drivers, and the result file the `check`
// orchestrator reads.
package hx

// Rand is splitmix64. Every random choice of a harness derives from one Rand seeded by
// VERIF_SEED so that a disagreement replays exactly.
type Rand struct{ s uint64 }

// NewRand scrambles the seed through one splitmix64 step: without that, the stream of seed k+1
// would be the stream of seed k shifted by one draw (the state advances by the same constant).
func NewRand(seed uint64) *Rand {
	r := &Rand{s: seed*0x9E3779B97F4A7C15 + 0x1234567}
	return &Rand{s: r.Uint64() ^ 0xD1342543DE82EF95}
}

func (r *Rand) Uint64() uint64 {
	r.s += 0x9E3779B97F4A7C15
	z := r.s
	z = (z ^ (z >> 30)) * 0xBF58476D1CE4E5B9
	z = (z ^ (z >> 27)) * 0x94D049BB133111EB
	return z ^ (z >> 31)
}

// Intn returns a value in [0, n). n must be > 0.
func (r *Rand) Intn(n int) int { return int(r.Uint64() % uint64(n)) }

// Range returns a value in [lo, hi].
func (r *Rand) Range(lo, hi int) int { return lo + r.Intn(hi-lo+1) }

// Bool returns true with probability 1/2.
func (r *Rand) Bool() bool { return r.Uint64()&1 == 1 }

// Chance returns true with probability num/den.
func (r *Rand) Chance(num, den int) bool { return r.Intn(den) < num }

// Fork derives an independent stream (for per-case seeds).
func (r *Rand) Fork() *Rand { return &Rand{s: r.Uint64()} }

// Pick returns one of xs.
func Pick[T any](r *Rand, xs []T) T { return xs[r.Intn(len(xs))] }

// Shuffle permutes xs in place.
func Shuffle[T any](r *Rand, xs []T) {
	for i := len(xs) - 1; i > 0; i-- {
		j := r.Intn(i + 1)
		xs[i], xs[j] = xs[j], xs[i]
	}
}
