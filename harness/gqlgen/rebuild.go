package gqlgen

import (
	"encoding/json"
	"fmt"

	"github.com/ccbrown/api-fu/graphql"
	"verifharness/hx"
)

// BuildViaClone reaches the schema described by edited on the route an application takes that
// adjusts a definition it got from elsewhere (apifu's PreprocessGraphQLSchemaDefinition): the schema
// described by orig is built (and thereby validated) first, its definition is cloned with
// SchemaDefinition.Clone, the clone's enum types get the values edited describes, and a second schema
// is built from the clone. orig and edited may differ in the values of their enum types only. The
// result is an accepted schema like any other: executing on it has to behave as edited says.
func BuildViaClone(orig, edited *SchemaDesc) (*Built, error) {
	b0, err := Build(orig)
	if err != nil {
		return nil, err
	}
	clone := b0.Def.Clone()
	b := &Built{Desc: edited, Def: clone, Named: map[string]graphql.NamedType{}}
	for k, v := range b0.Named {
		if _, described := namedIn(orig, k); !described {
			b.Named[k] = v // built-in scalars
		}
	}
	for _, t := range clone.AdditionalTypes {
		b.Named[t.TypeName()] = t
	}
	for i := range edited.Types {
		t := &edited.Types[i]
		if t.Kind != "enum" {
			continue
		}
		e, ok := b.Named[t.Name].(*graphql.EnumType)
		if !ok {
			return nil, fmt.Errorf("clone has no enum %s", t.Name)
		}
		vals := map[string]*graphql.EnumValueDefinition{}
		for _, v := range t.Values {
			vals[v.Name] = &graphql.EnumValueDefinition{Value: v.Value.Go()}
		}
		e.Values = vals
	}
	s, err := graphql.NewSchema(clone)
	if err != nil {
		return nil, err
	}
	b.Schema = s
	return b, nil
}

func namedIn(s *SchemaDesc, name string) (*TypeDesc, bool) {
	t := s.Type(name)
	return t, t != nil
}

// EditEnums returns a copy of s in which the values of one or more enum types are changed (an
// internal value replaced, two internal values exchanged, a value added, a value removed), or nil if
// s has no enum type.
func EditEnums(r *hx.Rand, s *SchemaDesc) *SchemaDesc {
	raw, _ := json.Marshal(s)
	out := &SchemaDesc{}
	if json.Unmarshal(raw, out) != nil {
		return nil
	}
	changed := false
	for i := range out.Types {
		t := &out.Types[i]
		if t.Kind != "enum" || len(t.Values) == 0 || (changed && r.Chance(1, 2)) {
			continue
		}
		changed = true
		n := 1 + r.Intn(2)
		for k := 0; k < n; k++ {
			switch r.Intn(4) {
			case 0: // another internal value for a name
				j := r.Intn(len(t.Values))
				t.Values[j].Value = hx.Pick(r, []GoVal{IntVal(int64(10 + j)), StrVal(t.Values[j].Name + "_new"), StrVal(t.Values[j].Name)})
			case 1: // two names exchange their internal values
				if len(t.Values) >= 2 {
					a, b := 0, 1+r.Intn(len(t.Values)-1)
					t.Values[a].Value, t.Values[b].Value = t.Values[b].Value, t.Values[a].Value
				} else {
					t.Values[0].Value = IntVal(77)
				}
			case 2: // a new value
				name := fmt.Sprintf("N%d", len(t.Values))
				t.Values = append(t.Values, EnumValDesc{Name: name, Value: hx.Pick(r, []GoVal{StrVal(name), IntVal(int64(20 + len(t.Values))), StrVal(fmt.Sprintf("added%d", len(t.Values)))})})
			default: // a value removed (never the last one)
				if len(t.Values) >= 2 {
					j := r.Intn(len(t.Values))
					t.Values = append(t.Values[:j], t.Values[j+1:]...)
				} else {
					t.Values[0].Value = StrVal("only")
				}
			}
		}
		// two names for one internal value would make the name of a result depend on map order: keep the
		// internal values of an enum distinct
		for a := range t.Values {
			for b := 0; b < a; b++ {
				if t.Values[a].Value.Same(t.Values[b].Value) {
					t.Values[a].Value = IntVal(int64(100 + a))
					break
				}
			}
		}
	}
	if !changed {
		return nil
	}
	return out
}
