package gqlgen

import (
	"fmt"
	"math"
	"strconv"
	"strings"

	"verifharness/hx"
)

// Site is a position of a world at which a resolver outcome can be replaced: an entry of an object
// node (a field invocation) or a list item.
type Site struct {
	Slot    **Outcome // where the outcome is stored
	Type    TypeRef   // the declared type at this position
	IsEntry bool      // a field invocation (a resolver error is possible) rather than a list item
	Path    string    // human-readable position, for replays
}

type worldGen struct {
	r     *hx.Rand
	s     *SchemaDesc
	doc   *DocDesc
	vars  map[string]interface{}
	sites []Site
	errNo int
}

type fieldUse struct {
	def  *FieldDesc
	subs [][]*Sel
}

// worldKeyOf evaluates the `k` argument of a generated field selection.
func worldKeyOf(s *Sel, vars map[string]interface{}) string {
	for _, a := range s.Args {
		if a.Name != "k" {
			continue
		}
		if len(a.Value) > 0 && a.Value[0] == '$' {
			if v, ok := vars[a.Value[1:]]; ok {
				switch v := v.(type) {
				case int:
					return fmt.Sprintf("%s#%d", s.Name, v)
				case float64:
					return fmt.Sprintf("%s#%d", s.Name, int(v))
				}
			}
			return s.Name
		}
		if n, err := strconv.Atoi(a.Value); err == nil {
			return fmt.Sprintf("%s#%d", s.Name, n)
		}
	}
	return s.Name
}

// collect gathers, for a node of concrete type obj, every field selection that can apply to it
// (directives ignored: a skipped selection merely gets an unused world entry), keyed by world key.
func (g *worldGen) collect(obj string, lists [][]*Sel, order *[]string, into map[string]*fieldUse, visited map[string]bool) {
	ot := g.s.Type(obj)
	for _, sels := range lists {
		for _, s := range sels {
			switch s.Kind {
			case "field":
				if s.Name == "__typename" || ot == nil {
					continue
				}
				fd := ot.Field(s.Name)
				if fd == nil {
					continue
				}
				key := worldKeyOf(s, g.vars)
				u := into[key]
				if u == nil {
					u = &fieldUse{def: fd}
					into[key] = u
					*order = append(*order, key)
				}
				if len(s.Sels) > 0 {
					u.subs = append(u.subs, s.Sels)
				}
			case "inline":
				if s.TypeCond == "" || contains(g.s.PossibleTypes(s.TypeCond), obj) {
					g.collect(obj, [][]*Sel{s.Sels}, order, into, visited)
				}
			case "spread":
				if visited[s.Name] {
					continue
				}
				visited[s.Name] = true
				if f := g.doc.Frag(s.Name); f != nil && contains(g.s.PossibleTypes(f.TypeCond), obj) {
					g.collect(obj, [][]*Sel{f.Sels}, order, into, visited)
				}
			}
		}
	}
}

func (g *worldGen) node(obj string, lists [][]*Sel, path string) *Outcome {
	n := Obj(obj)
	uses := map[string]*fieldUse{}
	var order []string
	g.collect(obj, lists, &order, uses, map[string]bool{})
	n.Fields = make([]Entry, len(order))
	for i, key := range order {
		u := uses[key]
		n.Fields[i] = Entry{Key: key, Out: g.value(u.def.Type, u.subs, path+"."+key)}
		g.sites = append(g.sites, Site{Slot: &n.Fields[i].Out, Type: u.def.Type, IsEntry: true, Path: path + "." + key})
	}
	return n
}

// value draws a well-typed, error-free value of type t.
func (g *worldGen) value(t TypeRef, subs [][]*Sel, path string) *Outcome {
	switch t.Kind {
	case "nonnull":
		return g.value(*t.Of, subs, path)
	case "list":
		n := g.r.Intn(4)
		l := List()
		l.Items = make([]*Outcome, n)
		for i := range l.Items {
			p := fmt.Sprintf("%s[%d]", path, i)
			l.Items[i] = g.value(*t.Of, subs, p)
			g.sites = append(g.sites, Site{Slot: &l.Items[i], Type: *t.Of, Path: p})
		}
		return l
	}
	return g.named(t.Name, subs, path)
}

func (g *worldGen) named(name string, subs [][]*Sel, path string) *Outcome {
	switch name {
	case "Int":
		if g.r.Chance(1, 3) {
			return Leaf(hx.Pick(g.r, []GoVal{SignedVal("int8", -128), UnsignedVal("uint8", 255), SignedVal("int16", 32767), UnsignedVal("uint16", 65535),
				SignedVal("int32", -2147483648), UnsignedVal("uint32", 2147483647), SignedVal("int64", 2147483647), UnsignedVal("uint64", 7), UnsignedVal("uint", 2147483647),
				FloatVal(-2147483648), Float32Val(16777216)}))
		}
		return Leaf(IntVal(int64(hx.Pick(g.r, []int{0, 1, -1, 7, 42, 2147483647, -2147483648}))))
	case "Float":
		if g.r.Chance(1, 3) {
			return Leaf(hx.Pick(g.r, []GoVal{SignedVal("int64", math.MaxInt64), UnsignedVal("uint64", math.MaxUint64), IntVal(1<<53 + 1), SignedVal("int8", -3),
				UnsignedVal("uint32", 4294967295), Float32Val(0.1), Float32Val(3.4e38), FloatVal(1e300), UnsignedVal("uint", 1<<63)}))
		}
		return Leaf(FloatVal(hx.Pick(g.r, []float64{0, 1.5, -2.25, 3, 1e10, 0.1})))
	case "String":
		return Leaf(StrVal(hx.Pick(g.r, []string{"", "s", "hello", "a\"b", "ü"})))
	case "Boolean":
		return Leaf(BoolVal(g.r.Bool()))
	case "ID":
		if g.r.Bool() {
			return Leaf(StrVal(hx.Pick(g.r, []string{"id1", "7"})))
		}
		return Leaf(hx.Pick(g.r, []GoVal{IntVal(0), IntVal(12), IntVal(-5), IntVal(9007199254740993), SignedVal("int64", math.MinInt64),
			UnsignedVal("uint64", math.MaxInt64), UnsignedVal("uint8", 200), SignedVal("int16", -32768), UnsignedVal("uint", 1<<63-1)}))
	}
	t := g.s.Type(name)
	if t == nil {
		return Null()
	}
	switch t.Kind {
	case "enum":
		return Leaf(hx.Pick(g.r, t.Values).Value)
	case "object":
		return g.node(name, subs, path)
	default:
		poss := g.s.PossibleTypes(name)
		if len(poss) == 0 {
			return Null()
		}
		i := g.r.Intn(len(poss))
		n := g.node(poss[i], subs, path)
		if t.Kind == "union" && i+1 < len(poss) && g.r.Chance(2, 3) {
			// overlapping IsTypeOf: later members accept the value too (a specific type declared before a
			// catch-all); resolution by declaration order still gives poss[i]
			for _, m := range poss[i+1:] {
				if g.r.Chance(1, 2) {
					n.Also = append(n.Also, m)
				}
			}
			if len(n.Also) == 0 {
				n.Also = []string{poss[len(poss)-1]}
			}
		}
		return n
	}
}

// BoundaryNumbers lists numeric leaf values of every Go integer and float kind at the boundaries that
// matter for result coercion: each kind's own min/max, ±2^31, 2^32, 2^53, 2^63, MaxUint64, integral
// and non-integral float32/float64 including values beyond the int64 range.
func BoundaryNumbers() []GoVal {
	var out []GoVal
	signed := map[string][2]int64{"int8": {math.MinInt8, math.MaxInt8}, "int16": {math.MinInt16, math.MaxInt16},
		"int32": {math.MinInt32, math.MaxInt32}, "int64": {math.MinInt64, math.MaxInt64}, "int": {math.MinInt64, math.MaxInt64}}
	unsigned := map[string]uint64{"uint8": math.MaxUint8, "uint16": math.MaxUint16, "uint32": math.MaxUint32,
		"uint64": math.MaxUint64, "uint": math.MaxUint64}
	interesting := []int64{0, 1, -1, 2, 127, 128, -128, -129, 255, 256, 32767, 32768, -32768, 65535, 65536,
		1<<31 - 1, 1 << 31, -(1 << 31), -(1 << 31) - 1, 1<<32 - 1, 1 << 32, 1<<53 - 1, 1 << 53, 1<<53 + 1, 1<<53 + 3, -(1 << 53) - 1,
		1<<62 + 1, math.MaxInt64 - 1, math.MaxInt64, math.MinInt64, math.MinInt64 + 1}
	for _, k := range IntKinds {
		if r, ok := signed[k]; ok {
			for _, z := range interesting {
				if z >= r[0] && z <= r[1] {
					out = append(out, SignedVal(k, z))
				}
			}
			out = append(out, SignedVal(k, r[0]), SignedVal(k, r[1]))
		} else {
			max := unsigned[k]
			for _, z := range interesting {
				if z >= 0 && uint64(z) <= max {
					out = append(out, UnsignedVal(k, uint64(z)))
				}
			}
			out = append(out, UnsignedVal(k, max), UnsignedVal(k, max-1))
			if max == math.MaxUint64 {
				out = append(out, UnsignedVal(k, 1<<63), UnsignedVal(k, 1<<63+1), UnsignedVal(k, 1<<63-1), UnsignedVal(k, 1<<63+1<<10+1))
			}
		}
	}
	for _, f := range []float64{0, 1, -1, 0.5, 2.5, -2.25, 3, 1e10, 0.1, 2147483647, 2147483648, -2147483648, -2147483649, 2147483647.5,
		4294967296, 9007199254740992, 9007199254740994, 9223372036854775808, -9223372036854775808, 1e19, -1e19, 1.8446744073709552e19, 1e300, 5e-324} {
		out = append(out, FloatVal(f))
	}
	for _, f := range []float32{0, 1, -1, 0.5, 2.5, 3, 16777216, 16777218, 2147483648, -2147483648, 2147483520, 4294967296, 9223372036854775808, 1e19, -1e19, 3.4e38, 1e-45} {
		out = append(out, Float32Val(f))
	}
	return out
}

var boundaryNumbers = BoundaryNumbers()

// Failure kinds that can be injected at a site.
var FailureKinds = []string{"null", "err", "tnil", "wrong", "range", "notlist", "badenum", "badtype"}

// Inject replaces the outcome at a site by a failure of the given kind. It reports whether the kind
// is applicable there.
func (g *worldGen) inject(site Site, kind string) bool {
	base := site.Type
	for base.Kind == "nonnull" {
		base = *base.Of
	}
	switch kind {
	case "null":
		*site.Slot = Null()
	case "tnil":
		*site.Slot = TypedNil()
	case "err":
		if !site.IsEntry {
			return false
		}
		g.errNo++
		*site.Slot = Fail(fmt.Sprintf("boom#%d", g.errNo))
	case "wrong":
		*site.Slot = Leaf(WrongVal())
	case "notlist":
		if base.Kind != "list" {
			return false
		}
		*site.Slot = Leaf(IntVal(1))
	case "range":
		if base.Kind != "named" {
			return false
		}
		switch base.Name {
		case "Int", "Float", "ID", "Boolean":
			// a number of any Go integer / float kind at a boundary (accepted or rejected, depending on the type)
			if g.r.Chance(1, 6) {
				*site.Slot = Leaf(hx.Pick(g.r, []GoVal{BoolVal(true), BoolVal(false), StrVal("1"), StrVal("true")}))
			} else {
				*site.Slot = Leaf(hx.Pick(g.r, boundaryNumbers))
			}
		case "String":
			*site.Slot = Leaf(hx.Pick(g.r, []GoVal{IntVal(3), BoolVal(false), FloatVal(1.5), UnsignedVal("uint8", 65)}))
		default:
			return false
		}
	case "badenum":
		if base.Kind != "named" {
			return false
		}
		t := g.s.Type(base.Name)
		if t == nil || t.Kind != "enum" {
			return false
		}
		cands := []GoVal{StrVal("nope"), IntVal(99), StrVal(t.Values[0].Name + "_"), BoolVal(true), FloatVal(0)}
		for _, ev := range t.Values {
			if ev.Value.Kind == "int" {
				// the same number as a declared value but of another Go type: not the same Go value
				cands = append(cands, SignedVal("int64", ev.Value.Int), UnsignedVal("uint8", uint64(ev.Value.Int)), FloatVal(float64(ev.Value.Int)))
			}
		}
		*site.Slot = Leaf(hx.Pick(g.r, cands))
	case "badtype":
		// an object of a type that is not a possible type here (abstract types only notice it)
		if base.Kind != "named" || !g.s.IsComposite(base.Name) {
			return false
		}
		var others []string
		for _, t := range g.s.Types {
			if t.Kind == "object" && !contains(g.s.PossibleTypes(base.Name), t.Name) {
				others = append(others, t.Name)
			}
		}
		if len(others) == 0 {
			*site.Slot = Obj("Nowhere")
		} else {
			*site.Slot = Obj(hx.Pick(g.r, others))
		}
	default:
		return false
	}
	return true
}

// World is a generated world with the sites at which outcomes can be replaced.
type World struct {
	Root  *Outcome
	Sites []Site
	g     *worldGen
}

// BaseWorld draws an error-free, well-typed world for running operation op of the request: one
// outcome for every field invocation the document can reach.
func BaseWorld(r *hx.Rand, s *SchemaDesc, req *Request, op *OpDesc) *World {
	g := &worldGen{r: r, s: s, doc: req.Doc, vars: req.Variables}
	root := s.Query
	switch op.Kind {
	case "mutation":
		root = s.Mutation
	case "subscription":
		root = s.Subscription
	}
	w := &World{g: g}
	w.Root = g.node(root, [][]*Sel{op.Sels}, "$")
	w.Sites = g.sites
	return w
}

// Inject replaces the outcome at site i; see FailureKinds.
func (w *World) Inject(i int, kind string) bool { return w.g.inject(w.Sites[i], kind) }

// RandomWorld draws a world and places 0–4 failures (null, resolver error, typed nil, wrong-kind
// value, out-of-range / wrong-type leaf, non-list for a list, undeclared enum value, object of an
// impossible type) at random sites, so that failures sit at every depth relative to non-null
// wrappers instead of wiping out the response near the root.
func RandomWorld(r *hx.Rand, s *SchemaDesc, req *Request, op *OpDesc) *Outcome {
	w := BaseWorld(r, s, req, op)
	if len(w.Sites) == 0 {
		return w.Root
	}
	if len(req.Focus) > 0 && r.Chance(1, 2) {
		// a resolver error on one of the fields a generated class points at (Request.Focus)
		var at []int
		for i, site := range w.Sites {
			for _, k := range req.Focus {
				if site.IsEntry && strings.HasSuffix(site.Path, "."+k) {
					at = append(at, i)
				}
			}
		}
		if len(at) > 0 {
			w.Inject(hx.Pick(r, at), hx.Pick(r, []string{"err", "err", "null"}))
		}
	}
	n := hx.Pick(r, []int{0, 1, 1, 1, 1, 2, 2, 3, 4})
	for i := 0; i < n; i++ {
		// later sites are deeper (sites are appended children first? no: in creation order) — pick uniformly
		site := r.Intn(len(w.Sites))
		for tries := 0; tries < 6; tries++ {
			kind := hx.Pick(r, []string{"null", "null", "err", "err", "tnil", "wrong", "range", "range", "notlist", "badenum", "badtype"})
			if w.Inject(site, kind) {
				break
			}
		}
	}
	return w.Root
}
