package gqlgen

import (
	"fmt"

	"verifharness/hx"
)

// MetaUse is a selection of an introspection meta field of the query root type (`__schema`, `__type`)
// that a harness puts where the placeholder `<Alias>: __typename` stands in a generated document.
// Text is the selection's source text without the alias.
//
// The meta fields are fields of the query root type WHEREVER that type is the parent (§4.1 / §4.2 of the
// June-2018 specification; the validator accepts them there): at the root of a query, and beneath it when
// a field has the query type (a `viewer: Query` field, a mutation payload's `query: Query`).
type MetaUse struct {
	Alias string `json:"alias"`
	Text  string `json:"text"`
}

// AddMetaPlaceholders inserts 1–3 placeholders `mt<i>: __typename` into selection sets whose type in scope
// is the query root type — nested ones first when the schema offers any (RandomSchema gives some object
// types a field of the query type) — and returns the meta selections to put there. The document itself
// stays free of introspection, so that it can go through references that do not model introspection; the
// caller substitutes the texts and compares with the placeholder document's result, the placeholder's
// value (the type name) replaced by what the same meta selection yields at the root of a query.
// Introspection results that depend on Go map iteration (lists of types, fields, …) are not selected.
func AddMetaPlaceholders(r *hx.Rand, s *SchemaDesc, req *Request) []MetaUse {
	var nested, root []place
	rootSets := map[*[]*Sel]bool{}
	for i := range req.Doc.Ops {
		rootSets[&req.Doc.Ops[i].Sels] = true
	}
	for _, p := range places(s, req) {
		if p.parent != s.Query {
			continue
		}
		if rootSets[p.sels] {
			root = append(root, p)
		} else {
			nested = append(nested, p)
		}
	}
	if len(nested) == 0 {
		// the document does not reach the query type beneath the root: select a field of that type where one
		// is offered (`mq: q { … }`); its selection set is then a nested place
		var cands []place
		all := places(s, req)
		for _, p := range all {
			if pt := s.Type(p.parent); pt != nil && pt.Kind == "object" {
				for i := range pt.Fields {
					if pt.Fields[i].Type.Base() == s.Query && len(pt.Fields[i].Args) == 0 {
						cands = append(cands, p)
						break
					}
				}
			}
		}
		if len(cands) > 0 {
			p := hx.Pick(r, preferListed(cands))
			pt := s.Type(p.parent)
			for i := range pt.Fields {
				if pt.Fields[i].Type.Base() == s.Query && len(pt.Fields[i].Args) == 0 {
					x := &Sel{Kind: "field", Alias: "mq", Name: pt.Fields[i].Name, Sels: []*Sel{{Kind: "field", Alias: "mqt", Name: "__typename"}}}
					*p.sels = insertKeepingOrder(r, *p.sels, []*Sel{x})
					nested = append(nested, place{s.Query, &x.Sels, p.inList})
					break
				}
			}
		}
	}
	if len(nested)+len(root) == 0 {
		return nil
	}
	typeNames := []string{"Int", "String", "Nope", s.Query}
	for _, t := range s.Types {
		typeNames = append(typeNames, t.Name)
	}
	text := func() string {
		switch r.Intn(6) {
		case 0:
			return "__schema { queryType { name } }"
		case 1:
			return "__schema { queryType { kind name } mutationType { name } subscriptionType { name } }"
		case 2:
			return "__schema { q: queryType { n: name t: __typename } }"
		case 3:
			return fmt.Sprintf("__type(name: %q) { kind name }", hx.Pick(r, typeNames))
		case 4:
			return fmt.Sprintf("__type(name: %q) { name ofType { name } t: __typename }", hx.Pick(r, typeNames))
		default:
			return fmt.Sprintf("__type(name: %q) { name }", hx.Pick(r, typeNames))
		}
	}
	var uses []MetaUse
	add := func(p place) {
		u := MetaUse{Alias: fmt.Sprintf("mt%d", len(uses)), Text: text()}
		uses = append(uses, u)
		*p.sels = insertKeepingOrder(r, *p.sels, []*Sel{{Kind: "field", Alias: u.Alias, Name: "__typename"}})
	}
	n := 1 + r.Intn(3)
	for i := 0; i < n; i++ {
		switch {
		case len(nested) > 0 && (len(root) == 0 || r.Chance(3, 4)):
			add(hx.Pick(r, nested))
		case len(root) > 0:
			add(hx.Pick(r, root))
		}
	}
	return uses
}

// HasNestedRoot reports whether some field of the schema has the query root type.
func (s *SchemaDesc) HasNestedRoot() bool {
	for _, t := range s.Types {
		for _, f := range t.Fields {
			if f.Type.Base() == s.Query {
				return true
			}
		}
	}
	return false
}
