package gqlgen

import (
	"errors"
	"math"
	"math/big"
	"strconv"

	"verifharness/hx"
)

// GoVal is a leaf value a resolver returns (also the Go value of an enum value).
//
// Kind "int" covers every Go integer type: IntKind names it ("" = "int"); signed values are in Int,
// values of the unsigned kinds in Uint. Kind "float" is a finite float64, or a float32 when FloatKind
// is "float32" (Float then holds a value exactly representable as float32).
type GoVal struct {
	Kind      string  `json:"kind"` // int | float | str | bool | wrong
	IntKind   string  `json:"int_kind,omitempty"`
	Int       int64   `json:"int,omitempty"`
	Uint      uint64  `json:"uint,omitempty"`
	FloatKind string  `json:"float_kind,omitempty"`
	Float     float64 `json:"float,omitempty"` // always finite; exactly m·2^e
	Str       string  `json:"str,omitempty"`
	Bool      bool    `json:"bool,omitempty"`
}

func IntVal(z int64) GoVal     { return GoVal{Kind: "int", IntKind: "int", Int: z} }
func FloatVal(f float64) GoVal { return GoVal{Kind: "float", FloatKind: "float64", Float: f} }
func StrVal(s string) GoVal    { return GoVal{Kind: "str", Str: s} }
func BoolVal(b bool) GoVal     { return GoVal{Kind: "bool", Bool: b} }
func WrongVal() GoVal          { return GoVal{Kind: "wrong"} }

// Float32Val is a float32 value.
func Float32Val(f float32) GoVal {
	return GoVal{Kind: "float", FloatKind: "float32", Float: float64(f)}
}

// IntKinds lists the Go integer kinds.
var IntKinds = []string{"int8", "uint8", "int16", "uint16", "int32", "uint32", "int64", "uint64", "int", "uint"}

// IsUnsignedKind reports whether the integer kind is unsigned.
func IsUnsignedKind(k string) bool { return len(k) > 0 && k[0] == 'u' }

// SignedVal is a value of a signed integer kind (the caller keeps it within the kind's range).
func SignedVal(kind string, z int64) GoVal { return GoVal{Kind: "int", IntKind: kind, Int: z} }

// UnsignedVal is a value of an unsigned integer kind (the caller keeps it within the kind's range).
func UnsignedVal(kind string, u uint64) GoVal { return GoVal{Kind: "int", IntKind: kind, Uint: u} }

// Canon fills in the defaults of the kind fields (older replay files have none).
func (g GoVal) Canon() GoVal {
	if g.Kind == "int" && g.IntKind == "" {
		g.IntKind = "int"
	}
	if g.Kind == "float" && g.FloatKind == "" {
		g.FloatKind = "float64"
	}
	return g
}

// Same reports whether two values are the same Go value (`==` on interface{}: same type, same value).
func (g GoVal) Same(h GoVal) bool { return g.Canon() == h.Canon() }

// BigInt returns the integer a Kind "int" value denotes.
func (g GoVal) BigInt() *big.Int {
	if IsUnsignedKind(g.Canon().IntKind) {
		return new(big.Int).SetUint64(g.Uint)
	}
	return big.NewInt(g.Int)
}

// wrongKind is a Go value no result coercer accepts.
type wrongKind struct{}

// Go returns the Go value handed to the library.
func (g GoVal) Go() interface{} {
	g = g.Canon()
	switch g.Kind {
	case "int":
		switch g.IntKind {
		case "int8":
			return int8(g.Int)
		case "uint8":
			return uint8(g.Uint)
		case "int16":
			return int16(g.Int)
		case "uint16":
			return uint16(g.Uint)
		case "int32":
			return int32(g.Int)
		case "uint32":
			return uint32(g.Uint)
		case "int64":
			return g.Int
		case "uint64":
			return g.Uint
		case "uint":
			return uint(g.Uint)
		}
		return int(g.Int)
	case "float":
		if g.FloatKind == "float32" {
			return float32(g.Float)
		}
		return g.Float
	case "str":
		return g.Str
	case "bool":
		return g.Bool
	}
	return wrongKind{}
}

// Dyadic returns (m, e) with f = m·2^e and m odd (or 0, 0).
func Dyadic(f float64) (int64, int64) {
	if f == 0 {
		return 0, 0
	}
	fr, exp := math.Frexp(f) // f = fr·2^exp, 0.5 ≤ |fr| < 1
	m := int64(fr * (1 << 53))
	e := int64(exp) - 53
	for m%2 == 0 {
		m /= 2
		e++
	}
	return m, e
}

// Sexp encodes the value for the Lean drivers: (i kind z) | (f kind m e) | (s "…") | (b true|false) | (w).
func (g GoVal) Sexp() hx.Sexp {
	g = g.Canon()
	switch g.Kind {
	case "int":
		return hx.N("i", hx.A(g.IntKind), hx.A(g.BigInt().String()))
	case "float":
		m, e := Dyadic(g.Float)
		return hx.N("f", hx.A(g.FloatKind), hx.I(m), hx.I(e))
	case "str":
		return hx.N("s", hx.A(g.Str))
	case "bool":
		return hx.N("b", hx.B(g.Bool))
	}
	return hx.N("w")
}

func (g GoVal) String() string {
	g = g.Canon()
	switch g.Kind {
	case "int":
		return g.IntKind + "(" + g.BigInt().String() + ")"
	case "float":
		return g.FloatKind + "(" + strconv.FormatFloat(g.Float, 'g', -1, 64) + ")"
	case "str":
		return strconv.Quote(g.Str)
	case "bool":
		return strconv.FormatBool(g.Bool)
	}
	return "<wrong>"
}

// Entry is one key of an object node.
type Entry struct {
	Key string   `json:"key"`
	Out *Outcome `json:"out"`
}

// Outcome is a resolver outcome tree. Kind "err" is only meaningful directly under an Entry (a
// resolver returns an error instead of a value); list items are values.
type Outcome struct {
	Kind   string     `json:"kind"` // leaf | null | tnil | err | list | obj
	Val    *GoVal     `json:"val,omitempty"`
	Msg    string     `json:"msg,omitempty"`
	Items  []*Outcome `json:"items,omitempty"`
	Type   string     `json:"type,omitempty"`
	Fields []Entry    `json:"fields,omitempty"`
	// Also (objects at union positions only): union members declared AFTER Type whose IsTypeOf accepts the
	// value as well. The executor takes the first accepting member in declaration order, i.e. Type — which
	// is all the reference and the Lean drivers see. (Interface positions never get such a value: the order
	// of an interface's implementations depends on Go map iteration in schema.New.)
	Also []string `json:"also,omitempty"`
	// Async: this field outcome is delivered through a ResolvePromise when the request runs with a
	// Scheduler (see async.go); ignored by the Lean drivers and by synchronous runs.
	Async bool `json:"async,omitempty"`
}

func Leaf(g GoVal) *Outcome    { return &Outcome{Kind: "leaf", Val: &g} }
func Null() *Outcome           { return &Outcome{Kind: "null"} }
func TypedNil() *Outcome       { return &Outcome{Kind: "tnil"} }
func Fail(msg string) *Outcome { return &Outcome{Kind: "err", Msg: msg} }
func List(items ...*Outcome) *Outcome {
	return &Outcome{Kind: "list", Items: items}
}
func Obj(typ string, fields ...Entry) *Outcome {
	return &Outcome{Kind: "obj", Type: typ, Fields: fields}
}

// Get returns the outcome stored under key (nil when absent).
func (o *Outcome) Get(key string) *Outcome {
	for _, e := range o.Fields {
		if e.Key == key {
			return e.Out
		}
	}
	return nil
}

// GoValue is what the generic resolver returns for this outcome.
func (o *Outcome) GoValue() (interface{}, error) {
	if o.Kind == "err" {
		return nil, errors.New(o.Msg)
	}
	return o.value(), nil
}

func (o *Outcome) value() interface{} {
	switch o.Kind {
	case "leaf":
		return o.Val.Go()
	case "null":
		return nil
	case "tnil":
		return (*Node)(nil)
	case "list":
		out := make([]interface{}, len(o.Items))
		for i, it := range o.Items {
			out[i] = it.value()
		}
		return out
	case "obj":
		return o.Node()
	case "err":
		// an error value inside a list: a value of a kind nothing accepts
		return wrongKind{}
	}
	return nil
}

// Node converts an object outcome into the Go value resolvers receive.
func (o *Outcome) Node() *Node {
	n := &Node{Type: o.Type, Fields: map[string]*Outcome{}, Also: o.Also}
	for _, e := range o.Fields {
		if _, dup := n.Fields[e.Key]; !dup { // first entry wins, as in the model's lookup
			n.Fields[e.Key] = e.Out
		}
	}
	return n
}

// Sexp encodes the world for the Lean drivers (see lean/ApiFu/C01/Main.lean).
func (o *Outcome) Sexp() hx.Sexp {
	switch o.Kind {
	case "leaf":
		return hx.N("leaf", o.Val.Sexp())
	case "null":
		return hx.N("null")
	case "tnil":
		return hx.N("tnil")
	case "list":
		xs := make([]hx.Sexp, len(o.Items))
		for i, it := range o.Items {
			xs[i] = it.Sexp()
		}
		return hx.N("list", xs...)
	case "obj":
		xs := []hx.Sexp{hx.A(o.Type)}
		for _, e := range o.Fields {
			if e.Out.Kind == "err" {
				xs = append(xs, hx.N("e", hx.A(e.Key), hx.N("err", hx.A(e.Out.Msg))))
			} else {
				xs = append(xs, hx.N("e", hx.A(e.Key), hx.N("val", e.Out.Sexp())))
			}
		}
		return hx.N("obj", xs...)
	}
	// "err" as a list item
	return hx.N("leaf", hx.N("w"))
}

// HasOverlap reports whether some object of the world is accepted by several IsTypeOf (Also).
func (o *Outcome) HasOverlap() bool {
	if o == nil {
		return false
	}
	if len(o.Also) > 0 {
		return true
	}
	for _, it := range o.Items {
		if it.HasOverlap() {
			return true
		}
	}
	for _, e := range o.Fields {
		if e.Out.HasOverlap() {
			return true
		}
	}
	return false
}

// Clone makes a deep copy.
func (o *Outcome) Clone() *Outcome {
	if o == nil {
		return nil
	}
	c := *o
	if o.Val != nil {
		v := *o.Val
		c.Val = &v
	}
	c.Items = make([]*Outcome, len(o.Items))
	for i, it := range o.Items {
		c.Items[i] = it.Clone()
	}
	if len(c.Items) == 0 {
		c.Items = nil
	}
	c.Fields = make([]Entry, len(o.Fields))
	for i, e := range o.Fields {
		c.Fields[i] = Entry{Key: e.Key, Out: e.Out.Clone()}
	}
	if len(c.Fields) == 0 {
		c.Fields = nil
	}
	return &c
}
