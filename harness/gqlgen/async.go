package gqlgen

import (
	"context"
	"errors"
	"fmt"

	"github.com/ccbrown/api-fu/graphql"

	"verifharness/hx"
)

// Scheduler delivers the outcomes marked Async through graphql.ResolvePromise: the generic resolver
// registers a promise instead of returning the outcome, and the request's IdleHandler (Idle) fulfils a
// non-empty, seeded-random subset of the pending promises each time execution cannot proceed. Put it
// into the request context with WithScheduler; without one every outcome is delivered synchronously.
type Scheduler struct {
	r       *hx.Rand
	pending []pendingPromise
	// Rounds counts IdleHandler invocations, Promises the promises created.
	Rounds, Promises int
	// AllAtOnce fulfils every pending promise in each round (in random order) instead of a subset.
	AllAtOnce bool
}

type pendingPromise struct {
	ch     graphql.ResolvePromise
	result graphql.ResolveResult
}

// NewScheduler creates a scheduler whose choices derive from seed.
func NewScheduler(seed uint64) *Scheduler { return &Scheduler{r: hx.NewRand(seed)} }

type schedulerKey struct{}

// WithScheduler attaches the scheduler to a context (use it as Request.Context).
func WithScheduler(ctx context.Context, s *Scheduler) context.Context {
	return context.WithValue(ctx, schedulerKey{}, s)
}

func schedulerOf(ctx context.Context) *Scheduler {
	if ctx == nil {
		return nil
	}
	s, _ := ctx.Value(schedulerKey{}).(*Scheduler)
	return s
}

func (s *Scheduler) promise(result graphql.ResolveResult) graphql.ResolvePromise {
	ch := make(graphql.ResolvePromise, 1)
	s.pending = append(s.pending, pendingPromise{ch: ch, result: result})
	s.Promises++
	return ch
}

// Idle is the request's IdleHandler. It panics when nothing is pending (the executor would spin) or
// after an absurd number of rounds.
func (s *Scheduler) Idle() {
	s.Rounds++
	if len(s.pending) == 0 {
		panic("idle handler invoked with no pending promise")
	}
	if s.Rounds > 100000 {
		panic("idle handler invoked more than 100000 times")
	}
	hx.Shuffle(s.r, s.pending)
	k := len(s.pending)
	if !s.AllAtOnce {
		k = s.r.Range(1, len(s.pending))
	}
	for _, p := range s.pending[:k] {
		p.ch <- p.result
	}
	s.pending = append([]pendingPromise{}, s.pending[k:]...)
}

// Resolve is what the generic resolver returns for this outcome: the outcome itself, or — when the
// outcome is marked Async and the context carries a Scheduler — a promise of it.
func (o *Outcome) Resolve(ctx context.Context) (interface{}, error) {
	if o.Async {
		if s := schedulerOf(ctx); s != nil {
			if o.Kind == "err" {
				return s.promise(graphql.ResolveResult{Error: errors.New(o.Msg)}), nil
			}
			return s.promise(graphql.ResolveResult{Value: o.value()}), nil
		}
	}
	return o.GoValue()
}

// HasAsync reports whether any field outcome below o is marked Async.
func (o *Outcome) HasAsync() bool {
	if o == nil {
		return false
	}
	for _, e := range o.Fields {
		if e.Out.Async || e.Out.HasAsync() {
			return true
		}
	}
	for _, it := range o.Items {
		if it.HasAsync() {
			return true
		}
	}
	return false
}

// MarkAsync marks field outcomes (entries of object nodes, at every depth) as delivered by promise:
// each with probability num/den. It returns how many were marked.
func (o *Outcome) MarkAsync(r *hx.Rand, num, den int) int {
	n := 0
	for i := range o.Fields {
		out := o.Fields[i].Out
		if r.Chance(num, den) {
			out.Async = true
			n++
		}
		n += out.MarkAsync(r, num, den)
	}
	for _, it := range o.Items {
		n += it.MarkAsync(r, num, den)
	}
	return n
}

// ClearAsync removes every Async mark.
func (o *Outcome) ClearAsync() {
	o.Async = false
	for i := range o.Fields {
		o.Fields[i].Out.ClearAsync()
	}
	for _, it := range o.Items {
		it.ClearAsync()
	}
}

func (s *Scheduler) String() string {
	return fmt.Sprintf("%d promises, %d idle rounds, %d still pending", s.Promises, s.Rounds, len(s.pending))
}
