package gqlgen

import (
	"fmt"
	"strconv"

	"verifharness/hx"
)

// ---- schemas ---------------------------------------------------------------------------------

var fieldNamePool = []string{"a", "b", "c", "d", "e", "f", "g", "h"}

// wrap draws a list / non-null nesting around a named type. Deep nestings ([[T!]!]!) are included.
func wrap(r *hx.Rand, base string) TypeRef {
	t := Named(base)
	switch r.Intn(16) {
	case 0, 1, 2, 3:
		return t
	case 4, 5, 6:
		return NonNull(t)
	case 7:
		return ListOf(t)
	case 8:
		return ListOf(NonNull(t))
	case 9:
		return NonNull(ListOf(t))
	case 10, 11:
		return NonNull(ListOf(NonNull(t)))
	case 12:
		return ListOf(ListOf(t))
	case 13:
		return ListOf(NonNull(ListOf(NonNull(t))))
	case 14:
		return NonNull(ListOf(ListOf(NonNull(t))))
	default:
		return NonNull(ListOf(NonNull(ListOf(t))))
	}
}

// RandomSchema draws a schema description: 2–5 object types (the first is Query), 0–2 interfaces
// with several implementations, 0–2 unions, 0–2 enums; a field name tends to have the same type and
// arguments wherever it occurs (so that fields merge across fragments on abstract types).
func RandomSchema(r *hx.Rand) *SchemaDesc {
	s := &SchemaDesc{Query: "Query"}
	nObj := r.Range(1, 4)
	nIface := r.Intn(3)
	nUnion := r.Intn(3)
	nEnum := r.Intn(3)
	var objs, ifaces, unions, enums []string
	objs = append(objs, "Query")
	for i := 1; i <= nObj; i++ {
		objs = append(objs, fmt.Sprintf("T%d", i))
	}
	for i := 1; i <= nIface; i++ {
		ifaces = append(ifaces, fmt.Sprintf("I%d", i))
	}
	for i := 1; i <= nUnion; i++ {
		unions = append(unions, fmt.Sprintf("U%d", i))
	}
	for i := 1; i <= nEnum; i++ {
		enums = append(enums, fmt.Sprintf("E%d", i))
	}
	leafBases := append(append([]string{}, BuiltinScalars...), enums...)
	compBases := append(append(append([]string{}, objs[1:]...), ifaces...), unions...)
	global := map[string]FieldDesc{}
	drawField := func(name string) FieldDesc {
		if f, ok := global[name]; ok && r.Chance(4, 5) {
			return f
		}
		var base string
		if len(compBases) > 0 && r.Chance(2, 5) {
			base = hx.Pick(r, compBases)
		} else {
			base = hx.Pick(r, leafBases)
		}
		f := FieldDesc{Name: name, Type: wrap(r, base)}
		if r.Chance(1, 3) {
			f.Args = append(f.Args, ArgDesc{Name: "k", Type: Named("Int")})
		}
		if r.Chance(1, 8) {
			f.Args = append(f.Args, ArgDesc{Name: "l", Type: ListOf(Named("Int"))})
		}
		if r.Chance(1, 6) {
			// a required argument the resolver ignores: a null reaching it (explicit null for a defaulted
			// variable) is a field error
			f.Args = append(f.Args, ArgDesc{Name: "r", Type: NonNull(Named("Int"))})
		}
		if _, ok := global[name]; !ok {
			global[name] = f
		}
		return f
	}
	ifaceFields := map[string][]FieldDesc{}
	for _, in := range ifaces {
		n := r.Range(1, 2)
		var fs []FieldDesc
		seen := map[string]bool{}
		for len(fs) < n {
			name := hx.Pick(r, fieldNamePool)
			if seen[name] {
				continue
			}
			seen[name] = true
			fs = append(fs, drawField(name))
		}
		ifaceFields[in] = fs
		s.Types = append(s.Types, TypeDesc{Kind: "interface", Name: in, Fields: fs})
	}
	for _, on := range objs {
		t := TypeDesc{Kind: "object", Name: on}
		seen := map[string]bool{}
		if on != "Query" {
			for _, in := range ifaces {
				if r.Chance(1, 2) {
					ok := true
					for _, f := range ifaceFields[in] {
						if seen[f.Name] && t.Field(f.Name).Type.String() != f.Type.String() {
							ok = false
						}
					}
					if !ok {
						continue
					}
					t.Interfaces = append(t.Interfaces, in)
					for _, f := range ifaceFields[in] {
						if seen[f.Name] {
							continue
						}
						seen[f.Name] = true
						// covariance: the object's field may be non-null where the interface's is nullable
						if !f.Type.IsNonNull() && r.Chance(1, 5) {
							f.Type = NonNull(f.Type)
						}
						t.Fields = append(t.Fields, f)
					}
				}
			}
		}
		n := r.Range(2, 5)
		if on == "Query" {
			n = r.Range(3, 6)
		}
		for tries := 0; len(t.Fields) < n && tries < 40; tries++ {
			name := hx.Pick(r, fieldNamePool)
			if seen[name] {
				continue
			}
			seen[name] = true
			f := drawField(name)
			if on == "Query" && f.Type.IsNonNull() && r.Chance(2, 3) {
				// keep most root fields nullable: a failure then nulls a subtree, not the whole response
				f.Type = *f.Type.Of
			}
			t.Fields = append(t.Fields, f)
		}
		s.Types = append(s.Types, t)
	}
	for _, un := range unions {
		t := TypeDesc{Kind: "union", Name: un}
		if len(objs) > 1 {
			pool := append([]string{}, objs[1:]...)
			hx.Shuffle(r, pool)
			t.Members = pool[:r.Range(1, len(pool))]
		} else {
			t.Members = []string{"Query"}
		}
		s.Types = append(s.Types, t)
	}
	for _, en := range enums {
		t := TypeDesc{Kind: "enum", Name: en}
		n := r.Range(1, 3)
		for i := 0; i < n; i++ {
			var v GoVal
			switch r.Intn(3) {
			case 0:
				v = StrVal(fmt.Sprintf("%s_v%d", en, i))
			case 1:
				v = IntVal(int64(i))
			default:
				v = StrVal(fmt.Sprintf("V%d", i)) // equal to the name
			}
			t.Values = append(t.Values, EnumValDesc{Name: fmt.Sprintf("V%d", i), Value: v})
		}
		s.Types = append(s.Types, t)
	}
	// an interface nobody implements is legal; keep it (the executor then cannot determine a type)
	if r.Chance(1, 5) && len(objs) > 1 {
		s.Mutation = hx.Pick(r, objs[1:])
	}
	if r.Chance(1, 10) && len(objs) > 1 {
		s.Subscription = hx.Pick(r, objs[1:])
	}
	if r.Chance(1, 6) {
		// root types are also field types: some object types (the query type itself, a mutation payload, …)
		// get a field of the query root type, possibly behind list / non-null wrappers (meta.go)
		q := r.Fork()
		n := 1 + q.Intn(2)
		for i := 0; i < n; i++ {
			t := s.Type(hx.Pick(q, objs))
			if t == nil || t.Field("q") != nil {
				continue
			}
			ft := wrap(q, "Query")
			if q.Chance(1, 2) {
				ft = Named("Query")
			}
			t.Fields = append(t.Fields, FieldDesc{Name: "q", Type: ft})
		}
	}
	if r.Chance(1, 15) {
		// long identifiers (classes.go)
		longSchemaNames(r.Fork(), s)
	}
	return s
}

// ---- documents -------------------------------------------------------------------------------

// Request is a generated document with the variables and operation name to run it with.
type Request struct {
	Doc       *DocDesc               `json:"doc"`
	Variables map[string]interface{} `json:"variables,omitempty"`
	OpName    string                 `json:"op_name,omitempty"`
	// Classes names the special input classes applied to this request (classes.go); Focus lists world keys
	// of fields on which RandomWorld should (half of the time) place a resolver error.
	Classes []string `json:"-"`
	Focus   []string `json:"-"`
}

type docGen struct {
	r        *hx.Rand
	s        *SchemaDesc
	doc      *DocDesc
	inProg   map[string]bool
	used     map[string]bool // variables used
	noVars   bool
	fragLeft int
	maxDepth int
	vars     map[string]interface{}
}

// overlapping lists the composite types whose possible types intersect those of parent.
func (g *docGen) overlapping(parent string) []string {
	pp := g.s.PossibleTypes(parent)
	var out []string
	for _, t := range g.s.Types {
		if !g.s.IsComposite(t.Name) {
			continue
		}
		for _, x := range g.s.PossibleTypes(t.Name) {
			if contains(pp, x) {
				out = append(out, t.Name)
				break
			}
		}
	}
	if !contains(out, parent) {
		out = append(out, parent) // e.g. an interface without implementations
	}
	return out
}

func (g *docGen) dirs() []DirUse {
	if !g.r.Chance(1, 5) {
		return nil
	}
	n := 1
	if g.r.Chance(1, 6) {
		n = 2
	}
	var out []DirUse
	names := []string{"skip", "include"}
	hx.Shuffle(g.r, names)
	for i := 0; i < n; i++ {
		d := DirUse{Name: names[i]}
		if g.noVars || g.r.Chance(1, 2) {
			b := g.r.Bool()
			d.Lit = &b
		} else {
			d.Var = hx.Pick(g.r, []string{"b0", "b1", "bd", "bd", "bn"})
			g.used[d.Var] = true
		}
		out = append(out, d)
	}
	return out
}

func (g *docGen) field(parent *TypeDesc, f *FieldDesc, depth int) *Sel {
	s := &Sel{Kind: "field", Name: f.Name, Dirs: g.dirs()}
	for _, a := range f.Args {
		switch a.role() {
		case "k":
			switch {
			case g.r.Chance(1, 2):
			case g.noVars || g.r.Chance(3, 4):
				k := g.r.Intn(3)
				s.Args = append(s.Args, ArgUse{Name: "k", Value: strconv.Itoa(k)})
				if g.r.Chance(3, 4) {
					s.Alias = fmt.Sprintf("%s%d", f.Name, k)
				}
			default:
				s.Args = append(s.Args, ArgUse{Name: "k", Value: "$k0"})
				g.used["k0"] = true
				if g.r.Chance(3, 4) {
					s.Alias = f.Name + "v"
				}
			}
		case "r":
			if g.noVars || g.r.Chance(3, 5) {
				s.Args = append(s.Args, ArgUse{Name: a.Name, Value: hx.Pick(g.r, []string{"1", "2"})})
			} else {
				// a nullable variable with a default is allowed at a non-null argument
				s.Args = append(s.Args, ArgUse{Name: a.Name, Value: "$nd"})
				g.used["nd"] = true
			}
		case "l":
			switch {
			case g.r.Chance(1, 2):
			case g.noVars || g.r.Chance(3, 4):
				s.Args = append(s.Args, ArgUse{Name: a.Name, Value: hx.Pick(g.r, []string{"[1, 2]", "[]", "3", "null"})})
			default:
				// an unset nullable variable inside a list literal: validates, fails at run time (F-05d / F-01a)
				s.Args = append(s.Args, ArgUse{Name: a.Name, Value: "[1, $u]"})
				g.used["u"] = true
			}
		}
	}
	if s.Alias == "" && g.r.Chance(1, 7) {
		s.Alias = hx.Pick(g.r, []string{"x", "y", "a", "b"})
	}
	if base := f.Type.Base(); g.s.IsComposite(base) {
		s.Sels = g.selSet(base, depth+1)
	}
	return s
}

func (g *docGen) selSet(parent string, depth int) []*Sel {
	pt := g.s.Type(parent)
	n := 1 + g.r.Intn(3)
	if depth == 0 {
		n = 1 + g.r.Intn(4)
	}
	var out []*Sel
	for len(out) < n {
		w := g.r.Intn(12)
		switch {
		case w < 7 && pt != nil && len(pt.Fields) > 0:
			// a field; beyond the depth limit only leaf fields
			var cands []*FieldDesc
			for i := range pt.Fields {
				if depth < g.maxDepth || !g.s.IsComposite(pt.Fields[i].Type.Base()) {
					cands = append(cands, &pt.Fields[i])
				}
			}
			if len(cands) == 0 {
				out = append(out, &Sel{Kind: "field", Name: "__typename"})
				continue
			}
			f := hx.Pick(g.r, cands)
			sel := g.field(pt, f, depth)
			out = append(out, sel)
			if g.r.Chance(1, 4) {
				// the same field again (same alias and arguments) with its own sub-selection: must merge
				dup := &Sel{Kind: "field", Name: sel.Name, Alias: sel.Alias, Args: append([]ArgUse{}, sel.Args...), Dirs: g.dirs()}
				if len(sel.Sels) > 0 {
					dup.Sels = g.selSet(f.Type.Base(), depth+1)
				}
				switch g.r.Intn(3) {
				case 0:
					out = append(out, dup)
				case 1:
					out = append(out, &Sel{Kind: "inline", TypeCond: hx.Pick(g.r, []string{"", parent}), Sels: []*Sel{dup}, Dirs: g.dirs()})
				default:
					if g.fragLeft > 0 {
						g.fragLeft--
						name := fmt.Sprintf("F%d", len(g.doc.Frags)+len(g.inProg))
						g.inProg[name] = true
						fr := FragDesc{Name: name, TypeCond: parent, Sels: []*Sel{dup}}
						delete(g.inProg, name)
						g.doc.Frags = append(g.doc.Frags, fr)
						out = append(out, &Sel{Kind: "spread", Name: name, Dirs: g.dirs()})
					} else {
						out = append(out, dup)
					}
				}
			}
		case w < 8:
			s := &Sel{Kind: "field", Name: "__typename", Dirs: g.dirs()}
			if g.r.Chance(1, 4) {
				s.Alias = hx.Pick(g.r, []string{"t", "x"})
			}
			out = append(out, s)
		case w < 10 && depth < g.maxDepth+1:
			tc := ""
			inner := parent
			if g.r.Chance(3, 4) {
				tc = hx.Pick(g.r, g.overlapping(parent))
				inner = tc
			}
			out = append(out, &Sel{Kind: "inline", TypeCond: tc, Dirs: g.dirs(), Sels: g.selSet(inner, depth+1)})
		case depth < g.maxDepth+1:
			// a fragment spread: reuse a finished fragment whose type condition can apply here, or make one
			over := g.overlapping(parent)
			var reuse []string
			for _, f := range g.doc.Frags {
				if contains(over, f.TypeCond) {
					reuse = append(reuse, f.Name)
				}
			}
			if len(reuse) > 0 && (g.fragLeft == 0 || g.r.Chance(1, 2)) {
				name := hx.Pick(g.r, reuse)
				out = append(out, &Sel{Kind: "spread", Name: name, Dirs: g.dirs()})
				if fr := g.doc.Frag(name); fr != nil && fr.TypeCond == parent && g.r.Chance(1, 2) {
					// a sibling that selects one of the fragment's composite fields again: the fragment's field
					// node then merges with different partners in different places
					for _, fs := range fr.Sels {
						if fs.Kind == "field" && len(fs.Sels) > 0 && pt != nil && pt.Field(fs.Name) != nil {
							out = append(out, &Sel{Kind: "field", Name: fs.Name, Alias: fs.Alias, Args: append([]ArgUse{}, fs.Args...),
								Sels: g.selSet(pt.Field(fs.Name).Type.Base(), depth+1)})
							break
						}
					}
				}
			} else if g.fragLeft > 0 {
				g.fragLeft--
				name := fmt.Sprintf("F%d", len(g.doc.Frags)+len(g.inProg))
				g.inProg[name] = true
				tc := hx.Pick(g.r, over)
				sels := g.selSet(tc, depth+1)
				delete(g.inProg, name)
				g.doc.Frags = append(g.doc.Frags, FragDesc{Name: name, TypeCond: tc, Sels: sels})
				out = append(out, &Sel{Kind: "spread", Name: name, Dirs: g.dirs()})
			}
		}
	}
	return out
}

// RandomRequest draws a document that is valid by construction in most cases (the caller still
// runs the real validator and discards rejects), with variables and an operation name.
func RandomRequest(r *hx.Rand, s *SchemaDesc) *Request {
	g := &docGen{r: r, s: s, doc: &DocDesc{}, inProg: map[string]bool{}, used: map[string]bool{},
		fragLeft: r.Intn(4), maxDepth: r.Range(1, 3)}
	req := &Request{Doc: g.doc}
	multi := r.Chance(1, 10)
	g.noVars = multi || r.Chance(1, 4)
	kinds := []string{"", "query", "query"}
	if s.Mutation != "" {
		kinds = append(kinds, "mutation", "mutation")
	}
	rootOf := func(kind string) string {
		switch kind {
		case "mutation":
			return s.Mutation
		case "subscription":
			return s.Subscription
		}
		return s.Query
	}
	if multi {
		for _, name := range []string{"A", "B"} {
			kind := hx.Pick(r, kinds[1:])
			g.doc.Ops = append(g.doc.Ops, OpDesc{Kind: kind, Name: name, Sels: g.selSet(rootOf(kind), 0)})
		}
		req.OpName = hx.Pick(r, []string{"A", "B", "A", "B", "", "C"})
	} else {
		kind := hx.Pick(r, kinds)
		if s.Subscription != "" && r.Chance(1, 3) {
			kind = "subscription"
		}
		op := OpDesc{Kind: kind}
		if kind != "" && r.Chance(1, 2) {
			op.Name = "Q"
			if r.Chance(1, 2) {
				req.OpName = "Q"
			}
		}
		if kind == "subscription" {
			// exactly one root field
			rt := s.Type(rootOf(kind))
			f := &rt.Fields[r.Intn(len(rt.Fields))]
			op.Sels = []*Sel{g.field(rt, f, 0)}
			op.Sels[0].Dirs = nil
		} else {
			op.Sels = g.selSet(rootOf(kind), 0)
		}
		// variables
		vars := map[string]interface{}{}
		defs := []VarDef{}
		for _, v := range []string{"b0", "b1", "bd", "bn", "k0", "u", "nd"} {
			if !g.used[v] {
				continue
			}
			switch v {
			case "b0", "b1":
				defs = append(defs, VarDef{Name: v, Type: "Boolean!"})
				vars[v] = r.Bool()
			case "bd":
				defs = append(defs, VarDef{Name: v, Type: "Boolean", Default: strconv.FormatBool(r.Bool())})
				switch r.Intn(8) {
				case 0:
					vars[v] = nil // explicitly null: the default does not apply
				case 1, 2, 3:
					vars[v] = r.Bool()
				}
			case "bn":
				defs = append(defs, VarDef{Name: v, Type: "Boolean!", Default: strconv.FormatBool(r.Bool())})
				switch r.Intn(10) {
				case 0:
					vars[v] = nil // explicitly null for a non-null variable: a request error, whatever the default
				case 1, 2, 3, 4:
					vars[v] = r.Bool()
				}
			case "nd":
				defs = append(defs, VarDef{Name: v, Type: "Int", Default: "7"})
				switch r.Intn(3) {
				case 0:
					vars[v] = nil // explicitly null: the default does not apply, a non-null argument fails
				case 1:
					vars[v] = r.Intn(5)
				}
			case "k0":
				defs = append(defs, VarDef{Name: v, Type: "Int"})
				vars[v] = r.Intn(3)
			case "u":
				defs = append(defs, VarDef{Name: v, Type: "Int"})
			}
		}
		if len(defs) > 0 {
			if op.Kind == "" {
				op.Kind = "query"
			}
			op.Vars = defs
			req.Variables = vars
		}
		g.doc.Ops = append(g.doc.Ops, op)
	}
	applyClasses(r.Fork(), s, req)
	// definition order: operations and fragments interleaved at random
	for i := range g.doc.Ops {
		g.doc.Order = append(g.doc.Order, fmt.Sprintf("o%d", i))
	}
	for i := range g.doc.Frags {
		g.doc.Order = append(g.doc.Order, fmt.Sprintf("f%d", i))
	}
	if r.Chance(1, 2) {
		hx.Shuffle(r, g.doc.Order)
	}
	return req
}
