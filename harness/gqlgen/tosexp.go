package gqlgen

import (
	"github.com/ccbrown/api-fu/graphql"
	"github.com/ccbrown/api-fu/graphql/ast"
	"github.com/ccbrown/api-fu/graphql/executor"
	"github.com/ccbrown/api-fu/graphql/schema"
	"github.com/ccbrown/api-fu/graphql/validator"

	"verifharness/hx"
)

func optStr(s string, present bool) hx.Sexp {
	if !present {
		return hx.L(hx.A("none"))
	}
	return hx.N("some", hx.A(s))
}

// Sexp encodes a type reference: (n "N") | (l t) | (nn t).
func (t TypeRef) Sexp() hx.Sexp {
	switch t.Kind {
	case "list":
		return hx.N("l", t.Of.Sexp())
	case "nonnull":
		return hx.N("nn", t.Of.Sexp())
	}
	return hx.N("n", hx.A(t.Name))
}

// Sexp encodes the schema description for the Lean drivers (see lean/ApiFu/C01/Main.lean).
func (s *SchemaDesc) Sexp() hx.Sexp {
	types := []hx.Sexp{
		hx.N("scalar", hx.A("Int"), hx.A("int")), hx.N("scalar", hx.A("Float"), hx.A("float")),
		hx.N("scalar", hx.A("String"), hx.A("string")), hx.N("scalar", hx.A("Boolean"), hx.A("boolean")),
		hx.N("scalar", hx.A("ID"), hx.A("id")),
	}
	fields := func(fs []FieldDesc) hx.Sexp {
		xs := []hx.Sexp{}
		for _, f := range fs {
			xs = append(xs, hx.N("f", hx.A(f.Name), f.Type.Sexp()))
		}
		return hx.N("fields", xs...)
	}
	strs := func(tag string, ss []string) hx.Sexp {
		xs := []hx.Sexp{}
		for _, x := range ss {
			xs = append(xs, hx.A(x))
		}
		return hx.N(tag, xs...)
	}
	for _, t := range s.Types {
		switch t.Kind {
		case "object":
			types = append(types, hx.N("object", hx.A(t.Name), strs("ifaces", t.Interfaces), fields(t.Fields)))
		case "interface":
			types = append(types, hx.N("interface", hx.A(t.Name), fields(t.Fields)))
		case "union":
			types = append(types, hx.N("union", hx.A(t.Name), strs("members", t.Members)))
		case "enum":
			xs := []hx.Sexp{}
			for _, v := range t.Values {
				xs = append(xs, hx.N("v", hx.A(v.Name), v.Value.Sexp()))
			}
			types = append(types, hx.N("enum", hx.A(t.Name), hx.N("values", xs...)))
		}
	}
	return hx.N("schema", hx.A(s.Query), optStr(s.Mutation, s.Mutation != ""), optStr(s.Subscription, s.Subscription != ""), hx.N("types", types...))
}

// DocStats counts what a converted document contains (for the evidence distribution).
type DocStats struct {
	Fields, Spreads, Inlines, Directives, VarDirectives, Aliases, ArgErrs, Typenames, MaxDepth int
	// DirErrs counts @skip/@include whose arguments cannot be coerced at run time (explicit null for a
	// defaulted variable): the executor then reports the coercion error and leaves the selection out;
	// the C01 model does not cover that path (input coercion is C05's), callers discard such cases.
	DirErrs int
	// DupPositions counts selection nodes whose (line, column) equals that of an earlier selection node
	// (must be 0 for parsed documents; the executor's memo key relies on it).
	DupPositions int
	// EmptyKeys counts field selections whose response key is empty (impossible for parsed documents).
	EmptyKeys int
}

type astConv struct {
	b     *Built
	vars  map[string]interface{}
	stats *DocStats
	seen  map[[2]int]bool
}

// DocSexp converts a parsed (and validated) document into the S-expression of the Lean drivers.
// What the executor needs from input coercion is computed here with the library's own (exported)
// coercion functions and shipped as data: per @skip/@include the boolean its `if` coerces to, per
// field node the world key derived from its coerced arguments, or the argument-coercion error.
// coercedVars are the operation's coerced variable values (validator.CoerceVariableValues).
func DocSexp(b *Built, doc *ast.Document, coercedVars map[string]interface{}) (hx.Sexp, *DocStats) {
	c := &astConv{b: b, vars: coercedVars, stats: &DocStats{}, seen: map[[2]int]bool{}}
	ops := []hx.Sexp{}
	frags := []hx.Sexp{}
	for _, def := range doc.Definitions {
		switch def := def.(type) {
		case *ast.OperationDefinition:
			kind := "query"
			if def.OperationType != nil {
				kind = def.OperationType.Value
			}
			var root schema.NamedType
			switch kind {
			case "query":
				root = nt(b.Schema.QueryType())
			case "mutation":
				root = nt(b.Schema.MutationType())
			case "subscription":
				root = nt(b.Schema.SubscriptionType())
			}
			name := hx.L(hx.A("none"))
			if def.Name != nil {
				name = hx.N("some", hx.A(def.Name.Name))
			}
			p := def.Position()
			ops = append(ops, hx.N("op", hx.A(kind), name, hx.I(int64(p.Line)), hx.I(int64(p.Column)), c.sels(def.SelectionSet, root, 1)))
		case *ast.FragmentDefinition:
			tc := b.Schema.NamedTypes()[def.TypeCondition.Name.Name]
			frags = append(frags, hx.N("frag", hx.A(def.Name.Name), hx.A(def.TypeCondition.Name.Name), c.sels(def.SelectionSet, tc, 1)))
		}
	}
	return hx.N("doc", hx.N("ops", ops...), hx.N("frags", frags...)), c.stats
}

func nt(o *schema.ObjectType) schema.NamedType {
	if o == nil {
		return nil
	}
	return o
}

func (c *astConv) dirs(ds []*ast.Directive) hx.Sexp {
	xs := []hx.Sexp{}
	for _, d := range ds {
		c.stats.Directives++
		if len(d.Arguments) == 1 {
			if _, isVar := d.Arguments[0].Value.(*ast.Variable); isVar {
				c.stats.VarDirectives++
			}
		}
		x := hx.N("other")
		if def := c.b.Schema.Directives()[d.Name.Name]; def != nil && def.FieldCollectionFilter != nil {
			args, err := validator.CoerceArgumentValues(d, def.Arguments, d.Arguments, c.vars)
			if err != nil {
				c.stats.DirErrs++
			} else {
				if v, ok := args["if"].(bool); ok {
					switch d.Name.Name {
					case "skip":
						x = hx.N("skip", hx.B(v))
					case "include":
						x = hx.N("incl", hx.B(v))
					}
				}
			}
		}
		xs = append(xs, x)
	}
	return hx.N("dirs", xs...)
}

func fieldDefOn(parent schema.NamedType, name string) *schema.FieldDefinition {
	switch p := parent.(type) {
	case *schema.ObjectType:
		return p.Fields[name]
	case *schema.InterfaceType:
		return p.Fields[name]
	}
	return nil
}

func (c *astConv) sels(set *ast.SelectionSet, parent schema.NamedType, depth int) hx.Sexp {
	xs := []hx.Sexp{}
	if set == nil {
		return hx.N("sels")
	}
	if depth > c.stats.MaxDepth {
		c.stats.MaxDepth = depth
	}
	for _, sel := range set.Selections {
		p := sel.Position()
		if c.seen[[2]int{p.Line, p.Column}] {
			c.stats.DupPositions++
		}
		c.seen[[2]int{p.Line, p.Column}] = true
		line, col := hx.I(int64(p.Line)), hx.I(int64(p.Column))
		switch sel := sel.(type) {
		case *ast.Field:
			c.stats.Fields++
			alias := hx.L(hx.A("none"))
			if sel.Alias != nil {
				c.stats.Aliases++
				alias = hx.N("some", hx.A(sel.Alias.Name))
			}
			if sel.Name.Name == "" || (sel.Alias != nil && sel.Alias.Name == "") {
				c.stats.EmptyKeys++
			}
			wkey := sel.Name.Name
			argErr := hx.L(hx.A("none"))
			var child schema.NamedType
			if sel.Name.Name == "__typename" {
				c.stats.Typenames++
			} else if def := fieldDefOn(parent, sel.Name.Name); def != nil {
				args, err := validator.CoerceArgumentValues(sel, def.Arguments, sel.Arguments, c.vars)
				if err != nil {
					c.stats.ArgErrs++
					locs := []hx.Sexp{}
					for _, l := range err.Locations {
						locs = append(locs, hx.L(hx.I(int64(l.Line)), hx.I(int64(l.Column))))
					}
					argErr = hx.N("some", hx.N("ae", hx.A(err.Message), hx.N("locs", locs...)))
				} else {
					wkey = WorldKey(sel.Name.Name, args)
				}
				child = schema.UnwrappedType(def.Type)
			}
			xs = append(xs, hx.N("fld", line, col, alias, hx.A(sel.Name.Name), hx.A(wkey), argErr, c.dirs(sel.Directives), c.sels(sel.SelectionSet, child, depth+1)))
		case *ast.FragmentSpread:
			c.stats.Spreads++
			xs = append(xs, hx.N("spr", line, col, hx.A(sel.FragmentName.Name), c.dirs(sel.Directives)))
		case *ast.InlineFragment:
			c.stats.Inlines++
			tc := hx.L(hx.A("none"))
			inner := parent
			if sel.TypeCondition != nil {
				tc = hx.N("some", hx.A(sel.TypeCondition.Name.Name))
				inner = c.b.Schema.NamedTypes()[sel.TypeCondition.Name.Name]
			}
			xs = append(xs, hx.N("inl", line, col, tc, c.dirs(sel.Directives), c.sels(sel.SelectionSet, inner, depth)))
		}
	}
	return hx.N("sels", xs...)
}

// CoercedVariables returns the coerced variable values of the operation the request selects (nil
// when no operation is selected — execution then fails before using them). ok=false: the variables
// are not coercible (the case is outside C01's quantifier).
func CoercedVariables(b *Built, doc *ast.Document, opName string, raw map[string]interface{}) (map[string]interface{}, bool) {
	op, err := executor.GetOperation(doc, opName)
	if err != nil {
		return nil, true
	}
	vars, verr := validator.CoerceVariableValues(b.Schema, graphql.FeatureSet(nil), op, raw)
	if verr != nil {
		return nil, false
	}
	return vars, true
}
