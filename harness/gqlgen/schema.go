// Package gqlgen holds the generators shared by the execution-related harnesses (C01, later C03 and
// C13): JSON-serialisable schema descriptions that build into a real graphql.Schema with generic
// resolvers, resolver "worlds" (outcome trees), type-directed document generation, and the
// conversion of a parsed document into the S-expression the Lean drivers read.
//
// Conventions every generated schema follows:
//
//   - every object field is resolved by the same generic resolver: "look my key up in my parent's
//     node" (see World); the key is the field name, or "<name>#<k>" when the field has an Int
//     argument `k` and the request supplied it;
//   - IsTypeOf of every object type is "the value is a *Node whose Type is my name";
//   - the only directives are @skip and @include;
//   - only built-in scalars (Int, Float, String, Boolean, ID) and generated enums are leaves.
package gqlgen

import (
	"fmt"

	"github.com/ccbrown/api-fu/graphql"
)

// TypeRef is a type reference with arbitrary list / non-null nesting.
type TypeRef struct {
	Kind string   `json:"k"`            // "named" | "list" | "nonnull"
	Name string   `json:"n,omitempty"`  // for "named"
	Of   *TypeRef `json:"of,omitempty"` // for "list" / "nonnull"
}

func Named(n string) TypeRef    { return TypeRef{Kind: "named", Name: n} }
func ListOf(t TypeRef) TypeRef  { return TypeRef{Kind: "list", Of: &t} }
func NonNull(t TypeRef) TypeRef { return TypeRef{Kind: "nonnull", Of: &t} }

// Base returns the innermost named type.
func (t TypeRef) Base() string {
	for t.Kind != "named" {
		t = *t.Of
	}
	return t.Name
}

// IsNonNull reports whether the outermost wrapper is non-null.
func (t TypeRef) IsNonNull() bool { return t.Kind == "nonnull" }

func (t TypeRef) String() string {
	switch t.Kind {
	case "list":
		return "[" + t.Of.String() + "]"
	case "nonnull":
		return t.Of.String() + "!"
	}
	return t.Name
}

// ArgDesc is an argument definition. Only two shapes are generated: `k: Int` (selects the world
// key) and `l: [Int]` (ignored by the resolver; exists so that a run-time coercion error can occur).
type ArgDesc struct {
	Name string  `json:"name"`
	Type TypeRef `json:"type"`
	// Role is the generated shape ("k", "l", "r") when Name has been replaced by a long identifier
	// ("" = Name). The argument of role "k" is never renamed: the generic resolver reads it by name.
	Role string `json:"role,omitempty"`
}

func (a ArgDesc) role() string {
	if a.Role != "" {
		return a.Role
	}
	return a.Name
}

type FieldDesc struct {
	Name string    `json:"name"`
	Type TypeRef   `json:"type"`
	Args []ArgDesc `json:"args,omitempty"`
}

// EnumValDesc is one enum value: its name and the Go value resolvers return for it.
type EnumValDesc struct {
	Name  string `json:"name"`
	Value GoVal  `json:"value"`
}

type TypeDesc struct {
	Kind       string        `json:"kind"` // object | interface | union | enum
	Name       string        `json:"name"`
	Fields     []FieldDesc   `json:"fields,omitempty"`
	Interfaces []string      `json:"interfaces,omitempty"`
	Members    []string      `json:"members,omitempty"`
	Values     []EnumValDesc `json:"values,omitempty"`
}

// SchemaDesc describes a schema. Built-in scalars are implicit.
type SchemaDesc struct {
	Types        []TypeDesc `json:"types"`
	Query        string     `json:"query"`
	Mutation     string     `json:"mutation,omitempty"`
	Subscription string     `json:"subscription,omitempty"`
}

var BuiltinScalars = []string{"Int", "Float", "String", "Boolean", "ID"}

func IsBuiltinScalar(n string) bool {
	for _, b := range BuiltinScalars {
		if b == n {
			return true
		}
	}
	return false
}

// Type returns the description of a named type (nil for built-in scalars and unknown names).
func (s *SchemaDesc) Type(name string) *TypeDesc {
	for i := range s.Types {
		if s.Types[i].Name == name {
			return &s.Types[i]
		}
	}
	return nil
}

// Field returns the description of a field of an object or interface type.
func (t *TypeDesc) Field(name string) *FieldDesc {
	for i := range t.Fields {
		if t.Fields[i].Name == name {
			return &t.Fields[i]
		}
	}
	return nil
}

// IsComposite reports whether name is an object, interface or union type.
func (s *SchemaDesc) IsComposite(name string) bool {
	t := s.Type(name)
	return t != nil && (t.Kind == "object" || t.Kind == "interface" || t.Kind == "union")
}

// PossibleTypes lists the object types a value of the named composite type can have, in
// declaration order.
func (s *SchemaDesc) PossibleTypes(name string) []string {
	t := s.Type(name)
	if t == nil {
		return nil
	}
	switch t.Kind {
	case "object":
		return []string{name}
	case "union":
		return append([]string{}, t.Members...)
	case "interface":
		var out []string
		for _, o := range s.Types {
			if o.Kind == "object" && contains(o.Interfaces, name) {
				out = append(out, o.Name)
			}
		}
		return out
	}
	return nil
}

func contains(xs []string, x string) bool {
	for _, y := range xs {
		if y == x {
			return true
		}
	}
	return false
}

// Node is the Go value of an object in a world. Resolvers receive it as FieldContext.Object.
type Node struct {
	Type   string
	Fields map[string]*Outcome
	// Also: further object types whose IsTypeOf accepts this value (overlapping IsTypeOf; see Outcome.Also).
	Also []string
}

// Built is a schema description turned into a real schema.
type Built struct {
	Desc   *SchemaDesc
	Schema *graphql.Schema
	Named  map[string]graphql.NamedType
	// Def is the definition the schema was built from (see BuildViaClone).
	Def *graphql.SchemaDefinition
}

// WorldKey is the key the generic resolver looks up: the field name, or "<name>#<k>" when the
// coerced arguments contain an int `k`.
func WorldKey(fieldName string, args map[string]interface{}) string {
	if k, ok := args["k"].(int); ok {
		return fmt.Sprintf("%s#%d", fieldName, k)
	}
	return fieldName
}

func genericResolver(fieldName string) func(graphql.FieldContext) (interface{}, error) {
	return func(ctx graphql.FieldContext) (interface{}, error) {
		n, ok := ctx.Object.(*Node)
		if !ok || n == nil {
			return nil, nil
		}
		o, ok := n.Fields[WorldKey(fieldName, ctx.Arguments)]
		if !ok {
			return nil, nil
		}
		return o.Resolve(ctx.Context)
	}
}

// Build constructs the real schema. An error means schema.New rejected the description.
func Build(desc *SchemaDesc) (*Built, error) {
	b := &Built{Desc: desc, Named: map[string]graphql.NamedType{
		"Int": graphql.IntType, "Float": graphql.FloatType, "String": graphql.StringType,
		"Boolean": graphql.BooleanType, "ID": graphql.IDType,
	}}
	// pass 1: allocate
	for i := range desc.Types {
		t := &desc.Types[i]
		if _, dup := b.Named[t.Name]; dup {
			return nil, fmt.Errorf("duplicate type %s", t.Name)
		}
		switch t.Kind {
		case "object":
			name := t.Name
			b.Named[t.Name] = &graphql.ObjectType{Name: t.Name, IsTypeOf: func(v interface{}) bool {
				n, ok := v.(*Node)
				return ok && n != nil && (n.Type == name || contains(n.Also, name))
			}}
		case "interface":
			b.Named[t.Name] = &graphql.InterfaceType{Name: t.Name}
		case "union":
			b.Named[t.Name] = &graphql.UnionType{Name: t.Name}
		case "enum":
			vals := map[string]*graphql.EnumValueDefinition{}
			for _, v := range t.Values {
				vals[v.Name] = &graphql.EnumValueDefinition{Value: v.Value.Go()}
			}
			b.Named[t.Name] = &graphql.EnumType{Name: t.Name, Values: vals}
		default:
			return nil, fmt.Errorf("unknown kind %q", t.Kind)
		}
	}
	// pass 2: fill
	var typeOf func(r TypeRef) (graphql.Type, error)
	typeOf = func(r TypeRef) (graphql.Type, error) {
		switch r.Kind {
		case "named":
			if t, ok := b.Named[r.Name]; ok {
				return t, nil
			}
			return nil, fmt.Errorf("unknown type %s", r.Name)
		case "list":
			in, err := typeOf(*r.Of)
			if err != nil {
				return nil, err
			}
			return graphql.NewListType(in), nil
		case "nonnull":
			in, err := typeOf(*r.Of)
			if err != nil {
				return nil, err
			}
			return graphql.NewNonNullType(in), nil
		}
		return nil, fmt.Errorf("bad type ref")
	}
	fields := func(fds []FieldDesc, withResolvers bool) (map[string]*graphql.FieldDefinition, error) {
		out := map[string]*graphql.FieldDefinition{}
		for _, f := range fds {
			ft, err := typeOf(f.Type)
			if err != nil {
				return nil, err
			}
			def := &graphql.FieldDefinition{Type: ft}
			if len(f.Args) > 0 {
				def.Arguments = map[string]*graphql.InputValueDefinition{}
				for _, a := range f.Args {
					at, err := typeOf(a.Type)
					if err != nil {
						return nil, err
					}
					def.Arguments[a.Name] = &graphql.InputValueDefinition{Type: at}
				}
			}
			if withResolvers {
				def.Resolve = genericResolver(f.Name)
			}
			out[f.Name] = def
		}
		return out, nil
	}
	for i := range desc.Types {
		t := &desc.Types[i]
		var err error
		switch t.Kind {
		case "object":
			o := b.Named[t.Name].(*graphql.ObjectType)
			if o.Fields, err = fields(t.Fields, true); err != nil {
				return nil, err
			}
			for _, in := range t.Interfaces {
				it, ok := b.Named[in].(*graphql.InterfaceType)
				if !ok {
					return nil, fmt.Errorf("%s implements non-interface %s", t.Name, in)
				}
				o.ImplementedInterfaces = append(o.ImplementedInterfaces, it)
			}
		case "interface":
			it := b.Named[t.Name].(*graphql.InterfaceType)
			if it.Fields, err = fields(t.Fields, false); err != nil {
				return nil, err
			}
		case "union":
			u := b.Named[t.Name].(*graphql.UnionType)
			for _, m := range t.Members {
				mt, ok := b.Named[m].(*graphql.ObjectType)
				if !ok {
					return nil, fmt.Errorf("union %s has non-object member %s", t.Name, m)
				}
				u.MemberTypes = append(u.MemberTypes, mt)
			}
		}
	}
	def := &graphql.SchemaDefinition{
		Directives: map[string]*graphql.DirectiveDefinition{"skip": graphql.SkipDirective, "include": graphql.IncludeDirective},
	}
	root := func(name string) (*graphql.ObjectType, error) {
		if name == "" {
			return nil, nil
		}
		o, ok := b.Named[name].(*graphql.ObjectType)
		if !ok {
			return nil, fmt.Errorf("root type %s is not an object type", name)
		}
		return o, nil
	}
	var err error
	if def.Query, err = root(desc.Query); err != nil {
		return nil, err
	}
	if def.Mutation, err = root(desc.Mutation); err != nil {
		return nil, err
	}
	if def.Subscription, err = root(desc.Subscription); err != nil {
		return nil, err
	}
	// every described type is part of the schema even when unreachable from the roots
	for i := range desc.Types {
		def.AdditionalTypes = append(def.AdditionalTypes, b.Named[desc.Types[i].Name])
	}
	s, err := graphql.NewSchema(def)
	if err != nil {
		return nil, err
	}
	b.Schema = s
	b.Def = def
	return b, nil
}
