package gqlgen

import (
	"math"
	"strconv"

	"github.com/ccbrown/api-fu/graphql/ast"
)

// SpecCoerceVariables is CoerceVariableValues of the June-2018 specification (§6.1.2), written
// independently of the library, for the variable shapes the generators produce: Boolean and Int,
// nullable or non-null, with an optional literal default.
//
//   - not provided, default present        → the default (a null default for a non-null type: request error)
//   - non-null type, not provided or null  → request error
//   - provided null                        → null (the default does NOT apply)
//   - provided value                       → coerced (Boolean: a boolean; Int: an integral number within 32
//     bits), else request error
//   - otherwise                            → unset
//
// supported=false: some variable definition is outside these shapes (the caller falls back to the
// library's coercion, which is then simply given).
func SpecCoerceVariables(op *ast.OperationDefinition, raw map[string]interface{}) (vars map[string]interface{}, requestError bool, supported bool) {
	vars = map[string]interface{}{}
	for _, def := range op.VariableDefinitions {
		name := def.Variable.Name.Name
		t := def.Type
		nonNull := false
		if nn, ok := t.(*ast.NonNullType); ok {
			nonNull = true
			t = nn.Type
		}
		named, ok := t.(*ast.NamedType)
		if !ok || (named.Name.Name != "Boolean" && named.Name.Name != "Int") {
			return nil, false, false
		}
		isInt := named.Name.Name == "Int"
		coerce := func(v interface{}) (interface{}, bool) {
			if isInt {
				switch v := v.(type) {
				case int:
					if v >= math.MinInt32 && v <= math.MaxInt32 {
						return v, true
					}
				case float64:
					if v == math.Trunc(v) && v >= math.MinInt32 && v <= math.MaxInt32 {
						return int(v), true
					}
				}
				return nil, false
			}
			b, ok := v.(bool)
			return b, ok
		}
		value, has := raw[name]
		if !has && def.DefaultValue != nil {
			switch d := def.DefaultValue.(type) {
			case *ast.NullValue:
				if nonNull {
					return nil, true, true
				}
				vars[name] = nil
			case *ast.BooleanValue:
				if isInt {
					return nil, true, true
				}
				vars[name] = d.Value
			case *ast.IntValue:
				n, err := strconv.ParseInt(d.Value, 10, 32)
				if !isInt || err != nil {
					return nil, true, true
				}
				vars[name] = int(n)
			default:
				return nil, false, false
			}
			continue
		}
		if nonNull && (!has || value == nil) {
			return nil, true, true
		}
		if has {
			if value == nil {
				vars[name] = nil
				continue
			}
			c, ok := coerce(value)
			if !ok {
				return nil, true, true
			}
			vars[name] = c
		}
	}
	return vars, false, true
}
