package gqlgen

import (
	"fmt"
	"regexp"
	"strings"

	"verifharness/hx"
)

// Input classes added after the round-7 seeds (general form, shared by every harness that draws from
// RandomSchema / RandomRequest / RandomWorld):
//
//   - long identifiers: type / field / argument / enum-value names (longSchemaNames) and aliases, fragment,
//     operation and variable names (longDocNames) of 33–48, 64, 255 and 300 characters; names share a long
//     common prefix and differ at the end, so a bounded buffer or a truncating comparison confuses them;
//   - wide selection sets: one selection set padded to 1..12 selections on one type (widen);
//   - an inline fragment WITHOUT type condition but with a directive that contains typed fragments, one per
//     possible type, preferably where several objects of different concrete types are executed (nestTyped);
//   - one named fragment spread inside an inline fragment and again outside it / in a sibling inline
//     fragment (spreadTwice); its fields are reported as Focus so that RandomWorld puts a resolver error on one;
//   - union members whose IsTypeOf overlap (worldgen.go: Outcome.Also).

var longLengths = []int{33, 34, 35, 36, 37, 38, 39, 40, 41, 42, 43, 44, 45, 46, 47, 48, 40, 47, 48, 33, 64, 64, 255, 300}

// longIdent pads base to one of the long lengths: a common prefix, the distinguishing part last.
func longIdent(r *hx.Rand, first string, base string) string {
	n := hx.Pick(r, longLengths)
	if len(base)+2 > n {
		return first + "_" + base
	}
	return first + strings.Repeat("n", n-len(base)-2) + "_" + base
}

// longSchemaNames renames the schema in place. mixed: only some names become long.
func longSchemaNames(r *hx.Rand, s *SchemaDesc) {
	mixed := r.Chance(1, 2)
	long := func(first, base string) string {
		if mixed && r.Chance(1, 2) {
			return base
		}
		return longIdent(r, first, base)
	}
	types := map[string]string{}
	for i := range s.Types {
		types[s.Types[i].Name] = long("L", s.Types[i].Name)
	}
	ren := func(n string) string {
		if m, ok := types[n]; ok {
			return m
		}
		return n
	}
	var renRef func(t *TypeRef)
	renRef = func(t *TypeRef) {
		if t.Kind == "named" {
			t.Name = ren(t.Name)
			return
		}
		if t.Of != nil {
			of := *t.Of
			renRef(&of)
			t.Of = &of
		}
	}
	fields := map[string]string{}
	args := map[string]string{}
	for i := range s.Types {
		t := &s.Types[i]
		t.Name = ren(t.Name)
		for j := range t.Interfaces {
			t.Interfaces[j] = ren(t.Interfaces[j])
		}
		for j := range t.Members {
			t.Members[j] = ren(t.Members[j])
		}
		for j := range t.Values {
			t.Values[j].Name = long("V", t.Values[j].Name)
		}
		fs := make([]FieldDesc, len(t.Fields))
		for j, f := range t.Fields {
			if _, ok := fields[f.Name]; !ok {
				fields[f.Name] = long("f", f.Name)
			}
			f.Name = fields[f.Name]
			renRef(&f.Type)
			as := make([]ArgDesc, len(f.Args))
			for k, a := range f.Args {
				a.Role = a.role()
				if a.Role != "k" { // the generic resolver reads the argument named k
					if _, ok := args[a.Name]; !ok {
						args[a.Name] = long("a", a.Name)
					}
					a.Name = args[a.Name]
				}
				as[k] = a
			}
			f.Args = as
			fs[j] = f
		}
		t.Fields = fs
	}
	s.Query = ren(s.Query)
	s.Mutation = ren(s.Mutation)
	s.Subscription = ren(s.Subscription)
}

// HasLongNames reports whether some type name of the schema is longer than 32 characters.
func (s *SchemaDesc) HasLongNames() bool {
	for _, t := range s.Types {
		if len(t.Name) > 32 {
			return true
		}
		for _, f := range t.Fields {
			if len(f.Name) > 32 {
				return true
			}
		}
	}
	return false
}

// longDocNames renames aliases, fragments, operations and variables of the request (consistently: equal
// names stay equal, so merging and operation selection are unchanged).
func longDocNames(r *hx.Rand, req *Request) {
	names := map[string]string{}
	long := func(kind, first, base string) string {
		if base == "" {
			return ""
		}
		k := kind + ":" + base
		if _, ok := names[k]; !ok {
			names[k] = longIdent(r, first, base)
		}
		return names[k]
	}
	vars := map[string]string{}
	for i := range req.Doc.Ops {
		op := &req.Doc.Ops[i]
		if op.Name == req.OpName {
			req.OpName = long("op", "O", op.Name)
		}
		op.Name = long("op", "O", op.Name)
		for j := range op.Vars {
			n := long("var", "v", op.Vars[j].Name)
			vars[op.Vars[j].Name] = n
			op.Vars[j].Name = n
		}
	}
	if len(vars) > 0 {
		nv := map[string]interface{}{}
		for k, v := range req.Variables {
			if n, ok := vars[k]; ok {
				nv[n] = v
			} else {
				nv[k] = v
			}
		}
		req.Variables = nv
	}
	varRe := regexp.MustCompile(`\$([_A-Za-z][_0-9A-Za-z]*)`)
	var walk func(ss []*Sel)
	walk = func(ss []*Sel) {
		for _, s := range ss {
			switch s.Kind {
			case "field":
				s.Alias = long("alias", "k", s.Alias)
				for j := range s.Args {
					s.Args[j].Value = varRe.ReplaceAllStringFunc(s.Args[j].Value, func(m string) string {
						if n, ok := vars[m[1:]]; ok {
							return "$" + n
						}
						return m
					})
				}
			case "spread":
				s.Name = long("frag", "F", s.Name)
			}
			for j := range s.Dirs {
				if n, ok := vars[s.Dirs[j].Var]; ok {
					s.Dirs[j].Var = n
				}
			}
			walk(s.Sels)
		}
	}
	for i := range req.Doc.Ops {
		walk(req.Doc.Ops[i].Sels)
	}
	for i := range req.Doc.Frags {
		req.Doc.Frags[i].Name = long("frag", "F", req.Doc.Frags[i].Name)
		walk(req.Doc.Frags[i].Sels)
	}
}

// place is a selection set of the request with the type in scope.
type place struct {
	parent string
	sels   *[]*Sel
	inList bool // executed for the items of a list (or inside a fragment definition)
}

func places(s *SchemaDesc, req *Request) []place {
	var out []place
	var visit func(parent string, sels *[]*Sel, inList bool)
	visit = func(parent string, sels *[]*Sel, inList bool) {
		pt := s.Type(parent)
		if pt == nil || !s.IsComposite(parent) {
			return
		}
		out = append(out, place{parent, sels, inList})
		for _, sel := range *sels {
			switch sel.Kind {
			case "field":
				if fd := pt.Field(sel.Name); fd != nil && len(sel.Sels) > 0 {
					isList := false
					for t := fd.Type; ; t = *t.Of {
						if t.Kind == "list" {
							isList = true
						}
						if t.Of == nil {
							break
						}
					}
					visit(fd.Type.Base(), &sel.Sels, isList)
				}
			case "inline":
				tc := sel.TypeCond
				if tc == "" {
					tc = parent
				}
				visit(tc, &sel.Sels, inList)
			}
		}
	}
	for i := range req.Doc.Ops {
		op := &req.Doc.Ops[i]
		root := s.Query
		switch op.Kind {
		case "mutation":
			root = s.Mutation
		case "subscription":
			// exactly one root field: only the sets beneath it
			rt := s.Type(s.Subscription)
			for _, sel := range op.Sels {
				if rt != nil && sel.Kind == "field" && len(sel.Sels) > 0 {
					if fd := rt.Field(sel.Name); fd != nil {
						visit(fd.Type.Base(), &sel.Sels, true)
					}
				}
			}
			continue
		}
		visit(root, &op.Sels, false)
	}
	for i := range req.Doc.Frags {
		visit(req.Doc.Frags[i].TypeCond, &req.Doc.Frags[i].Sels, true)
	}
	return out
}

// insertKeepingOrder puts add (in order) at random positions among old (order kept).
func insertKeepingOrder(r *hx.Rand, old, add []*Sel) []*Sel {
	at := make([]int, len(add))
	for i := range at {
		at[i] = r.Intn(len(old) + 1)
	}
	for i := 1; i < len(at); i++ {
		for j := i; j > 0 && at[j] < at[j-1]; j-- {
			at[j], at[j-1] = at[j-1], at[j]
		}
	}
	var out []*Sel
	k := 0
	for i := 0; i <= len(old); i++ {
		for k < len(add) && at[k] == i {
			out = append(out, add[k])
			k++
		}
		if i < len(old) {
			out = append(out, old[i])
		}
	}
	return out
}

func litDir(r *hx.Rand) DirUse {
	// mostly a directive that lets the selection through
	b := true
	name := "include"
	switch r.Intn(8) {
	case 0, 1, 2:
		name, b = "skip", false
	case 3:
		name, b = "skip", true
	case 4:
		b = false
	}
	return DirUse{Name: name, Lit: &b}
}

// prefixed gives the field selections of sels (top level) fresh response keys, so that they cannot
// conflict with what is already selected; it returns the world keys of those fields.
func prefixed(sels []*Sel, prefix string) []string {
	var keys []string
	for _, x := range sels {
		if x.Kind != "field" {
			continue
		}
		base := x.Alias
		if base == "" {
			base = x.Name
		}
		x.Alias = prefix + base
		if x.Name != "__typename" {
			keys = append(keys, worldKeyOf(x, nil))
		}
	}
	return keys
}

// someFields draws 1–2 field selections on type tc (no variables, no fragment spreads).
func someFields(g *docGen, tc string) []*Sel {
	pt := g.s.Type(tc)
	var out []*Sel
	if pt != nil && len(pt.Fields) > 0 {
		n := 1 + g.r.Intn(2)
		seen := map[int]bool{}
		for i := 0; i < n; i++ {
			j := g.r.Intn(len(pt.Fields))
			if seen[j] { // one selection per field: two selections of one field could differ in arguments
				continue
			}
			seen[j] = true
			out = append(out, g.field(pt, &pt.Fields[j], g.maxDepth))
		}
	} else {
		out = append(out, &Sel{Kind: "field", Name: "__typename"})
	}
	for _, x := range out {
		x.Dirs = nil
		// beneath: a selection with arguments gets a response key of its own (two selections of one field
		// that differ in their arguments cannot merge; the validator would reject the document)
		n := 0
		var uniq func(ss []*Sel)
		uniq = func(ss []*Sel) {
			for _, y := range ss {
				if y.Kind == "field" && len(y.Args) > 0 {
					y.Alias = fmt.Sprintf("q%d%s", n, y.Name)
					n++
				}
				uniq(y.Sels)
			}
		}
		uniq(x.Sels)
	}
	return out
}

func newClassGen(r *hx.Rand, s *SchemaDesc) *docGen {
	return &docGen{r: r, s: s, doc: &DocDesc{}, inProg: map[string]bool{}, used: map[string]bool{}, noVars: true, maxDepth: 1}
}

func preferListed(ps []place) []place {
	var listed []place
	for _, p := range ps {
		if p.inList {
			listed = append(listed, p)
		}
	}
	if len(listed) > 0 {
		return listed
	}
	return ps
}

// widen pads one selection set to n selections (n drawn from 1..12, 7 and 8 twice as often) with leaf
// fields of its type / __typename under fresh response keys.
func widen(r *hx.Rand, s *SchemaDesc, req *Request) bool {
	ps := places(s, req)
	if len(ps) == 0 {
		return false
	}
	p := hx.Pick(r, ps)
	n := hx.Pick(r, []int{1, 2, 3, 4, 5, 6, 7, 8, 9, 10, 11, 12, 7, 8})
	pt := s.Type(p.parent)
	added := false
	for i := 0; len(*p.sels) < n; i++ {
		x := &Sel{Kind: "field", Name: "__typename", Alias: fmt.Sprintf("w%d", i)}
		var leaves []*FieldDesc
		for j := range pt.Fields {
			if !s.IsComposite(pt.Fields[j].Type.Base()) {
				leaves = append(leaves, &pt.Fields[j])
			}
		}
		if len(leaves) > 0 && r.Chance(3, 4) {
			f := hx.Pick(r, leaves)
			x.Name = f.Name
			for _, a := range f.Args {
				if a.Type.IsNonNull() {
					x.Args = append(x.Args, ArgUse{Name: a.Name, Value: "1"})
				}
			}
		}
		*p.sels = insertKeepingOrder(r, *p.sels, []*Sel{x})
		added = true
	}
	return added
}

// nestTyped inserts `... @dir { ... on P1 { … } ... on P2 { … } }` (no type condition on the outer inline
// fragment) into a selection set whose type has at least two possible object types.
func nestTyped(r *hx.Rand, s *SchemaDesc, req *Request) bool {
	var ps []place
	for _, p := range places(s, req) {
		if len(s.PossibleTypes(p.parent)) >= 2 {
			ps = append(ps, p)
		}
	}
	if len(ps) == 0 {
		return false
	}
	p := hx.Pick(r, preferListed(ps))
	g := newClassGen(r, s)
	poss := s.PossibleTypes(p.parent)
	hx.Shuffle(r, poss)
	if len(poss) > 3 {
		poss = poss[:3]
	}
	outer := &Sel{Kind: "inline", Dirs: []DirUse{litDir(r)}}
	for i, o := range poss {
		tc := o
		// sometimes through an interface the object implements, or a second directive on the typed fragment
		if ot := s.Type(o); ot != nil && len(ot.Interfaces) > 0 && r.Chance(1, 4) {
			cand := hx.Pick(r, ot.Interfaces)
			if contains(g.overlapping(p.parent), cand) {
				tc = cand
			}
		}
		inner := &Sel{Kind: "inline", TypeCond: tc, Sels: someFields(g, tc)}
		prefixed(inner.Sels, fmt.Sprintf("n%d", i))
		if r.Chance(1, 4) {
			inner.Dirs = []DirUse{litDir(r)}
		}
		outer.Sels = append(outer.Sels, inner)
	}
	if r.Chance(1, 3) {
		outer.Sels = insertKeepingOrder(r, outer.Sels, []*Sel{{Kind: "field", Name: "__typename", Alias: "nt"}})
	}
	*p.sels = insertKeepingOrder(r, *p.sels, []*Sel{outer})
	return true
}

// spreadTwice defines a fragment and spreads it twice in one selection set: inside an inline fragment and
// again outside it (either order), or inside two sibling inline fragments. It returns the world keys of
// the fragment's fields.
func spreadTwice(r *hx.Rand, s *SchemaDesc, req *Request) ([]string, bool) {
	ps := places(s, req)
	if len(ps) == 0 {
		return nil, false
	}
	var multi []place
	for _, p := range ps {
		if len(s.PossibleTypes(p.parent)) >= 2 {
			multi = append(multi, p)
		}
	}
	if len(multi) > 0 && r.Chance(3, 4) {
		ps = multi
	}
	p := hx.Pick(r, preferListed(ps))
	g := newClassGen(r, s)
	over := g.overlapping(p.parent)
	ftc := p.parent
	if r.Chance(1, 3) {
		ftc = hx.Pick(r, over)
	}
	name := fmt.Sprintf("G%d", len(req.Doc.Frags))
	for req.Doc.Frag(name) != nil {
		name += "x"
	}
	fr := FragDesc{Name: name, TypeCond: ftc, Sels: someFields(g, ftc)}
	keys := prefixed(fr.Sels, "s")
	// type conditions under which the fragment can be spread: types overlapping both the place and the fragment
	var conds []string
	fposs := s.PossibleTypes(ftc)
	for _, t := range over {
		for _, x := range s.PossibleTypes(t) {
			if contains(fposs, x) {
				conds = append(conds, t)
				break
			}
		}
	}
	inl := func() *Sel {
		x := &Sel{Kind: "inline", Sels: []*Sel{{Kind: "spread", Name: name}}}
		if len(conds) > 0 && r.Chance(3, 4) {
			x.TypeCond = hx.Pick(r, conds)
		}
		if r.Chance(1, 3) {
			x.Dirs = []DirUse{litDir(r)}
		}
		if r.Chance(1, 3) {
			x.Sels = insertKeepingOrder(r, x.Sels, []*Sel{{Kind: "field", Name: "__typename", Alias: "st"}})
		}
		return x
	}
	var add []*Sel
	switch r.Intn(3) {
	case 0:
		add = []*Sel{inl(), {Kind: "spread", Name: name}}
	case 1:
		add = []*Sel{{Kind: "spread", Name: name}, inl()}
	default:
		add = []*Sel{inl(), inl()}
	}
	// the place may point into req.Doc.Frags: write through it before the slice grows
	*p.sels = insertKeepingOrder(r, *p.sels, add)
	req.Doc.Frags = append(req.Doc.Frags, fr)
	if len(req.Doc.Order) > 0 {
		req.Doc.Order = append(req.Doc.Order, fmt.Sprintf("f%d", len(req.Doc.Frags)-1))
	}
	return keys, true
}

// applyClasses is the tail of RandomRequest.
func applyClasses(r *hx.Rand, s *SchemaDesc, req *Request) {
	if r.Chance(1, 4) && nestTyped(r.Fork(), s, req) {
		req.Classes = append(req.Classes, "nest-typed-in-untyped")
	}
	if r.Chance(1, 8) {
		if keys, ok := spreadTwice(r.Fork(), s, req); ok {
			req.Classes = append(req.Classes, "spread-twice")
			req.Focus = append(req.Focus, keys...)
		}
	}
	if (r.Chance(1, 6) || (s.HasLongNames() && r.Chance(1, 2))) && widen(r.Fork(), s, req) {
		req.Classes = append(req.Classes, "widened")
	}
	if r.Chance(1, 15) || (s.HasLongNames() && r.Chance(1, 2)) {
		longDocNames(r.Fork(), req)
		req.Classes = append(req.Classes, "long-doc-names")
	}
}
