package gqlgen

import (
	"strconv"
	"strings"

	"github.com/ccbrown/api-fu/graphql/ast"
)

// ValueText prints an AST value back to source text.
func ValueText(v ast.Value) string {
	switch v := v.(type) {
	case *ast.Variable:
		return "$" + v.Name.Name
	case *ast.BooleanValue:
		return strconv.FormatBool(v.Value)
	case *ast.IntValue:
		return v.Value
	case *ast.FloatValue:
		return v.Value
	case *ast.StringValue:
		return strconv.Quote(v.Value)
	case *ast.EnumValue:
		return v.Value
	case *ast.NullValue:
		return "null"
	case *ast.ListValue:
		parts := []string{}
		for _, x := range v.Values {
			parts = append(parts, ValueText(x))
		}
		return "[" + strings.Join(parts, ", ") + "]"
	case *ast.ObjectValue:
		parts := []string{}
		for _, f := range v.Fields {
			parts = append(parts, f.Name.Name+": "+ValueText(f.Value))
		}
		return "{" + strings.Join(parts, ", ") + "}"
	}
	return "null"
}

func typeText(t ast.Type) string {
	switch t := t.(type) {
	case *ast.NamedType:
		return t.Name.Name
	case *ast.ListType:
		return "[" + typeText(t.Type) + "]"
	case *ast.NonNullType:
		return typeText(t.Type) + "!"
	}
	return "?"
}

func dirsFromAST(ds []*ast.Directive) []DirUse {
	var out []DirUse
	for _, d := range ds {
		u := DirUse{Name: d.Name.Name}
		for _, a := range d.Arguments {
			if a.Name.Name != "if" {
				continue
			}
			switch v := a.Value.(type) {
			case *ast.BooleanValue:
				b := v.Value
				u.Lit = &b
			case *ast.Variable:
				u.Var = v.Name.Name
			}
		}
		out = append(out, u)
	}
	return out
}

func selsFromAST(set *ast.SelectionSet) []*Sel {
	if set == nil {
		return nil
	}
	var out []*Sel
	for _, sel := range set.Selections {
		switch sel := sel.(type) {
		case *ast.Field:
			s := &Sel{Kind: "field", Name: sel.Name.Name, Dirs: dirsFromAST(sel.Directives), Sels: selsFromAST(sel.SelectionSet)}
			if sel.Alias != nil {
				s.Alias = sel.Alias.Name
			}
			for _, a := range sel.Arguments {
				s.Args = append(s.Args, ArgUse{Name: a.Name.Name, Value: ValueText(a.Value)})
			}
			out = append(out, s)
		case *ast.FragmentSpread:
			out = append(out, &Sel{Kind: "spread", Name: sel.FragmentName.Name, Dirs: dirsFromAST(sel.Directives)})
		case *ast.InlineFragment:
			s := &Sel{Kind: "inline", Dirs: dirsFromAST(sel.Directives), Sels: selsFromAST(sel.SelectionSet)}
			if sel.TypeCondition != nil {
				s.TypeCond = sel.TypeCondition.Name.Name
			}
			out = append(out, s)
		}
	}
	return out
}

// DocFromAST turns a parsed document into a description (so that hand-written query texts can be
// fed to the world generator and the shrinker). Definition order is kept.
func DocFromAST(doc *ast.Document) *DocDesc {
	d := &DocDesc{}
	for _, def := range doc.Definitions {
		switch def := def.(type) {
		case *ast.OperationDefinition:
			o := OpDesc{Sels: selsFromAST(def.SelectionSet)}
			if def.OperationType != nil {
				o.Kind = def.OperationType.Value
			}
			if def.Name != nil {
				o.Name = def.Name.Name
			}
			for _, v := range def.VariableDefinitions {
				vd := VarDef{Name: v.Variable.Name.Name, Type: typeText(v.Type)}
				if v.DefaultValue != nil {
					vd.Default = ValueText(v.DefaultValue)
				}
				o.Vars = append(o.Vars, vd)
			}
			d.Order = append(d.Order, "o"+strconv.Itoa(len(d.Ops)))
			d.Ops = append(d.Ops, o)
		case *ast.FragmentDefinition:
			d.Order = append(d.Order, "f"+strconv.Itoa(len(d.Frags)))
			d.Frags = append(d.Frags, FragDesc{Name: def.Name.Name, TypeCond: def.TypeCondition.Name.Name, Sels: selsFromAST(def.SelectionSet)})
		}
	}
	return d
}

// SelectedOp returns the operation description a request runs (nil when the name selects none or
// is ambiguous).
func (d *DocDesc) SelectedOp(opName string) *OpDesc {
	var found *OpDesc
	for i := range d.Ops {
		if opName == "" || d.Ops[i].Name == opName {
			if found != nil {
				return nil
			}
			found = &d.Ops[i]
		}
	}
	return found
}
