package gqlgen

import (
	"fmt"
	"strings"

	"verifharness/hx"
)

// DirUse is a use of @skip / @include: the `if` argument is a literal or a variable.
type DirUse struct {
	Name string `json:"name"` // skip | include
	Lit  *bool  `json:"lit,omitempty"`
	Var  string `json:"var,omitempty"`
}

// ArgUse is an argument with its value as source text (e.g. `2`, `$k0`, `[$u]`).
type ArgUse struct {
	Name  string `json:"name"`
	Value string `json:"value"`
}

// Sel is a selection in a generated document.
type Sel struct {
	Kind     string   `json:"kind"` // field | spread | inline
	Alias    string   `json:"alias,omitempty"`
	Name     string   `json:"name,omitempty"` // field name or fragment name
	Args     []ArgUse `json:"args,omitempty"`
	Dirs     []DirUse `json:"dirs,omitempty"`
	TypeCond string   `json:"on,omitempty"` // inline fragments ("" = none)
	Sels     []*Sel   `json:"sels,omitempty"`
}

type VarDef struct {
	Name    string `json:"name"`
	Type    string `json:"type"`
	Default string `json:"default,omitempty"` // source text, "" = none
}

type OpDesc struct {
	Kind string   `json:"kind"` // "" (shorthand query) | query | mutation | subscription
	Name string   `json:"name,omitempty"`
	Vars []VarDef `json:"vars,omitempty"`
	Sels []*Sel   `json:"sels"`
}

type FragDesc struct {
	Name     string `json:"name"`
	TypeCond string `json:"on"`
	Sels     []*Sel `json:"sels"`
}

// DocDesc is a generated document before printing. Definitions are printed operations first,
// unless Order gives an explicit interleaving ("o0", "f1", …).
type DocDesc struct {
	Ops   []OpDesc   `json:"ops"`
	Frags []FragDesc `json:"frags,omitempty"`
	Order []string   `json:"order,omitempty"`
}

// Frag returns the fragment with that name.
func (d *DocDesc) Frag(name string) *FragDesc {
	for i := range d.Frags {
		if d.Frags[i].Name == name {
			return &d.Frags[i]
		}
	}
	return nil
}

// Clone makes a deep copy.
func (d *DocDesc) Clone() *DocDesc {
	c := &DocDesc{Order: append([]string{}, d.Order...)}
	for _, o := range d.Ops {
		o.Vars = append([]VarDef{}, o.Vars...)
		o.Sels = cloneSels(o.Sels)
		c.Ops = append(c.Ops, o)
	}
	for _, f := range d.Frags {
		f.Sels = cloneSels(f.Sels)
		c.Frags = append(c.Frags, f)
	}
	return c
}

func cloneSels(ss []*Sel) []*Sel {
	out := make([]*Sel, len(ss))
	for i, s := range ss {
		c := *s
		c.Args = append([]ArgUse{}, s.Args...)
		c.Dirs = append([]DirUse{}, s.Dirs...)
		c.Sels = cloneSels(s.Sels)
		out[i] = &c
	}
	return out
}

// Layout controls how a document is printed; positions (line, column) of the nodes depend on it.
type Layout struct {
	Multiline bool `json:"multiline"` // one selection per line, indented
	Commas    bool `json:"commas"`    // commas between selections
	Indent    int  `json:"indent"`    // spaces per level when Multiline
}

// RandomLayout draws a layout.
func RandomLayout(r *hx.Rand) Layout {
	return Layout{Multiline: r.Chance(1, 2), Commas: r.Chance(1, 4), Indent: r.Range(0, 3)}
}

// Print renders the document.
func (d *DocDesc) Print(l Layout) string {
	var b strings.Builder
	p := &printer{b: &b, l: l}
	order := d.Order
	if len(order) == 0 {
		for i := range d.Ops {
			order = append(order, fmt.Sprintf("o%d", i))
		}
		for i := range d.Frags {
			order = append(order, fmt.Sprintf("f%d", i))
		}
	}
	for n, id := range order {
		if n > 0 {
			if l.Multiline {
				b.WriteString("\n")
			} else {
				b.WriteString(" ")
			}
		}
		var i int
		fmt.Sscanf(id[1:], "%d", &i)
		if id[0] == 'o' && i < len(d.Ops) {
			o := d.Ops[i]
			if o.Kind != "" {
				b.WriteString(o.Kind)
				if o.Name != "" {
					b.WriteString(" " + o.Name)
				}
				if len(o.Vars) > 0 {
					b.WriteString("(")
					for j, v := range o.Vars {
						if j > 0 {
							b.WriteString(", ")
						}
						b.WriteString("$" + v.Name + ": " + v.Type)
						if v.Default != "" {
							b.WriteString(" = " + v.Default)
						}
					}
					b.WriteString(")")
				}
				b.WriteString(" ")
			}
			p.selectionSet(o.Sels, 0)
		} else if id[0] == 'f' && i < len(d.Frags) {
			f := d.Frags[i]
			b.WriteString("fragment " + f.Name + " on " + f.TypeCond + " ")
			p.selectionSet(f.Sels, 0)
		}
	}
	return b.String()
}

type printer struct {
	b *strings.Builder
	l Layout
}

func (p *printer) nl(level int) {
	if p.l.Multiline {
		p.b.WriteString("\n" + strings.Repeat(" ", level*p.l.Indent))
	} else {
		p.b.WriteString(" ")
	}
}

func (p *printer) dirs(ds []DirUse) {
	for _, d := range ds {
		p.b.WriteString(" @" + d.Name + "(if: ")
		if d.Lit != nil {
			fmt.Fprintf(p.b, "%v", *d.Lit)
		} else {
			p.b.WriteString("$" + d.Var)
		}
		p.b.WriteString(")")
	}
}

func (p *printer) selectionSet(ss []*Sel, level int) {
	p.b.WriteString("{")
	for i, s := range ss {
		if i > 0 && p.l.Commas {
			p.b.WriteString(",")
		}
		p.nl(level + 1)
		switch s.Kind {
		case "field":
			if s.Alias != "" {
				p.b.WriteString(s.Alias + ": ")
			}
			p.b.WriteString(s.Name)
			if len(s.Args) > 0 {
				p.b.WriteString("(")
				for j, a := range s.Args {
					if j > 0 {
						p.b.WriteString(", ")
					}
					p.b.WriteString(a.Name + ": " + a.Value)
				}
				p.b.WriteString(")")
			}
			p.dirs(s.Dirs)
			if len(s.Sels) > 0 {
				p.b.WriteString(" ")
				p.selectionSet(s.Sels, level+1)
			}
		case "spread":
			p.b.WriteString("..." + s.Name)
			p.dirs(s.Dirs)
		case "inline":
			p.b.WriteString("...")
			if s.TypeCond != "" {
				p.b.WriteString(" on " + s.TypeCond)
			}
			p.dirs(s.Dirs)
			p.b.WriteString(" ")
			p.selectionSet(s.Sels, level+1)
		}
	}
	p.nl(level)
	p.b.WriteString("}")
}
