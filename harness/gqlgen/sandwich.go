package gqlgen

import (
	"fmt"

	"verifharness/hx"
)

// Sandwich rewrites one selection set of the request whose parent type has at least two possible
// object types so that it selects one composite field under one response key four (or five) times:
//
//	sw: f { A }   ... on T1 { sw: f { B1 } }   ... on T2 { sw: f { B2 } }   sw: f { C }
//
// with |B1| = |B2|. The first and the last occurrence apply to every concrete type, the middle ones
// to one type each, so the merged sub-selection lists of T1 and T2 objects agree in their first and
// last selections and in their length, and differ in the middle. An executor that identifies a merged
// selection list by anything less than all of its selections confuses the two (seed C01-13). It
// reports whether the document offered a place.
//
// It draws from its own generator and never emits fragment spreads or variables, so it is safe
// inside fragment definitions as well.
func Sandwich(r *hx.Rand, s *SchemaDesc, req *Request) bool {
	type place struct {
		parent string
		sels   *[]*Sel
		inList bool
	}
	var places []place
	var visit func(parent string, sels *[]*Sel, inList bool)
	visit = func(parent string, sels *[]*Sel, inList bool) {
		pt := s.Type(parent)
		if pt == nil {
			return
		}
		if len(s.PossibleTypes(parent)) >= 2 {
			places = append(places, place{parent, sels, inList})
		}
		for _, sel := range *sels {
			switch sel.Kind {
			case "field":
				if fd := pt.Field(sel.Name); fd != nil && len(sel.Sels) > 0 {
					isList := false
					for t := fd.Type; ; t = *t.Of {
						if t.Kind == "list" {
							isList = true
						}
						if t.Of == nil {
							break
						}
					}
					visit(fd.Type.Base(), &sel.Sels, isList)
				}
			case "inline":
				tc := sel.TypeCond
				if tc == "" {
					tc = parent
				}
				visit(tc, &sel.Sels, inList)
			}
		}
	}
	for i := range req.Doc.Ops {
		op := &req.Doc.Ops[i]
		root := s.Query
		switch op.Kind {
		case "mutation":
			root = s.Mutation
		case "subscription":
			continue // exactly one root field
		}
		visit(root, &op.Sels, false)
	}
	for i := range req.Doc.Frags {
		visit(req.Doc.Frags[i].TypeCond, &req.Doc.Frags[i].Sels, true)
	}
	// prefer places executed for several objects in one request
	var listed []place
	for _, p := range places {
		if p.inList {
			listed = append(listed, p)
		}
	}
	if len(listed) > 0 {
		places = listed
	}
	hx.Shuffle(r, places)
	g := &docGen{r: r, s: s, doc: &DocDesc{}, inProg: map[string]bool{}, used: map[string]bool{}, noVars: true, maxDepth: 1}
	for _, p := range places {
		poss := s.PossibleTypes(p.parent)
		hx.Shuffle(r, poss)
		// a composite field f with one declaration shared by two (three) possible types, and a type
		// `via` (the parent itself or an interface) on which f can be selected for all of them
		type cand struct {
			via   string
			f     *FieldDesc
			types []string
		}
		var cands []cand
		for _, t := range s.Types {
			if t.Kind != "interface" && t.Name != p.parent {
				continue
			}
			if t.Kind == "union" {
				continue
			}
			var common []string
			for _, o := range s.PossibleTypes(t.Name) {
				if contains(poss, o) {
					common = append(common, o)
				}
			}
			if len(common) < 2 {
				continue
			}
			for i := range t.Fields {
				f := &t.Fields[i]
				if !s.IsComposite(f.Type.Base()) {
					continue
				}
				// one response key: the types must agree exactly (an implementation may declare T! for T)
				var same []string
				for _, o := range common {
					if of := s.Type(o).Field(f.Name); of != nil && of.Type.String() == f.Type.String() {
						same = append(same, o)
					}
				}
				if len(same) >= 2 {
					cands = append(cands, cand{t.Name, f, same})
				}
			}
		}
		if len(cands) == 0 {
			continue
		}
		c := hx.Pick(r, cands)
		base := c.f.Type.Base()
		key := "sw"
		occ := func(sels []*Sel) *Sel {
			f := &Sel{Kind: "field", Alias: key, Name: c.f.Name, Sels: sels}
			for _, a := range c.f.Args {
				if a.role() == "r" {
					f.Args = append(f.Args, ArgUse{Name: a.Name, Value: "1"})
				}
			}
			return f
		}
		// the same field with the same arguments gets the same response key in all sub-selections, other
		// fields other keys: the sub-selections then merge whatever was drawn
		var canon func(sels []*Sel)
		canon = func(sels []*Sel) {
			for _, x := range sels {
				if x.Kind == "field" && (x.Alias != "" || len(x.Args) > 0) {
					x.Alias = x.Name
					for _, a := range x.Args {
						for _, ch := range a.Value {
							if ch >= '0' && ch <= '9' || ch >= 'a' && ch <= 'z' {
								x.Alias += string(ch)
							} else {
								x.Alias += "_"
							}
						}
					}
					if x.Name == "__typename" {
						x.Alias = "tn"
					}
				}
				canon(x.Sels)
			}
		}
		small := func() []*Sel {
			out := g.selSet(base, 1)
			if len(out) > 3 {
				out = out[:3]
			}
			canon(out)
			return out
		}
		outer := func(f *Sel) *Sel {
			if c.via == p.parent {
				return f
			}
			return &Sel{Kind: "inline", TypeCond: c.via, Sels: []*Sel{f}}
		}
		n := 2
		if len(c.types) > 2 && r.Chance(1, 2) {
			n = 3
		}
		mids := make([][]*Sel, n)
		max := 0
		for i := range mids {
			mids[i] = small()
			if len(mids[i]) > max {
				max = len(mids[i])
			}
		}
		for i := range mids {
			for k := 0; len(mids[i]) < max; k++ {
				mids[i] = append(mids[i], &Sel{Kind: "field", Alias: fmt.Sprintf("p%d", k), Name: "__typename"})
			}
		}
		var add []*Sel
		add = append(add, outer(occ(small())))
		for i := range mids {
			add = append(add, &Sel{Kind: "inline", TypeCond: c.types[i], Sels: []*Sel{occ(mids[i])}})
		}
		add = append(add, outer(occ(small())))
		// somewhere among the selections that are already there, order kept
		old := *p.sels
		var out []*Sel
		at := make([]int, len(add))
		for i := range at {
			at[i] = r.Intn(len(old) + 1)
		}
		for i := 1; i < len(at); i++ { // insertion points in non-decreasing order
			for j := i; j > 0 && at[j] < at[j-1]; j-- {
				at[j], at[j-1] = at[j-1], at[j]
			}
		}
		k := 0
		for i := 0; i <= len(old); i++ {
			for k < len(add) && at[k] == i {
				out = append(out, add[k])
				k++
			}
			if i < len(old) {
				out = append(out, old[i])
			}
		}
		*p.sels = out
		return true
	}
	return false
}
