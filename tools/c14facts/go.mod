module c14facts

go 1.18
