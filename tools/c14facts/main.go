// c14facts translates the two straight-line integer functions of
// graphql/validator/validate_cost.go (checkedNonNegativeMultiply, checkedNonNegativeAdd) from the
// *current* source of the repository into Lean 4 definitions (DESIGN.md §3.2 item 2).
//
//	c14facts -repo /repo -out /verif/lean/ApiFu/C14/Generated.lean [-fallback Generated.fallback.lean]
//
// Translation (literal, no simplification):
//
//	Go `int` value            → Lean `Int` known to lie in [-2^63, 2^63)
//	x + y, x - y, x * y, -x   → wrap64 (x + y) …            (two's-complement wrap-around made explicit)
//	x / y, x % y              → goDiv x y, goMod x y         (truncated division; the statement that
//	                             evaluates it is preceded by `if y = 0 then none else`: Go panics)
//	constant expressions      → their exact value (go/types constant evaluation: maxInt, minInt …)
//	< <= > >= == != && || !   → < ≤ > ≥ = ≠ ∧ ∨ ¬            (propositions; && and || have no effects to
//	                             short-circuit because a division on their right is refused)
//	if / else if / else, return, x := e, var x = e, x = e, x op= e, x++, x--
//	                          → if-then-else / `some e` / `let x := e` in continuation-passing style
//	function result           → `Option Int`, `none` = run-time panic (integer division by zero)
//
// Anything else (loops, calls, switch, other types, multiple results, division under && / ||, a
// path that falls off the end of the function) makes the tool print `c14facts: cannot translate …`
// and exit with status 1. In that case, if -fallback is given, the fallback file (the last
// hand-checked translation) is copied to -out so that the model driver still builds and the
// behavioural grid of the harness decides; the non-zero status marks the obligation as broken.
package main

import (
	"bytes"
	"crypto/sha256"
	"encoding/hex"
	"flag"
	"fmt"
	"go/ast"
	"go/constant"
	"go/parser"
	"go/printer"
	"go/token"
	"go/types"
	"os"
	"path/filepath"
	"strings"
)

var wanted = []string{"checkedNonNegativeMultiply", "checkedNonNegativeAdd"}

type cannot struct{ msg string }

func fail(fset *token.FileSet, n ast.Node, format string, a ...any) {
	pos := ""
	if n != nil && fset != nil {
		pos = fset.Position(n.Pos()).String() + ": "
	}
	panic(cannot{pos + fmt.Sprintf(format, a...)})
}

type tr struct {
	fset *token.FileSet
	info *types.Info
}

func (t *tr) isInt(e ast.Expr) bool {
	tv, ok := t.info.Types[e]
	if !ok || tv.Type == nil {
		return false
	}
	b, ok := tv.Type.Underlying().(*types.Basic)
	return ok && (b.Kind() == types.Int || b.Kind() == types.UntypedInt)
}

func (t *tr) isBool(e ast.Expr) bool {
	tv, ok := t.info.Types[e]
	if !ok || tv.Type == nil {
		return false
	}
	b, ok := tv.Type.Underlying().(*types.Basic)
	return ok && (b.Kind() == types.Bool || b.Kind() == types.UntypedBool)
}

// constant value of e, if go/types evaluated it as a constant integer
func (t *tr) constInt(e ast.Expr) (string, bool) {
	tv, ok := t.info.Types[e]
	if !ok || tv.Value == nil || tv.Value.Kind() != constant.Int {
		return "", false
	}
	return tv.Value.ExactString(), true
}

func lit(v string) string {
	if strings.HasPrefix(v, "-") {
		return "(" + v + ")"
	}
	return v
}

// intExpr translates an int-valued expression; divisors met (in evaluation order) are appended to divs.
func (t *tr) intExpr(e ast.Expr, divs *[]string) string {
	if v, ok := t.constInt(e); ok {
		if !t.isInt(e) {
			fail(t.fset, e, "constant of a type other than int")
		}
		return lit(v)
	}
	if !t.isInt(e) {
		fail(t.fset, e, "expression is not of type int")
	}
	switch e := e.(type) {
	case *ast.ParenExpr:
		return t.intExpr(e.X, divs)
	case *ast.Ident:
		if _, ok := t.info.Uses[e].(*types.Var); !ok {
			fail(t.fset, e, "identifier %s is not a local variable or parameter", e.Name)
		}
		return e.Name
	case *ast.UnaryExpr:
		x := t.intExpr(e.X, divs)
		switch e.Op {
		case token.SUB:
			return "(wrap64 (-" + x + "))"
		case token.ADD:
			return x
		}
		fail(t.fset, e, "unary operator %s", e.Op)
	case *ast.BinaryExpr:
		x := t.intExpr(e.X, divs)
		y := t.intExpr(e.Y, divs)
		switch e.Op {
		case token.ADD:
			return "(wrap64 (" + x + " + " + y + "))"
		case token.SUB:
			return "(wrap64 (" + x + " - " + y + "))"
		case token.MUL:
			return "(wrap64 (" + x + " * " + y + "))"
		case token.QUO:
			*divs = append(*divs, y)
			return "(goDiv " + x + " " + y + ")"
		case token.REM:
			*divs = append(*divs, y)
			return "(goMod " + x + " " + y + ")"
		}
		fail(t.fset, e, "binary operator %s on int", e.Op)
	}
	fail(t.fset, e, "expression form %T", e)
	return ""
}

// boolExpr translates a condition into a decidable proposition.
func (t *tr) boolExpr(e ast.Expr, divs *[]string, underShortCircuit bool) string {
	if !t.isBool(e) {
		fail(t.fset, e, "condition is not of type bool")
	}
	switch e := e.(type) {
	case *ast.ParenExpr:
		return t.boolExpr(e.X, divs, underShortCircuit)
	case *ast.Ident:
		switch e.Name {
		case "true":
			return "True"
		case "false":
			return "False"
		}
		fail(t.fset, e, "boolean variable %s", e.Name)
	case *ast.UnaryExpr:
		if e.Op == token.NOT {
			return "(¬ " + t.boolExpr(e.X, divs, underShortCircuit) + ")"
		}
		fail(t.fset, e, "unary operator %s", e.Op)
	case *ast.BinaryExpr:
		switch e.Op {
		case token.LAND, token.LOR:
			x := t.boolExpr(e.X, divs, underShortCircuit)
			var inner []string
			y := t.boolExpr(e.Y, &inner, true)
			if len(inner) > 0 {
				fail(t.fset, e.Y, "division on the right of %s (evaluation would be conditional)", e.Op)
			}
			if e.Op == token.LAND {
				return "(" + x + " ∧ " + y + ")"
			}
			return "(" + x + " ∨ " + y + ")"
		case token.LSS, token.LEQ, token.GTR, token.GEQ, token.EQL, token.NEQ:
			x := t.intExpr(e.X, divs)
			y := t.intExpr(e.Y, divs)
			op := map[token.Token]string{token.LSS: "<", token.LEQ: "≤", token.GTR: ">", token.GEQ: "≥", token.EQL: "=", token.NEQ: "≠"}[e.Op]
			return "(" + x + " " + op + " " + y + ")"
		}
		fail(t.fset, e, "binary operator %s in a condition", e.Op)
	}
	fail(t.fset, e, "condition form %T", e)
	return ""
}

func guard(ind string, divs []string) string {
	var b strings.Builder
	for _, d := range divs {
		fmt.Fprintf(&b, "%sif %s = 0 then none else  -- Go: integer divide by zero panics\n", ind, d)
	}
	return b.String()
}

// stmts translates a statement list followed by the continuation `rest` (statements that run
// when the list falls through). Every path must end in a return.
func (t *tr) stmts(list []ast.Stmt, rest []ast.Stmt, ind string, end ast.Node) string {
	if len(list) == 0 {
		if len(rest) == 0 {
			fail(t.fset, end, "a path reaches the end of the function without a return")
		}
		return t.stmts(rest, nil, ind, end)
	}
	s, tail := list[0], list[1:]
	cont := func(ind string) string { return t.stmts(tail, rest, ind, end) }
	switch s := s.(type) {
	case *ast.ReturnStmt:
		if len(s.Results) != 1 {
			fail(t.fset, s, "return with %d results", len(s.Results))
		}
		var divs []string
		x := t.intExpr(s.Results[0], &divs)
		return guard(ind, divs) + ind + "some " + x + "\n"
	case *ast.BlockStmt:
		return t.stmts(s.List, append(append([]ast.Stmt{}, tail...), rest...), ind, end)
	case *ast.IfStmt:
		if s.Init != nil {
			fail(t.fset, s, "if statement with an init clause")
		}
		var divs []string
		c := t.boolExpr(s.Cond, &divs, false)
		after := append(append([]ast.Stmt{}, tail...), rest...)
		var b strings.Builder
		b.WriteString(guard(ind, divs))
		fmt.Fprintf(&b, "%sif %s then\n", ind, c)
		b.WriteString(t.stmts(s.Body.List, after, ind+"  ", end))
		fmt.Fprintf(&b, "%selse\n", ind)
		switch el := s.Else.(type) {
		case nil:
			b.WriteString(t.stmts(after, nil, ind+"  ", end))
		case *ast.BlockStmt:
			b.WriteString(t.stmts(el.List, after, ind+"  ", end))
		case *ast.IfStmt:
			b.WriteString(t.stmts([]ast.Stmt{el}, after, ind+"  ", end))
		default:
			fail(t.fset, s, "else form %T", el)
		}
		return b.String()
	case *ast.AssignStmt:
		if len(s.Lhs) != 1 || len(s.Rhs) != 1 {
			fail(t.fset, s, "multiple assignment")
		}
		id, ok := s.Lhs[0].(*ast.Ident)
		if !ok || id.Name == "_" {
			fail(t.fset, s, "assignment to something other than a variable")
		}
		var divs []string
		var x string
		switch s.Tok {
		case token.DEFINE, token.ASSIGN:
			x = t.intExpr(s.Rhs[0], &divs)
		case token.ADD_ASSIGN, token.SUB_ASSIGN, token.MUL_ASSIGN, token.QUO_ASSIGN, token.REM_ASSIGN:
			op := map[token.Token]token.Token{token.ADD_ASSIGN: token.ADD, token.SUB_ASSIGN: token.SUB, token.MUL_ASSIGN: token.MUL, token.QUO_ASSIGN: token.QUO, token.REM_ASSIGN: token.REM}[s.Tok]
			if obj, ok := t.info.Uses[id].(*types.Var); !ok || !isIntType(obj.Type()) {
				fail(t.fset, s, "compound assignment to a non-int variable")
			}
			y := t.intExpr(s.Rhs[0], &divs)
			switch op {
			case token.ADD:
				x = "(wrap64 (" + id.Name + " + " + y + "))"
			case token.SUB:
				x = "(wrap64 (" + id.Name + " - " + y + "))"
			case token.MUL:
				x = "(wrap64 (" + id.Name + " * " + y + "))"
			case token.QUO:
				divs = append(divs, y)
				x = "(goDiv " + id.Name + " " + y + ")"
			case token.REM:
				divs = append(divs, y)
				x = "(goMod " + id.Name + " " + y + ")"
			}
		default:
			fail(t.fset, s, "assignment operator %s", s.Tok)
		}
		return guard(ind, divs) + fmt.Sprintf("%slet %s : Int := %s\n", ind, id.Name, x) + cont(ind)
	case *ast.IncDecStmt:
		id, ok := s.X.(*ast.Ident)
		if !ok {
			fail(t.fset, s, "++/-- on something other than a variable")
		}
		if obj, ok := t.info.Uses[id].(*types.Var); !ok || !isIntType(obj.Type()) {
			fail(t.fset, s, "++/-- on a non-int variable")
		}
		op := "+"
		if s.Tok == token.DEC {
			op = "-"
		}
		return fmt.Sprintf("%slet %s : Int := (wrap64 (%s %s 1))\n", ind, id.Name, id.Name, op) + cont(ind)
	case *ast.DeclStmt:
		gd, ok := s.Decl.(*ast.GenDecl)
		if !ok || gd.Tok != token.VAR || len(gd.Specs) != 1 {
			fail(t.fset, s, "declaration statement")
		}
		vs := gd.Specs[0].(*ast.ValueSpec)
		if len(vs.Names) != 1 {
			fail(t.fset, s, "multi-variable declaration")
		}
		if obj, ok := t.info.Defs[vs.Names[0]].(*types.Var); !ok || !isIntType(obj.Type()) {
			fail(t.fset, s, "declaration of a non-int variable")
		}
		x := "0"
		var divs []string
		if len(vs.Values) == 1 {
			x = t.intExpr(vs.Values[0], &divs)
		} else if len(vs.Values) > 1 {
			fail(t.fset, s, "multi-value declaration")
		}
		return guard(ind, divs) + fmt.Sprintf("%slet %s : Int := %s\n", ind, vs.Names[0].Name, x) + cont(ind)
	case *ast.EmptyStmt:
		return cont(ind)
	}
	fail(t.fset, s, "statement form %T", s)
	return ""
}

func isIntType(ty types.Type) bool {
	b, ok := ty.Underlying().(*types.Basic)
	return ok && b.Kind() == types.Int
}

type failingImporter struct{}

func (failingImporter) Import(path string) (*types.Package, error) {
	return nil, fmt.Errorf("imports are not needed for the translated functions")
}

func translate(repo string) (out string, err error) {
	defer func() {
		if p := recover(); p != nil {
			if c, ok := p.(cannot); ok {
				err = fmt.Errorf("cannot translate: %s", c.msg)
				return
			}
			panic(p)
		}
	}()
	path := filepath.Join(repo, "graphql", "validator", "validate_cost.go")
	src, rerr := os.ReadFile(path)
	if rerr != nil {
		return "", rerr
	}
	fset := token.NewFileSet()
	file, perr := parser.ParseFile(fset, path, src, parser.ParseComments)
	if perr != nil {
		return "", fmt.Errorf("cannot translate: %v", perr)
	}
	info := &types.Info{Types: map[ast.Expr]types.TypeAndValue{}, Uses: map[*ast.Ident]types.Object{}, Defs: map[*ast.Ident]types.Object{}}
	conf := types.Config{Importer: failingImporter{}, Error: func(error) {}, Sizes: types.SizesFor("gc", "amd64")}
	conf.Check("validator", fset, []*ast.File{file}, info) // errors about the unresolved imports are expected and ignored
	t := &tr{fset: fset, info: info}
	lastTr, lastFile, lastFset = t, file, fset

	var b strings.Builder
	b.WriteString("/-\n  GENERATED by /verif/tools/c14facts from graphql/validator/validate_cost.go of the repository under\n  check — do not edit; regenerated at the start of every `./check C14` (pre_cmds of checks/C14.json).\n")
	b.WriteString("  Literal translation of straight-line Go integer code: every arithmetic result is wrapped to 64 bits\n  (`wrap64`), `/` is truncated division guarded by an explicit divide-by-zero panic branch (`none`).\n-/\n")
	b.WriteString("import ApiFu.C14.Go\n\nnamespace ApiFu.C14.Generated\nopen ApiFu.C14\n\n")
	var translated bytes.Buffer
	for _, name := range wanted {
		var fd *ast.FuncDecl
		for _, d := range file.Decls {
			if f, ok := d.(*ast.FuncDecl); ok && f.Recv == nil && f.Name.Name == name {
				fd = f
			}
		}
		if fd == nil {
			fail(nil, nil, "function %s not found in %s", name, path)
		}
		if fd.Body == nil {
			fail(fset, fd, "function %s has no body", name)
		}
		var params []string
		for _, f := range fd.Type.Params.List {
			ty := info.Types[f.Type].Type
			if ty == nil || !isIntType(ty) {
				fail(fset, f, "parameter of %s is not of type int", name)
			}
			for _, n := range f.Names {
				params = append(params, n.Name)
			}
		}
		if fd.Type.Results == nil || len(fd.Type.Results.List) != 1 || len(fd.Type.Results.List[0].Names) > 0 {
			fail(fset, fd, "%s must have exactly one unnamed result", name)
		}
		if ty := info.Types[fd.Type.Results.List[0].Type].Type; ty == nil || !isIntType(ty) {
			fail(fset, fd, "result of %s is not of type int", name)
		}
		if len(params) != 2 {
			fail(fset, fd, "%s must have two parameters (has %d)", name, len(params))
		}
		var sb bytes.Buffer
		printer.Fprint(&sb, fset, fd)
		translated.Write(sb.Bytes())
		b.WriteString("/- Go source:\n")
		for _, l := range strings.Split(sb.String(), "\n") {
			b.WriteString("    " + strings.ReplaceAll(l, "-/", "- /") + "\n")
		}
		b.WriteString("-/\n")
		fmt.Fprintf(&b, "def %s (%s : Int) : Option Int :=\n", name, strings.Join(params, " "))
		b.WriteString(t.stmts(fd.Body.List, nil, "  ", fd))
		b.WriteString("\n")
	}
	// the constants the cost rule itself uses (validate_cost.go:147-149 uses maxInt)
	for _, cn := range []string{"maxInt", "minInt"} {
		obj := (*types.Const)(nil)
		for id, o := range info.Defs {
			if c, ok := o.(*types.Const); ok && id.Name == cn && c.Parent() != nil && c.Parent().Parent() == types.Universe {
				obj = c
			}
		}
		if obj == nil || obj.Val().Kind() != constant.Int {
			fail(nil, nil, "package constant %s not found", cn)
		}
		fmt.Fprintf(&b, "def %s : Int := %s\n", cn, obj.Val().ExactString())
	}
	h := sha256.Sum256(translated.Bytes())
	fmt.Fprintf(&b, "\n/-- sha256 of the source text of the translated functions (evidence only). -/\ndef sourceSha256 : String := %q\n", hex.EncodeToString(h[:]))
	b.WriteString("\nend ApiFu.C14.Generated\n")
	return b.String(), nil
}

// what translate() parsed and type-checked, for the translation of the walk (walk.go)
var (
	lastTr   *tr
	lastFile *ast.File
	lastFset *token.FileSet
)

func writeIfChanged(path string, content []byte) error {
	if old, err := os.ReadFile(path); err == nil && bytes.Equal(old, content) {
		return nil
	}
	tmp := path + fmt.Sprintf(".tmp%d", os.Getpid())
	if err := os.WriteFile(tmp, content, 0o644); err != nil {
		return err
	}
	return os.Rename(tmp, path)
}

func main() {
	repo := flag.String("repo", os.Getenv("VERIF_REPO"), "repository root (default $VERIF_REPO, then /repo)")
	out := flag.String("out", "", "Lean file to write (default: stdout)")
	fallback := flag.String("fallback", "", "file copied to -out when the source cannot be translated")
	walkout := flag.String("walkout", "", "Lean file to write the translation of the cost walk to (GeneratedWalk.lean)")
	connout := flag.String("connout", "", "Lean file to write the translation of pagination.go's connection cost functions to (GeneratedConn.lean)")
	flag.Parse()
	if *repo == "" {
		*repo = "/repo"
	}
	failed := false
	text, err := translate(*repo)
	if err != nil {
		failed = true
		fmt.Fprintln(os.Stderr, "c14facts:", err)
		if *fallback != "" && *out != "" {
			if fb, ferr := os.ReadFile(*fallback); ferr == nil {
				if werr := writeIfChanged(*out, fb); werr == nil {
					fmt.Fprintln(os.Stderr, "c14facts: wrote the fallback translation to", *out, "(the behavioural grid decides)")
				}
			}
		}
	} else if *out == "" {
		fmt.Print(text)
	} else if err := writeIfChanged(*out, []byte(text)); err != nil {
		fmt.Fprintln(os.Stderr, "c14facts:", err)
		os.Exit(1)
	}
	// the three translations are independent: each is attempted, each failure is reported, any failure is exit 1
	if *walkout != "" {
		var wtext string
		werr := fmt.Errorf("cannot translate: validate_cost.go could not be parsed")
		if lastTr != nil {
			wtext, werr = translateWalk(*repo, lastTr, lastFile, lastFset)
		}
		if werr != nil {
			failed = true
			fmt.Fprintln(os.Stderr, "c14facts:", werr)
			if *walkout != "-" {
				if e2 := writeIfChanged(*walkout, []byte(walkStub(werr.Error()))); e2 == nil {
					fmt.Fprintln(os.Stderr, "c14facts: wrote a file without definitions to", *walkout, "(the theorems about the generated walk stop checking; the harness decides whether a failing input exists)")
				}
			}
		} else if *walkout == "-" {
			fmt.Print(wtext)
		} else if err := writeIfChanged(*walkout, []byte(wtext)); err != nil {
			fmt.Fprintln(os.Stderr, "c14facts:", err)
			os.Exit(1)
		}
	}
	if *connout != "" {
		ctext, cerr := translateConn(*repo)
		if cerr != nil {
			failed = true
			fmt.Fprintln(os.Stderr, "c14facts:", cerr)
			if *connout != "-" {
				if e2 := writeIfChanged(*connout, []byte(connStub(cerr.Error()))); e2 == nil {
					fmt.Fprintln(os.Stderr, "c14facts: wrote a file without definitions to", *connout, "(the theorems about the generated connection cost functions stop checking)")
				}
			}
		} else if *connout == "-" {
			fmt.Print(ctext)
		} else if err := writeIfChanged(*connout, []byte(ctext)); err != nil {
			fmt.Fprintln(os.Stderr, "c14facts:", err)
			os.Exit(1)
		}
	}
	if failed {
		os.Exit(1)
	}
}
