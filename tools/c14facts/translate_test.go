package main

// Regression tests of the translator's two duties: translate the current source, and REFUSE (never
// silently approximate) what it does not understand. Run: cd tools/c14facts && go test  (VERIF_REPO or /repo).

import (
	"os"
	"path/filepath"
	"strings"
	"testing"
)

func repoRoot() string {
	if r := os.Getenv("VERIF_REPO"); r != "" {
		return r
	}
	return "/repo"
}

// scratch copies the three files the translator reads into a temporary tree and applies edit to one of them.
func scratch(t *testing.T, file string, edit func(string) string) string {
	t.Helper()
	dir := t.TempDir()
	for _, rel := range []string{"graphql/validator/validate_cost.go", "graphql/schema/field_definition.go", "pagination.go"} {
		src, err := os.ReadFile(filepath.Join(repoRoot(), rel))
		if err != nil {
			t.Skipf("repository not available: %v", err)
		}
		text := string(src)
		if rel == file && edit != nil {
			edited := edit(text)
			if edited == text {
				t.Fatalf("the edit of %s did not apply (the source has changed: adapt the test)", rel)
			}
			text = edited
		}
		dst := filepath.Join(dir, rel)
		if err := os.MkdirAll(filepath.Dir(dst), 0o755); err != nil {
			t.Fatal(err)
		}
		if err := os.WriteFile(dst, []byte(text), 0o644); err != nil {
			t.Fatal(err)
		}
	}
	return dir
}

func runAll(repo string) (walk string, walkErr error, conn string, connErr error) {
	lastTr, lastFile, lastFset = nil, nil, nil
	_, _ = translate(repo)
	if lastTr == nil {
		return "", os.ErrInvalid, "", os.ErrInvalid
	}
	walk, walkErr = translateWalk(repo, lastTr, lastFile, lastFset)
	conn, connErr = translateConn(repo)
	return
}

func replace(old, new string) func(string) string {
	return func(s string) string { return strings.Replace(s, old, new, 1) }
}

func TestCurrentSourceTranslates(t *testing.T) {
	dir := scratch(t, "", nil)
	walk, werr, conn, cerr := runAll(dir)
	if werr != nil || cerr != nil {
		t.Fatalf("walk: %v, conn: %v", werr, cerr)
	}
	for _, def := range []string{"def opLoop", "def fragLoop", "def callback", "def finish", "def rule", "def initMultipliers"} {
		if !strings.Contains(walk, def) {
			t.Errorf("GeneratedWalk lacks %q", def)
		}
	}
	for _, def := range []string{"def defaultConnectionCost", "def maxEdgeCount", "def edgesCosts", "def resolveGuard", "def resolveLimit"} {
		if !strings.Contains(conn, def) {
			t.Errorf("GeneratedConn lacks %q", def)
		}
	}
}

func TestHarmlessRewritesTranslate(t *testing.T) {
	for name, edit := range map[string]func(string) string{
		"renamed local":        func(s string) string { return strings.ReplaceAll(s, "newMultiplier", "nm") },
		"comment":              replace("newCtx := ctx", "newCtx := ctx // inherited unless the field replaces it"),
		"len != 0":             replace("if len(ret) > 0 {", "if len(ret) != 0 {"),
		"boolean local":        replace("if max >= 0 {", "limited := max >= 0\n\t\t\tif limited {"),
		"early continue":       replace("if operationName == \"\" || (def.Name != nil && def.Name.Name == operationName) {\n\t\t\t\t\tif op != nil {", "if !(operationName == \"\" || (def.Name != nil && def.Name.Name == operationName)) {\n\t\t\t\t\tcontinue\n\t\t\t\t}\n\t\t\t\t{\n\t\t\t\t\tif op != nil {"),
		"shadowing in a block": replace("newCtx := ctx\n", "newCtx := ctx\n\t\t\t\t{\n\t\t\t\t\tmultiplier := multiplier\n\t\t\t\t\tnewMultiplier = multiplier\n\t\t\t\t}\n"),
	} {
		dir := scratch(t, "graphql/validator/validate_cost.go", edit)
		if _, werr, _, _ := runAll(dir); werr != nil {
			t.Errorf("%s: %v", name, werr)
		}
	}
}

func TestUnknownSyntaxIsRefused(t *testing.T) {
	for name, c := range map[string]struct {
		file string
		edit func(string) string
		want string
	}{
		"stack read below the top": {"graphql/validator/validate_cost.go",
			replace("ctx := ctxs[len(ctxs)-1]", "ctx := ctxs[0]"), "a slice may only be read at len-1"},
		"new case in the type switch": {"graphql/validator/validate_cost.go",
			replace("case *ast.FragmentSpread:", "case *ast.InlineFragment:\n\t\t\t\t\tnewMultiplier = multiplier\n\t\t\t\tcase *ast.FragmentSpread:"), "type-switch case"},
		"uncoerced variables handed to argument coercion": {"graphql/validator/validate_cost.go",
			replace("selection.Arguments, coercedVariableValues)", "selection.Arguments, variableValues)"), "CoerceArgumentValues"},
		"cost context not the received one": {"graphql/validator/validate_cost.go",
			replace("Context:   ctx,", "Context:   context.Background(),"), "context expression"},
		"division": {"graphql/validator/validate_cost.go",
			replace("newMultiplier = checkedNonNegativeMultiply(multiplier, fieldCost.Multiplier)", "newMultiplier = multiplier / fieldCost.Multiplier"), "binary operator /"},
		"helper call": {"graphql/validator/validate_cost.go",
			replace("if fieldCost.Multiplier > 1 {", "if effective(fieldCost.Multiplier) > 1 {"), "cannot translate"},
		"walk not guarded by ret": {"graphql/validator/validate_cost.go",
			replace("if len(ret) == 0 && op != nil {\n\t\t\tvisitNode(op)", "if op != nil {\n\t\t\tvisitNode(op)"), "the walk must be started by"},
		"variables set to something else": {"graphql/validator/validate_cost.go",
			replace("coercedVariableValues = v", "coercedVariableValues = variableValues"), "may only be set to the result of CoerceVariableValues"},
		"operation name read without nil test": {"graphql/validator/validate_cost.go",
			replace("(def.Name != nil && def.Name.Name == operationName)", "def.Name.Name == operationName"), "without a preceding"},
		"a third loop variable": {"graphql/validator/validate_cost.go",
			replace("op = def\n", "op = def\n\t\t\t\t\tmax = 0\n"), "exactly one outer variable"},
		"FieldCost gets a field": {"graphql/schema/field_definition.go",
			replace("\tMultiplier int\n}", "\tMultiplier int\n\tDivisor int\n}"), "schema.FieldCost.Divisor"},
	} {
		dir := scratch(t, c.file, c.edit)
		_, werr, _, _ := runAll(dir)
		if werr == nil {
			t.Errorf("%s: translated, expected a refusal", name)
		} else if !strings.Contains(werr.Error(), c.want) {
			t.Errorf("%s: refused with %q, expected it to mention %q", name, werr, c.want)
		}
	}
	for name, c := range map[string]struct {
		edit func(string) string
		want string
	}{
		"last keyed on presence": {replace("if last, ok := ctx.Arguments[\"last\"].(int); ok {\n\t\tmaxCount = last", "if v, ok := ctx.Arguments[\"last\"]; ok {\n\t\tmaxCount, _ = v.(int)"), "init clause"},
		"context cut off":        {replace("context.WithValue(ctx.Context, maxEdgeCountContextKey, maxCount)", "context.WithValue(context.Background(), maxEdgeCountContextKey, maxCount)"), "not derived from the context the cost function received"},
	} {
		dir := scratch(t, "pagination.go", c.edit)
		_, _, _, cerr := runAll(dir)
		if cerr == nil {
			t.Errorf("%s: translated, expected a refusal", name)
		} else if !strings.Contains(cerr.Error(), c.want) {
			t.Errorf("%s: refused with %q, expected it to mention %q", name, cerr, c.want)
		}
	}
}
