// Translation of the cost walk of ValidateCost (graphql/validator/validate_cost.go) into Lean:
// the ast.Inspect callback (`callback`), the final block of the rule (`finish`) and the initial values
// of the captured variables, written to lean/ApiFu/C14/GeneratedWalk.lean.
//
// The callback is imperative code over captured variables; it is translated statement by statement in
// continuation-passing style (the statements after an `if` are repeated in both branches, an
// assignment is a shadowing `let`). The vocabulary is fixed (lean/ApiFu/C14/WalkTypes.lean):
//
//	var cost int                                  → Int                    (GSt.cost)
//	multipliers := []int{…}                       → List Int, head = last  (GSt.multipliers) — a slice used ONLY as
//	ctxs := []context.Context{…}                  → List κ,   head = last  (GSt.ctxs)          a stack, see below
//	fragments := map[string]struct{}{}            → GoSet                  (GSt.fragments)
//	var ret []*Error                              → List GErr              (GSt.ret)
//	x := S[len(S)-1]                              → match S with | [] => panic "index out of range" | x :: _ => …
//	S = S[:len(S)-1]                              → match S with | [] => panic "slice bounds out of range" | _ :: S => …
//	S = append(S, v)                              → let S := v :: S
//	ret = append(ret, newSecondaryError(n, msg))  → let ret := ret ++ [GErr.newSecondaryError msg]
//	ret = append(ret, newError(n, fmt, ints…))    → let ret := ret ++ [GErr.newError fmt [ints…]]
//	_, ok := fragments[k] / fragments[k] = struct{}{} / delete(fragments, k) → GoSet.mem / insert / delete
//	d, ok := fragmentsByName[k]; ok               → match fragmentsByName k with | some d => … | none => …
//	if node == nil { … return … }                 → match node with | none => … | some node => …
//	switch sel := node.(type) { case *ast.Field: … case *ast.FragmentSpread: … }
//	                                              → match node with | .field sel => … | .spread sel => … | .other => …
//	def, ok := typeInfo.FieldDefinitions[sel]     → ok ↦ sel.hasDef
//	args, err := CoerceArgumentValues(sel, def.Arguments, sel.Arguments, coercedVariableValues)
//	                                              → (err != nil) ↦ sel.argErr, err.Error() ↦ "argument coercion"
//	cc := schema.FieldCostContext{Context: c, Arguments: args};  def.Cost != nil;  def.Cost(cc)
//	                                              → match sel.costFn with | some f => … f c … | none => …
//	fc.Resolver, fc.Multiplier, fc.Context != nil → fc.resolver, fc.multiplier, match fc.ctx with | some v => … | none => …
//	checkedNonNegativeAdd/Multiply(a, b)          → match Generated.… a b with | none => panic | some t => …
//	visitNode(d)                                  → the recursion, state passed in and read back
//	verif…(…)                                     → nothing (hook of a `//go:build verif` file; a no-op without the tag)
//	*actual = e;  actual != nil                   → actual_deref := some e;  actual_nonnil
//	coercedVariableValues != nil                  → coercedVariableValues = true
//	integer expressions / comparisons / && || !   → as in main.go (wrap64 around + - *, constants evaluated)
//
// Everything else — another statement or expression form, another use of one of the captured variables,
// another case in the type switch, other arguments to CoerceArgumentValues, a division — is refused:
// `c14facts: cannot translate …`, exit status 1, and GeneratedWalk.lean is replaced by a file without
// definitions so that every theorem about the generated walk stops checking.
package main

import (
	"bytes"
	"fmt"
	"go/ast"
	"go/parser"
	"go/printer"
	"go/token"
	"os"
	"path/filepath"
	"regexp"
	"strconv"
	"strings"
)

type kind int

const (
	kNone      kind = iota
	kInt            // Go int
	kCtx            // context.Context known to be non-nil (an element of ctxs)
	kStackInt       // []int used as a stack
	kStackCtx       // []context.Context used as a stack
	kSet            // map[string]struct{}
	kErrs           // []*Error
	kFieldCost      // schema.FieldCost
	kTable          // fragmentsByName
	kVars           // coercedVariableValues (only compared with nil / passed on)
	kVisit          // visitNode
	kNodeParam      // the callback's parameter (possibly nil)
	kNodeVal        // … after the nil test
	kFieldSel       // *ast.Field of the type switch
	kSpreadSel      // *ast.FragmentSpread of the type switch
	kFieldDef       // typeInfo.FieldDefinitions[sel]
	kFragDef        // fragmentsByName[name]
	kArgs           // coerced arguments
	kArgErr         // the error of CoerceArgumentValues
	kCostCtx        // schema.FieldCostContext{…}
	kBool           // a boolean with a fixed Lean proposition
	kTypeInfo       // the rule's typeInfo parameter
	kActualPtr      // the *int out-parameter
	kOpaque         // something the translated part may only name (error positions)
	kString         // a Go string (operationName)
	kOp             // *ast.OperationDefinition variable (nil-able): Option (Op κ)
	kOpDef          // a non-nil *ast.OperationDefinition obtained by a type assertion
	kFragDefV       // a *ast.FragmentDefinition obtained by a type assertion (aux = Lean name of its name)
	kDefElem        // the element variable of `range doc.Definitions`
	kVarsVal        // the map returned by a successful CoerceVariableValues (non-nil)
)

type bind struct {
	k    kind
	lean string // Lean term for the value (or the proposition for kBool)
	aux  string // kFieldDef: Lean name of its selection; kCostCtx: Lean term of its Context; kFieldCost/kFieldDef: bound sub-values
	decl int    // identity of the Go declaration (an assignment keeps it, a := / init clause / parameter makes a new one)
}

var declCounter int

func newDecl() int { declCounter++; return declCounter }

// keep: after a nested scope, an outer variable has the value the scope left in it unless the scope
// re-declared the name (Go shadowing).
func mergeScope(outer, inner env, keepAux bool) env {
	out := outer.copy()
	for name, b := range inner {
		if ob, ok := outer[name]; ok && ob.decl == b.decl {
			if !keepAux {
				b.aux = ob.aux
			}
			out[name] = b
		}
	}
	return out
}

type env map[string]bind

func (e env) copy() env {
	c := env{}
	for k, v := range e {
		c[k] = v
	}
	return c
}

var leanKeywords = map[string]bool{"def": true, "end": true, "from": true, "at": true, "have": true, "show": true, "fun": true,
	"match": true, "with": true, "then": true, "else": true, "if": true, "let": true, "in": true, "do": true, "open": true,
	"by": true, "theorem": true, "instance": true, "structure": true, "where": true, "namespace": true, "section": true,
	"variable": true, "universe": true, "import": true, "export": true, "private": true, "protected": true, "mutual": true,
	"inductive": true, "class": true, "abbrev": true, "example": true, "axiom": true, "opaque": true, "deriving": true,
	"return": true, "for": true, "unless": true, "try": true, "catch": true, "finally": true, "macro": true, "syntax": true,
	"notation": true, "infix": true, "prefix": true, "postfix": true, "attribute": true, "local": true, "scoped": true,
	"set_option": true, "using": true, "calc": true, "nomatch": true, "nofun": true, "suffices": true, "obtain": true,
	"matches": true, "infixl": true, "infixr": true, "termination_by": true, "decreasing_by": true, "partial": true, "unsafe": true,
	"noncomputable": true, "extends": true, "mut": true, "break": true, "continue": true, "omit": true, "include": true,
	"rec": true, "this": true, "rest": true,
	"Type": true, "Prop": true, "Sort": true, "s": true, "e": true, "none": true, "some": true, "true": true, "false": true}

var tmpName = regexp.MustCompile(`^call[0-9]+$`)

type wtr struct {
	fset     *token.FileSet
	base     *tr // constant evaluation
	tmp      int
	stNames  [5]string // Lean names of cost, multipliers, ctxs, fragments, ret
	inFinish bool
	inRule   bool // translating the body of the rule itself (sequencing of loops, guard, walk, final block)
	kappa    bool
	// inside a translated `for … range` loop: the text of "go on with the next element" / "leave the loop"
	loopNext  func(e env, ind string) string
	loopBreak func(e env, ind string) string
	lastLoopCall string // the read-only parameters of the loop translated last (" operationName")
	nameGuard map[string]bool // Go variables d for which `d.Name != nil` is known at this point (right of `&&`)
}

func (w *wtr) fail(n ast.Node, format string, a ...any) { fail(w.fset, n, format, a...) }

// fresh Lean name for a new Go declaration: never one that is already bound in e (Go shadowing must not
// become Lean shadowing, the continuation after the inner scope still needs the outer value).
func (w *wtr) declName(n ast.Node, e env, goName string) string {
	name := w.leanName(n, goName)
	for {
		clash := false
		for _, b := range e {
			if b.lean == name {
				clash = true
			}
		}
		if !clash {
			return name
		}
		name += "'"
	}
}

func (w *wtr) leanName(n ast.Node, goName string) string {
	if tmpName.MatchString(goName) {
		w.fail(n, "identifier %s clashes with the translator's temporaries", goName)
	}
	for _, r := range goName {
		if r > 127 {
			w.fail(n, "non-ASCII identifier %s", goName)
		}
	}
	if leanKeywords[goName] {
		return goName + "_"
	}
	return goName
}

func (w *wtr) src(n ast.Node) string {
	var b bytes.Buffer
	printer.Fprint(&b, w.fset, n)
	return b.String()
}

func leanType(k kind) string {
	switch k {
	case kInt:
		return "Int"
	case kCtx:
		return "κ"
	case kStackInt:
		return "List Int"
	case kStackCtx:
		return "List κ"
	case kSet:
		return "List String"
	case kErrs:
		return "List GErr"
	case kFieldCost:
		return "FieldCost κ"
	case kOp:
		return "Option (Op κ)"
	case kTable:
		return "String → Option (Node κ)"
	}
	return "?"
}

func isIdent(e ast.Expr, name string) bool {
	id, ok := e.(*ast.Ident)
	return ok && id.Name == name
}

func unparen(e ast.Expr) ast.Expr {
	for {
		p, ok := e.(*ast.ParenExpr)
		if !ok {
			return e
		}
		e = p.X
	}
}

func (w *wtr) lookup(e env, x ast.Expr) (bind, string, bool) {
	id, ok := unparen(x).(*ast.Ident)
	if !ok {
		return bind{}, "", false
	}
	b, ok := e[id.Name]
	return b, id.Name, ok
}

// isLenMinus1 reports whether x is `len(S)-1` for the identifier S.
func isLenMinus1(x ast.Expr, s string) bool {
	be, ok := unparen(x).(*ast.BinaryExpr)
	if !ok || be.Op != token.SUB {
		return false
	}
	if l, ok := be.Y.(*ast.BasicLit); !ok || l.Value != "1" {
		return false
	}
	c, ok := unparen(be.X).(*ast.CallExpr)
	return ok && isIdent(c.Fun, "len") && len(c.Args) == 1 && isIdent(unparen(c.Args[0]), s)
}

type pending struct{ tmp, call string }

// intExpr: integer expression; calls of the two arithmetic helpers are hoisted into `pre` (evaluation order).
func (w *wtr) intExpr(e env, x ast.Expr, pre *[]pending) string {
	x = unparen(x)
	if v, ok := w.base.constInt(x); ok {
		return lit(v)
	}
	switch x := x.(type) {
	case *ast.BasicLit:
		if x.Kind == token.INT {
			if n, err := strconv.ParseInt(x.Value, 0, 64); err == nil {
				return lit(strconv.FormatInt(n, 10))
			}
		}
		w.fail(x, "literal %s", x.Value)
	case *ast.Ident:
		if b, ok := e[x.Name]; ok && b.k == kInt {
			return b.lean
		}
		w.fail(x, "%s is not an int variable of the translated part", x.Name)
	case *ast.SelectorExpr:
		if b, _, ok := w.lookup(e, x.X); ok && b.k == kFieldCost {
			switch x.Sel.Name {
			case "Resolver":
				return b.lean + ".resolver"
			case "Multiplier":
				return b.lean + ".multiplier"
			}
		}
		w.fail(x, "selector %s in an integer expression", w.src(x))
	case *ast.UnaryExpr:
		v := w.intExpr(e, x.X, pre)
		switch x.Op {
		case token.SUB:
			return "(wrap64 (-" + v + "))"
		case token.ADD:
			return v
		}
		w.fail(x, "unary operator %s", x.Op)
	case *ast.BinaryExpr:
		a := w.intExpr(e, x.X, pre)
		b := w.intExpr(e, x.Y, pre)
		switch x.Op {
		case token.ADD:
			return "(wrap64 (" + a + " + " + b + "))"
		case token.SUB:
			return "(wrap64 (" + a + " - " + b + "))"
		case token.MUL:
			return "(wrap64 (" + a + " * " + b + "))"
		}
		w.fail(x, "binary operator %s on int in the cost walk", x.Op)
	case *ast.CallExpr:
		if id, ok := x.Fun.(*ast.Ident); ok {
			if id.Name == "len" && len(x.Args) == 1 {
				if b, _, ok := w.lookup(e, x.Args[0]); ok && b.k == kErrs {
					return "(" + b.lean + ".length : Int)"
				}
				w.fail(x, "len of something other than the error list")
			}
			for _, wn := range wanted {
				if id.Name == wn && len(x.Args) == 2 {
					if pre == nil {
						w.fail(x, "call of %s where no call can be translated (condition or final block)", wn)
					}
					a := w.intExpr(e, x.Args[0], pre)
					b := w.intExpr(e, x.Args[1], pre)
					w.tmp++
					t := fmt.Sprintf("call%d", w.tmp)
					*pre = append(*pre, pending{t, "Generated." + wn + " " + atomArg(a) + " " + atomArg(b)})
					return t
				}
			}
		}
		w.fail(x, "call %s in an integer expression", w.src(x))
	}
	w.fail(x, "integer expression form %T (%s)", x, w.src(x))
	return ""
}

func atomArg(s string) string {
	if strings.HasPrefix(s, "(") || !strings.ContainsAny(s, " -") {
		return s
	}
	return "(" + s + ")"
}

func (w *wtr) strExpr(e env, x ast.Expr) (string, bool) {
	x = unparen(x)
	switch x := x.(type) {
	case *ast.BasicLit:
		if x.Kind == token.STRING {
			v, err := strconv.Unquote(x.Value)
			if err != nil {
				w.fail(x, "string literal %s", x.Value)
			}
			return leanString(w, x, v), true
		}
	case *ast.Ident:
		if b, ok := e[x.Name]; ok && b.k == kString {
			return b.lean, true
		}
	case *ast.SelectorExpr:
		if x.Sel.Name == "Name" {
			if in, ok := unparen(x.X).(*ast.SelectorExpr); ok {
				if b, _, ok := w.lookup(e, in.X); ok {
					if b.k == kFieldSel && in.Sel.Name == "Name" {
						return b.lean + ".name", true
					}
					if b.k == kSpreadSel && in.Sel.Name == "FragmentName" {
						return b.lean + ".fragmentName", true
					}
				}
			}
			// d.Name.Name of a fragment definition (the parser always gives a fragment a name)
			if in, ok := unparen(x.X).(*ast.SelectorExpr); ok && in.Sel.Name == "Name" {
				if b, _, ok := w.lookup(e, in.X); ok && b.k == kFragDefV {
					return b.aux, true
				}
			}
		}
	case *ast.CallExpr:
		// err.Error() of the argument-coercion error
		if sel, ok := x.Fun.(*ast.SelectorExpr); ok && sel.Sel.Name == "Error" && len(x.Args) == 0 {
			if b, _, ok := w.lookup(e, sel.X); ok && b.k == kArgErr {
				if b.aux != "" {
					return strconv.Quote(b.aux), true
				}
				return `"argument coercion"`, true
			}
		}
	}
	return "", false
}

func leanString(w *wtr, n ast.Node, v string) string {
	for _, r := range v {
		if r < 32 || r > 126 {
			w.fail(n, "string literal with a character outside printable ASCII")
		}
	}
	return strconv.Quote(v)
}

func isNil(x ast.Expr) bool { return isIdent(unparen(x), "nil") }

// boolExpr translates a condition into a decidable proposition.
func (w *wtr) boolExpr(e env, x ast.Expr) string {
	x = unparen(x)
	switch x := x.(type) {
	case *ast.Ident:
		if b, ok := e[x.Name]; ok && b.k == kBool {
			return b.lean
		}
		switch x.Name {
		case "true":
			return "True"
		case "false":
			return "False"
		}
		w.fail(x, "boolean %s", x.Name)
	case *ast.UnaryExpr:
		if x.Op == token.NOT {
			return "(¬ " + w.boolExpr(e, x.X) + ")"
		}
	case *ast.BinaryExpr:
		switch x.Op {
		case token.LAND:
			left := w.boolExpr(e, x.X)
			// `d.Name != nil && …`: the right side may read d.Name.Name
			guarded := ""
			if l, ok := unparen(x.X).(*ast.BinaryExpr); ok && l.Op == token.NEQ && isNil(l.Y) {
				if sel, ok := unparen(l.X).(*ast.SelectorExpr); ok && sel.Sel.Name == "Name" {
					if bd, gname, ok := w.lookup(e, sel.X); ok && bd.k == kOpDef && !w.nameGuard[gname] {
						guarded = gname
					}
				}
			}
			if guarded != "" {
				if w.nameGuard == nil {
					w.nameGuard = map[string]bool{}
				}
				w.nameGuard[guarded] = true
			}
			right := w.boolExpr(e, x.Y)
			if guarded != "" {
				delete(w.nameGuard, guarded)
			}
			return "(" + left + " ∧ " + right + ")"
		case token.LOR:
			return "(" + w.boolExpr(e, x.X) + " ∨ " + w.boolExpr(e, x.Y) + ")"
		case token.EQL, token.NEQ:
			var p string
			a, b := x.X, x.Y
			if isNil(a) {
				a, b = b, a
			}
			if isNil(b) {
				if sel, ok := unparen(a).(*ast.SelectorExpr); ok && sel.Sel.Name == "Name" {
					if bd, _, ok := w.lookup(e, sel.X); ok && bd.k == kOpDef {
						p = "(" + bd.lean + ".name.isSome = true)"
						if x.Op == token.EQL {
							return "(¬ " + p + ")"
						}
						return p
					}
				}
				bd, _, ok := w.lookup(e, a)
				if !ok {
					w.fail(x, "comparison of %s with nil", w.src(a))
				}
				switch bd.k {
				case kOp:
					p = "(" + bd.lean + ".isSome = true)"
				case kVars, kActualPtr:
					p = "(" + bd.lean + " = true)"
				case kArgErr:
					p = "(" + bd.lean + " = true)"
				default:
					w.fail(x, "comparison of %s with nil", w.src(a))
				}
				if x.Op == token.EQL {
					return "(¬ " + p + ")"
				}
				return p
			}
			// d.Name.Name == s for an operation definition d (its name is optional: only under `d.Name != nil &&`)
			for _, pr := range [][2]ast.Expr{{a, b}, {b, a}} {
				if sel, ok := unparen(pr[0]).(*ast.SelectorExpr); ok && sel.Sel.Name == "Name" {
					if in, ok := unparen(sel.X).(*ast.SelectorExpr); ok && in.Sel.Name == "Name" {
						if bd, gname, ok := w.lookup(e, in.X); ok && bd.k == kOpDef {
							if !w.nameGuard[gname] {
								w.fail(x, "%s is read without a preceding `%s.Name != nil &&`", w.src(pr[0]), gname)
							}
							other, ok := w.strExpr(e, pr[1])
							if !ok {
								w.fail(x, "comparison of a name with %s", w.src(pr[1]))
							}
							if x.Op == token.EQL {
								return "(" + bd.lean + ".name = some " + other + ")"
							}
							return "(¬ " + bd.lean + ".name = some " + other + ")"
						}
					}
				}
			}
			if sa, ok := w.strExpr(e, a); ok {
				sb, ok := w.strExpr(e, b)
				if !ok {
					w.fail(x, "comparison of a string with %s", w.src(b))
				}
				if x.Op == token.EQL {
					return "(" + sa + " = " + sb + ")"
				}
				return "(" + sa + " ≠ " + sb + ")"
			}
			fallthrough
		case token.LSS, token.LEQ, token.GTR, token.GEQ:
			a := w.intExpr(e, x.X, nil)
			b := w.intExpr(e, x.Y, nil)
			op := map[token.Token]string{token.LSS: "<", token.LEQ: "≤", token.GTR: ">", token.GEQ: "≥", token.EQL: "=", token.NEQ: "≠"}[x.Op]
			return "(" + a + " " + op + " " + b + ")"
		}
	}
	w.fail(x, "condition %s", w.src(x))
	return ""
}

func (w *wtr) stTuple(e env) string {
	return "⟨" + strings.Join(w.stNames[:], ", ") + "⟩"
}

func (w *wtr) wrapCalls(pre []pending, ind string) (string, string) {
	var b strings.Builder
	for _, p := range pre {
		fmt.Fprintf(&b, "%smatch %s with\n%s| none => .error (.panic \"integer divide by zero\")\n%s| some %s =>\n", ind, p.call, ind, ind, p.tmp)
		ind += "  "
	}
	return b.String(), ind
}

type cont func(e env, ind string) string

func terminates(list []ast.Stmt) bool {
	if len(list) == 0 {
		return false
	}
	switch s := list[len(list)-1].(type) {
	case *ast.ReturnStmt:
		return true
	case *ast.BlockStmt:
		return terminates(s.List)
	case *ast.IfStmt:
		if s.Else == nil {
			return false
		}
		switch el := s.Else.(type) {
		case *ast.BlockStmt:
			return terminates(s.Body.List) && terminates(el.List)
		case *ast.IfStmt:
			return terminates(s.Body.List) && terminates([]ast.Stmt{el})
		}
	}
	return false
}

func (w *wtr) stmts(list []ast.Stmt, e env, ind string, k cont) string {
	if len(list) == 0 {
		return k(e, ind)
	}
	s, tail := list[0], list[1:]
	next := func(e env, ind string) string { return w.stmts(tail, e, ind, k) }
	switch s := s.(type) {
	case *ast.EmptyStmt:
		return next(e, ind)
	case *ast.BlockStmt:
		return w.stmts(s.List, e.copy(), ind, func(e2 env, ind string) string {
			return next(mergeScope(e, e2, true), ind)
		})
	case *ast.ReturnStmt:
		if len(tail) > 0 {
			w.fail(tail[0], "statement after return")
		}
		if len(s.Results) != 1 {
			w.fail(s, "return with %d results", len(s.Results))
		}
		if w.inFinish {
			if b, _, ok := w.lookup(e, s.Results[0]); !ok || b.k != kErrs {
				w.fail(s, "the rule must return the error list")
			}
			return ind + "(" + w.stNames[4] + ", actual_deref)\n"
		}
		switch {
		case isIdent(s.Results[0], "true"):
			return ind + ".ok (" + w.stTuple(e) + ", true)\n"
		case isIdent(s.Results[0], "false"):
			return ind + ".ok (" + w.stTuple(e) + ", false)\n"
		}
		w.fail(s, "the callback must return the literal true or false")
	case *ast.ExprStmt:
		call, ok := s.X.(*ast.CallExpr)
		if !ok {
			w.fail(s, "expression statement %s", w.src(s))
		}
		if id, ok := call.Fun.(*ast.Ident); ok {
			if strings.HasPrefix(id.Name, "verif") {
				if _, bound := e[id.Name]; !bound {
					return ind + "-- hook (no-op without the verif build tag): " + strings.ReplaceAll(w.src(s), "\n", " ") + "\n" + next(e, ind)
				}
			}
			if id.Name == "delete" && len(call.Args) == 2 {
				if b, name, ok := w.lookup(e, call.Args[0]); ok && b.k == kSet {
					key, ok := w.strExpr(e, call.Args[1])
					if !ok {
						w.fail(s, "key of delete")
					}
					e2 := e.copy()
					_ = name
					return fmt.Sprintf("%slet %s : List String := GoSet.delete %s %s\n", ind, b.lean, key, b.lean) + next(e2, ind)
				}
			}
			if b, ok := e[id.Name]; ok && b.k == kVisit && len(call.Args) == 1 && w.inRule {
				o, _, ok := w.lookup(e, call.Args[0])
				if !ok || o.k != kOp {
					w.fail(s, "the walk must start at the chosen operation: %s", w.src(s))
				}
				var vars, table string
				for _, x := range e {
					switch x.k {
					case kVars:
						vars = x.lean
					case kTable:
						table = x.lean
					}
				}
				if vars == "" || table == "" {
					w.fail(s, "the walk is started before the coerced variables and the fragment table exist")
				}
				var bld strings.Builder
				fmt.Fprintf(&bld, "%smatch %s with\n%s| none => .error (.panic \"nil pointer dereference\")\n%s| some %s_val =>\n", ind, o.lean, ind, ind, o.lean)
				fmt.Fprintf(&bld, "%s  match %s %s %s %s_val.node %s with\n%s  | .error e => .error e\n%s  | .ok s' =>\n", ind, b.lean, vars, table, o.lean, w.stTuple(e), ind, ind)
				fields := []string{"cost", "multipliers", "ctxs", "fragments", "ret"}
				kinds := []kind{kInt, kStackInt, kStackCtx, kSet, kErrs}
				for i, n := range w.stNames {
					fmt.Fprintf(&bld, "%s    let %s : %s := s'.%s\n", ind, n, leanType(kinds[i]), fields[i])
				}
				return bld.String() + next(e, ind+"    ")
			}
			if b, ok := e[id.Name]; ok && b.k == kVisit && len(call.Args) == 1 && !w.inFinish {
				d, _, ok := w.lookup(e, call.Args[0])
				if !ok || d.k != kFragDef {
					w.fail(s, "visitNode of something other than a fragment definition looked up by name")
				}
				var bld strings.Builder
				fmt.Fprintf(&bld, "%smatch %s %s %s with\n%s| .error e => .error e\n%s| .ok s' =>\n", ind, b.lean, d.lean, w.stTuple(e), ind, ind)
				fields := []string{"cost", "multipliers", "ctxs", "fragments", "ret"}
				kinds := []kind{kInt, kStackInt, kStackCtx, kSet, kErrs}
				for i, n := range w.stNames {
					fmt.Fprintf(&bld, "%s  let %s : %s := s'.%s\n", ind, n, leanType(kinds[i]), fields[i])
				}
				return bld.String() + next(e, ind+"  ")
			}
		}
		w.fail(s, "call statement %s", w.src(s))
	case *ast.AssignStmt:
		return w.assign(s, e, ind, next)
	case *ast.IfStmt:
		return w.ifStmt(s, e, ind, next)
	case *ast.TypeSwitchStmt:
		return w.typeSwitch(s, e, ind, next)
	case *ast.BranchStmt:
		if s.Label == nil && w.loopNext != nil {
			switch s.Tok {
			case token.BREAK:
				return w.loopBreak(e, ind)
			case token.CONTINUE:
				return w.loopNext(e, ind)
			}
		}
		w.fail(s, "branch statement %s", w.src(s))
	}
	w.fail(s, "statement form %T (%s)", s, strings.SplitN(w.src(s), "\n", 2)[0])
	return ""
}

func (w *wtr) assign(s *ast.AssignStmt, e env, ind string, next cont) string {
	if len(s.Lhs) != 1 || len(s.Rhs) != 1 {
		w.fail(s, "multiple assignment %s", w.src(s))
	}
	rhs := unparen(s.Rhs[0])
	// *actual = e
	if st, ok := s.Lhs[0].(*ast.StarExpr); ok && s.Tok == token.ASSIGN {
		if b, _, ok := w.lookup(e, st.X); ok && b.k == kActualPtr && w.inFinish {
			v := w.intExpr(e, rhs, nil)
			return fmt.Sprintf("%slet actual_deref : Option Int := some %s\n", ind, atomArg(v)) + next(e, ind)
		}
		w.fail(s, "store through a pointer")
	}
	// M[k] = struct{}{}
	if ix, ok := s.Lhs[0].(*ast.IndexExpr); ok && s.Tok == token.ASSIGN {
		if b, _, ok := w.lookup(e, ix.X); ok && b.k == kSet {
			key, ok := w.strExpr(e, ix.Index)
			if !ok || w.src(rhs) != "struct{}{}" {
				w.fail(s, "set insertion %s", w.src(s))
			}
			return fmt.Sprintf("%slet %s : List String := GoSet.insert %s %s\n", ind, b.lean, key, b.lean) + next(e, ind)
		}
		if b, _, ok := w.lookup(e, ix.X); ok && b.k == kTable && w.loopNext != nil {
			key, okk := w.strExpr(e, ix.Index)
			d, _, okd := w.lookup(e, rhs)
			if !okk || !okd || d.k != kFragDefV {
				w.fail(s, "fragment table assignment %s", w.src(s))
			}
			return fmt.Sprintf("%slet %s : %s := GoMap.set %s %s %s\n", ind, b.lean, leanType(kTable), key, d.lean, b.lean) + next(e, ind)
		}
		w.fail(s, "indexed assignment %s", w.src(s))
	}
	id, ok := s.Lhs[0].(*ast.Ident)
	if !ok || id.Name == "_" {
		w.fail(s, "assignment target %s", w.src(s.Lhs[0]))
	}
	old, exists := e[id.Name]
	if s.Tok == token.ASSIGN && !exists {
		w.fail(s, "assignment to %s, which is not a variable of the translated part", id.Name)
	}
	if s.Tok != token.ASSIGN && s.Tok != token.DEFINE {
		w.fail(s, "assignment operator %s", s.Tok)
	}
	define := func(k kind, val string, aux string) string {
		if s.Tok == token.ASSIGN && old.k != k {
			w.fail(s, "assignment changes what %s is", id.Name)
		}
		name, decl := "", 0
		if s.Tok == token.ASSIGN {
			name, decl = old.lean, old.decl
		} else {
			name, decl = w.declName(id, e, id.Name), newDecl()
		}
		e2 := e.copy()
		e2[id.Name] = bind{k: k, lean: name, aux: aux, decl: decl}
		if k == kCostCtx {
			return ind + "-- " + strings.ReplaceAll(w.src(s), "\n", " ") + "\n" + next(e2, ind)
		}
		return fmt.Sprintf("%slet %s : %s := %s\n", ind, name, leanType(k), val) + next(e2, ind)
	}
	// coercedVariableValues = v (the successfully coerced, non-nil map)
	if exists && old.k == kVars && s.Tok == token.ASSIGN && w.inRule {
		if v, _, ok := w.lookup(e, rhs); ok && v.k == kVarsVal {
			return fmt.Sprintf("%slet %s : Bool := true\n", ind, old.lean) + next(e, ind)
		}
		w.fail(s, "the coerced variables may only be set to the result of CoerceVariableValues: %s", w.src(s))
	}
	// the nil-able operation variable
	if exists && old.k == kOp && s.Tok == token.ASSIGN {
		if isNil(rhs) {
			return fmt.Sprintf("%slet %s : %s := none\n", ind, old.lean, leanType(kOp)) + next(e, ind)
		}
		if d, _, ok := w.lookup(e, rhs); ok && d.k == kOpDef {
			return fmt.Sprintf("%slet %s : %s := some %s\n", ind, old.lean, leanType(kOp), d.lean) + next(e, ind)
		}
		w.fail(s, "assignment to the operation variable: %s", w.src(s))
	}
	// stack idioms
	if ix, ok := rhs.(*ast.IndexExpr); ok {
		if b, sname, ok := w.lookup(e, ix.X); ok && (b.k == kStackInt || b.k == kStackCtx) && isLenMinus1(ix.Index, sname) && s.Tok == token.DEFINE {
			k := kInt
			if b.k == kStackCtx {
				k = kCtx
			}
			name := w.declName(id, e, id.Name)
			e2 := e.copy()
			e2[id.Name] = bind{k: k, lean: name, decl: newDecl()}
			return fmt.Sprintf("%smatch %s with\n%s| [] => .error (.panic \"index out of range\")\n%s| %s :: _ =>\n", ind, b.lean, ind, ind, name) + next(e2, ind+"  ")
		}
		w.fail(s, "index expression %s (a slice may only be read at len-1)", w.src(rhs))
	}
	if sl, ok := rhs.(*ast.SliceExpr); ok {
		if b, sname, ok := w.lookup(e, sl.X); ok && (b.k == kStackInt || b.k == kStackCtx) && sl.Low == nil && !sl.Slice3 && sl.High != nil &&
			isLenMinus1(sl.High, sname) && s.Tok == token.ASSIGN && id.Name == sname {
			return fmt.Sprintf("%smatch %s with\n%s| [] => .error (.panic \"slice bounds out of range\")\n%s| _ :: %s =>\n", ind, b.lean, ind, ind, b.lean) + next(e, ind+"  ")
		}
		w.fail(s, "slice expression %s (a slice may only be cut at len-1)", w.src(s))
	}
	if call, ok := rhs.(*ast.CallExpr); ok && isIdent(call.Fun, "append") {
		if len(call.Args) != 2 || call.Ellipsis.IsValid() || s.Tok != token.ASSIGN {
			w.fail(s, "append form %s", w.src(s))
		}
		b, sname, ok := w.lookup(e, call.Args[0])
		if !ok || sname != id.Name {
			w.fail(s, "append must extend the slice it is assigned to: %s", w.src(s))
		}
		switch b.k {
		case kStackInt:
			var pre []pending
			v := w.intExpr(e, call.Args[1], &pre)
			head, ind2 := w.wrapCalls(pre, ind)
			return head + fmt.Sprintf("%slet %s : List Int := %s :: %s\n", ind2, b.lean, atomArg(v), b.lean) + next(e, ind2)
		case kStackCtx:
			v := w.ctxExpr(e, call.Args[1])
			return fmt.Sprintf("%slet %s : List κ := %s :: %s\n", ind, b.lean, v, b.lean) + next(e, ind)
		case kErrs:
			v := w.errExpr(e, call.Args[1])
			return fmt.Sprintf("%slet %s : List GErr := %s ++ [%s]\n", ind, b.lean, b.lean, v) + next(e, ind)
		}
		w.fail(s, "append to %s", sname)
	}
	// composite literal schema.FieldCostContext{Context: c, Arguments: args}
	if cl, ok := rhs.(*ast.CompositeLit); ok {
		if w.src(cl.Type) != "schema.FieldCostContext" || len(cl.Elts) != 2 || s.Tok != token.DEFINE {
			w.fail(s, "composite literal %s", w.src(rhs))
		}
		var cctx string
		var haveArgs bool
		for _, el := range cl.Elts {
			kv, ok := el.(*ast.KeyValueExpr)
			if !ok {
				w.fail(s, "FieldCostContext literal without keys")
			}
			switch {
			case isIdent(kv.Key, "Context"):
				cctx = w.ctxExpr(e, kv.Value)
			case isIdent(kv.Key, "Arguments"):
				if b, _, ok := w.lookup(e, kv.Value); !ok || b.k != kArgs {
					w.fail(s, "the cost context's Arguments are not the coerced arguments")
				}
				haveArgs = true
			}
		}
		if cctx == "" || !haveArgs {
			w.fail(s, "FieldCostContext literal %s", w.src(rhs))
		}
		return define(kCostCtx, "", cctx)
	}
	// x := y / x = y by kind of the right-hand side
	if b, _, ok := w.lookup(e, rhs); ok {
		switch b.k {
		case kFieldCost:
			return define(kFieldCost, b.lean, "")
		case kCtx:
			return define(kCtx, b.lean, "")
		case kInt:
			return define(kInt, b.lean, "")
		}
		w.fail(s, "copy of %s", w.src(rhs))
	}
	// fieldCost = def.Cost(costContext)
	if call, ok := rhs.(*ast.CallExpr); ok {
		if sel, ok := call.Fun.(*ast.SelectorExpr); ok && sel.Sel.Name == "Cost" && len(call.Args) == 1 {
			d, _, ok1 := w.lookup(e, sel.X)
			cc, _, ok2 := w.lookup(e, call.Args[0])
			if ok1 && ok2 && d.k == kFieldDef && cc.k == kCostCtx {
				if !strings.Contains(d.aux, "|costbound") {
					w.fail(s, "def.Cost is called without a preceding `def.Cost != nil` test")
				}
				return define(kFieldCost, strings.Split(d.aux, "|")[0]+"_Cost "+cc.aux, "")
			}
		}
	}
	// context value
	if sel, ok := rhs.(*ast.SelectorExpr); ok && sel.Sel.Name == "Context" {
		return define(kCtx, w.ctxExpr(e, rhs), "")
	}
	// boolean local: `b := <condition>` (conditions have no effects; the value is fixed at this point)
	isCond := false
	switch r := rhs.(type) {
	case *ast.BinaryExpr:
		switch r.Op {
		case token.LAND, token.LOR, token.EQL, token.NEQ, token.LSS, token.LEQ, token.GTR, token.GEQ:
			isCond = true
		}
	case *ast.UnaryExpr:
		isCond = r.Op == token.NOT
	}
	if isCond {
		if s.Tok == token.ASSIGN && old.k != kBool {
			w.fail(s, "assignment changes what %s is", id.Name)
		}
		c := w.boolExpr(e, rhs)
		name, decl := "", 0
		if s.Tok == token.ASSIGN {
			name, decl = strings.TrimSuffix(strings.TrimPrefix(old.lean, "("), " = true)"), old.decl
		} else {
			name, decl = w.declName(id, e, id.Name), newDecl()
		}
		e2 := e.copy()
		e2[id.Name] = bind{k: kBool, lean: "(" + name + " = true)", decl: decl}
		return fmt.Sprintf("%slet %s : Bool := decide %s\n", ind, name, c) + next(e2, ind)
	}
	// integer
	var pre []pending
	v := w.intExpr(e, rhs, &pre)
	head, ind2 := w.wrapCalls(pre, ind)
	if s.Tok == token.ASSIGN && old.k != kInt {
		w.fail(s, "assignment changes what %s is", id.Name)
	}
	name, decl := "", 0
	if s.Tok == token.ASSIGN {
		name, decl = old.lean, old.decl
	} else {
		name, decl = w.declName(id, e, id.Name), newDecl()
	}
	e2 := e.copy()
	e2[id.Name] = bind{k: kInt, lean: name, decl: decl}
	return head + fmt.Sprintf("%slet %s : Int := %s\n", ind2, name, v) + next(e2, ind2)
}

// ctxExpr: a context.Context known to be non-nil: a kCtx variable, or fc.Context under a `fc.Context != nil` test.
func (w *wtr) ctxExpr(e env, x ast.Expr) string {
	x = unparen(x)
	if b, _, ok := w.lookup(e, x); ok && b.k == kCtx {
		return b.lean
	}
	if sel, ok := x.(*ast.SelectorExpr); ok && sel.Sel.Name == "Context" {
		if b, _, ok := w.lookup(e, sel.X); ok && b.k == kFieldCost {
			if b.aux == "ctxbound" {
				return b.lean + "_Context"
			}
			w.fail(x, "%s is used without a preceding `!= nil` test", w.src(x))
		}
	}
	w.fail(x, "context expression %s", w.src(x))
	return ""
}

func (w *wtr) errExpr(e env, x ast.Expr) string {
	call, ok := unparen(x).(*ast.CallExpr)
	if !ok {
		w.fail(x, "error value %s", w.src(x))
	}
	id, ok := call.Fun.(*ast.Ident)
	if !ok || len(call.Args) < 2 {
		w.fail(x, "error value %s", w.src(x))
	}
	if _, _, ok := w.lookup(e, call.Args[0]); !ok {
		w.fail(x, "error position %s", w.src(call.Args[0]))
	}
	msg, ok := w.strExpr(e, call.Args[1])
	if !ok {
		w.fail(x, "error message %s", w.src(call.Args[1]))
	}
	switch id.Name {
	case "newSecondaryError":
		if len(call.Args) != 2 {
			w.fail(x, "newSecondaryError with %d arguments", len(call.Args))
		}
		return "GErr.newSecondaryError " + msg
	case "newError":
		var args []string
		for _, a := range call.Args[2:] {
			args = append(args, w.intExpr(e, a, nil))
		}
		return "GErr.newError " + msg + " [" + strings.Join(args, ", ") + "]"
	}
	w.fail(x, "error constructor %s", id.Name)
	return ""
}

func (w *wtr) elseBranch(s *ast.IfStmt, e env, ind string, next cont) string {
	leave := func(e2 env, ind string) string { return next(mergeScope(e, e2, false), ind) }
	switch el := s.Else.(type) {
	case nil:
		return next(e, ind)
	case *ast.BlockStmt:
		return w.stmts(el.List, e.copy(), ind, leave)
	case *ast.IfStmt:
		return w.ifStmt(el, e.copy(), ind, leave)
	}
	w.fail(s, "else form")
	return ""
}

func (w *wtr) ifStmt(s *ast.IfStmt, outer env, ind string, next cont) string {
	e := outer.copy()
	// flow-sensitive marks (aux) do not survive the branch
	leave := func(e2 env, ind string) string { return next(mergeScope(outer, e2, false), ind) }
	var matchTable *struct{ table, key, def string }
	if s.Init != nil {
		as, ok := s.Init.(*ast.AssignStmt)
		if !ok || as.Tok != token.DEFINE || len(as.Lhs) != 2 || len(as.Rhs) != 1 {
			w.fail(s, "init clause %s", w.src(s.Init))
		}
		l0, ok0 := as.Lhs[0].(*ast.Ident)
		l1, ok1 := as.Lhs[1].(*ast.Ident)
		if !ok0 || !ok1 {
			w.fail(s, "init clause %s", w.src(s.Init))
		}
		rhs := unparen(as.Rhs[0])
		if ta, ok := rhs.(*ast.TypeAssertExpr); ok && ta.Type != nil {
			// d, ok := x.(*ast.OperationDefinition); ok   (x the element of `range doc.Definitions`)
			xb, _, okx := w.lookup(e, ta.X)
			if !okx || xb.k != kDefElem || !isIdent(unparen(s.Cond), l1.Name) || l0.Name == "_" {
				w.fail(s, "type assertion %s; %s", w.src(s.Init), w.src(s.Cond))
			}
			var b strings.Builder
			dn := w.declName(l0, e, l0.Name)
			e2 := e.copy()
			switch w.src(ta.Type) {
			case "*ast.OperationDefinition":
				e2[l0.Name] = bind{k: kOpDef, lean: dn, decl: newDecl()}
				fmt.Fprintf(&b, "%smatch %s with\n%s| .operation %s =>\n", ind, xb.lean, ind, dn)
				b.WriteString(w.stmts(s.Body.List, e2, ind+"  ", leave))
				fmt.Fprintf(&b, "%s| .fragment _ _ =>\n", ind)
			case "*ast.FragmentDefinition":
				e2[l0.Name] = bind{k: kFragDefV, lean: dn, aux: dn + "_Name", decl: newDecl()}
				fmt.Fprintf(&b, "%smatch %s with\n%s| .fragment %s_Name %s =>\n", ind, xb.lean, ind, dn, dn)
				b.WriteString(w.stmts(s.Body.List, e2, ind+"  ", leave))
				fmt.Fprintf(&b, "%s| .operation _ =>\n", ind)
			default:
				w.fail(s, "type assertion to %s", w.src(ta.Type))
			}
			b.WriteString(w.elseBranch(s, e, ind+"  ", leave))
			return b.String()
		}
		switch r := rhs.(type) {
		case *ast.IndexExpr:
			if sel, ok := unparen(r.X).(*ast.SelectorExpr); ok && sel.Sel.Name == "FieldDefinitions" {
				ti, _, ok := w.lookup(e, sel.X)
				fs, _, ok2 := w.lookup(e, r.Index)
				if !ok || !ok2 || ti.k != kTypeInfo || fs.k != kFieldSel {
					w.fail(s, "lookup %s", w.src(rhs))
				}
				if l0.Name != "_" {
					dn := w.declName(l0, e, l0.Name)
					e[l0.Name] = bind{k: kFieldDef, lean: dn, aux: dn + "|" + fs.lean, decl: newDecl()}
				}
				e[l1.Name] = bind{k: kBool, lean: "(" + fs.lean + ".hasDef = true)", decl: newDecl()}
				break
			}
			b, _, ok := w.lookup(e, r.X)
			if !ok {
				w.fail(s, "lookup %s", w.src(rhs))
			}
			key, okk := w.strExpr(e, r.Index)
			if !okk {
				w.fail(s, "key of %s", w.src(rhs))
			}
			switch b.k {
			case kSet:
				if l0.Name != "_" {
					w.fail(s, "value of a set lookup is used")
				}
				e[l1.Name] = bind{k: kBool, lean: "(GoSet.mem " + key + " " + b.lean + " = true)", decl: newDecl()}
			case kTable:
				if !isIdent(unparen(s.Cond), l1.Name) || l0.Name == "_" {
					w.fail(s, "a fragment lookup must be tested by its own ok alone: %s", w.src(s.Cond))
				}
				dn := w.declName(l0, e, l0.Name)
				e[l0.Name] = bind{k: kFragDef, lean: dn, decl: newDecl()}
				e[l1.Name] = bind{k: kNone, decl: newDecl()}
				matchTable = &struct{ table, key, def string }{b.lean, key, dn}
			default:
				w.fail(s, "lookup %s", w.src(rhs))
			}
		case *ast.CallExpr:
			if w.inRule && isIdent(r.Fun, "CoerceVariableValues") && len(r.Args) == 4 {
				// v, err := CoerceVariableValues(s, features, op, variableValues): succeeds or not (`variablesCoerce`);
				// on success the returned map is non-nil (it is made by a map literal)
				a0, _, ok0 := w.lookup(e, r.Args[0])
				a1, _, ok1 := w.lookup(e, r.Args[1])
				a2, _, ok2 := w.lookup(e, r.Args[2])
				a3, _, ok3 := w.lookup(e, r.Args[3])
				if !ok0 || !ok1 || !ok2 || !ok3 || a0.k != kOpaque || a1.k != kOpaque || a2.k != kOp || a3.k != kOpaque || a3.aux != "request-variables" {
					w.fail(s, "arguments of CoerceVariableValues: %s (expected the schema, the features, the chosen operation, the request's variables)", w.src(r))
				}
				if l0.Name != "_" {
					e[l0.Name] = bind{k: kVarsVal, lean: "true", decl: newDecl()}
				}
				e[l1.Name] = bind{k: kArgErr, lean: "(!variablesCoerce)", aux: "variable coercion", decl: newDecl()}
				break
			}
			if !isIdent(r.Fun, "CoerceArgumentValues") || len(r.Args) != 4 {
				w.fail(s, "init clause %s", w.src(s.Init))
			}
			fs, fsName, ok := w.lookup(e, r.Args[0])
			if !ok || fs.k != kFieldSel {
				w.fail(s, "CoerceArgumentValues is not applied to the field selection")
			}
			a1, ok1 := unparen(r.Args[1]).(*ast.SelectorExpr)
			a2, ok2 := unparen(r.Args[2]).(*ast.SelectorExpr)
			v, _, ok3 := w.lookup(e, r.Args[3])
			if !ok1 || !ok2 || !ok3 || v.k != kVars || a1.Sel.Name != "Arguments" || a2.Sel.Name != "Arguments" || !isIdent(unparen(a2.X), fsName) {
				w.fail(s, "arguments of CoerceArgumentValues: %s", w.src(r))
			}
			if d, _, ok := w.lookup(e, a1.X); !ok || d.k != kFieldDef || !strings.HasSuffix(d.aux, "|"+fs.lean) {
				w.fail(s, "CoerceArgumentValues is not given the arguments of the field's own definition")
			}
			if l0.Name != "_" {
				e[l0.Name] = bind{k: kArgs, lean: w.leanName(l0, l0.Name), decl: newDecl()}
			}
			e[l1.Name] = bind{k: kArgErr, lean: fs.lean + ".argErr", decl: newDecl()}
		default:
			w.fail(s, "init clause %s", w.src(s.Init))
		}
	}
	var b strings.Builder
	if matchTable != nil {
		fmt.Fprintf(&b, "%smatch %s %s with\n%s| some %s =>\n", ind, matchTable.table, matchTable.key, ind, matchTable.def)
		b.WriteString(w.stmts(s.Body.List, e.copy(), ind+"  ", leave))
		fmt.Fprintf(&b, "%s| none =>\n", ind)
		b.WriteString(w.elseBranch(s, e, ind+"  ", leave))
		return b.String()
	}
	cond := unparen(s.Cond)
	if be, ok := cond.(*ast.BinaryExpr); ok && (be.Op == token.EQL || be.Op == token.NEQ) && isNil(be.Y) {
		// node == nil
		if bd, name, ok := w.lookup(e, be.X); ok && bd.k == kNodeParam {
			if be.Op != token.EQL || s.Else != nil || !terminates(s.Body.List) {
				w.fail(s, "the nil test of the node must be `if node == nil { …; return … }`")
			}
			fmt.Fprintf(&b, "%smatch %s with\n%s| none =>\n", ind, bd.lean, ind)
			b.WriteString(w.stmts(s.Body.List, e.copy(), ind+"  ", func(env, string) string {
				w.fail(s, "the nil branch does not return")
				return ""
			}))
			fmt.Fprintf(&b, "%s| some %s =>\n", ind, bd.lean)
			out := outer.copy()
			out[name] = bind{k: kNodeVal, lean: bd.lean, decl: bd.decl}
			b.WriteString(next(out, ind+"  "))
			return b.String()
		}
		if sel, ok := unparen(be.X).(*ast.SelectorExpr); ok && be.Op == token.NEQ {
			if bd, name, ok := w.lookup(e, sel.X); ok {
				// def.Cost != nil
				if bd.k == kFieldDef && sel.Sel.Name == "Cost" {
					parts := strings.Split(bd.aux, "|")
					fmt.Fprintf(&b, "%smatch %s.costFn with\n%s| some %s_Cost =>\n", ind, parts[1], ind, parts[0])
					e2 := e.copy()
					bd2 := bd
					bd2.aux = bd.aux + "|costbound"
					e2[name] = bd2
					b.WriteString(w.stmts(s.Body.List, e2, ind+"  ", leave))
					fmt.Fprintf(&b, "%s| none =>\n", ind)
					b.WriteString(w.elseBranch(s, e, ind+"  ", leave))
					return b.String()
				}
				// fc.Context != nil
				if bd.k == kFieldCost && sel.Sel.Name == "Context" {
					fmt.Fprintf(&b, "%smatch %s.ctx with\n%s| some %s_Context =>\n", ind, bd.lean, ind, bd.lean)
					e2 := e.copy()
					bd2 := bd
					bd2.aux = "ctxbound"
					e2[name] = bd2
					b.WriteString(w.stmts(s.Body.List, e2, ind+"  ", leave))
					fmt.Fprintf(&b, "%s| none =>\n", ind)
					b.WriteString(w.elseBranch(s, e, ind+"  ", leave))
					return b.String()
				}
			}
		}
	}
	c := w.boolExpr(e, s.Cond)
	fmt.Fprintf(&b, "%sif %s then\n", ind, c)
	b.WriteString(w.stmts(s.Body.List, e.copy(), ind+"  ", leave))
	fmt.Fprintf(&b, "%selse\n", ind)
	b.WriteString(w.elseBranch(s, e, ind+"  ", leave))
	return b.String()
}

func (w *wtr) typeSwitch(s *ast.TypeSwitchStmt, e env, ind string, next cont) string {
	if s.Init != nil {
		w.fail(s, "type switch with an init clause")
	}
	var bound string
	var subject ast.Expr
	switch a := s.Assign.(type) {
	case *ast.AssignStmt:
		bound = a.Lhs[0].(*ast.Ident).Name
		subject = a.Rhs[0].(*ast.TypeAssertExpr).X
	case *ast.ExprStmt:
		subject = a.X.(*ast.TypeAssertExpr).X
	}
	nb, _, ok := w.lookup(e, subject)
	if !ok || nb.k != kNodeVal {
		w.fail(s, "type switch on something other than the (non-nil) node")
	}
	leave := func(e2 env, ind string) string { return next(mergeScope(e, e2, false), ind) }
	var b strings.Builder
	fmt.Fprintf(&b, "%smatch %s with\n", ind, nb.lean)
	seen := map[string]bool{}
	for _, cc := range s.Body.List {
		cl := cc.(*ast.CaseClause)
		if len(cl.List) != 1 {
			w.fail(cl, "a type-switch case must name exactly one type (no default: every other node kind falls through)")
		}
		ty := w.src(cl.List[0])
		var ctor string
		var k kind
		switch ty {
		case "*ast.Field":
			ctor, k = ".field", kFieldSel
		case "*ast.FragmentSpread":
			ctor, k = ".spread", kSpreadSel
		default:
			w.fail(cl, "type-switch case %s (the model knows field selections, fragment spreads and \"every other node\")", ty)
		}
		if seen[ty] {
			w.fail(cl, "duplicate case %s", ty)
		}
		seen[ty] = true
		e2 := e.copy()
		name := "_"
		if bound != "" {
			name = w.declName(cl, e, bound)
			e2[bound] = bind{k: k, lean: name, decl: newDecl()}
		}
		fmt.Fprintf(&b, "%s| %s %s =>\n", ind, ctor, name)
		b.WriteString(w.stmts(cl.Body, e2, ind+"  ", leave))
	}
	for _, c := range []struct{ ty, ctor string }{{"*ast.Field", ".field _"}, {"*ast.FragmentSpread", ".spread _"}} {
		if !seen[c.ty] {
			fmt.Fprintf(&b, "%s| %s =>\n", ind, c.ctor)
			b.WriteString(next(e, ind+"  "))
		}
	}
	fmt.Fprintf(&b, "%s| .other =>\n", ind)
	b.WriteString(next(e, ind+"  "))
	return b.String()
}

// loop translates `for _, x := range doc.Definitions { … }` with exactly one loop-carried variable (the
// operation variable or the fragment table) into a structurally recursive Lean function over the list of
// definitions: falling off the body or `continue` = the recursive call, `break` = the variable as it is.
func (w *wtr) loop(rs *ast.RangeStmt, top env) (name string, text string) {
	if rs.Tok != token.DEFINE || rs.Key == nil || !isIdent(rs.Key, "_") || rs.Value == nil {
		w.fail(rs, "range loop form (expected `for _, x := range doc.Definitions`)")
	}
	xid, ok := rs.Value.(*ast.Ident)
	sel, ok2 := unparen(rs.X).(*ast.SelectorExpr)
	if !ok || !ok2 || sel.Sel.Name != "Definitions" {
		w.fail(rs, "range loop over %s", w.src(rs.X))
	}
	if b, _, ok := w.lookup(top, sel.X); !ok || b.k != kOpaque {
		w.fail(rs, "range loop over %s", w.src(rs.X))
	}
	// the loop-carried variable: the one outer variable the body assigns
	carried := map[string]bool{}
	ast.Inspect(rs.Body, func(n ast.Node) bool {
		as, ok := n.(*ast.AssignStmt)
		if !ok || as.Tok != token.ASSIGN {
			return true
		}
		for _, l := range as.Lhs {
			switch l := l.(type) {
			case *ast.Ident:
				if _, outer := top[l.Name]; outer {
					carried[l.Name] = true
				}
			case *ast.IndexExpr:
				if id, ok := unparen(l.X).(*ast.Ident); ok {
					if _, outer := top[id.Name]; outer {
						carried[id.Name] = true
					}
				}
			}
		}
		return true
	})
	if len(carried) != 1 {
		w.fail(rs, "a translated loop must assign exactly one outer variable (assigns %d)", len(carried))
	}
	var vname string
	for n := range carried {
		vname = n
	}
	v := top[vname]
	switch v.k {
	case kOp:
		name = "opLoop"
	case kTable:
		name = "fragLoop"
	default:
		w.fail(rs, "the loop assigns %s, which is neither the operation variable nor the fragment table", vname)
	}
	// read-only string / int variables of the surrounding function that the body mentions: parameters
	var params []string
	seen := map[string]bool{}
	ast.Inspect(rs.Body, func(n ast.Node) bool {
		if id, ok := n.(*ast.Ident); ok && !seen[id.Name] {
			if b, ok := top[id.Name]; ok && (b.k == kString || b.k == kInt) {
				seen[id.Name] = true
				params = append(params, id.Name)
			}
		}
		return true
	})
	e := env{}
	var sig, call strings.Builder
	for _, p := range params {
		b := top[p]
		e[p] = b
		ty := "String"
		if b.k == kInt {
			ty = "Int"
		}
		fmt.Fprintf(&sig, " (%s : %s)", b.lean, ty)
		call.WriteString(" " + b.lean)
	}
	for n, b := range top { // other names the body may mention as positions only
		if b.k == kOpaque {
			e[n] = b
		}
	}
	e[vname] = v
	xl := w.declName(xid, e, xid.Name)
	e[xid.Name] = bind{k: kDefElem, lean: xl, decl: newDecl()}
	var b strings.Builder
	fmt.Fprintf(&b, "def %s {κ : Type}%s : List (DefView κ) → (%s) → (%s)\n", name, sig.String(), leanType(v.k), leanType(v.k))
	fmt.Fprintf(&b, "  | [], %s => %s\n  | %s :: rest, %s =>\n", v.lean, v.lean, xl, v.lean)
	w.loopNext = func(e2 env, ind string) string {
		return fmt.Sprintf("%s%s%s rest %s\n", ind, name, call.String(), v.lean)
	}
	w.loopBreak = func(e2 env, ind string) string { return ind + v.lean + "\n" }
	b.WriteString(w.stmts(rs.Body.List, e, "    ", w.loopNext))
	w.loopNext, w.loopBreak = nil, nil
	w.lastLoopCall = call.String()
	return name, b.String()
}

// ---- locating the pieces of ValidateCost

func (w *wtr) checkFieldCostStruct(repo string) {
	path := filepath.Join(repo, "graphql", "schema", "field_definition.go")
	f, err := parser.ParseFile(w.fset, path, nil, 0)
	if err != nil {
		fail(nil, nil, "%v", err)
	}
	want := map[string]string{"Context": "context.Context", "Resolver": "int", "Multiplier": "int"}
	for _, d := range f.Decls {
		gd, ok := d.(*ast.GenDecl)
		if !ok {
			continue
		}
		for _, sp := range gd.Specs {
			ts, ok := sp.(*ast.TypeSpec)
			if !ok || ts.Name.Name != "FieldCost" {
				continue
			}
			st, ok := ts.Type.(*ast.StructType)
			if !ok {
				w.fail(ts, "schema.FieldCost is not a struct")
			}
			n := 0
			for _, fl := range st.Fields.List {
				for _, nm := range fl.Names {
					if want[nm.Name] != w.src(fl.Type) {
						w.fail(fl, "schema.FieldCost.%s has type %s", nm.Name, w.src(fl.Type))
					}
					n++
				}
			}
			if n != len(want) {
				w.fail(ts, "schema.FieldCost has %d fields, the model knows Context, Resolver, Multiplier", n)
			}
			return
		}
	}
	fail(nil, nil, "type FieldCost not found in %s", path)
}

func translateWalk(repo string, base *tr, file *ast.File, fset *token.FileSet) (out string, err error) {
	defer func() {
		if p := recover(); p != nil {
			if c, ok := p.(cannot); ok {
				err = fmt.Errorf("cannot translate: %s", c.msg)
				return
			}
			panic(p)
		}
	}()
	w := &wtr{fset: fset, base: base}
	w.checkFieldCostStruct(repo)
	var fd *ast.FuncDecl
	for _, d := range file.Decls {
		if f, ok := d.(*ast.FuncDecl); ok && f.Recv == nil && f.Name.Name == "ValidateCost" {
			fd = f
		}
	}
	if fd == nil || fd.Body == nil {
		fail(nil, nil, "function ValidateCost not found")
	}
	top := env{}
	// parameters of ValidateCost, by type
	var maxName, actualName, defaultName string
	for _, f := range fd.Type.Params.List {
		ty := w.src(f.Type)
		for _, n := range f.Names {
			switch ty {
			case "int":
				if maxName != "" {
					w.fail(f, "two int parameters")
				}
				maxName = n.Name
				top[n.Name] = bind{k: kInt, lean: w.leanName(n, n.Name)}
			case "*int":
				actualName = n.Name
				top[n.Name] = bind{k: kActualPtr, lean: "actual_nonnil"}
			case "schema.FieldCost":
				defaultName = n.Name
				top[n.Name] = bind{k: kFieldCost, lean: w.leanName(n, n.Name)}
			case "string":
				top[n.Name] = bind{k: kString, lean: w.leanName(n, n.Name)}
			case "map[string]interface{}":
				top[n.Name] = bind{k: kOpaque, lean: w.leanName(n, n.Name), aux: "request-variables"}
			default:
				top[n.Name] = bind{k: kOpaque, lean: w.leanName(n, n.Name)}
			}
		}
	}
	if maxName == "" || actualName == "" || defaultName == "" {
		w.fail(fd, "ValidateCost must have an int limit, an *int out-parameter and a schema.FieldCost default")
	}
	if len(fd.Body.List) != 1 {
		w.fail(fd, "ValidateCost must consist of one return statement")
	}
	rs, ok := fd.Body.List[0].(*ast.ReturnStmt)
	if !ok || len(rs.Results) != 1 {
		w.fail(fd, "ValidateCost must consist of one return statement")
	}
	rule, ok := rs.Results[0].(*ast.FuncLit)
	if !ok || len(rule.Type.Params.List) == 0 {
		w.fail(rs, "ValidateCost must return a function literal")
	}
	for _, f := range rule.Type.Params.List {
		for _, n := range f.Names {
			if w.src(f.Type) == "*TypeInfo" {
				top[n.Name] = bind{k: kTypeInfo, lean: n.Name}
			} else {
				top[n.Name] = bind{k: kOpaque, lean: n.Name}
			}
		}
	}
	// declarations of the captured variables, the closure, and the tail
	var initMult []string
	var initCtx string
	var costInit string
	var callback *ast.FuncLit
	var visitName string
	var tail []ast.Stmt
	stIdx := map[string]int{}
	var opName string
	for i, st := range rule.Body.List {
		switch s := st.(type) {
		case *ast.DeclStmt:
			gd := s.Decl.(*ast.GenDecl)
			if gd.Tok != token.VAR || len(gd.Specs) != 1 {
				continue
			}
			vs := gd.Specs[0].(*ast.ValueSpec)
			if len(vs.Names) != 1 || vs.Type == nil {
				continue
			}
			name := vs.Names[0].Name
			switch w.src(vs.Type) {
			case "[]*Error":
				if len(vs.Values) != 0 {
					w.fail(s, "the error list must start empty")
				}
				top[name] = bind{k: kErrs, lean: w.leanName(s, name)}
				stIdx[name] = 4
			case "int":
				costInit = "0"
				if len(vs.Values) == 1 {
					costInit = w.intExpr(top, vs.Values[0], nil)
				}
				top[name] = bind{k: kInt, lean: w.leanName(s, name)}
				stIdx[name] = 0
			case "map[string]interface{}":
				top[name] = bind{k: kVars, lean: w.leanName(s, name)}
			case "*ast.OperationDefinition":
				if len(vs.Values) != 0 {
					w.fail(s, "the operation variable must start as nil")
				}
				top[name] = bind{k: kOp, lean: w.leanName(s, name), decl: newDecl()}
				opName = name
			default:
				if ft, ok := vs.Type.(*ast.FuncType); ok && len(ft.Params.List) == 1 && ft.Results == nil {
					top[name] = bind{k: kVisit, lean: w.leanName(s, name)}
					visitName = name
				}
			}
		case *ast.AssignStmt:
			if len(s.Lhs) != 1 || len(s.Rhs) != 1 {
				continue
			}
			id, ok := s.Lhs[0].(*ast.Ident)
			if !ok {
				continue
			}
			if fl, ok := s.Rhs[0].(*ast.FuncLit); ok && id.Name == visitName && s.Tok == token.ASSIGN {
				// visitNode = func(node ast.Node) { ast.Inspect(node, func(node ast.Node) bool { … }) }
				if len(fl.Body.List) != 1 || len(fl.Type.Params.List) != 1 || len(fl.Type.Params.List[0].Names) != 1 {
					w.fail(fl, "visitNode must consist of the single call of ast.Inspect")
				}
				es, ok := fl.Body.List[0].(*ast.ExprStmt)
				if !ok {
					w.fail(fl, "visitNode must consist of the single call of ast.Inspect")
				}
				call, ok := es.X.(*ast.CallExpr)
				if !ok || w.src(call.Fun) != "ast.Inspect" || len(call.Args) != 2 || !isIdent(call.Args[0], fl.Type.Params.List[0].Names[0].Name) {
					w.fail(fl, "visitNode must consist of the single call ast.Inspect(node, callback)")
				}
				cb, ok := call.Args[1].(*ast.FuncLit)
				if !ok || len(cb.Type.Params.List) != 1 || len(cb.Type.Params.List[0].Names) != 1 || cb.Type.Results == nil || w.src(cb.Type.Results.List[0].Type) != "bool" {
					w.fail(call, "the callback of ast.Inspect must be a func(node ast.Node) bool literal")
				}
				callback = cb
				tail = rule.Body.List[i+1:]
				continue
			}
			cl, ok := s.Rhs[0].(*ast.CompositeLit)
			if !ok || s.Tok != token.DEFINE {
				continue
			}
			switch w.src(cl.Type) {
			case "[]int":
				for _, el := range cl.Elts {
					initMult = append(initMult, w.intExpr(top, el, nil))
				}
				top[id.Name] = bind{k: kStackInt, lean: w.leanName(s, id.Name)}
				stIdx[id.Name] = 1
			case "[]context.Context":
				if len(cl.Elts) != 1 || w.src(cl.Elts[0]) != "context.Background()" {
					w.fail(s, "the context stack must start as [context.Background()]")
				}
				initCtx = "[background]"
				top[id.Name] = bind{k: kStackCtx, lean: w.leanName(s, id.Name)}
				stIdx[id.Name] = 2
			case "map[string]struct{}":
				if len(cl.Elts) != 0 {
					w.fail(s, "the fragments set must start empty")
				}
				top[id.Name] = bind{k: kSet, lean: w.leanName(s, id.Name)}
				stIdx[id.Name] = 3
			case "map[string]*ast.FragmentDefinition":
				top[id.Name] = bind{k: kTable, lean: w.leanName(s, id.Name)}
			}
		}
	}
	if callback == nil {
		w.fail(rule, "the assignment of the visitNode closure was not found")
	}
	if len(stIdx) != 5 {
		w.fail(rule, "expected exactly one each of: var … int, []int{…}, []context.Context{…}, map[string]struct{}{}, var … []*Error (found %d)", len(stIdx))
	}
	have := [5]bool{}
	for n, i := range stIdx {
		if have[i] {
			w.fail(rule, "two captured variables of the same kind")
		}
		have[i] = true
		w.stNames[i] = top[n].lean
	}
	var tableLean, varsLean, visitLean string
	for _, b := range top {
		switch b.k {
		case kTable:
			tableLean = b.lean
		case kVars:
			varsLean = b.lean
		case kVisit:
			visitLean = b.lean
		}
	}
	if tableLean == "" || varsLean == "" || visitLean == "" {
		w.fail(rule, "fragment table, coerced variables or visitNode not found")
	}
	if initMult == nil || initCtx == "" {
		w.fail(rule, "initial stacks not found")
	}
	// the tail: `if len(ret) == 0 && op != nil { visitNode(op) }` then the final block
	if len(tail) < 2 {
		w.fail(rule, "statements after the closure")
	}
	{
		is, ok := tail[0].(*ast.IfStmt)
		good := ok && is.Init == nil && is.Else == nil && len(is.Body.List) == 1
		if good {
			c, ok := unparen(is.Cond).(*ast.BinaryExpr)
			good = ok && c.Op == token.LAND
			if good {
				l := strings.ReplaceAll(w.src(c.X), " ", "")
				r := strings.ReplaceAll(w.src(c.Y), " ", "")
				retGo := ""
				for n, i := range stIdx {
					if i == 4 {
						retGo = n
					}
				}
				a1, a2 := "len("+retGo+")==0", opName+"!=nil"
				good = (l == a1 && r == a2) || (l == a2 && r == a1)
			}
			if good {
				good = strings.ReplaceAll(w.src(is.Body.List[0]), " ", "") == visitName+"("+opName+")"
			}
		}
		if !good {
			w.fail(tail[0], "the walk must be started by `if len(ret) == 0 && op != nil { visitNode(op) }`")
		}
	}

	var b strings.Builder
	b.WriteString("/-\n  GENERATED by /verif/tools/c14facts from graphql/validator/validate_cost.go of the repository under\n  check — do not edit; regenerated at the start of every `./check C14` (pre_cmds of checks/C14.json).\n")
	b.WriteString("  The ast.Inspect callback of ValidateCost (`callback`), the final block of the rule (`finish`) and the\n  initial values of the captured variables; see tools/c14facts/walk.go for the translation scheme and\n  WalkTypes.lean for the vocabulary.\n-/\n")
	b.WriteString("import ApiFu.C14.WalkTypes\n\nset_option linter.unusedVariables false\n\nnamespace ApiFu.C14.GeneratedWalk\nopen ApiFu.C14\n\n")
	fmt.Fprintf(&b, "def initCost : Int := %s\n", costInit)
	fmt.Fprintf(&b, "def initMultipliers : List Int := [%s]\n", strings.Join(initMult, ", "))
	fmt.Fprintf(&b, "def initCtxs {κ : Type} (background : κ) : List κ := %s\n", initCtx)
	b.WriteString("def initFragments : List String := []\n\n")

	comment := func(n ast.Node) {
		b.WriteString("/- Go source:\n")
		for _, l := range strings.Split(w.src(n), "\n") {
			b.WriteString("    " + strings.ReplaceAll(strings.ReplaceAll(l, "-/", "- /"), "/-", "/ -") + "\n")
		}
		b.WriteString("-/\n")
	}
	// the two loops over doc.Definitions (operation choice, fragment table)
	loopsSeen := map[string]bool{}
	loopParams := map[string]string{}
	for _, st := range rule.Body.List {
		rs, ok := st.(*ast.RangeStmt)
		if !ok {
			if _, isFor := st.(*ast.ForStmt); isFor {
				w.fail(st, "for loop form")
			}
			continue
		}
		lname, ltext := w.loop(rs, top)
		loopParams[lname] = w.lastLoopCall
		if loopsSeen[lname] {
			w.fail(rs, "two loops assign the same variable")
		}
		loopsSeen[lname] = true
		comment(rs)
		b.WriteString(ltext + "\n")
	}
	if !loopsSeen["opLoop"] || !loopsSeen["fragLoop"] {
		w.fail(rule, "the operation-choice loop or the fragment-table loop was not found")
	}
	comment(callback)
	param := callback.Type.Params.List[0].Names[0].Name
	cbEnv := top.copy()
	delete(cbEnv, maxName)
	delete(cbEnv, actualName)
	cbEnv[param] = bind{k: kNodeParam, lean: w.leanName(callback, param)}
	fmt.Fprintf(&b, "def callback {κ : Type} (%s : FieldCost κ) (%s : Bool)\n    (%s : String → Option (Node κ))\n    (%s : Node κ → GSt κ → Except Abort (GSt κ))\n    (%s : Option (NodeView κ)) (s : GSt κ) : Except Abort (GSt κ × Bool) :=\n",
		top[defaultName].lean, varsLean, tableLean, visitLean, cbEnv[param].lean)
	fields := []string{"cost", "multipliers", "ctxs", "fragments", "ret"}
	kinds := []kind{kInt, kStackInt, kStackCtx, kSet, kErrs}
	for i, n := range w.stNames {
		fmt.Fprintf(&b, "  let %s : %s := s.%s\n", n, leanType(kinds[i]), fields[i])
	}
	b.WriteString(w.stmts(callback.Body.List, cbEnv, "  ", func(env, string) string {
		w.fail(callback, "a path of the callback reaches its end without a return")
		return ""
	}))
	b.WriteString("\n")

	// finish
	w.inFinish = true
	finEnv := env{}
	for n, bd := range top {
		switch bd.k {
		case kErrs, kOpaque, kOp:
			finEnv[n] = bd
		case kInt, kActualPtr:
			finEnv[n] = bd
		}
	}
	b.WriteString("/- Go source:\n")
	for _, st := range tail[1:] {
		for _, l := range strings.Split(w.src(st), "\n") {
			b.WriteString("    " + strings.ReplaceAll(strings.ReplaceAll(l, "-/", "- /"), "/-", "/ -") + "\n")
		}
	}
	b.WriteString("-/\n")
	fmt.Fprintf(&b, "def finish (%s : Int) (actual_nonnil : Bool) (%s : Int) (%s : List GErr) : List GErr × Option Int :=\n",
		top[maxName].lean, w.stNames[0], w.stNames[4])
	b.WriteString("  let actual_deref : Option Int := none\n")
	b.WriteString(w.stmts(tail[1:], finEnv, "  ", func(env, string) string {
		w.fail(rule, "the rule reaches its end without a return")
		return ""
	}))
	b.WriteString("\n")

	// the body of the rule itself: declarations, the two loops, the CoerceVariableValues guard, the start of
	// the walk, and the final block (as a call of `finish`)
	w.inFinish, w.inRule = false, true
	comment(rule.Body)
	var opParams string
	ruleEnv := env{}
	for n, bd := range top {
		switch bd.k {
		case kOpaque, kString, kActualPtr, kFieldCost, kTypeInfo:
			ruleEnv[n] = bd
		case kInt:
			if n == maxName {
				ruleEnv[n] = bd
			}
		}
	}
	for n, bd := range top {
		if bd.k == kString {
			opParams += fmt.Sprintf(" (%s : String)", bd.lean)
			_ = n
		}
	}
	fmt.Fprintf(&b, "def rule {κ : Type} (background : κ)%s (%s : Int) (actual_nonnil : Bool) (variablesCoerce : Bool)\n    (definitions : List (DefView κ))\n    (%s : Bool → (String → Option (Node κ)) → Node κ → GSt κ → Except Abort (GSt κ)) :\n    Except Abort (List GErr × Option Int) :=\n",
		opParams, top[maxName].lean, visitLean)
	var ruleStmts func(list []ast.Stmt, e env, ind string) string
	ruleStmts = func(list []ast.Stmt, e env, ind string) string {
		if len(list) == 0 {
			w.fail(rule, "the rule reaches its end without a return")
		}
		st, rest := list[0], list[1:]
		next := func(e env, ind string) string { return ruleStmts(rest, e, ind) }
		if st == tail[1] { // the final block: `finish` of the variables it reads
			return fmt.Sprintf("%s.ok (finish %s actual_nonnil %s %s)\n", ind, top[maxName].lean, w.stNames[0], w.stNames[4])
		}
		bindFrom := func(name string) (env, bind) {
			bd, ok := top[name]
			if !ok {
				w.fail(st, "declaration of %s, which the translation does not know", name)
			}
			e2 := e.copy()
			e2[name] = bd
			return e2, bd
		}
		switch s := st.(type) {
		case *ast.DeclStmt:
			gd, ok := s.Decl.(*ast.GenDecl)
			if !ok || gd.Tok != token.VAR || len(gd.Specs) != 1 || len(gd.Specs[0].(*ast.ValueSpec).Names) != 1 {
				w.fail(s, "declaration %s", w.src(s))
			}
			e2, bd := bindFrom(gd.Specs[0].(*ast.ValueSpec).Names[0].Name)
			switch bd.k {
			case kErrs:
				return fmt.Sprintf("%slet %s : List GErr := []\n", ind, bd.lean) + next(e2, ind)
			case kOp:
				return fmt.Sprintf("%slet %s : %s := none\n", ind, bd.lean, leanType(kOp)) + next(e2, ind)
			case kVars:
				return fmt.Sprintf("%slet %s : Bool := false\n", ind, bd.lean) + next(e2, ind)
			case kInt:
				return fmt.Sprintf("%slet %s : Int := %s\n", ind, bd.lean, costInit) + next(e2, ind)
			case kVisit:
				return ind + "-- " + strings.ReplaceAll(w.src(s), "\n", " ") + "\n" + next(e2, ind)
			}
			w.fail(s, "declaration %s", w.src(s))
		case *ast.AssignStmt:
			if len(s.Lhs) == 1 {
				if id, ok := s.Lhs[0].(*ast.Ident); ok {
					if _, isFn := s.Rhs[0].(*ast.FuncLit); isFn && id.Name == visitName && s.Tok == token.ASSIGN {
						return ind + "-- " + id.Name + " = func(…) { ast.Inspect(node, callback) }   (see `callback`)\n" + next(e, ind)
					}
					if _, isLit := s.Rhs[0].(*ast.CompositeLit); isLit && s.Tok == token.DEFINE {
						e2, bd := bindFrom(id.Name)
						switch bd.k {
						case kStackInt:
							return fmt.Sprintf("%slet %s : List Int := [%s]\n", ind, bd.lean, strings.Join(initMult, ", ")) + next(e2, ind)
						case kStackCtx:
							return fmt.Sprintf("%slet %s : List κ := %s\n", ind, bd.lean, initCtx) + next(e2, ind)
						case kSet:
							return fmt.Sprintf("%slet %s : List String := []\n", ind, bd.lean) + next(e2, ind)
						case kTable:
							return fmt.Sprintf("%slet %s : %s := GoMap.empty\n", ind, bd.lean, leanType(kTable)) + next(e2, ind)
						}
					}
				}
			}
			w.fail(s, "statement of the rule: %s", strings.SplitN(w.src(s), "\n", 2)[0])
		case *ast.RangeStmt:
			lname, _ := w.loop(s, top)
			var vb bind
			for _, bd := range top {
				if (lname == "opLoop" && bd.k == kOp) || (lname == "fragLoop" && bd.k == kTable) {
					vb = bd
				}
			}
			if _, declared := func() (bind, bool) {
				for _, x := range e {
					if x.lean == vb.lean && x.k == vb.k {
						return x, true
					}
				}
				return bind{}, false
			}(); !declared {
				w.fail(s, "the loop runs before its variable is declared")
			}
			return fmt.Sprintf("%slet %s : %s := %s%s definitions %s\n", ind, vb.lean, leanType(vb.k), lname, loopParams[lname], vb.lean) + next(e, ind)
		case *ast.IfStmt:
			return w.ifStmt(s, e, ind, next)
		}
		w.fail(st, "statement of the rule: %s", strings.SplitN(w.src(st), "\n", 2)[0])
		return ""
	}
	b.WriteString(ruleStmts(rule.Body.List, ruleEnv, "  "))
	b.WriteString("\nend ApiFu.C14.GeneratedWalk\n")
	return b.String(), nil
}

func walkStub(msg string) string {
	return "/-\n  GENERATED by /verif/tools/c14facts — the cost walk of graphql/validator/validate_cost.go could NOT be\n  translated:\n    " +
		strings.ReplaceAll(strings.ReplaceAll(msg, "-/", "- /"), "/-", "/ -") +
		"\n  This file deliberately defines nothing: every theorem about the generated walk (WalkEq.lean,\n  PropsGen.lean) stops checking until tools/c14facts/walk.go is taught the new source.\n-/\nimport ApiFu.C14.WalkTypes\n\nnamespace ApiFu.C14.GeneratedWalk\nend ApiFu.C14.GeneratedWalk\n"
}

var _ = os.Stderr
