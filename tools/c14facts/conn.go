// Translation of the connection cost functions and of the connection resolver's reading of `first` /
// `last` (pagination.go) into lean/ApiFu/C14/GeneratedConn.lean:
//
//	defaultConnectionCost          → defaultConnectionCost (args : String → ArgVal) (ctx : Ctx) : FieldCost Ctx
//	maxEdgeCount                   → maxEdgeCount (ctx : Ctx) : Int
//	every `"edges": {… Cost: func(ctx graphql.FieldCostContext) graphql.FieldCost {…}}`
//	                               → edgesCost_i (ctx : Ctx) : FieldCost Ctx, and the list edgesCosts
//	ret.Resolve, first statement   → resolveGuard (args) : Option String      (some msg = `return nil, fmt.Errorf(msg)`)
//	ret.Resolve, `var limit int` + the if that sets it
//	                               → resolveLimit (args) : Option Int         (none = failed single-valued type assertion: Go panic)
//
// Vocabulary (anything else is refused):
//
//	x, _ := ctx.Arguments["k"].(int)              → let x := match (args "k").asInt with | some v => v | none => 0
//	if x, ok := ctx.Arguments["k"].(int); ok {…}  → match (args "k").asInt with | some x => … | none => …
//	ctx.Arguments["k"].(int)  (single-valued)     → match (args "k").asInt with | none => none (panic) | some t => …
//	n, _ := ctx.Value(maxEdgeCountContextKey).(int)   → let n := ctx.2        (Ctx = application value × max edge count; 0 when never set)
//	context.WithValue(ctx.Context, maxEdgeCountContextKey, e)  → some (ctx.1, e)
//	graphql.FieldCost{Context: …, Resolver: e, Multiplier: e}  → { ctx := …, resolver := e, multiplier := e } (0 / none when left out)
//	maxEdgeCount(ctx.Context)                     → maxEdgeCount ctx
//	var x int; x = e; x := e; if / else if / else; integer comparisons; + - unary -; integer constants
package main

import (
	"fmt"
	"go/ast"
	"go/parser"
	"go/token"
	"path/filepath"
	"strconv"
	"strings"
)

type ctr struct {
	w    *wtr
	mode string // cost | int | guard | limit
	arg  string // name of the function's context parameter
	tmp  int
}

func (c *ctr) fail(n ast.Node, format string, a ...any) { c.w.fail(n, format, a...) }

// argAssert recognises `<ctx>.Arguments["k"].(int)`.
func (c *ctr) argAssert(x ast.Expr) (string, bool) {
	ta, ok := unparen(x).(*ast.TypeAssertExpr)
	if !ok || ta.Type == nil || c.w.src(ta.Type) != "int" {
		return "", false
	}
	ix, ok := unparen(ta.X).(*ast.IndexExpr)
	if !ok {
		return "", false
	}
	sel, ok := unparen(ix.X).(*ast.SelectorExpr)
	if !ok || sel.Sel.Name != "Arguments" || !isIdent(unparen(sel.X), c.arg) {
		return "", false
	}
	l, ok := unparen(ix.Index).(*ast.BasicLit)
	if !ok || l.Kind != token.STRING {
		return "", false
	}
	v, err := strconv.Unquote(l.Value)
	if err != nil {
		return "", false
	}
	return "(args " + leanString(c.w, l, v) + ").asInt", true
}

// ctxValueAssert recognises `<ctx>.Value(maxEdgeCountContextKey).(int)`.
func (c *ctr) ctxValueAssert(x ast.Expr) bool {
	ta, ok := unparen(x).(*ast.TypeAssertExpr)
	if !ok || ta.Type == nil || c.w.src(ta.Type) != "int" {
		return false
	}
	call, ok := unparen(ta.X).(*ast.CallExpr)
	if !ok || len(call.Args) != 1 || !isIdent(call.Args[0], "maxEdgeCountContextKey") {
		return false
	}
	sel, ok := call.Fun.(*ast.SelectorExpr)
	return ok && sel.Sel.Name == "Value" && isIdent(unparen(sel.X), c.arg)
}

func (c *ctr) intExpr(e map[string]string, x ast.Expr, pre *[]pending) string {
	x = unparen(x)
	if bl, ok := x.(*ast.BasicLit); ok && bl.Kind == token.INT {
		n, err := strconv.ParseInt(bl.Value, 0, 64)
		if err != nil {
			c.fail(x, "literal %s", bl.Value)
		}
		return lit(strconv.FormatInt(n, 10))
	}
	switch x := x.(type) {
	case *ast.Ident:
		if v, ok := e[x.Name]; ok {
			return v
		}
		c.fail(x, "%s is not an int variable of the translated function", x.Name)
	case *ast.UnaryExpr:
		v := c.intExpr(e, x.X, pre)
		switch x.Op {
		case token.SUB:
			return "(wrap64 (-" + v + "))"
		case token.ADD:
			return v
		}
	case *ast.BinaryExpr:
		a := c.intExpr(e, x.X, pre)
		b := c.intExpr(e, x.Y, pre)
		switch x.Op {
		case token.ADD:
			return "(wrap64 (" + a + " + " + b + "))"
		case token.SUB:
			return "(wrap64 (" + a + " - " + b + "))"
		case token.MUL:
			return "(wrap64 (" + a + " * " + b + "))"
		}
	case *ast.TypeAssertExpr:
		if a, ok := c.argAssert(x); ok {
			if pre == nil {
				c.fail(x, "single-valued type assertion where a panic cannot be expressed")
			}
			c.tmp++
			t := fmt.Sprintf("assert%d", c.tmp)
			*pre = append(*pre, pending{t, a})
			return t
		}
	case *ast.CallExpr:
		if isIdent(x.Fun, "maxEdgeCount") && len(x.Args) == 1 {
			if sel, ok := unparen(x.Args[0]).(*ast.SelectorExpr); ok && sel.Sel.Name == "Context" && isIdent(unparen(sel.X), c.arg) {
				return "(maxEdgeCount ctx)"
			}
		}
	}
	c.fail(x, "integer expression %s", c.w.src(x))
	return ""
}

func (c *ctr) cond(e map[string]string, x ast.Expr) string {
	x = unparen(x)
	switch x := x.(type) {
	case *ast.UnaryExpr:
		if x.Op == token.NOT {
			return "(¬ " + c.cond(e, x.X) + ")"
		}
	case *ast.BinaryExpr:
		switch x.Op {
		case token.LAND:
			return "(" + c.cond(e, x.X) + " ∧ " + c.cond(e, x.Y) + ")"
		case token.LOR:
			return "(" + c.cond(e, x.X) + " ∨ " + c.cond(e, x.Y) + ")"
		case token.LSS, token.LEQ, token.GTR, token.GEQ, token.EQL, token.NEQ:
			op := map[token.Token]string{token.LSS: "<", token.LEQ: "≤", token.GTR: ">", token.GEQ: "≥", token.EQL: "=", token.NEQ: "≠"}[x.Op]
			return "(" + c.intExpr(e, x.X, nil) + " " + op + " " + c.intExpr(e, x.Y, nil) + ")"
		}
	}
	c.fail(x, "condition %s", c.w.src(x))
	return ""
}

func (c *ctr) panicWrap(pre []pending, ind string) (string, string) {
	var b strings.Builder
	for _, p := range pre {
		if c.mode != "limit" {
			c.fail(nil, "a single-valued type assertion (possible panic) outside the limit computation")
		}
		fmt.Fprintf(&b, "%smatch %s with\n%s| none => none  -- Go: interface conversion panics\n%s| some %s =>\n", ind, p.call, ind, ind, p.tmp)
		ind += "  "
	}
	return b.String(), ind
}

func copyEnv(e map[string]string) map[string]string {
	o := map[string]string{}
	for k, v := range e {
		o[k] = v
	}
	return o
}

type ccont func(e map[string]string, ind string) string

func (c *ctr) bindName(e map[string]string, n ast.Node, goName string) string {
	name := c.w.leanName(n, goName)
	if name == "args" || name == "ctx" {
		name += "_"
	}
	for {
		clash := false
		for _, v := range e {
			if v == name {
				clash = true
			}
		}
		if !clash {
			return name
		}
		name += "'"
	}
}

func (c *ctr) stmts(list []ast.Stmt, e map[string]string, ind string, k ccont) string {
	if len(list) == 0 {
		return k(e, ind)
	}
	s, tail := list[0], list[1:]
	next := func(e map[string]string, ind string) string { return c.stmts(tail, e, ind, k) }
	merge := func(outer map[string]string) ccont {
		return func(inner map[string]string, ind string) string {
			o := copyEnv(outer)
			for n, v := range inner {
				if ov, ok := outer[n]; ok && ov == v {
					o[n] = v
				}
			}
			return next(o, ind)
		}
	}
	switch s := s.(type) {
	case *ast.DeclStmt:
		gd, ok := s.Decl.(*ast.GenDecl)
		if ok && gd.Tok == token.VAR && len(gd.Specs) == 1 {
			vs := gd.Specs[0].(*ast.ValueSpec)
			if len(vs.Names) == 1 && vs.Type != nil && c.w.src(vs.Type) == "int" && len(vs.Values) == 0 {
				name := c.bindName(e, s, vs.Names[0].Name)
				e2 := copyEnv(e)
				e2[vs.Names[0].Name] = name
				return fmt.Sprintf("%slet %s : Int := 0\n", ind, name) + next(e2, ind)
			}
		}
		c.fail(s, "declaration %s", c.w.src(s))
	case *ast.AssignStmt:
		if len(s.Lhs) == 2 && len(s.Rhs) == 1 && s.Tok == token.DEFINE && isIdent(s.Lhs[1], "_") {
			id, ok := s.Lhs[0].(*ast.Ident)
			if ok {
				name := c.bindName(e, s, id.Name)
				e2 := copyEnv(e)
				e2[id.Name] = name
				if a, ok := c.argAssert(s.Rhs[0]); ok {
					return fmt.Sprintf("%slet %s : Int := match %s with | some v => v | none => 0\n", ind, name, a) + next(e2, ind)
				}
				if c.ctxValueAssert(s.Rhs[0]) {
					return fmt.Sprintf("%slet %s : Int := ctx.2\n", ind, name) + next(e2, ind)
				}
			}
		}
		if len(s.Lhs) == 1 && len(s.Rhs) == 1 && (s.Tok == token.ASSIGN || s.Tok == token.DEFINE) {
			id, ok := s.Lhs[0].(*ast.Ident)
			if ok && id.Name != "_" {
				var pre []pending
				v := c.intExpr(e, s.Rhs[0], &pre)
				head, ind2 := c.panicWrap(pre, ind)
				name, exists := e[id.Name]
				if s.Tok == token.ASSIGN && !exists {
					c.fail(s, "assignment to %s, not a variable of the translated function", id.Name)
				}
				if s.Tok == token.DEFINE {
					name = c.bindName(e, s, id.Name)
				}
				e2 := copyEnv(e)
				e2[id.Name] = name
				return head + fmt.Sprintf("%slet %s : Int := %s\n", ind2, name, v) + next(e2, ind2)
			}
		}
		c.fail(s, "assignment %s", c.w.src(s))
	case *ast.IfStmt:
		return c.ifStmt(s, e, ind, merge(e))
	case *ast.ReturnStmt:
		if len(tail) > 0 {
			c.fail(tail[0], "statement after return")
		}
		return c.ret(s, e, ind)
	}
	c.fail(s, "statement %s", strings.SplitN(c.w.src(s), "\n", 2)[0])
	return ""
}

func (c *ctr) ifStmt(s *ast.IfStmt, e map[string]string, ind string, after ccont) string {
	els := func(e map[string]string, ind string) string {
		switch el := s.Else.(type) {
		case nil:
			return after(e, ind)
		case *ast.BlockStmt:
			return c.stmts(el.List, copyEnv(e), ind, after)
		case *ast.IfStmt:
			return c.ifStmt(el, copyEnv(e), ind, after)
		}
		c.fail(s, "else form")
		return ""
	}
	var b strings.Builder
	if s.Init != nil {
		as, ok := s.Init.(*ast.AssignStmt)
		if !ok || as.Tok != token.DEFINE || len(as.Lhs) != 2 || len(as.Rhs) != 1 {
			c.fail(s, "init clause %s", c.w.src(s.Init))
		}
		a, ok := c.argAssert(as.Rhs[0])
		l0, ok0 := as.Lhs[0].(*ast.Ident)
		l1, ok1 := as.Lhs[1].(*ast.Ident)
		if !ok || !ok0 || !ok1 || !isIdent(unparen(s.Cond), l1.Name) || l1.Name == "_" {
			c.fail(s, "an init clause must be `v, ok := ctx.Arguments[\"name\"].(int); ok`: %s; %s", c.w.src(s.Init), c.w.src(s.Cond))
		}
		e2 := copyEnv(e)
		name := "_"
		if l0.Name != "_" {
			name = c.bindName(e, s, l0.Name)
			e2[l0.Name] = name
		}
		fmt.Fprintf(&b, "%smatch %s with\n%s| some %s =>\n", ind, a, ind, name)
		b.WriteString(c.stmts(s.Body.List, e2, ind+"  ", after))
		fmt.Fprintf(&b, "%s| none =>\n", ind)
		b.WriteString(els(e, ind+"  "))
		return b.String()
	}
	fmt.Fprintf(&b, "%sif %s then\n", ind, c.cond(e, s.Cond))
	b.WriteString(c.stmts(s.Body.List, copyEnv(e), ind+"  ", after))
	fmt.Fprintf(&b, "%selse\n", ind)
	b.WriteString(els(e, ind+"  "))
	return b.String()
}

func (c *ctr) ret(s *ast.ReturnStmt, e map[string]string, ind string) string {
	switch c.mode {
	case "int":
		if len(s.Results) != 1 {
			c.fail(s, "return %s", c.w.src(s))
		}
		return ind + c.intExpr(e, s.Results[0], nil) + "\n"
	case "guard":
		if len(s.Results) == 2 && isNil(s.Results[0]) {
			if call, ok := s.Results[1].(*ast.CallExpr); ok && c.w.src(call.Fun) == "fmt.Errorf" && len(call.Args) == 1 {
				if l, ok := call.Args[0].(*ast.BasicLit); ok && l.Kind == token.STRING {
					v, err := strconv.Unquote(l.Value)
					if err == nil {
						return ind + "some " + leanString(c.w, l, v) + "\n"
					}
				}
			}
		}
		c.fail(s, "in the argument checks of the resolver only `return nil, fmt.Errorf(\"…\")` is understood: %s", c.w.src(s))
	case "cost":
		if len(s.Results) != 1 {
			c.fail(s, "return %s", c.w.src(s))
		}
		cl, ok := s.Results[0].(*ast.CompositeLit)
		if !ok || !strings.HasSuffix(c.w.src(cl.Type), "FieldCost") {
			c.fail(s, "a cost function must return a FieldCost literal: %s", c.w.src(s))
		}
		ctxV, res, mul := "none", "0", "0"
		for _, el := range cl.Elts {
			kv, ok := el.(*ast.KeyValueExpr)
			if !ok {
				c.fail(s, "FieldCost literal without keys")
			}
			switch {
			case isIdent(kv.Key, "Resolver"):
				res = c.intExpr(e, kv.Value, nil)
			case isIdent(kv.Key, "Multiplier"):
				mul = c.intExpr(e, kv.Value, nil)
			case isIdent(kv.Key, "Context"):
				call, ok := kv.Value.(*ast.CallExpr)
				if !ok || c.w.src(call.Fun) != "context.WithValue" || len(call.Args) != 3 || !isIdent(call.Args[1], "maxEdgeCountContextKey") {
					c.fail(kv, "Context: %s", c.w.src(kv.Value))
				}
				if sel, ok := unparen(call.Args[0]).(*ast.SelectorExpr); !ok || sel.Sel.Name != "Context" || !isIdent(unparen(sel.X), c.arg) {
					c.fail(kv, "the new cost context is not derived from the context the cost function received: %s", c.w.src(call.Args[0]))
				}
				ctxV = "some (ctx.1, " + c.intExpr(e, call.Args[2], nil) + ")"
			default:
				c.fail(kv, "FieldCost key %s", c.w.src(kv.Key))
			}
		}
		return fmt.Sprintf("%s{ ctx := %s, resolver := %s, multiplier := %s }\n", ind, ctxV, res, mul)
	}
	c.fail(s, "return in the %s part", c.mode)
	return ""
}

func paramName(w *wtr, ft *ast.FuncType, wantType string) string {
	if len(ft.Params.List) != 1 || len(ft.Params.List[0].Names) != 1 || w.src(ft.Params.List[0].Type) != wantType {
		w.fail(ft, "expected one parameter of type %s", wantType)
	}
	return ft.Params.List[0].Names[0].Name
}

func translateConn(repo string) (out string, err error) {
	defer func() {
		if p := recover(); p != nil {
			if c, ok := p.(cannot); ok {
				err = fmt.Errorf("cannot translate: %s", c.msg)
				return
			}
			panic(p)
		}
	}()
	fset := token.NewFileSet()
	path := filepath.Join(repo, "pagination.go")
	file, perr := parser.ParseFile(fset, path, nil, parser.ParseComments)
	if perr != nil {
		return "", fmt.Errorf("cannot translate: %v", perr)
	}
	w := &wtr{fset: fset}
	var b strings.Builder
	b.WriteString("/-\n  GENERATED by /verif/tools/c14facts from pagination.go of the repository under check — do not edit;\n  regenerated at the start of every `./check C14`. The default cost functions of connections and the\n  connection resolver's reading of `first` / `last`; translation scheme: tools/c14facts/conn.go.\n-/\n")
	b.WriteString("import ApiFu.C14.Model\n\nnamespace ApiFu.C14.GeneratedConn\nopen ApiFu.C14\n\n")
	comment := func(n ast.Node) {
		b.WriteString("/- Go source:\n")
		for _, l := range strings.Split(w.src(n), "\n") {
			b.WriteString("    " + strings.ReplaceAll(strings.ReplaceAll(l, "-/", "- /"), "/-", "/ -") + "\n")
		}
		b.WriteString("-/\n")
	}
	noEnd := func(n ast.Node, what string) ccont {
		return func(map[string]string, string) string {
			w.fail(n, "a path of %s reaches its end without a return", what)
			return ""
		}
	}
	funcs := map[string]*ast.FuncDecl{}
	for _, d := range file.Decls {
		if f, ok := d.(*ast.FuncDecl); ok && f.Recv == nil {
			funcs[f.Name.Name] = f
		}
	}
	// maxEdgeCount
	me := funcs["maxEdgeCount"]
	if me == nil || me.Body == nil {
		fail(nil, nil, "function maxEdgeCount not found in %s", path)
	}
	comment(me)
	c := &ctr{w: w, mode: "int", arg: paramName(w, me.Type, "context.Context")}
	b.WriteString("def maxEdgeCount (ctx : Ctx) : Int :=\n")
	b.WriteString(c.stmts(me.Body.List, map[string]string{}, "  ", noEnd(me, "maxEdgeCount")))
	b.WriteString("\n")
	// defaultConnectionCost
	dc := funcs["defaultConnectionCost"]
	if dc == nil || dc.Body == nil {
		fail(nil, nil, "function defaultConnectionCost not found in %s", path)
	}
	comment(dc)
	c = &ctr{w: w, mode: "cost", arg: paramName(w, dc.Type, "graphql.FieldCostContext")}
	b.WriteString("def defaultConnectionCost (args : String → ArgVal) (ctx : Ctx) : FieldCost Ctx :=\n")
	b.WriteString(c.stmts(dc.Body.List, map[string]string{}, "  ", noEnd(dc, "defaultConnectionCost")))
	b.WriteString("\n")
	// the cost functions of every "edges" field
	var edges []string
	ast.Inspect(file, func(n ast.Node) bool {
		kv, ok := n.(*ast.KeyValueExpr)
		if !ok {
			return true
		}
		l, ok := kv.Key.(*ast.BasicLit)
		if !ok || l.Value != `"edges"` {
			return true
		}
		cl, ok := kv.Value.(*ast.CompositeLit)
		if !ok {
			return true
		}
		for _, el := range cl.Elts {
			f, ok := el.(*ast.KeyValueExpr)
			if !ok || !isIdent(f.Key, "Cost") {
				continue
			}
			fl, ok := f.Value.(*ast.FuncLit)
			if !ok {
				w.fail(f, "the Cost of an edges field is not a function literal")
			}
			name := fmt.Sprintf("edgesCost_%d", len(edges)+1)
			comment(fl)
			cc := &ctr{w: w, mode: "cost", arg: paramName(w, fl.Type, "graphql.FieldCostContext")}
			fmt.Fprintf(&b, "def %s (ctx : Ctx) : FieldCost Ctx :=\n", name)
			b.WriteString(cc.stmts(fl.Body.List, map[string]string{}, "  ", noEnd(fl, "the edges cost function")))
			b.WriteString("\n")
			edges = append(edges, name)
		}
		return true
	})
	if len(edges) == 0 {
		fail(nil, nil, "no `\"edges\": {… Cost: func…}` field definition found in %s", path)
	}
	fmt.Fprintf(&b, "/-- the cost function of every `edges` field defined in pagination.go (connection object, connection interface) -/\ndef edgesCosts : List (Ctx → FieldCost Ctx) := [%s]\n\n", strings.Join(edges, ", "))
	// the resolver: `<x>.Resolve = func(ctx graphql.FieldContext) (any, error) { if first, ok := ctx.Arguments["first"].(int); ok …`
	var resolve *ast.FuncLit
	ast.Inspect(file, func(n ast.Node) bool {
		as, ok := n.(*ast.AssignStmt)
		if !ok || len(as.Lhs) != 1 || len(as.Rhs) != 1 {
			return true
		}
		sel, ok := as.Lhs[0].(*ast.SelectorExpr)
		fl, ok2 := as.Rhs[0].(*ast.FuncLit)
		if !ok || !ok2 || sel.Sel.Name != "Resolve" || len(fl.Body.List) == 0 {
			return true
		}
		if strings.Contains(w.src(fl.Body.List[0]), `Arguments["first"]`) {
			if resolve != nil {
				w.fail(as, "two resolvers read the first argument in their first statement")
			}
			resolve = fl
		}
		return true
	})
	if resolve == nil {
		fail(nil, nil, "the connection resolver (`….Resolve = func(ctx graphql.FieldContext) …` reading Arguments[\"first\"]) was not found in %s", path)
	}
	rarg := paramName(w, resolve.Type, "graphql.FieldContext")
	guard, ok := resolve.Body.List[0].(*ast.IfStmt)
	if !ok {
		w.fail(resolve, "the resolver does not start with the checks of first / last")
	}
	comment(guard)
	c = &ctr{w: w, mode: "guard", arg: rarg}
	b.WriteString("def resolveGuard (args : String → ArgVal) : Option String :=\n")
	b.WriteString(c.stmts([]ast.Stmt{guard}, map[string]string{}, "  ", func(_ map[string]string, ind string) string {
		return ind + "none\n" // the checks fall through: the resolver goes on
	}))
	var limitDecl *ast.DeclStmt
	var limitIf *ast.IfStmt
	for i, st := range resolve.Body.List {
		ds, ok := st.(*ast.DeclStmt)
		if !ok || i+1 >= len(resolve.Body.List) {
			continue
		}
		gd, ok := ds.Decl.(*ast.GenDecl)
		if !ok || gd.Tok != token.VAR || len(gd.Specs) != 1 {
			continue
		}
		vs := gd.Specs[0].(*ast.ValueSpec)
		if len(vs.Names) == 1 && vs.Type != nil && w.src(vs.Type) == "int" {
			if is, ok := resolve.Body.List[i+1].(*ast.IfStmt); ok && strings.Contains(w.src(is), vs.Names[0].Name+" =") {
				limitDecl, limitIf = ds, is
				break
			}
		}
	}
	if limitDecl == nil {
		w.fail(resolve, "`var limit int` followed by the if statement that sets it was not found in the resolver")
	}
	limitName := limitDecl.Decl.(*ast.GenDecl).Specs[0].(*ast.ValueSpec).Names[0].Name
	b.WriteString("\n/- Go source:\n    " + strings.ReplaceAll(w.src(limitDecl), "\n", "\n    ") + "\n    " + strings.ReplaceAll(strings.ReplaceAll(w.src(limitIf), "-/", "- /"), "\n", "\n    ") + "\n-/\n")
	c = &ctr{w: w, mode: "limit", arg: rarg}
	b.WriteString("def resolveLimit (args : String → ArgVal) : Option Int :=\n")
	b.WriteString(c.stmts([]ast.Stmt{limitDecl, limitIf}, map[string]string{}, "  ", func(e map[string]string, ind string) string {
		return ind + "some " + e[limitName] + "\n"
	}))
	b.WriteString("\nend ApiFu.C14.GeneratedConn\n")
	return b.String(), nil
}

func connStub(msg string) string {
	return "/-\n  GENERATED by /verif/tools/c14facts — pagination.go could NOT be translated:\n    " +
		strings.ReplaceAll(strings.ReplaceAll(msg, "-/", "- /"), "/-", "/ -") +
		"\n  This file deliberately defines nothing: the theorems about the generated connection cost functions\n  (PropsConn.lean) stop checking until tools/c14facts/conn.go is taught the new source.\n-/\nimport ApiFu.C14.Model\n\nnamespace ApiFu.C14.GeneratedConn\nend ApiFu.C14.GeneratedConn\n"
}
