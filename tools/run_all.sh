#!/bin/bash
# Runs every claimed check's quick (or $TIER) command on the current tree, a few in parallel; prints one line each.
cd "$(dirname "$0")/.."
TIER=${TIER:-quick}
[ -z "$(git -C /repo status --porcelain)" ] || echo "WARNING: /repo has uncommitted changes"
ids=${@:-$(python3 - <<'PY'
import glob, json
print(" ".join(json.load(open(f))["property"] for f in sorted(glob.glob("checks/C[0-9][0-9].json")) if json.load(open(f)).get("claimed", True)))
PY
)}
mkdir -p .build/logs
echo $ids | tr ' ' '\n' | xargs -P ${JOBS:-4} -I{} bash -c "./check {} --tier $TIER > .build/logs/{}.log 2>&1; echo \"{} exit=\$? \$(grep -c '^VIOLATION' .build/logs/{}.log) violations \$(grep -c '^KNOWN-FINDING' .build/logs/{}.log) known; \$(tail -1 .build/logs/{}.log | sed 's/.*obligations/obligations/')\""
