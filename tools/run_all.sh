#!/bin/bash
# Runs every claimed check's quick (or $TIER) command on the current tree, a few in parallel; prints one line each.
cd "$(dirname "$0")/.."
TIER=${TIER:-quick}
[ -z "$(git -C /repo status --porcelain)" ] || echo "WARNING: /repo has uncommitted changes"
ids=${@:-$(python3 - <<'PY'
import glob, json
print(" ".join(json.load(open(f))["property"] for f in sorted(glob.glob("checks/C[0-9][0-9].json")) if json.load(open(f)).get("claimed", True)))
PY
)}
L=${LOGDIR:-.build/logs}
mkdir -p $L
echo $ids | tr ' ' '\n' | xargs -P ${JOBS:-4} -I{} bash -c "./check {} --tier $TIER > $L/{}.log 2>&1; echo \"{} exit=\$? \$(grep -c '^VIOLATION' $L/{}.log) violations \$(grep -c '^KNOWN-FINDING' $L/{}.log) known; \$(tail -1 $L/{}.log | sed 's/.*obligations/obligations/')\""
