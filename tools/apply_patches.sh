#!/bin/bash
# tools/apply_patches.sh Cnn [NN ...]  — applies /verif/repo-patches/Cnn/NN-*.patch to /repo, each as its
# own commit (message from the .msg file), after go build + the repo's tests with and without -tags verif.
set -e
export GOFLAGS=-mod=mod GOPROXY=off GOSUMDB=off GOTOOLCHAIN=local
P=$1; shift
cd /repo
[ -z "$(git status --porcelain)" ] || { echo "/repo not clean"; exit 1; }
for patch in /verif/repo-patches/$P/*.patch; do
  base=$(basename "$patch" .patch); nn=${base%%-*}
  if [ $# -gt 0 ] && ! [[ " $* " == *" $nn "* ]]; then continue; fi
  if grep -qxF "$P/$base" /verif/repo-patches/APPLIED 2>/dev/null; then echo "skip (already applied) $base"; continue; fi
  echo "=== $P/$base"
  git apply --whitespace=nowarn "$patch" || git apply --3way --whitespace=nowarn "$patch"
  git add -A
  go build ./... && go vet -tags verif ./graphql/... >/dev/null 2>&1 || true
  if ! go test -vet=off -count=1 ./... > /tmp/apply_test.log 2>&1; then tail -30 /tmp/apply_test.log; echo "TESTS FAIL (tag off) for $base"; git reset -q --hard; exit 1; fi
  if ! go test -tags verif -vet=off -count=1 ./... > /tmp/apply_test.log 2>&1; then tail -30 /tmp/apply_test.log; echo "TESTS FAIL (tag on) for $base"; git reset -q --hard; exit 1; fi
  msgf="${patch%.patch}.msg"
  if [ -f "$msgf" ]; then git commit -q -F "$msgf"; else
    kind=$(echo "$base" | cut -d- -f2); slug=$(echo "$base" | cut -d- -f3- | tr '-' ' ')
    if [ "$kind" = fix ]; then git commit -q -m "fix: $slug"; else git commit -q -m "verif hook: $slug (build tag verif)"; fi
  fi
  echo "$P/$base" >> /verif/repo-patches/APPLIED
  git log --oneline | head -1
done
