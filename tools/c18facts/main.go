// c18facts translates the body of the closure returned by PersistedQueryExtension
// (persisted_query.go) from the *current* source of the repository into a Lean 4 definition
// ApiFu.C18.Generated.step, a shallow embedding over lean/ApiFu/C18/GoPrelude.lean.
//
//	c18facts -repo /repo -out /verif/lean/ApiFu/C18/Generated.lean [-fallback Generated.fallback.lean]
//
// The translation is syntactic (go/parser + go/ast only); Lean's elaborator does the type checking
// against the prelude. Statement level, in continuation-passing style (what follows an if / switch is
// repeated in every branch that falls through, so assignments become shadowing `let`s):
//
//	x := e, x = e, var x = e, var x T      let x := e                (Go variables are renamed apart: every declaration gets its own Lean name)
//	x.f = e                                 let x := { x with f := e }
//	a, b := f(…) | v.(T) (comma-ok)         let t := …; let a := t.1; let b := t.2   (`_` dropped)
//	if [init;] c {…} else if … else {…}     if c then … else …
//	switch v { case a, b: …  default: … }   let t := v; if (goEqLit t a || goEqLit t b) then … else …   (case values must be literals)
//	return e                                (e, <storage state>)
//	storage.M(args) (interface parameter)   PersistedQueryStorage.M <state> args, the state variable threaded; only as a statement or as
//	                                        the whole right-hand side of an assignment / if-init
//
// Expression level: identifiers, string/int/float literals, true/false, x.f, pkg.Name, m[k], x[:],
// []byte(s), len(x), pkg.F(args), f(args) for a function-typed parameter, *p, &x, &T{…}, T{…}, []T{…},
// !, &&, ||, ==, != (also against nil), <, <=, >, >=, parentheses.
//
// Anything else — loops, goto, defer, go, arithmetic, bounded slice expressions, indexing into
// slices, non-comma-ok type assertions, type switches, fallthrough, closures, a path that reaches the
// end of the closure, an unknown package function … — makes the tool print
// `c18facts: cannot translate <position>: <construct>` and exit with status 1. With -fallback the last
// hand-checked translation is then copied to -out so that the Lean library still builds; the
// non-zero status marks the obligation as broken (the check reports it).
package main

import (
	"bytes"
	"crypto/sha256"
	"encoding/hex"
	"flag"
	"fmt"
	"go/ast"
	"go/parser"
	"go/printer"
	"go/token"
	"math"
	"os"
	"path/filepath"
	"strconv"
	"strings"
)

const funcName = "PersistedQueryExtension"

type cannot struct{ msg string }

type tr struct {
	fset     *token.FileSet
	file     *ast.File
	imports  map[string]string // local package name -> import path
	used     map[string]int    // Lean names handed out
	tmp      int
	ifaces   map[string]map[string]bool // interface type name -> method name -> has a result
	stateful map[string]string          // Go name of an interface-typed parameter -> interface name
	funcs    map[string]bool            // Go names of function-typed parameters
	pkgVars  map[string]ast.Expr        // package-level `var x = e`
	hoisted  []string                   // package-level variables referenced (in order)
	hoistSet map[string]bool
}

func (t *tr) fail(n ast.Node, format string, a ...any) {
	pos := ""
	if n != nil {
		pos = t.fset.Position(n.Pos()).String() + ": "
	}
	panic(cannot{pos + fmt.Sprintf(format, a...)})
}

func (t *tr) src(n ast.Node) string {
	var b bytes.Buffer
	printer.Fprint(&b, t.fset, n)
	return b.String()
}

// ---- scopes -----------------------------------------------------------------------------------

type env struct {
	parent *env
	vars   map[string]string // Go name -> Lean name
}

func (e *env) lookup(name string) (string, bool) {
	for s := e; s != nil; s = s.parent {
		if l, ok := s.vars[name]; ok {
			return l, true
		}
	}
	return "", false
}

func (e *env) child() *env { return &env{parent: e, vars: map[string]string{}} }

var leanReserved = map[string]bool{"end": true, "at": true, "from": true, "have": true, "show": true, "fun": true, "let": true,
	"if": true, "then": true, "else": true, "match": true, "with": true, "do": true, "where": true, "by": true, "open": true,
	"in": true, "instance": true, "structure": true, "theorem": true, "def": true, "namespace": true, "section": true,
	"Type": true, "Prop": true, "Sort": true, "prefix": true, "infix": true, "notation": true, "macro": true, "syntax": true,
	"using": true, "calc": true, "this": true, "step": true, "storage_state": true}

func (t *tr) declare(e *env, n *ast.Ident) string {
	name := n.Name
	for _, c := range name {
		if !(c == '_' || c >= '0' && c <= '9' || c >= 'a' && c <= 'z' || c >= 'A' && c <= 'Z') {
			t.fail(n, "identifier %q (non-ASCII identifiers are not supported)", name)
		}
	}
	base := name
	if leanReserved[base] {
		base = base + "_"
	}
	lean := base
	if k := t.used[base]; k > 0 {
		lean = fmt.Sprintf("%s_%d", base, k)
	}
	t.used[base]++
	e.vars[name] = lean
	return lean
}

func (t *tr) fresh(prefix string) string {
	t.tmp++
	return fmt.Sprintf("%s_%d", prefix, t.tmp)
}

// ---- literals -----------------------------------------------------------------------------------

func leanString(s string) string {
	var b strings.Builder
	b.WriteByte('"')
	for _, c := range s {
		switch {
		case c == '"':
			b.WriteString(`\"`)
		case c == '\\':
			b.WriteString(`\\`)
		case c == '\n':
			b.WriteString(`\n`)
		case c == '\t':
			b.WriteString(`\t`)
		case c < 0x20 || c == 0x7f:
			fmt.Fprintf(&b, `\x%02x`, c)
		default:
			b.WriteRune(c)
		}
	}
	b.WriteByte('"')
	return b.String()
}

func isLiteral(e ast.Expr) bool {
	switch e := e.(type) {
	case *ast.ParenExpr:
		return isLiteral(e.X)
	case *ast.BasicLit:
		return e.Kind == token.STRING || e.Kind == token.INT || e.Kind == token.FLOAT
	case *ast.Ident:
		return e.Name == "true" || e.Name == "false"
	}
	return false
}

// ---- types (only where Go syntax needs one: composite literals, var declarations) -------------------

func (t *tr) typeExpr(e ast.Expr) string {
	switch e := e.(type) {
	case *ast.Ident:
		switch e.Name {
		case "string":
			return "String"
		case "bool":
			return "Bool"
		case "int":
			return "Int"
		}
	case *ast.SelectorExpr:
		if p, ok := e.X.(*ast.Ident); ok {
			if _, isPkg := t.imports[p.Name]; isPkg {
				return p.Name + "_" + e.Sel.Name
			}
		}
	case *ast.StarExpr:
		return "(Ptr " + t.typeExpr(e.X) + ")"
	case *ast.ArrayType:
		if e.Len == nil {
			if id, ok := e.Elt.(*ast.Ident); ok && id.Name == "byte" {
				return "Bytes"
			}
			return "(List " + t.typeExpr(e.Elt) + ")"
		}
	}
	t.fail(e, "type %s", t.src(e))
	return ""
}

func zeroValue(leanType string) (string, bool) {
	switch leanType {
	case "String":
		return `""`, true
	case "Bool":
		return "false", true
	case "Int":
		return "(0 : Int)", true
	}
	return "", false
}

// ---- expressions --------------------------------------------------------------------------------

// known package-level names of the prelude (everything else is refused by name)
var preludeFuncs = map[string]bool{"hex.DecodeString": true, "bytes.Equal": true, "sha256.Sum256": true}
var preludeConsts = map[string]bool{"sha256.Size": true}
var importPathOf = map[string]string{"hex": "encoding/hex", "bytes": "bytes", "sha256": "crypto/sha256"}

func (t *tr) pkgName(e ast.Expr) (qualified string, ok bool) {
	sel, isSel := e.(*ast.SelectorExpr)
	if !isSel {
		return "", false
	}
	p, isIdent := sel.X.(*ast.Ident)
	if !isIdent {
		return "", false
	}
	path, isPkg := t.imports[p.Name]
	if !isPkg {
		return "", false
	}
	// the prelude gives meaning to the standard packages under their usual names only
	for std, stdPath := range importPathOf {
		if path == stdPath {
			return std + "." + sel.Sel.Name, true
		}
	}
	return p.Name + "." + sel.Sel.Name, true
}

func (t *tr) isStorageCall(e *env, x ast.Expr) (call *ast.CallExpr, recv, iface, method string, ok bool) {
	for {
		p, isParen := x.(*ast.ParenExpr)
		if !isParen {
			break
		}
		x = p.X
	}
	c, isCall := x.(*ast.CallExpr)
	if !isCall {
		return
	}
	sel, isSel := c.Fun.(*ast.SelectorExpr)
	if !isSel {
		return
	}
	id, isIdent := sel.X.(*ast.Ident)
	if !isIdent {
		return
	}
	if _, shadowed := e.lookup(id.Name); shadowed {
		return
	}
	in, isState := t.stateful[id.Name]
	if !isState {
		return
	}
	return c, id.Name, in, sel.Sel.Name, true
}

func (t *tr) expr(e *env, x ast.Expr) string {
	switch x := x.(type) {
	case *ast.ParenExpr:
		return t.expr(e, x.X)
	case *ast.BasicLit:
		switch x.Kind {
		case token.STRING:
			s, err := strconv.Unquote(x.Value)
			if err != nil {
				t.fail(x, "string literal %s", x.Value)
			}
			return "(goStrLit " + leanString(s) + ")"
		case token.INT:
			v, err := strconv.ParseUint(x.Value, 0, 63)
			if err != nil {
				t.fail(x, "integer literal %s", x.Value)
			}
			return strconv.FormatUint(v, 10)
		case token.FLOAT:
			f, err := strconv.ParseFloat(strings.ReplaceAll(x.Value, "_", ""), 64)
			if err != nil {
				t.fail(x, "floating-point literal %s", x.Value)
			}
			return fmt.Sprintf("(goFloatLit 0x%016X /- %s -/)", math.Float64bits(f), x.Value)
		}
		t.fail(x, "literal %s", x.Value)
	case *ast.Ident:
		if l, ok := e.lookup(x.Name); ok {
			return l
		}
		switch x.Name {
		case "true", "false":
			return x.Name
		case "nil":
			t.fail(x, "nil outside a comparison with == or !=")
		}
		if _, ok := t.stateful[x.Name]; ok {
			t.fail(x, "the interface value %s used other than as the receiver of a method call", x.Name)
		}
		if t.funcs[x.Name] {
			t.fail(x, "the function value %s used other than in a call", x.Name)
		}
		if _, ok := t.pkgVars[x.Name]; ok {
			if !t.hoistSet[x.Name] {
				t.hoistSet[x.Name] = true
				t.hoisted = append(t.hoisted, x.Name)
			}
			return "pkg_" + x.Name
		}
		t.fail(x, "identifier %s (not a local variable, parameter or package-level variable of this file)", x.Name)
	case *ast.SelectorExpr:
		if q, ok := t.pkgName(x); ok {
			if !preludeConsts[q] {
				t.fail(x, "package-level name %s (no meaning in GoPrelude.lean)", q)
			}
			return strings.ReplaceAll(q, ".", "_")
		}
		return t.expr(e, x.X) + "." + x.Sel.Name
	case *ast.IndexExpr:
		return "(goMapIndex " + t.arg(e, x.X) + " " + t.arg(e, x.Index) + ")"
	case *ast.SliceExpr:
		if x.Low != nil || x.High != nil || x.Max != nil {
			t.fail(x, "slice expression with bounds %s (may panic; not modelled)", t.src(x))
		}
		return "(goSliceAll " + t.arg(e, x.X) + ")"
	case *ast.StarExpr:
		return "(goDeref " + t.arg(e, x.X) + ")"
	case *ast.UnaryExpr:
		switch x.Op {
		case token.NOT:
			return "(!" + t.arg(e, x.X) + ")"
		case token.AND:
			return "(goAddr " + t.arg(e, x.X) + ")"
		}
		t.fail(x, "unary operator %s", x.Op)
	case *ast.BinaryExpr:
		switch x.Op {
		case token.LAND:
			return "(" + t.arg(e, x.X) + " && " + t.arg(e, x.Y) + ")"
		case token.LOR:
			return "(" + t.arg(e, x.X) + " || " + t.arg(e, x.Y) + ")"
		case token.EQL, token.NEQ:
			neg := ""
			if x.Op == token.NEQ {
				neg = "!"
			}
			isNil := func(y ast.Expr) bool {
				id, ok := y.(*ast.Ident)
				_, local := e.lookup("nil")
				return ok && id.Name == "nil" && !local
			}
			switch {
			case isNil(x.Y):
				return "(" + neg + "goIsNil " + t.arg(e, x.X) + ")"
			case isNil(x.X):
				return "(" + neg + "goIsNil " + t.arg(e, x.Y) + ")"
			case isLiteral(x.Y):
				return "(" + neg + "goEqLit " + t.arg(e, x.X) + " " + t.arg(e, x.Y) + ")"
			case isLiteral(x.X):
				return "(" + neg + "goEqLit " + t.arg(e, x.Y) + " " + t.arg(e, x.X) + ")"
			}
			return "(" + neg + "goEq " + t.arg(e, x.X) + " " + t.arg(e, x.Y) + ")"
		case token.LSS:
			return "(goLt " + t.arg(e, x.X) + " " + t.arg(e, x.Y) + ")"
		case token.LEQ:
			return "(goLe " + t.arg(e, x.X) + " " + t.arg(e, x.Y) + ")"
		case token.GTR:
			return "(goLt " + t.arg(e, x.Y) + " " + t.arg(e, x.X) + ")"
		case token.GEQ:
			return "(goLe " + t.arg(e, x.Y) + " " + t.arg(e, x.X) + ")"
		}
		t.fail(x, "binary operator %s", x.Op)
	case *ast.CallExpr:
		if _, _, _, _, ok := t.isStorageCall(e, x); ok {
			t.fail(x, "call %s inside an expression (effects are translated at statement level only)", t.src(x))
		}
		if x.Ellipsis.IsValid() {
			t.fail(x, "variadic call")
		}
		// conversion []byte(s)
		if at, ok := x.Fun.(*ast.ArrayType); ok {
			if id, isId := at.Elt.(*ast.Ident); isId && at.Len == nil && id.Name == "byte" && len(x.Args) == 1 {
				return "(goBytesOfString " + t.arg(e, x.Args[0]) + ")"
			}
			t.fail(x, "conversion %s", t.src(x.Fun))
		}
		if id, ok := x.Fun.(*ast.Ident); ok {
			if _, local := e.lookup(id.Name); !local {
				if id.Name == "len" && len(x.Args) == 1 {
					return "(goLen " + t.arg(e, x.Args[0]) + ")"
				}
				if t.funcs[id.Name] {
					return "(" + id.Name + t.args(e, x.Args) + ")"
				}
			}
			t.fail(x, "call of %s", id.Name)
		}
		if q, ok := t.pkgName(x.Fun); ok {
			if !preludeFuncs[q] {
				t.fail(x, "call of %s (no meaning in GoPrelude.lean)", q)
			}
			return "(" + strings.ReplaceAll(q, ".", "_") + t.args(e, x.Args) + ")"
		}
		t.fail(x, "call %s", t.src(x))
	case *ast.CompositeLit:
		return t.composite(e, x, nil)
	case *ast.TypeAssertExpr:
		t.fail(x, "type assertion %s outside the comma-ok form `v, ok := x.(T)`", t.src(x))
	case *ast.FuncLit:
		t.fail(x, "function literal")
	}
	t.fail(x, "expression %s (%T)", t.src(x), x)
	return ""
}

func (t *tr) arg(e *env, x ast.Expr) string { return t.expr(e, x) }

func (t *tr) args(e *env, xs []ast.Expr) string {
	var b strings.Builder
	for _, a := range xs {
		b.WriteString(" " + t.arg(e, a))
	}
	return b.String()
}

// composite translates T{…}; elided is the element type when the literal's own type is elided.
func (t *tr) composite(e *env, x *ast.CompositeLit, elided ast.Expr) string {
	ty := x.Type
	addr := false
	if ty == nil {
		if elided == nil {
			t.fail(x, "composite literal without a type")
		}
		ty = elided
		if st, ok := ty.(*ast.StarExpr); ok { // []*T{{…}} means []*T{&T{…}}
			ty, addr = st.X, true
		}
	}
	var out string
	if at, ok := ty.(*ast.ArrayType); ok && at.Len == nil {
		var items []string
		for _, el := range x.Elts {
			if _, isKV := el.(*ast.KeyValueExpr); isKV {
				t.fail(el, "keyed element in a slice literal")
			}
			if cl, isCl := el.(*ast.CompositeLit); isCl && cl.Type == nil {
				items = append(items, t.composite(e, cl, at.Elt))
			} else {
				items = append(items, t.expr(e, el))
			}
		}
		out = "([" + strings.Join(items, ", ") + "] : " + t.typeExpr(ty) + ")"
	} else {
		lt := t.typeExpr(ty)
		var fields []string
		for _, el := range x.Elts {
			kv, isKV := el.(*ast.KeyValueExpr)
			if !isKV {
				t.fail(el, "positional field in a struct literal")
			}
			k, isId := kv.Key.(*ast.Ident)
			if !isId {
				t.fail(kv, "struct literal key %s", t.src(kv.Key))
			}
			var v string
			if cl, isCl := kv.Value.(*ast.CompositeLit); isCl && cl.Type == nil {
				t.fail(cl, "composite literal without a type as a field value")
			} else {
				v = t.expr(e, kv.Value)
			}
			fields = append(fields, k.Name+" := "+v)
		}
		out = "({ " + strings.Join(fields, ", ") + " } : " + lt + ")"
	}
	if addr {
		out = "(goAddr " + out + ")"
	}
	return out
}

// ---- statements ---------------------------------------------------------------------------------

const stateVar = "storage_state"

type cont func(e *env, ind string) string

// rhs translates the right-hand side of an assignment with n left-hand sides; it returns the `let`
// lines that must precede (storage calls thread the state) and the Lean term.
func (t *tr) rhs(e *env, x ast.Expr, n int, ind string) (pre string, term string, pair bool) {
	if c, _, iface, method, ok := t.isStorageCall(e, x); ok {
		hasResult, known := t.ifaces[iface][method]
		if !known {
			t.fail(c, "method %s is not declared in interface %s", method, iface)
		}
		if !hasResult {
			t.fail(c, "call of %s.%s (no result) used as a value", iface, method)
		}
		if n != 1 {
			t.fail(c, "%d variables assigned from %s.%s", n, iface, method)
		}
		tmp := t.fresh("call")
		pre = fmt.Sprintf("%slet %s := %s.%s %s%s\n%slet %s := %s.2\n", ind, tmp, iface, method, stateVar, t.args(e, c.Args), ind, stateVar, tmp)
		return pre, tmp + ".1", false
	}
	if n == 2 {
		switch y := x.(type) {
		case *ast.TypeAssertExpr:
			if y.Type == nil {
				t.fail(y, "type switch guard")
			}
			var f string
			switch ty := y.Type.(type) {
			case *ast.Ident:
				if ty.Name == "string" {
					f = "goAssertString"
				}
			case *ast.MapType:
				k, kok := ty.Key.(*ast.Ident)
				v, vok := ty.Value.(*ast.InterfaceType)
				if kok && vok && k.Name == "string" && (v.Methods == nil || len(v.Methods.List) == 0) {
					f = "goAssertMap"
				}
			}
			if f == "" {
				t.fail(y, "type assertion to %s (no meaning in GoPrelude.lean)", t.src(y.Type))
			}
			return "", "(" + f + " " + t.arg(e, y.X) + ")", true
		case *ast.CallExpr:
			if q, ok := t.pkgName(y.Fun); ok && q == "hex.DecodeString" {
				return "", t.expr(e, y), true
			}
			t.fail(y, "two results from %s", t.src(y.Fun))
		case *ast.IndexExpr:
			t.fail(y, "comma-ok map index")
		}
		t.fail(x, "two variables assigned from %s", t.src(x))
	}
	if n != 1 {
		t.fail(x, "%d variables assigned from one expression", n)
	}
	return "", t.expr(e, x), false
}

// simple translates a simple statement (assignment, declaration, expression statement) and then k.
func (t *tr) simple(e *env, s ast.Stmt, ind string, k cont) string {
	switch s := s.(type) {
	case *ast.EmptyStmt:
		return k(e, ind)
	case *ast.ExprStmt:
		c, _, iface, method, ok := t.isStorageCall(e, s.X)
		if !ok {
			t.fail(s, "expression statement %s", t.src(s.X))
		}
		hasResult, known := t.ifaces[iface][method]
		if !known {
			t.fail(c, "method %s is not declared in interface %s", method, iface)
		}
		sel := ""
		if hasResult {
			sel = ".2" // result discarded
		}
		return fmt.Sprintf("%slet %s := (%s.%s %s%s)%s\n", ind, stateVar, iface, method, stateVar, t.args(e, c.Args), sel) + k(e, ind)
	case *ast.DeclStmt:
		gd, ok := s.Decl.(*ast.GenDecl)
		if !ok || gd.Tok != token.VAR || len(gd.Specs) != 1 {
			t.fail(s, "declaration %s", t.src(s))
		}
		vs := gd.Specs[0].(*ast.ValueSpec)
		if len(vs.Names) != 1 || len(vs.Values) > 1 {
			t.fail(s, "multi-variable declaration")
		}
		var pre, term string
		if len(vs.Values) == 1 {
			pre, term, _ = t.rhs(e, vs.Values[0], 1, ind)
			if vs.Type != nil {
				term = "(" + term + " : " + t.typeExpr(vs.Type) + ")"
			}
		} else {
			z, ok := zeroValue(t.typeExpr(vs.Type))
			if !ok {
				t.fail(s, "zero value of type %s", t.src(vs.Type))
			}
			term = z
		}
		if vs.Names[0].Name == "_" {
			return pre + k(e, ind)
		}
		name := t.declare(e, vs.Names[0])
		return pre + fmt.Sprintf("%slet %s := %s\n", ind, name, term) + k(e, ind)
	case *ast.AssignStmt:
		if len(s.Rhs) != 1 {
			t.fail(s, "parallel assignment")
		}
		if s.Tok != token.DEFINE && s.Tok != token.ASSIGN {
			t.fail(s, "assignment operator %s", s.Tok)
		}
		pre, term, pair := t.rhs(e, s.Rhs[0], len(s.Lhs), ind)
		var b strings.Builder
		b.WriteString(pre)
		src := term
		if pair {
			src = t.fresh("pair")
			fmt.Fprintf(&b, "%slet %s := %s\n", ind, src, term)
		}
		for i, l := range s.Lhs {
			val := src
			if pair {
				val = fmt.Sprintf("%s.%d", src, i+1)
			}
			switch l := l.(type) {
			case *ast.Ident:
				if l.Name == "_" {
					continue
				}
				var name string
				if s.Tok == token.DEFINE {
					if _, here := e.vars[l.Name]; here {
						// `a, b := …` re-using a variable of the same scope assigns to it
						name = e.vars[l.Name]
					} else {
						name = t.declare(e, l)
					}
				} else {
					n, ok := e.lookup(l.Name)
					if !ok {
						t.fail(l, "assignment to %s (not a local variable)", l.Name)
					}
					name = n
				}
				fmt.Fprintf(&b, "%slet %s := %s\n", ind, name, val)
			case *ast.SelectorExpr:
				if s.Tok != token.ASSIGN {
					t.fail(l, "field on the left of :=")
				}
				id, ok := l.X.(*ast.Ident)
				if !ok {
					t.fail(l, "assignment to %s", t.src(l))
				}
				n, ok := e.lookup(id.Name)
				if !ok {
					t.fail(l, "assignment to a field of %s (not a local variable)", id.Name)
				}
				fmt.Fprintf(&b, "%slet %s := { %s with %s := %s }\n", ind, n, n, l.Sel.Name, val)
			default:
				t.fail(l, "assignment to %s", t.src(l))
			}
		}
		return b.String() + k(e, ind)
	}
	t.fail(s, "statement %s (%T)", strings.SplitN(t.src(s), "\n", 2)[0], s)
	return ""
}

// stmts translates a statement list in scope e, then the continuation k (called with the scope in
// which the list started — variables declared inside are out of scope for what follows a block; for a
// flat list the same scope is passed on).
func (t *tr) stmts(e *env, list []ast.Stmt, ind string, k cont) string {
	if len(list) == 0 {
		return k(e, ind)
	}
	s, tail := list[0], list[1:]
	next := func(e2 *env, ind2 string) string { return t.stmts(e2, tail, ind2, k) }
	// what follows a nested block runs in the current scope e
	after := func(_ *env, ind2 string) string { return t.stmts(e, tail, ind2, k) }
	switch s := s.(type) {
	case *ast.ReturnStmt:
		if len(s.Results) != 1 {
			t.fail(s, "return with %d results", len(s.Results))
		}
		if _, _, _, _, ok := t.isStorageCall(e, s.Results[0]); ok {
			t.fail(s, "storage call as a return value")
		}
		return fmt.Sprintf("%s(%s, %s)\n", ind, t.expr(e, s.Results[0]), stateVar)
	case *ast.BlockStmt:
		return t.stmts(e.child(), s.List, ind, after)
	case *ast.IfStmt:
		inner := e.child()
		body := func(e2 *env, ind2 string) string {
			c := t.expr(e2, s.Cond)
			var b strings.Builder
			fmt.Fprintf(&b, "%sif %s then\n", ind2, c)
			b.WriteString(t.stmts(e2.child(), s.Body.List, ind2+"  ", after))
			fmt.Fprintf(&b, "%selse\n", ind2)
			switch el := s.Else.(type) {
			case nil:
				b.WriteString(after(nil, ind2+"  "))
			case *ast.BlockStmt:
				b.WriteString(t.stmts(e2.child(), el.List, ind2+"  ", after))
			case *ast.IfStmt:
				b.WriteString(t.stmts(e2, []ast.Stmt{el}, ind2+"  ", after))
			default:
				t.fail(s, "else form %T", el)
			}
			return b.String()
		}
		if s.Init != nil {
			return t.simple(inner, s.Init, ind, body)
		}
		return body(inner, ind)
	case *ast.SwitchStmt:
		if s.Init != nil {
			t.fail(s, "switch with an init statement")
		}
		if s.Tag == nil {
			t.fail(s, "switch without a tag")
		}
		tag := t.fresh("tag")
		var b strings.Builder
		fmt.Fprintf(&b, "%slet %s := %s\n", ind, tag, t.expr(e, s.Tag))
		var def *ast.CaseClause
		var clauses []*ast.CaseClause
		for _, c := range s.Body.List {
			cc := c.(*ast.CaseClause)
			if cc.List == nil {
				if def != nil {
					t.fail(cc, "second default clause")
				}
				def = cc
			} else {
				clauses = append(clauses, cc)
			}
			for _, st := range cc.Body {
				ast.Inspect(st, func(n ast.Node) bool {
					if br, ok := n.(*ast.BranchStmt); ok {
						t.fail(br, "%s statement", br.Tok)
					}
					return true
				})
			}
		}
		cur := ind
		for _, cc := range clauses {
			var conds []string
			for _, v := range cc.List {
				if !isLiteral(v) {
					t.fail(v, "case value %s is not a literal (comparing two interface values may panic; not modelled)", t.src(v))
				}
				conds = append(conds, "goEqLit "+tag+" "+t.arg(e, v))
			}
			fmt.Fprintf(&b, "%sif (%s) then\n", cur, strings.Join(conds, " || "))
			b.WriteString(t.stmts(e.child(), cc.Body, cur+"  ", after))
			fmt.Fprintf(&b, "%selse\n", cur)
			cur += "  "
		}
		if def != nil {
			b.WriteString(t.stmts(e.child(), def.Body, cur, after))
		} else {
			b.WriteString(after(nil, cur))
		}
		return b.String()
	case *ast.AssignStmt, *ast.DeclStmt, *ast.ExprStmt, *ast.EmptyStmt:
		return t.simple(e, s, ind, next)
	case *ast.ForStmt, *ast.RangeStmt:
		t.fail(s, "loop")
	case *ast.TypeSwitchStmt:
		t.fail(s, "type switch")
	case *ast.DeferStmt:
		t.fail(s, "defer")
	case *ast.GoStmt:
		t.fail(s, "go statement")
	case *ast.BranchStmt:
		t.fail(s, "%s statement", s.Tok)
	case *ast.IncDecStmt:
		t.fail(s, "%s statement (arithmetic is not modelled)", s.Tok)
	case *ast.LabeledStmt:
		t.fail(s, "labelled statement")
	}
	t.fail(s, "statement %s (%T)", strings.SplitN(t.src(s), "\n", 2)[0], s)
	return ""
}

// ---- the function -------------------------------------------------------------------------------

func translate(repo string) (out string, err error) {
	path := filepath.Join(repo, "persisted_query.go")
	src, rerr := os.ReadFile(path)
	if rerr != nil {
		return "", fmt.Errorf("cannot translate: %v", rerr)
	}
	fset := token.NewFileSet()
	file, perr := parser.ParseFile(fset, path, src, parser.ParseComments)
	if perr != nil {
		return "", fmt.Errorf("cannot translate: %v", perr)
	}
	t := &tr{fset: fset, file: file, imports: map[string]string{}, used: map[string]int{}, ifaces: map[string]map[string]bool{},
		stateful: map[string]string{}, funcs: map[string]bool{}, pkgVars: map[string]ast.Expr{}, hoistSet: map[string]bool{}}
	defer func() {
		if p := recover(); p != nil {
			if c, ok := p.(cannot); ok {
				err = fmt.Errorf("cannot translate %s", c.msg)
				return
			}
			panic(p)
		}
	}()
	for _, im := range file.Imports {
		p, _ := strconv.Unquote(im.Path.Value)
		name := p[strings.LastIndex(p, "/")+1:]
		if im.Name != nil {
			name = im.Name.Name
		}
		if name == "." || name == "_" {
			t.fail(im, "import %s %s", name, im.Path.Value)
		}
		t.imports[name] = p
	}
	var fd *ast.FuncDecl
	for _, d := range file.Decls {
		switch d := d.(type) {
		case *ast.FuncDecl:
			if d.Recv == nil && d.Name.Name == funcName {
				fd = d
			}
		case *ast.GenDecl:
			for _, sp := range d.Specs {
				switch sp := sp.(type) {
				case *ast.TypeSpec:
					if it, ok := sp.Type.(*ast.InterfaceType); ok {
						ms := map[string]bool{}
						for _, m := range it.Methods.List {
							ft, isFunc := m.Type.(*ast.FuncType)
							if !isFunc || len(m.Names) != 1 {
								t.fail(m, "embedded interface in %s", sp.Name.Name)
							}
							n := 0
							if ft.Results != nil {
								n = ft.Results.NumFields()
							}
							if n > 1 {
								t.fail(m, "method %s.%s with %d results", sp.Name.Name, m.Names[0].Name, n)
							}
							ms[m.Names[0].Name] = n == 1
						}
						t.ifaces[sp.Name.Name] = ms
					}
				case *ast.ValueSpec:
					if d.Tok == token.VAR && len(sp.Names) == 1 && len(sp.Values) == 1 {
						t.pkgVars[sp.Names[0].Name] = sp.Values[0]
					}
				}
			}
		}
	}
	if fd == nil || fd.Body == nil {
		t.fail(nil, "function %s not found in %s", funcName, path)
	}
	// outer parameters: one interface-typed (the storage), one function-typed (execute)
	outer := &env{vars: map[string]string{}}
	var stateNames, funcNames []string
	for _, f := range fd.Type.Params.List {
		for _, n := range f.Names {
			switch ty := f.Type.(type) {
			case *ast.Ident:
				if _, ok := t.ifaces[ty.Name]; !ok {
					t.fail(f, "parameter %s of type %s", n.Name, ty.Name)
				}
				t.stateful[n.Name] = ty.Name
				stateNames = append(stateNames, n.Name)
			case *ast.FuncType:
				t.funcs[n.Name] = true
				funcNames = append(funcNames, n.Name)
				t.used[n.Name]++
			default:
				t.fail(f, "parameter %s of type %s", n.Name, t.src(f.Type))
			}
		}
	}
	if len(stateNames) != 1 || len(funcNames) != 1 {
		t.fail(fd, "%s must have one interface-typed and one function-typed parameter", funcName)
	}
	if len(fd.Body.List) != 1 {
		t.fail(fd.Body, "the body of %s is not a single return statement", funcName)
	}
	ret, ok := fd.Body.List[0].(*ast.ReturnStmt)
	if !ok || len(ret.Results) != 1 {
		t.fail(fd.Body.List[0], "the body of %s is not `return func(…) … {…}`", funcName)
	}
	lit, ok := ret.Results[0].(*ast.FuncLit)
	if !ok {
		t.fail(ret, "the body of %s is not `return func(…) … {…}`", funcName)
	}
	if lit.Type.Params.NumFields() != 1 || len(lit.Type.Params.List[0].Names) != 1 || lit.Type.Results.NumFields() != 1 {
		t.fail(lit, "the closure must take one named parameter and return one result")
	}
	t.used[stateVar]++
	inner := outer.child()
	pty := t.typeExpr(lit.Type.Params.List[0].Type)
	rty := t.typeExpr(lit.Type.Results.List[0].Type)
	pname := t.declare(inner, lit.Type.Params.List[0].Names[0])
	body := t.stmts(inner.child(), lit.Body.List, "  ", func(_ *env, _ string) string {
		t.fail(lit.Body, "a path reaches the end of the closure without a return")
		return ""
	})
	// package-level variables used by the body (initialised before any call)
	var hoist strings.Builder
	for i := 0; i < len(t.hoisted); i++ { // may grow while translating initialisers
		name := t.hoisted[i]
		hoist.WriteString(fmt.Sprintf("  let pkg_%s := %s\n", name, t.expr(&env{vars: map[string]string{}}, t.pkgVars[name])))
	}

	var fsrc bytes.Buffer
	printer.Fprint(&fsrc, fset, fd)
	for _, name := range t.hoisted {
		fmt.Fprintf(&fsrc, "\nvar %s = ", name)
		printer.Fprint(&fsrc, fset, t.pkgVars[name])
	}
	var b strings.Builder
	b.WriteString("/-\n  GENERATED by /verif/tools/c18facts from persisted_query.go of the repository under check — do not\n  edit; regenerated at the start of every `./check C18` (pre_cmds of checks/C18.json).\n")
	b.WriteString("  Literal statement-by-statement translation of the closure returned by PersistedQueryExtension over\n  the Go constructs defined in GoPrelude.lean; `storage_state` is the threaded state of the storage\n  object (contents + calls so far), the result is (returned response, final storage state).\n-/\n")
	b.WriteString("import ApiFu.C18.GoPrelude\n\nnamespace ApiFu.C18.Generated\nopen ApiFu.C18 ApiFu.C18.Go\n\n")
	b.WriteString("/- Go source:\n")
	for _, l := range strings.Split(fsrc.String(), "\n") {
		b.WriteString("    " + strings.ReplaceAll(l, "-/", "- /") + "\n")
	}
	b.WriteString("-/\n")
	fmt.Fprintf(&b, "def step (sha256_Sum256 : Bytes → Array32) (%s : StorageState) (%s : %s → %s) (%s : %s) : %s × StorageState :=\n",
		stateVar, funcNames[0], pty, rty, pname, pty, rty)
	b.WriteString(hoist.String())
	b.WriteString(body)
	h := sha256.Sum256(fsrc.Bytes())
	fmt.Fprintf(&b, "\n/-- sha256 of the source text of the translated function (evidence only). -/\ndef sourceSha256 : String := %q\n", hex.EncodeToString(h[:]))
	b.WriteString("\nend ApiFu.C18.Generated\n")
	return b.String(), nil
}

func writeIfChanged(path string, content []byte) error {
	if old, err := os.ReadFile(path); err == nil && bytes.Equal(old, content) {
		return nil
	}
	tmp := path + fmt.Sprintf(".tmp%d", os.Getpid())
	if err := os.WriteFile(tmp, content, 0o644); err != nil {
		return err
	}
	return os.Rename(tmp, path)
}

func main() {
	repo := flag.String("repo", os.Getenv("VERIF_REPO"), "repository root (default $VERIF_REPO, then /repo)")
	out := flag.String("out", "", "Lean file to write (default: stdout)")
	fallback := flag.String("fallback", "", "file copied to -out when the source cannot be translated")
	flag.Parse()
	if *repo == "" {
		*repo = "/repo"
	}
	text, err := translate(*repo)
	if err != nil {
		fmt.Fprintln(os.Stderr, "c18facts:", err)
		if *fallback != "" && *out != "" {
			if fb, ferr := os.ReadFile(*fallback); ferr == nil {
				if werr := writeIfChanged(*out, fb); werr == nil {
					fmt.Fprintln(os.Stderr, "c18facts: wrote the fallback translation to", *out, "(the theorems then speak about the last translatable source, not this one: obligation broken)")
				}
			}
		}
		os.Exit(1)
	}
	if *out == "" {
		fmt.Print(text)
		return
	}
	if err := writeIfChanged(*out, []byte(text)); err != nil {
		fmt.Fprintln(os.Stderr, "c18facts:", err)
		os.Exit(1)
	}
}
