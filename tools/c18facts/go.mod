module c18facts

go 1.18
