#!/bin/bash
# tools/import_seeds.sh Cnn — copies /tmp/seed/Cnn-out/<i>/ into /verif/seeded/Cnn-<i>/, removes the seed worktree
P=$1
for d in /tmp/seed/$P-out/*/; do i=$(basename $d); mkdir -p /verif/seeded/$P-$i; cp $d/* /verif/seeded/$P-$i/; done
git -C /repo worktree remove --force /tmp/seed/$P 2>/dev/null; rm -rf /tmp/seed/$P-out /tmp/seed/prompt-$P.txt
ls -d /verif/seeded/$P-*
