#!/bin/bash
# tools/import_seeds.sh Cnn — copies /tmp/seed/Cnn-out/<i>/ into /verif/seeded/Cnn-<k>/ (k continues after the
# ids that already exist), removes the seed worktree. Prints the new ids.
P=$1
max=0; for d in /verif/seeded/$P-*/; do [ -d "$d" ] || continue; n=${d%/}; n=${n##*-}; [ "$n" -gt "$max" ] 2>/dev/null && max=$n; done
ids=""
for d in /tmp/seed/$P-out/*/; do [ -f "$d/patch.diff" ] || continue; max=$((max+1)); mkdir -p /verif/seeded/$P-$max; cp $d/* /verif/seeded/$P-$max/; ids="$ids $P-$max"; done
git -C /repo worktree remove --force /tmp/seed/$P 2>/dev/null; rm -rf /tmp/seed/$P-out /tmp/seed/prompt-$P.txt
echo $ids
