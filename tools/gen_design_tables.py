#!/usr/bin/env python3
"""Rewrites the generated regions of DESIGN.md (between <!-- gen:NAME --> and <!-- /gen:NAME -->):
hooks (from /repo's log), findings (known_findings.json), fixes (all fix: commits), seeded (seeded/*/meta.json)."""
import glob, json, os, re, subprocess
V = os.path.dirname(os.path.dirname(os.path.abspath(__file__)))
def sh(*a): return subprocess.run(a, stdout=subprocess.PIPE, text=True).stdout
log = [l.split(" ", 1) for l in sh("git", "-C", "/repo", "log", "--reverse", "--format=%h %s", "9ce145d..HEAD").splitlines()]
hooks = [(h, s) for h, s in log if s.startswith(("verif hook", "hook:"))]
fixes = [(h, s) for h, s in log if s.startswith("fix:")]
kf = json.load(open(os.path.join(V, "known_findings.json")))["findings"]
def esc(s): return str(s).replace("|", "\\|").replace("\n", " ")
out = {}
t = ["| commit | hook | files |", "|---|---|---|"]
for h, s in hooks:
    files = sh("git", "-C", "/repo", "show", "--stat", "--format=", h).strip().splitlines()
    files = ", ".join(f.split("|")[0].strip() for f in files[:-1])
    t.append("| %s | %s | %s |" % (h, esc(s), esc(files)))
out["hooks"] = "\n".join(t)
t = ["| commit | subject |", "|---|---|"] + ["| %s | %s |" % (h, esc(s)) for h, s in fixes]
out["fixes"] = "%d `fix:` commits on top of the pinned snapshot (9ce145d), in order:\n\n" % len(fixes) + "\n".join(t)
t = ["| property | key | status | commit | what fails |", "|---|---|---|---|---|"]
for f in sorted(kf, key=lambda f: (f.get("property", ""), f.get("status", ""), f.get("key", ""))):
    t.append("| %s | %s | %s | %s | %s |" % (f.get("property"), esc(f.get("key")), f.get("status"), f.get("commit", "") if f.get("status") == "fixed" else "", esc(f.get("what", ""))[:600]))
n_open = sum(1 for f in kf if f.get("status") == "open"); n_fixed = sum(1 for f in kf if f.get("status") == "fixed")
out["findings"] = "%d entries: %d fixed, %d open (open entries are what `KNOWN-FINDING` lines refer to).\n\n" % (len(kf), n_fixed, n_open) + "\n".join(t)
notes = json.load(open(os.path.join(V, "seeded", "NOTES.json"))) if os.path.exists(os.path.join(V, "seeded", "NOTES.json")) else {}
t = ["| id | property | change | needs | caught by `./check` | by what | note |", "|---|---|---|---|---|---|---|"]
tot = caught = 0
for mp in sorted(glob.glob(os.path.join(V, "seeded", "*", "meta.json"))):
    m = json.load(open(mp)); sid = os.path.basename(os.path.dirname(mp)); tot += 1; caught += bool(m.get("caught_by_check"))
    t.append("| %s | %s | %s | %s | %s | %s | %s |" % (sid, m.get("property"), esc(m.get("summary", ""))[:400], esc(m.get("needs", ""))[:300],
             "yes" if m.get("caught_by_check") else "NO", esc("; ".join(m.get("caught_by", [])))[:260], esc(notes.get(sid, ""))))
out["seeded"] = "%d seeded changes, %d caught by the check of the property they break (quick tier).\n\n" % (tot, caught) + "\n".join(t)
# as-built summary from checks/*.json and the committed evidence
t = ["| id | property theorems (audited) | obligations | quick: cases / distinct non-trivial / s | open findings | partial: what the theorems do not carry |", "|---|---|---|---|---|---|"]
for cp in sorted(glob.glob(os.path.join(V, "checks", "C[0-9][0-9].json"))):
    c = json.load(open(cp)); pid = c["property"]
    evp = os.path.join(V, "evidence", pid + ".json")
    ev = json.load(open(evp)) if os.path.exists(evp) else {"coverage": {}}
    cov = ev.get("coverage", {})
    opens = [f["key"] for f in kf if f.get("property") == pid and f.get("status") == "open"]
    t.append("| %s | %d | %s/%s | %s / %s / %s | %s | %s |" % (pid, len(cov.get("theorems", [])), cov.get("discharged", "?"), cov.get("obligations", "?"),
             cov.get("evaluations", "?"), cov.get("distinct_nontrivial", "?"), ev.get("wall_s", "?"), esc(", ".join(opens)) or "–", esc(c.get("level_note", ""))[:420]))
out["summary"] = "\n".join(t)
p = os.path.join(V, "DESIGN.md"); s = open(p).read()
for name, body in out.items():
    pat = re.compile(r"<!-- gen:%s -->.*?<!-- /gen:%s -->" % (name, name), re.S)
    if pat.search(s):
        s = pat.sub(lambda m: "<!-- gen:%s -->\n%s\n<!-- /gen:%s -->" % (name, body, name), s)
    else:
        print("region missing:", name)
open(p, "w").write(s)
print({k: v.count("\n") for k, v in out.items()})
