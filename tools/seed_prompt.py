#!/usr/bin/env python3
"""Prints the prompt for a seeding sub-agent for property Cnn (property text only, nothing from /verif)
and creates its scratch worktree /tmp/seed/Cnn at /repo's current HEAD."""
import json, subprocess, sys, os
pid = sys.argv[1]
n = int(sys.argv[2]) if len(sys.argv) > 2 else 3
round2 = len(sys.argv) > 3 and sys.argv[3] in ("round2", "round3", "round4")
round3 = len(sys.argv) > 3 and sys.argv[3] in ("round3", "round4")
round4 = len(sys.argv) > 3 and sys.argv[3] in ("round4", "round5")
round5 = len(sys.argv) > 3 and sys.argv[3] == "round5"
tried = ""
if round5:
    import glob
    rows = []
    for f in sorted(glob.glob('/verif/seeded/%s-*/meta.json' % pid), key=lambda x: int(x.split('-')[-1].split('/')[0])):
        m = json.load(open(f))
        rows.append("- " + ", ".join(m.get('files', [])[:2]) + ": " + " ".join(m.get('summary', '').split())[:230])
    tried = "\n".join(rows)
p = [json.loads(l) for l in open('/verif/properties.jsonl') if json.loads(l)['id'] == pid][0]
wt = '/tmp/seed/%s' % pid
os.makedirs('/tmp/seed', exist_ok=True)
if not os.path.exists(wt):
    subprocess.run(['git', '-C', '/repo', 'worktree', 'add', '--detach', wt, 'HEAD'], check=True, stdout=subprocess.DEVNULL, stderr=subprocess.DEVNULL)
print(f"""You are helping test a verification tool by writing realistic bugs. You have your own scratch git worktree of the Go library ccbrown/api-fu at {wt} (work ONLY there and in {wt}-out; never touch /repo or /verif; do not read anything under /verif). No network: use `export GOFLAGS=-mod=mod GOPROXY=off GOSUMDB=off GOTOOLCHAIN=local` in every shell call. The test suite runs with `cd {wt} && go test -vet=off -count=1 ./...` (takes well under a minute).

The property under test (a statement about the library's observable behaviour):

Title: {p['title']}
Statement: {p['statement']}
Quantifier: {p['quantifier']['text']}
Relevant source files: {', '.join(p['anchors']['files'])}
Mechanisms meant to make it hold: {'; '.join((m.get('name') or '') + ' (' + (m.get('where') or '') + ')' for m in p['anchors']['mechanism'])}

Task: produce {n} different, independent changes to the library (each as its own patch against the worktree's HEAD) that each break this property while the code still compiles and the ENTIRE existing test suite still passes. Each change should look like a plausible mistake, refactoring slip or "optimisation" a developer could make, and should need something specific to manifest (a particular interleaving, a multi-step sequence of operations, an unusual or boundary input, a particular combination of features, or two cooperating sites that each look fine alone) — not something ordinary use would expose at once. Make the {n} differ in kind (which clause of the property they break, which file/mechanism they touch).

For each change i = 1..{n} write into {wt}-out/<i>/: `patch.diff` (output of `git diff` in the worktree; new files included via `git add -N` first), `demo_test.go` (a Go test file — say in its header comment which directory/package of the worktree it must be placed in — that FAILS with the change applied and PASSES on the unchanged code) and `meta.json` {{"property":"{pid}","summary":"…","needs":"what is required for it to manifest","files":[…],"demo_dir":"<directory relative to the repo root where demo_test.go goes>","demo_cmd":"go test -vet=off -count=1 -run TestSeedDemo… ./<dir>"}}. Verify yourself for each: (a) with the patch applied: `go build ./... && go test -vet=off -count=1 ./...` passes (with your demo test absent) and the demo test fails; (b) without the patch: the demo test passes. Reset the worktree (`git checkout -- . && git clean -fd`) between changes and at the end. Final message: one short paragraph per change (what, why it breaks the property, what it needs to manifest).""" + ("""

Additional guidance for this round: an earlier round already produced the most direct changes (single-operator flips and dropped checks in the central functions). Go for less obvious ones now: glue code around the core (option handling, conversions between packages, caching or memoisation added as an "optimisation", state kept across requests or across steps of one session, plumbing of a value through several layers where one layer drops or re-derives it), rarely used configuration or input combinations, behaviour that differs only at boundaries (empty / single-element / maximal values, first vs later occurrence, the second of two identical things), effects that need two cooperating edits in different files, and refactorings that are correct for the common path but not for an early-exit or error path. Do not use `git stash` (shared between worktrees); toggle patches with `git apply` / `git apply -R` / `git checkout -- .`. Files with `//go:build verif` are test instrumentation: leave them alone. Demonstrations must use bounded time budgets rather than hanging.""" if round2 else "") + ("""

Third round: two earlier rounds already covered, across the library: single-operator flips and dropped checks; caches or memos keyed too coarsely across requests (missing variables / features / context in the key); integer-kind truncation and wrap-around (uint64, uint8(rune)); recursion-counter leaks in the parser; reversed list/non-null wrapper chains; a stale context after an init hook; in-place filtering of shared slices; Go-style instead of JSON-style string quoting. Do NOT repeat those kinds. Look elsewhere: error paths and partial failure (what happens to the *rest* when one part fails), ordering and tie-breaking (stable vs unstable, first vs last wins), Unicode and case (normalisation, case-insensitive matching where it must be exact or vice versa), off-by-one exactly at a documented constant or buffer size, interactions between two features that are each tested alone, explicit values vs defaults vs absent, aliasing / shared mutable state *within a single request* (a slice or map reused across siblings, loop-variable capture), time and cancellation, and clean-up paths that run in a different order than set-up.""" if round3 else "") + ("""

Fourth round: the third round's kinds (above) are now covered as well — among others: sibling error paths sharing a backing array, stale pointers into a reallocated slice, one-shot promises consumed twice, byte vs character columns, lone CR handling, Unicode white space, memoised cycle searches, nil vs empty slices on early returns, positional vs by-name comparison, per-document memo across operations, last-wins loops, case-insensitive JSON decoding, pooled hashers, breadth counted as depth, post-order visited sets. Do NOT repeat those. This time place the change AWAY from the functions the property is obviously anchored in: in a file or package the property only depends on indirectly — a shared helper (ordered map, path, error construction, JSON/number conversion, reflection helpers), another entry point or transport that reaches the same core (HTTP GET vs POST vs WebSocket, apifu wrapper vs graphql package, Clone / preprocessing hooks, persisted queries, feature sets, cost limits, introspection), configuration defaults, or the code generator's inputs — so that the property breaks only for requests that come in through that route or use that helper in a particular way. Also good: a change that is only wrong under a particular Go runtime behaviour the author forgot (map iteration order, nil map writes, integer division rounding towards zero, slices.Sort instability, defer order, shadowed err, range over a copy), or only on the SECOND use of an object (a schema validated twice, an API serving a second connection, a document executed after being validated with different variables). Each change must still be something a reviewer could plausibly approve.""" if round4 else "") + (("""

Fifth round: you now have a free choice of kind and place (core functions, helpers, other routes — anything the property depends on). The changes below have ALREADY been written for this property in earlier rounds; do not repeat any of them or a close variant (same function with the same mechanism, or the same trigger condition). Read the list for what is missing from it: clauses of the statement that no earlier change touches, input classes in the quantifier that none of them needs, combinations of two conditions, the third-or-later element of something, values at both ends of a range, behaviour under repetition (the same request twice, the same connection reused, a value registered and re-registered), and what happens right after an error. Aim for the change that a checker built from the property text alone would be least likely to notice while it still clearly violates the statement as written; a change that only makes behaviour differ from today's without contradicting the statement does not count.

Already tried:
""" + tried) if round5 else ""))
