#!/usr/bin/env python3
"""Regenerates /verif/MANIFEST.json from checks/*.json (one file per claimed property) and
tools/manifest_base.json (hooks, notes, not_applicable reasons). Run after editing either."""
import glob, json, os
V = os.path.dirname(os.path.dirname(os.path.abspath(__file__)))
base = json.load(open(os.path.join(V, "tools", "manifest_base.json")))
props = [json.loads(l)["id"] for l in open(os.path.join(V, "properties.jsonl")) if l.strip()]
checks, engines, claimed = [], [], set()
for f in sorted(glob.glob(os.path.join(V, "checks", "C[0-9][0-9].json"))):
    c = json.load(open(f))
    if not c.get("claimed", True):
        continue
    pid = c["property"]
    claimed.add(pid)
    checks.append({
        "property_id": pid,
        "quick_cmd": "./check %s --tier quick" % pid,
        "thorough_cmd": "./check %s --tier thorough" % pid,
        "evidence_file": "/verif/evidence/%s.json" % pid,
        "replay_cmd_template": "./check %s --replay {path}" % pid,
        "engine": "lean4+corr",
        "level_claimed": {"category": c.get("level", "proof"), "text": c["level_text"], "design_ref": c.get("design_ref", "DESIGN.md §7 " + pid)},
        "level_note": c["level_note"],
        "technique": c.get("technique", "Lean 4 machine-checked proof over an executable model + differential correspondence check against the Go implementation"),
    })
na = []
for p in props:
    if p not in claimed:
        na.append({"property_id": p, "reason": base["not_applicable_reasons"].get(p, "check not built yet: the Lean model and correspondence for this property are under construction (see DESIGN.md §7); nothing is claimed for it")})
# hook commits in /repo: subjects starting "verif hook" / "hook:" (everything else since the pinned
# snapshot is a "fix:" commit)
import subprocess
try:
    log = subprocess.run(["git", "-C", "/repo", "log", "--format=%h %s"], stdout=subprocess.PIPE, text=True).stdout.splitlines()
    base["hooks"]["source_commits"] = [l.split()[0] for l in log if l.split(" ", 1)[1].startswith(("verif hook", "hook:"))][::-1]
except Exception:
    pass
m = {
    "version": 1,
    "setup_cmd": base["setup_cmd"],
    "hooks": base["hooks"],
    "engines": base["engines"],
    "checks": checks,
    "notes": base["notes"],
    "not_applicable": na,
}
for e in m["engines"]:
    e["serves_properties"] = sorted(claimed)
tmp = os.path.join(V, "MANIFEST.json.tmp")
json.dump(m, open(tmp, "w"), indent=1)
os.replace(tmp, os.path.join(V, "MANIFEST.json"))
# merge the per-property findings fragments into the committed ledger
kf_path = os.path.join(V, "known_findings.json")
kf = json.load(open(kf_path))
merged = []
for f in sorted(glob.glob(os.path.join(V, "known_findings.d", "*.json"))):
    merged += json.load(open(f)).get("findings", [])
kf["findings"] = merged
tmp = kf_path + ".tmp"
json.dump(kf, open(tmp, "w"), indent=1)
os.replace(tmp, kf_path)
print("claimed:", sorted(claimed), "not claimed:", [x["property_id"] for x in na])
