#!/usr/bin/env bash
# pre-command of checks/C07.json: regenerate lean/ApiFu/C07/Generated.lean from the scanner source of the tree
# under check ($VERIF_REPO, default /repo) and make sure PropsGenerated.lean is checked against *that* text.
#
#   tree = /repo          the generated text is installed in the Lean tree when it differs from the committed
#                         one; the `lake build` of the check then re-proves PropsGenerated against it.
#   tree = anything else  (scratch worktrees with seeded changes, run concurrently with checks of /repo)
#                         the shared Lean tree is NOT touched: when the generated text differs, Generated.lean
#                         and PropsGenerated.lean are compiled in a private directory (LEAN_PATH puts it in
#                         front of the lake build directory) and a failure there is this command's failure.
#
# Exit status 0: the leaves of the source are (provably) the leaves of the model. 1: the source cannot be
# translated, or PropsGenerated no longer holds for it (the messages say which theorem).
set -u
here=$(cd "$(dirname "$0")" && pwd)
verif=$(cd "$here/../.." && pwd)
repo=${VERIF_REPO:-/repo}
build=${VERIF_BUILD:-$verif/.build}
gen=$verif/lean/ApiFu/C07/Generated.lean
work=$build/C07/c07facts.$$
mkdir -p "$work/ApiFu/C07" || exit 1
trap 'rm -rf "$work"' EXIT
export GOFLAGS=-mod=mod GOPROXY=off GOSUMDB=off GOTOOLCHAIN=local

cd "$here" || exit 1
if ! go run . -repo "$repo" -out "$work/ApiFu/C07/Generated.lean"; then
  [ -f "$gen" ] || cp "$here/Generated.fallback.lean" "$gen"
  echo "c07facts: the scanner source of $repo is outside the translated fragment; Generated.lean left as committed" >&2
  exit 1
fi
if cmp -s "$work/ApiFu/C07/Generated.lean" "$gen"; then
  exit 0
fi
if [ "$(realpath "$repo")" = "/repo" ]; then
  echo "c07facts: the scanner leaves of /repo changed; installing the regenerated Generated.lean" >&2
  cp "$work/ApiFu/C07/Generated.lean" "$gen.tmp$$" && mv "$gen.tmp$$" "$gen"
  exit 0
fi

echo "c07facts: the scanner leaves of $repo differ from /repo's:" >&2
diff "$gen" "$work/ApiFu/C07/Generated.lean" | grep '^[<>]' | grep -v sourceSha256 | head -20 >&2
cp "$verif/lean/ApiFu/C07/PropsGenerated.lean" "$work/ApiFu/C07/PropsGenerated.lean"
cd "$verif/lean" || exit 1
lake build ApiFu.C07.Model ApiFu.C07.GoInt >/dev/null 2>&1
lp=$(lake env printenv LEAN_PATH)
# Lean resolves a whole package (`ApiFu`) in the first LEAN_PATH entry that has it: link the built modules the two
# files import (everything of C07 except the two that are recompiled) into the private root
lib=$verif/lean/.lake/build/lib/lean
for f in "$lib"/ApiFu/C07/*.olean; do
  case "$(basename "$f")" in Generated.*|PropsGenerated.*) ;; *) ln -s "$f" "$work/ApiFu/C07/" ;; esac
done
cd "$work" || exit 1
if ! LEAN_PATH="$work:$lp" lean -o ApiFu/C07/Generated.olean ApiFu/C07/Generated.lean >"$work/gen.log" 2>&1; then
  echo "c07facts: the regenerated Generated.lean does not compile:" >&2
  head -30 "$work/gen.log" >&2
  exit 1
fi
if ! LEAN_PATH="$work:$lp" lean ApiFu/C07/PropsGenerated.lean >"$work/props.log" 2>&1; then
  echo "c07facts: PropsGenerated does not hold for the source of $repo — the model's leaves are no longer the source's:" >&2
  grep -E '^[^ ].*error' "$work/props.log" | sed -e "s#$work/##" | head -12 >&2
  awk -v w="$work/" '/error/ {sub(w,""); split($0,a,":"); print a[2]}' "$work/props.log" | sort -nu | while read -r ln; do
    # name the theorem whose proof broke: the last `theorem` line at or before the error line
    awk -v n="$ln" 'NR<=n && /^theorem /{t=$2} END{if(t!="") print "  broken: " t}' "$work/ApiFu/C07/PropsGenerated.lean"
  done | sort -u >&2
  exit 1
fi
echo "c07facts: PropsGenerated still holds for the changed leaves of $repo (an equivalent rewrite)" >&2
exit 0
