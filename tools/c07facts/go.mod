module c07facts

go 1.18
